/-!
M-SG — the SymbolGraph registry (`entity_query_language/symbol_graph.py`), `Symbol.__new__`
(`predicate.py`), `let(T, None)` + `evaluate()` (`entity.py`, `symbolic.py`, `hashed_data.py`) and relation
assertion with its inferences (`ontomatic/property_descriptor/property_descriptor_relation.py`,
`property_descriptor.py`). Core Lean only.

Python → model
* a `Symbol` instance            → a label `Obj` (unique for ever, assigned by the harness) + its class + its `id()`
                                   (`HObj`); CPython may hand the `id()` of a dead object to a new one: every `new`
                                   carries the id it gets, any value not used by a *live* object is allowed;
* `WrappedInstance`              → `W` (weak reference = the label, `instance_type`, `index`, and — only used by the
                                   repaired `remove_node` — the id the instance had when it was wrapped);
* `SymbolGraph._instance_graph`  → `nodes`, `edges`; node indices come from an ARBITRARY allocator `Alloc`
                                   (rustworkx recycles them LIFO: `lifo`), so theorems hold for every recycling policy;
* `_instance_index`              → `instIdx` (assoc list id ↦ wrapper, one entry per key);
* `_class_to_wrapped_instances`  → `byClass`: ONE list in append order; the list of class `c` is `byClass.filter (cls = c)`
                                   (a dict of lists is a list partitioned by its key; `list.remove` = `List.erase`);
* `_relation_index`              → `relIdx` (field, source index, target index);
* `remove_node` / `remove_dead_instances` / `add_node` / `ensure_wrapped_instance` / `add_relation` /
  `relation_exists` / `get_instances_of_type` / `clear` → `removeNode` / `sweep` / `addNode` / `ensure` /
  `addEdge` / `relationExists` / `instancesOf` / `SG.empty`;
* `PropertyDescriptorRelation.add_to_graph` (super-properties on the source AND on its role taker, inverse on the
  target or on its role taker, transitive) → `addFact`; a `Role[T]` instance holds its role taker in a plain field
  (`Schema.takerFld`, a strong reference in `Heap.fields`): `Heap.takerOf`; `ensure_wrapped_instance(role_taker)` in
  the middle of the inference → `ensureSt`;
* the user's references, descriptor-managed field contents (strong references), query variables with their
  cached domains (`Variable._domain_.values`) and the process-wide expression table → `Heap`; `gc.collect()` after a
  dropped reference → `Heap.collect` (reachability from the roots).

Defects of the unchanged tree are `Quirks` (DESIGN §2.4); `Quirks.original` is the tree the design was written
against, `Quirks.asIs` the code as it is (the repairs made so far applied).
The executable specification (`Spec`, `specStep`) is the same history read at the level of objects only:
no node indices, no ids, no index structures; an instance that dies disappears at once.
-/
namespace KrroodVerif.SG

abbrev Obj := Nat
abbrev Cls := Nat
abbrev Fld := Nat

/-- one flag per documented defect of the unchanged tree -/
structure Quirks where
  /-- `remove_node` does not purge `_relation_index`: entries of removed nodes stay and are matched by recycled
  node indices (F-C14-1) -/
  staleRelIndex : Bool
  /-- `remove_node` pops `id(wrapped.instance)` = `id(None)` for a dead instance: `_instance_index` keeps the
  entry (F-C20-2, same repair as F-C14-1) -/
  keepDeadIndex : Bool
  /-- a dead, not yet swept instance met by the transitive inference: `update_value(None, …)` raises (F-C14-2);
  repaired: the transitive inference leaves out relations whose other end is dead -/
  deadEndpointRaises : Bool
  /-- a re-evaluated query object yields its cached domain instead of asking the registry again (F-C13-1) -/
  cachedDomain : Bool
  /-- `_id_expression_map_` never releases a Variable: its cached domain keeps every object it has seen alive,
  and the table grows (F-C20-1) -/
  exprTableLeak : Bool
  /-- `recursive_subclasses` lists a class once per inheritance path: its instances are yielded once per path
  (F-C13-2) -/
  dupSubclasses : Bool
  deriving DecidableEq, Repr

/-- the tree as it was before `fix: SymbolGraph.remove_node purges the relation index …` (c18b52a) -/
def Quirks.original : Quirks := ⟨true, true, true, true, true, true⟩
/-- the code as it is: `fixes/C14_purge_relation_index.diff` (commit c18b52a), the de-duplication of
`recursive_subclasses` (F-C13-2, fix commit in /repo) and `fixes/C14_dead_neighbour_in_transitive_inference.diff`
(F-C14-2: dead, unswept neighbours are left out of the transitive inference) and the repair of F-C20-1 (the expression
table and the class-level expression graph reference expressions weakly: a dropped query object is released together
with its cached domain) and of F-C13-1 (a variable declared without a domain reads the registry anew at every evaluation)
are applied: no quirk is left on -/
def Quirks.asIs : Quirks := ⟨false, false, false, false, false, false⟩
/-- the code before the repair of F-C13-1: a re-evaluated domain-less query object ranged over the domain cached at its first
evaluation -/
def Quirks.cached : Quirks := { Quirks.asIs with cachedDomain := true }
/-- the code before the repair of F-C20-1 (`_id_expression_map_` a plain dict, `RWXNode._graph` referencing every
expression strongly): the expression table never released a query object -/
def Quirks.leaky : Quirks := { Quirks.asIs with exprTableLeak := true }
def Quirks.none : Quirks := ⟨false, false, false, false, false, false⟩

inductive Kind where
  | scalar | list | set | plain
  deriving DecidableEq, Repr

/-- class hierarchy and descriptor schema (fixed by the harness; a parameter of every theorem) -/
structure Schema where
  /-- `cls.__subclasses__()` -/
  subs : Cls → List Cls
  /-- recursion depth (≥ height of the hierarchy) -/
  depth : Nat
  kind : Fld → Kind
  /-- `get_fields_of_superproperties(source_type)` of the descriptor class of the field -/
  supers : Fld → Cls → List Fld
  /-- `inverse_of.get_associated_field_of_domain_type(target_type)` -/
  inverse : Fld → Cls → Option Fld
  transitive : Fld → Bool
  /-- descriptor class of the field -/
  desc : Fld → Nat
  /-- bound on the inference recursion -/
  fuel : Nat
  /-- `class_diagram.get_role_taker_associations_of_cls(cls)`: the plain field of a `Role[T]` class that holds the role
  taker (`association.field`); `none`: the class is no role -/
  takerFld : Cls → Option Fld := fun _ => none
  /-- `role_taker_fields` = `property_descriptor_cls.get_fields_of_superproperties(association.target)` for a relation
  of field `f` whose source is of the (role) class: the fields OF THE ROLE-TAKER TYPE managed by super-properties -/
  takerSupers : Fld → Cls → List Fld := fun _ _ => []
  /-- `inverse_field_from_target_role_taker` for a relation of field `f` whose target is of the (role) class: the field
  of the role-taker type managed by the inverse descriptor (consulted only when the target type itself has none) -/
  takerInverse : Fld → Cls → Option Fld := fun _ _ => none

/-- `recursive_subclasses` (krrood/utils.py): direct subclasses, then theirs — a class reachable along two
inheritance paths appears twice -/
def Schema.recSubs (S : Schema) : Nat → Cls → List Cls
  | 0, _ => []
  | n + 1, c => S.subs c ++ (S.subs c).flatMap (S.recSubs n)

/-- `[type_] + recursive_subclasses(type_)` -/
def Schema.below (S : Schema) (c : Cls) : List Cls := c :: S.recSubs S.depth c

/-! ### node-index allocator -/

structure Alloc (σ : Type) where
  init : σ
  /-- next index, given the indices in use -/
  pick : σ → List Nat → Nat × σ
  /-- `remove_node(i)` -/
  release : σ → Nat → σ

/-- the only thing assumed of an allocator: it never hands out an index that is in use -/
def Alloc.Valid {σ} (a : Alloc σ) : Prop := ∀ s used, (a.pick s used).1 ∉ used

def freshIdx (used : List Nat) : Nat := used.foldl (fun m x => max m (x + 1)) 0

/-- rustworkx / petgraph `StableGraph`: a LIFO free list, else the next slot. (The `else` of the membership
test cannot happen; it makes the allocator valid for every argument.) -/
def lifo : Alloc (List Nat × Nat) where
  init := ([], 0)
  pick := fun s used =>
    match s.1 with
    | i :: r => if used.contains i then (freshIdx used, (r, max s.2 (freshIdx used + 1))) else (i, (r, s.2))
    | [] => if used.contains s.2 then (freshIdx used, ([], freshIdx used + 1)) else (s.2, ([], s.2 + 1))
  release := fun s i => (i :: s.1, s.2)

/-- never re-uses an index -/
def monotone : Alloc Nat where
  init := 0
  pick := fun s used => let i := max s (freshIdx used); (i, i + 1)
  release := fun s _ => s

/-! ### the registry -/

/-- `WrappedInstance` -/
structure W where
  obj : Obj
  cls : Cls
  idx : Nat
  pid : Nat
  deriving DecidableEq, Repr

/-- `PredicateClassRelation` on an edge of the instance graph -/
structure Edge where
  fld : Fld
  src : W
  tgt : W
  inferred : Bool
  deriving DecidableEq, Repr

structure SG (σ : Type) where
  nodes : List W
  edges : List Edge
  instIdx : List (Nat × W)
  byClass : List W
  relIdx : List (Fld × Nat × Nat)
  al : σ
  /-- ghost: every node index handed out since this graph was created -/
  ever : List Nat
  /-- ghost: a node index was handed out a second time (sticky, also across `clear`) -/
  reused : Bool

def SG.empty {σ} (a : Alloc σ) : SG σ := ⟨[], [], [], [], [], a.init, [], false⟩

/-- `add_node` -/
def addNode {σ} (a : Alloc σ) (g : SG σ) (o : Obj) (c : Cls) (pid : Nat) : SG σ × W :=
  let p := a.pick g.al (g.nodes.map (·.idx))
  let w : W := ⟨o, c, p.1, pid⟩
  ({ g with nodes := g.nodes ++ [w],
            instIdx := g.instIdx.filter (fun kw => kw.1 != pid) ++ [(pid, w)],
            byClass := g.byClass ++ [w],
            al := p.2,
            ever := g.ever ++ [p.1],
            reused := g.reused || g.ever.contains p.1 }, w)

/-- `remove_node` of a wrapper whose instance is dead -/
def removeNode {σ} (q : Quirks) (a : Alloc σ) (g : SG σ) (w : W) : SG σ :=
  { g with
    instIdx := if q.keepDeadIndex then g.instIdx   -- `pop(id(None), None)`
               else g.instIdx.filter (fun kw => !(kw.1 == w.pid && kw.2 == w)),
    byClass := g.byClass.erase w,
    nodes := g.nodes.erase w,
    edges := g.edges.filter (fun e => e.src.idx != w.idx && e.tgt.idx != w.idx),
    relIdx := if q.staleRelIndex then g.relIdx
              else g.relIdx.filter (fun r => r.2.1 != w.idx && r.2.2 != w.idx),
    al := a.release g.al w.idx }

def insertByIdx (w : W) : List W → List W
  | [] => [w]
  | x :: xs => if w.idx ≤ x.idx then w :: x :: xs else x :: insertByIdx w xs

/-- `nodes()` lists the nodes by index -/
def sortByIdx (l : List W) : List W := l.foldr insertByIdx []

/-- `remove_dead_instances` -/
def sweep {σ} (q : Quirks) (a : Alloc σ) (g : SG σ) (isLive : Obj → Bool) : SG σ :=
  (sortByIdx (g.nodes.filter (fun w => !isLive w.obj))).foldl (removeNode q a) g

/-- `get_wrapped_instance(instance)` -/
def lookup {σ} (g : SG σ) (pid : Nat) : Option W := (g.instIdx.find? (fun kw => kw.1 == pid)).map (·.2)

/-- `relation_exists` -/
def relationExists {σ} (g : SG σ) (f : Fld) (ws wt : W) : Bool := g.relIdx.contains (f, ws.idx, wt.idx)

/-- an edge with this field between these two wrappers is in the graph (what `relation_exists` should mean) -/
def edgeExists {σ} (g : SG σ) (f : Fld) (ws wt : W) : Bool :=
  g.edges.any (fun e => e.fld == f && e.src == ws && e.tgt == wt)

/-- the body of `add_relation` after the existence check -/
def addEdge {σ} (g : SG σ) (f : Fld) (ws wt : W) (inf : Bool) : SG σ :=
  { g with edges := g.edges ++ [⟨f, ws, wt, inf⟩], relIdx := g.relIdx ++ [(f, ws.idx, wt.idx)] }

/-- `get_instances_of_type` (after a sweep no wrapper is dead, so every weak reference resolves) -/
def instancesOf {σ} (q : Quirks) (S : Schema) (g : SG σ) (T : Cls) : List Obj :=
  (if q.dupSubclasses then S.below T else (S.below T).eraseDups).flatMap
    fun c => (g.byClass.filter (fun w => w.cls == c)).map (·.obj)

/-! ### the heap: user references, field contents, query variables -/

structure HObj where
  obj : Obj
  cls : Cls
  pid : Nat
  deriving DecidableEq, Repr

/-- a query object `an(entity(let(T, domain)))`; `cache = Variable._domain_.values` -/
structure QVar where
  key : Nat
  cls : Cls
  explicit : Bool
  cache : Option (List Obj)
  held : Bool
  deriving DecidableEq, Repr

/-- one evaluation: what the query yielded, and (ghost) the live instances of its type known to the registry -/
structure QOut where
  key : Nat
  res : List Obj
  expected : List Obj
  deriving DecidableEq, Repr

structure FEntry where
  owner : Obj
  fld : Fld
  val : Obj
  deriving DecidableEq, Repr

structure Heap where
  live : List HObj
  used : List Obj
  held : List Obj
  fields : List FEntry
  qvars : List QVar
  /-- ghost: labels handed to the current registry since the last `clear` -/
  epoch : List Obj
  /-- results of the evaluated queries, in order -/
  out : List QOut
  /-- size of `_id_expression_map_` / `RWXNode._graph` in query-sized units -/
  exprs : Nat
  deriving Repr

def Heap.empty : Heap := ⟨[], [], [], [], [], [], [], 0⟩

def Heap.find (h : Heap) (o : Obj) : Option HObj := h.live.find? (fun x => x.obj == o)
def Heap.isLive (h : Heap) (o : Obj) : Bool := h.live.any (fun x => x.obj == o)

/-- `getattr(role, association.field.public_name)` for an instance `o` of class `c`: the instance its role-taker field
refers to (`none`: `c` is no role class, or the field was never assigned — the constructor of the harness's role class
always assigns it, `Op.newrole`) -/
def Heap.takerOf (S : Schema) (h : Heap) (o : Obj) (c : Cls) : Option HObj :=
  match S.takerFld c with
  | none => none
  | some tf =>
    match h.fields.find? (fun e => e.owner == o && e.fld == tf) with
    | none => none
    | some e => h.find e.val

/-- strong roots: user references and the cached domains of query objects that are still referenced — by the
user, or (quirk) by the expression table -/
def Heap.roots (q : Quirks) (h : Heap) : List Obj :=
  h.held ++ (h.qvars.filter (fun v => v.held || q.exprTableLeak)).flatMap (fun v => v.cache.getD [])

def Heap.succ (h : Heap) (o : Obj) : List Obj := (h.fields.filter (fun e => e.owner == o)).map (·.val)

def Heap.reach (h : Heap) : Nat → List Obj → List Obj
  | 0, seen => seen
  | n + 1, seen =>
    let nxt := (seen.flatMap h.succ).filter (fun x => !seen.contains x)
    if nxt.isEmpty then seen else h.reach n (seen ++ nxt.eraseDups)

/-- the instances in `D` die: their field contents go with them -/
def Heap.kill (h : Heap) (D : List Obj) : Heap :=
  { h with live := h.live.filter (fun x => !D.contains x.obj),
           fields := h.fields.filter (fun e => !D.contains e.owner) }

def Heap.garbage (q : Quirks) (h : Heap) : List Obj :=
  let r := h.reach (h.live.length + 1) (h.roots q)
  (h.live.filter (fun x => !r.contains x.obj)).map (·.obj)

/-- `gc.collect()` -/
def Heap.collect (q : Quirks) (h : Heap) : Heap := h.kill (h.garbage q)

/-- user assignment to a descriptor-managed field: a scalar is replaced, `append` appends, `add` adds -/
def Heap.write (S : Schema) (h : Heap) (f : Fld) (s t : Obj) : Heap :=
  match S.kind f with
  | .scalar => { h with fields := h.fields.filter (fun e => !(e.owner == s && e.fld == f)) ++ [⟨s, f, t⟩] }
  | .set => if h.fields.contains ⟨s, f, t⟩ then h else { h with fields := h.fields ++ [⟨s, f, t⟩] }
  | _ => { h with fields := h.fields ++ [⟨s, f, t⟩] }

/-- `PropertyDescriptor.update_value` for an inferred relation, on the field contents -/
def updateFields (S : Schema) (fields : List FEntry) (f : Fld) (s t : Obj) : List FEntry :=
  match S.kind f with
  | .scalar => fields.filter (fun e => !(e.owner == s && e.fld == f)) ++ [⟨s, f, t⟩]
  | _ => if fields.contains ⟨s, f, t⟩ then fields else fields ++ [⟨s, f, t⟩]

def Heap.updateValue (S : Schema) (h : Heap) (f : Fld) (s t : Obj) : Heap :=
  { h with fields := updateFields S h.fields f s t }

/-- the live instances of `T` (and subclasses) handed to the current registry — ground truth for C13 -/
def Heap.expected (S : Schema) (h : Heap) (T : Cls) : List Obj :=
  (h.live.filter (fun x => (S.below T).contains x.cls && h.epoch.contains x.obj)).map (·.obj)

/-- the user drops the query object `k`: the expression table keeps it (quirk) or lets it go -/
def Heap.dropQuery (q : Quirks) (h : Heap) (k : Nat) : Heap :=
  if q.exprTableLeak then
    { h with qvars := h.qvars.map (fun v' => if v'.key == k then { v' with held := false } else v') }
  else
    { h with qvars := h.qvars.filter (fun v' => v'.key != k), exprs := h.exprs - 1 }

/-- an evaluation: the yielded instances become the cached domain of the query object and are recorded -/
def Heap.recordEval (S : Schema) (h : Heap) (k : Nat) (v : QVar) (res : List Obj) : Heap :=
  { h with
    qvars := h.qvars.map (fun v' => if v'.key == k then { v' with cache := some res.eraseDups } else v'),
    out := h.out ++ [⟨k, res, if v.explicit then res else h.expected S v.cls⟩] }

def Heap.register (h : Heap) (o : Obj) : Heap :=
  { h with epoch := if h.epoch.contains o then h.epoch else h.epoch ++ [o] }

/-! ### the whole state and one step of a history -/

structure St (σ : Type) where
  h : Heap
  g : SG σ
  /-- an operation raised; the history stops there -/
  err : Bool
  /-- ghost: an existence check was answered "already known" by an entry with no edge behind it -/
  staleHit : Bool
  /-- ghost: the transitive inference met an edge with a dead end -/
  deadHit : Bool

def St.init {σ} (a : Alloc σ) : St σ := ⟨Heap.empty, SG.empty a, false, false, false⟩

inductive Op where
  /-- `T(...)`: a new instance, labelled `o`, of class `c`, with `id() = pid`; the user keeps a reference -/
  | new (o : Obj) (c : Cls) (pid : Nat)
  /-- the user drops the reference, then `gc.collect()` -/
  | drop (o : Obj)
  /-- `SymbolGraph().remove_dead_instances()` -/
  | sweep
  /-- `SymbolGraph().clear(); SymbolGraph()` -/
  | clear
  /-- `PredicateClassRelation(s, t, field).add_to_graph()` on a plain field -/
  | rel (f : Fld) (s t : Obj)
  /-- `s.f = t` / `s.f.append(t)` / `s.f.add(t)` on a descriptor-managed field -/
  | set (f : Fld) (s t : Obj)
  /-- `q_k = an(entity(let(T, None)))`, or with an explicit domain `let(T, [objects])` -/
  | mkq (k : Nat) (c : Cls) (dom : Option (List Obj))
  /-- `list(q_k.evaluate())` -/
  | evalq (k : Nat)
  /-- the user drops `q_k` (and its results) -/
  | dropq (k : Nat)
  /-- `C(..., taker=e)` for a role class `C` (`Role[T]`): a new instance, labelled `o`, that holds the live instance `e`
  in its role-taker field (a strong reference; `Symbol.__new__` registers the instance before `__init__` assigns the
  field); the user keeps a reference to the role -/
  | newrole (o : Obj) (c : Cls) (pid : Nat) (e : Obj)
  deriving DecidableEq, Repr

/-- `ensure_wrapped_instance(instance)` -/
def ensure {σ} (a : Alloc σ) (g : SG σ) (x : HObj) : SG σ × W :=
  match lookup g x.pid with
  | some w => (g, w)
  | none => addNode a g x.obj x.cls x.pid

/-- `SymbolGraph().ensure_wrapped_instance(x)` in the middle of a history or of an inference -/
def ensureSt {σ} (a : Alloc σ) (st : St σ) (x : HObj) : St σ × W :=
  let p := ensure a st.g x
  ({ st with g := p.1, h := st.h.register x.obj }, p.2)

/-- `role_taker_super_relations`: when the source's class has a role-taker association and the role-taker TYPE has
fields managed by super-properties, the role taker is read from the source (`getattr`), wrapped
(`ensure_wrapped_instance`: a node is added NOW if the registry does not know it, e.g. after `clear()`), and the relation
is inferred for each of those fields with the role taker as its source. The generator is consumed after the direct
super-relations were inferred, so an exception raised there leaves the role taker alone. -/
def inferTakerSupers {σ} (S : Schema) (a : Alloc σ) (rec : St σ → Fld → W → W → St σ) (st : St σ) (f : Fld)
    (ws wt : W) : St σ :=
  if st.err || (S.takerSupers f ws.cls).isEmpty then st
  else
    match st.h.takerOf S ws.obj ws.cls with
    | none => st
    | some x =>
      let p := ensureSt a st x
      (S.takerSupers f ws.cls).foldl (fun st f' => rec st f' p.2 wt) p.1

/-- `infer_super_relations` (`super_relations` = `direct_super_relations`, then `role_taker_super_relations`); `rec` is
`add_to_graph` of an inferred relation -/
def inferSupers {σ} (S : Schema) (a : Alloc σ) (rec : St σ → Fld → W → W → St σ) (st : St σ) (f : Fld)
    (ws wt : W) : St σ :=
  inferTakerSupers S a rec ((S.supers f ws.cls).foldl (fun st f' => rec st f' ws wt) st) f ws wt

/-- `infer_inverse_relation` with `inverse_domain_and_field`: the inverse field on the target; if the target's type has
none, the inverse field on the target's role taker (read from the target, wrapped on the spot) -/
def inferInverse {σ} (S : Schema) (a : Alloc σ) (rec : St σ → Fld → W → W → St σ) (st : St σ) (f : Fld)
    (ws wt : W) : St σ :=
  match S.inverse f wt.cls with
  | some f' => rec st f' wt ws
  | none =>
    match S.takerInverse f wt.cls with
    | none => st
    | some f' =>
      if st.err then st
      else
        match st.h.takerOf S wt.obj wt.cls with
        | none => st
        | some x =>
          let p := ensureSt a st x
          rec p.1 f' p.2 ws

/-- the transitive inference meets an edge whose other end is dead and not yet swept: the inferred relation is
looked up by indices (`add_relation`), and when it is new `update_value(None, …)` raises (quirk); repaired: skipped -/
def deadEnd {σ} (q : Quirks) (st : St σ) (f : Fld) (ws wt : W) : St σ :=
  if q.deadEndpointRaises then { st with deadHit := true, err := st.err || !relationExists st.g f ws wt }
  else { st with deadHit := true }

/-- `infer_transitive_relations_outgoing_from_source` (`out_edges` lists the most recent edge first) -/
def inferOut {σ} (q : Quirks) (S : Schema) (rec : St σ → Fld → W → W → St σ) (st : St σ) (f : Fld) (ws wt : W) :
    St σ :=
  ((st.g.edges.filter (fun e => e.src.idx == wt.idx && S.desc e.fld == S.desc f)).reverse).foldl
    (fun st e => if st.h.isLive e.tgt.obj then rec st e.fld ws e.tgt else deadEnd q st e.fld ws e.tgt) st

/-- `infer_transitive_relations_incoming_to_target` -/
def inferIn {σ} (q : Quirks) (S : Schema) (rec : St σ → Fld → W → W → St σ) (st : St σ) (f : Fld) (ws wt : W) :
    St σ :=
  ((st.g.edges.filter (fun e => e.tgt.idx == ws.idx && S.desc e.fld == S.desc f)).reverse).foldl
    (fun st e => if st.h.isLive e.src.obj then rec st e.fld e.src wt else deadEnd q st e.fld e.src wt) st

/-- `infer_transitive_relations` -/
def inferTransitive {σ} (q : Quirks) (S : Schema) (rec : St σ → Fld → W → W → St σ) (st : St σ) (f : Fld)
    (ws wt : W) : St σ :=
  if S.transitive f then inferIn q S rec (inferOut q S rec st f ws wt) f ws wt else st

/-- `add_relation` after a negative existence check + `update_source_wrapped_field_value` for an inferred one -/
def record {σ} (S : Schema) (st : St σ) (f : Fld) (ws wt : W) (inf : Bool) : St σ :=
  if inf then { st with g := addEdge st.g f ws wt inf, h := st.h.updateValue S f ws.obj wt.obj }
  else { st with g := addEdge st.g f ws wt inf }

/-- `relation_exists` answered "already known" -/
def known {σ} (st : St σ) (f : Fld) (ws wt : W) : St σ :=
  { st with staleHit := st.staleHit || !edgeExists st.g f ws wt }

/-- `PropertyDescriptorRelation.add_to_graph()` for a relation whose two ends are live wrappers -/
def addFact {σ} (q : Quirks) (S : Schema) (a : Alloc σ) : Nat → St σ → Fld → W → W → Bool → St σ
  | 0, st, _, _, _, _ => st
  | fuel + 1, st, f, ws, wt, inf =>
    if st.err then st
    else if relationExists st.g f ws wt then known st f ws wt
    else
      inferTransitive q S (fun st f ws wt => addFact q S a fuel st f ws wt true)
        (inferInverse S a (fun st f ws wt => addFact q S a fuel st f ws wt true)
          (inferSupers S a (fun st f ws wt => addFact q S a fuel st f ws wt true) (record S st f ws wt inf) f ws wt)
          f ws wt)
        f ws wt

/-- wrap both ends (source first), as `PredicateClassRelation.__post_init__` does -/
def ensure2 {σ} (a : Alloc σ) (st : St σ) (xs xt : HObj) : St σ × W × W :=
  let p1 := ensure a st.g xs
  let p2 := ensure a p1.1 xt
  ({ st with g := p2.1, h := (st.h.register xs.obj).register xt.obj }, p1.2, p2.2)

def evalQuery {σ} (q : Quirks) (S : Schema) (g : SG σ) (v : QVar) : List Obj :=
  match v.cache with
  | some c => if v.explicit || q.cachedDomain then c else instancesOf q S g v.cls
  | none => instancesOf q S g v.cls

def step {σ} (q : Quirks) (S : Schema) (a : Alloc σ) (st : St σ) (op : Op) : St σ :=
  if st.err then st else
  match op with
  | .new o c pid =>
    if st.h.used.contains o || st.h.live.any (fun x => x.pid == pid) then st
    else
      let p := addNode a st.g o c pid
      { st with g := p.1,
                h := { st.h with live := st.h.live ++ [⟨o, c, pid⟩], used := st.h.used ++ [o],
                                 held := st.h.held ++ [o], epoch := st.h.epoch ++ [o] } }
  | .drop o =>
    { st with h := ({ st.h with held := st.h.held.filter (fun x => x != o) }).collect q }
  | .sweep => { st with g := sweep q a st.g st.h.isLive }
  | .clear => { st with g := { SG.empty a with reused := st.g.reused }, h := { st.h with epoch := [] } }
  | .rel f s t =>
    match st.h.find s, st.h.find t with
    | some xs, some xt =>
      let (st, ws, wt) := ensure2 a st xs xt
      if relationExists st.g f ws wt then known st f ws wt
      else { st with g := addEdge st.g f ws wt false }
    | _, _ => st
  | .set f s t =>
    match st.h.find s, st.h.find t with
    | some xs, some xt =>
      match S.kind f with
      | .scalar =>
        -- `setattr(obj, private, value)`, then the relation; the value that was overwritten may now be garbage
        let st := { st with h := st.h.write S f s t }
        let (st, ws, wt) := ensure2 a st xs xt
        let st := addFact q S a S.fuel st f ws wt false
        { st with h := st.h.collect q }
      | _ =>
        -- `_on_add` (relation first), then the item goes into the container — unless the relation raised
        let (st, ws, wt) := ensure2 a st xs xt
        let st := addFact q S a S.fuel st f ws wt false
        -- (an inferred relation on a SCALAR field — a scalar inverse, super-property or role-taker field — may have
        -- overwritten the only reference to an instance: CPython frees it at once, so this branch collects as well)
        if st.err then st else { st with h := (st.h.write S f s t).collect q }
    | _, _ => st
  | .mkq k c dom =>
    if st.h.qvars.any (fun v => v.key == k) then st
    else
      let cache := dom.map (fun d => d.filter (fun o => (st.h.find o).any (fun x => (S.below c).contains x.cls)))
      { st with h := { st.h with qvars := st.h.qvars ++ [⟨k, c, dom.isSome, cache, true⟩],
                                 exprs := st.h.exprs + 1 } }
  | .evalq k =>
    match st.h.qvars.find? (fun v => v.key == k) with
    | none => st
    | some v =>
      let g := sweep q a st.g st.h.isLive
      let res := evalQuery q S g v
      -- the previous cached domain is released (matters only when the domain is not kept: `cachedDomain` off)
      { st with g := g, h := (st.h.recordEval S k v res).collect q }
  | .dropq k =>
    match st.h.qvars.find? (fun v => v.key == k) with
    | none => st
    | some v =>
      if !v.held then st else { st with h := (st.h.dropQuery q k).collect q }
  | .newrole o c pid e =>
    if st.h.used.contains o || st.h.live.any (fun x => x.pid == pid) || !st.h.isLive e then st
    else
      let p := addNode a st.g o c pid
      { st with g := p.1,
                h := { st.h with live := st.h.live ++ [⟨o, c, pid⟩], used := st.h.used ++ [o],
                                 held := st.h.held ++ [o], epoch := st.h.epoch ++ [o],
                                 fields := match S.takerFld c with
                                           | some tf => st.h.fields ++ [⟨o, tf, e⟩]
                                           | none => st.h.fields } }

def run {σ} (q : Quirks) (S : Schema) (a : Alloc σ) (ops : List Op) : St σ :=
  ops.foldl (step q S a) (St.init a)

/-! ### specification: the same history at the level of objects -/

structure R where
  obj : Obj
  cls : Cls
  deriving DecidableEq, Repr

structure AEdge where
  fld : Fld
  src : R
  tgt : R
  inferred : Bool
  deriving DecidableEq, Repr

structure Spec where
  h : Heap
  /-- instances known to the current registry (in order of registration) -/
  reg : List R
  edges : List AEdge

def Spec.init : Spec := ⟨Heap.empty, [], []⟩

def W.toR (w : W) : R := ⟨w.obj, w.cls⟩
def Edge.toA (e : Edge) : AEdge := ⟨e.fld, e.src.toR, e.tgt.toR, e.inferred⟩

def Spec.exists_ (s : Spec) (f : Fld) (a b : R) : Bool :=
  s.edges.any (fun e => e.fld == f && e.src == a && e.tgt == b)

def Spec.ensure (s : Spec) (x : HObj) : Spec :=
  { s with reg := if s.reg.any (fun r => r.obj == x.obj) then s.reg else s.reg ++ [⟨x.obj, x.cls⟩],
           h := s.h.register x.obj }

/-- a new relation: an edge; an inferred one also updates the field of its source -/
def Spec.record (S : Schema) (s : Spec) (f : Fld) (a b : R) (inf : Bool) : Spec :=
  if inf then { s with edges := s.edges ++ [⟨f, a, b, inf⟩], h := s.h.updateValue S f a.obj b.obj }
  else { s with edges := s.edges ++ [⟨f, a, b, inf⟩] }

/-- the super-properties on the role taker of the source: the role taker becomes known to the registry -/
def Spec.inferTakerSupers (S : Schema) (rec : Spec → Fld → R → R → Spec) (s : Spec) (f : Fld) (a b : R) : Spec :=
  if (S.takerSupers f a.cls).isEmpty then s
  else
    match s.h.takerOf S a.obj a.cls with
    | none => s
    | some x => (S.takerSupers f a.cls).foldl (fun s f' => rec s f' ⟨x.obj, x.cls⟩ b) (s.ensure x)

def Spec.inferSupers (S : Schema) (rec : Spec → Fld → R → R → Spec) (s : Spec) (f : Fld) (a b : R) : Spec :=
  Spec.inferTakerSupers S rec ((S.supers f a.cls).foldl (fun s f' => rec s f' a b) s) f a b

def Spec.inferInverse (S : Schema) (rec : Spec → Fld → R → R → Spec) (s : Spec) (f : Fld) (a b : R) : Spec :=
  match S.inverse f b.cls with
  | some f' => rec s f' b a
  | none =>
    match S.takerInverse f b.cls with
    | none => s
    | some f' =>
      match s.h.takerOf S b.obj b.cls with
      | none => s
      | some x => rec (s.ensure x) f' ⟨x.obj, x.cls⟩ a

def Spec.inferOut (S : Schema) (rec : Spec → Fld → R → R → Spec) (s : Spec) (f : Fld) (a b : R) : Spec :=
  ((s.edges.filter (fun e => e.src == b && S.desc e.fld == S.desc f)).reverse).foldl
    (fun s e => rec s e.fld a e.tgt) s

def Spec.inferIn (S : Schema) (rec : Spec → Fld → R → R → Spec) (s : Spec) (f : Fld) (a b : R) : Spec :=
  ((s.edges.filter (fun e => e.tgt == a && S.desc e.fld == S.desc f)).reverse).foldl
    (fun s e => rec s e.fld e.src b) s

def Spec.inferTransitive (S : Schema) (rec : Spec → Fld → R → R → Spec) (s : Spec) (f : Fld) (a b : R) : Spec :=
  if S.transitive f then Spec.inferIn S rec (Spec.inferOut S rec s f a b) f a b else s

/-- the same inference over objects: every relation is known by its two ends, nothing else; an instance the
inference reaches through a role (the role taker) becomes known to the registry at that moment -/
def specAddFact (S : Schema) : Nat → Spec → Fld → R → R → Bool → Spec
  | 0, s, _, _, _, _ => s
  | fuel + 1, s, f, a, b, inf =>
    if s.exists_ f a b then s
    else
      Spec.inferTransitive S (fun s f a b => specAddFact S fuel s f a b true)
        (Spec.inferInverse S (fun s f a b => specAddFact S fuel s f a b true)
          (Spec.inferSupers S (fun s f a b => specAddFact S fuel s f a b true) (s.record S f a b inf) f a b)
          f a b)
        f a b

/-- assert a relation (with its inferences) in a specification state -/
def Spec.assert (S : Schema) (s : Spec) (f : Fld) (a b : R) : Spec := specAddFact S S.fuel s f a b false

/-- the live instances of `T` and of its subclasses known to the registry — what C13 demands of a query -/
def Spec.census (q : Quirks) (S : Schema) (s : Spec) (T : Cls) : List Obj :=
  (if q.dupSubclasses then S.below T else (S.below T).eraseDups).flatMap
    fun c => (s.reg.filter (fun r => r.cls == c)).map (·.obj)

def Spec.evalQuery (q : Quirks) (S : Schema) (s : Spec) (v : QVar) : List Obj :=
  match v.cache with
  | some c => if v.explicit || q.cachedDomain then c else s.census q S v.cls
  | none => s.census q S v.cls

/-- an instance that dies leaves the registry and the relation graph at once -/
def Spec.prune (s : Spec) : Spec :=
  { s with reg := s.reg.filter (fun r => s.h.isLive r.obj),
           edges := s.edges.filter (fun e => s.h.isLive e.src.obj && s.h.isLive e.tgt.obj) }

/-- `q` only selects the query-level behaviours (`cachedDomain`, `exprTableLeak`, `dupSubclasses`), which are not
C14's subject -/
def specStep (q : Quirks) (S : Schema) (s : Spec) (op : Op) : Spec :=
  match op with
  | .new o c pid =>
    if s.h.used.contains o || s.h.live.any (fun x => x.pid == pid) then s
    else
      { s with reg := s.reg ++ [⟨o, c⟩],
               h := { s.h with live := s.h.live ++ [⟨o, c, pid⟩], used := s.h.used ++ [o],
                               held := s.h.held ++ [o], epoch := s.h.epoch ++ [o] } }
  | .drop o =>
    ({ s with h := ({ s.h with held := s.h.held.filter (fun x => x != o) }).collect q }).prune
  | .sweep => s
  | .clear => { s with reg := [], edges := [], h := { s.h with epoch := [] } }
  | .rel f a b =>
    match s.h.find a, s.h.find b with
    | some xa, some xb =>
      let s := (s.ensure xa).ensure xb
      if s.exists_ f ⟨xa.obj, xa.cls⟩ ⟨xb.obj, xb.cls⟩ then s
      else { s with edges := s.edges ++ [⟨f, ⟨xa.obj, xa.cls⟩, ⟨xb.obj, xb.cls⟩, false⟩] }
    | _, _ => s
  | .set f a b =>
    match s.h.find a, s.h.find b with
    | some xa, some xb =>
      match S.kind f with
      | .scalar =>
        let s := { s with h := s.h.write S f a b }
        let s := (s.ensure xa).ensure xb
        let s := s.assert S f ⟨xa.obj, xa.cls⟩ ⟨xb.obj, xb.cls⟩
        ({ s with h := s.h.collect q }).prune
      | _ =>
        let s := (s.ensure xa).ensure xb
        let s := s.assert S f ⟨xa.obj, xa.cls⟩ ⟨xb.obj, xb.cls⟩
        ({ s with h := (s.h.write S f a b).collect q }).prune
    | _, _ => s
  | .mkq k c dom =>
    if s.h.qvars.any (fun v => v.key == k) then s
    else
      let cache := dom.map (fun d => d.filter (fun o => (s.h.find o).any (fun x => (S.below c).contains x.cls)))
      { s with h := { s.h with qvars := s.h.qvars ++ [⟨k, c, dom.isSome, cache, true⟩],
                               exprs := s.h.exprs + 1 } }
  | .evalq k =>
    match s.h.qvars.find? (fun v => v.key == k) with
    | none => s
    | some v =>
      ({ s with h := (s.h.recordEval S k v (s.evalQuery q S v)).collect q }).prune
  | .dropq k =>
    match s.h.qvars.find? (fun v => v.key == k) with
    | none => s
    | some v =>
      if !v.held then s else ({ s with h := (s.h.dropQuery q k).collect q }).prune
  | .newrole o c pid e =>
    if s.h.used.contains o || s.h.live.any (fun x => x.pid == pid) || !s.h.isLive e then s
    else
      { s with reg := s.reg ++ [⟨o, c⟩],
               h := { s.h with live := s.h.live ++ [⟨o, c, pid⟩], used := s.h.used ++ [o],
                               held := s.h.held ++ [o], epoch := s.h.epoch ++ [o],
                               fields := match S.takerFld c with
                                         | some tf => s.h.fields ++ [⟨o, tf, e⟩]
                                         | none => s.h.fields } }

def specRun (q : Quirks) (S : Schema) (ops : List Op) : Spec := ops.foldl (specStep q S) Spec.init

/-- what a state of the model shows at the level of objects -/
def St.abs {σ} (st : St σ) : Spec :=
  { h := st.h,
    reg := (st.g.nodes.filter (fun w => st.h.isLive w.obj)).map W.toR,
    edges := (st.g.edges.filter (fun e => st.h.isLive e.src.obj && st.h.isLive e.tgt.obj)).map Edge.toA }

/-! ### observations -/

/-- C14: relation triples among live instances + contents of their managed fields (both as sorted lists by the
driver); `none` = the history raised -/
def St.relObs {σ} (st : St σ) : Option (List (Fld × Obj × Obj) × List (Obj × Fld × Obj)) :=
  if st.err then none
  else some (st.abs.edges.map (fun e => (e.fld, e.src.obj, e.tgt.obj)),
             st.h.fields.map (fun e => (e.owner, e.fld, e.val)))

def Spec.relObs (s : Spec) : Option (List (Fld × Obj × Obj) × List (Obj × Fld × Obj)) :=
  some (s.edges.map (fun e => (e.fld, e.src.obj, e.tgt.obj)), s.h.fields.map (fun e => (e.owner, e.fld, e.val)))

end KrroodVerif.SG
