import KrroodVerif.Model.Rule
/-!
M-RULE-HISTORY — the evaluation state of ONE rule query object across a history of evaluations (C03, rule part).
Core Lean only. Built on `Model/Rule.lean` (construction `BState.step`, node state `KSt`/`NSt`,
`KSt.updateConclusion`, selector trees `Sel`); nothing there is changed.

What is modelled (Python → model):

* `ResultQuantifier.evaluate` is a generator function: nothing happens at the call (`HOp.start`); at the FIRST
  `next()` it runs `_reset_evaluation_state_` on every node (`resetSt`) and then walks the tree that
  `Entity._child_`/`left`/`right` show at that moment (`BState.tree`).
* `ExceptIf/Alternative/Next._evaluate__` (+ `OR.evaluate_left/right`, `Next.evaluate_left`) are generators that keep
  their state on the NODE OBJECTS (`_conclusion_`, `_is_false_`, `left_evaluated`, `right_evaluated`,
  `concluded_before`): `evalG` is their pull-based transcription — a node's evaluation is a lazy stream `Gen` whose
  every element carries the node state at the moment of the `yield` and the *resumption* (what the generator does when
  it is advanced again, from whatever the node state is by then). `Rdr.evalK` (C08) is the same transcription in
  continuation-passing style for ONE complete evaluation; the driver cross-checks the two on every case.
* abandoning an iterator (`close()`, or dropping the last reference) throws `GeneratorExit` at the `yield`s: nothing
  after them runs (there is no `finally`), so the node state stays as it was at the last `yield` (`HOp.abandon`).
* `_eval_parent_` is written by every `_evaluate__` and never cleared; `SymbolicExpression._parent_` answers with it
  in preference to the graph parent — also when `rule.refinement/alternative/next_rule` read `_parent_` for their tree
  surgery after an evaluation (`growStep`). Only the nodes of the left spine are ever read that way and those are
  visited by every evaluation that was advanced at all, so `ep` is set for the whole tree at the first `next()`.

Quirks (DESIGN 2.4) — three defects of the unchanged tree, each switchable:
* `staleSelectorState` (F-C03-4): `_reset_evaluation_state_` forgets `concluded_before` only; the selectors'
  `_conclusion_` sets and evaluated-flags (and `_is_false_`) of an evaluation that was abandoned at a `yield` survive
  into the next evaluation. Off (= `fixes/C03_reset_selector_state.diff`): the reset puts every node back into the
  state it has in a fresh query.
* `sharedState` (F-C03-5): all evaluations of one query object work on the same node state (two live iterators
  interfere, whatever the reset does). Off: every evaluation has its own copy (no patch proposed: not small).
* `staleEvalParent` (F-C03-6): tree surgery reads `_parent_` (evaluation parent first). Off
  (= `fixes/C03_surgery_graph_parent.diff`): surgery reads the graph parent, i.e. plain `BState.step`.
-/
namespace KrroodVerif.RuleHist
open KrroodVerif.Rdr

structure HQuirks where
  staleSelectorState : Bool
  sharedState : Bool
  staleEvalParent : Bool
  deriving DecidableEq, Repr

/-- the code as it is -/
def HQuirks.today : HQuirks := ⟨true, true, true⟩
/-- after the two proposed patches (interleaved evaluations of one object still interfere) -/
def HQuirks.repaired : HQuirks := ⟨false, true, false⟩
/-- evaluation-local node state as well -/
def HQuirks.ideal : HQuirks := ⟨false, false, false⟩

/-! ## Resumable evaluation -/

/-- a suspended generator: finished (`done`, with the node state it leaves), or suspended at a `yield` of the
result `(x, is_false)` with the node state of that moment and its resumption -/
inductive Gen where
  | done (s : KSt)
  | item (x : Nat) (f : Bool) (s : KSt) (next : KSt → Gen)

/-- a fresh query's node state: `n` node objects, nothing remembered; `root` = the outermost selector -/
def freshSt (n : Nat) (root : Option Nat) : KSt := { ns := List.replicate n {}, root := root }

/-- `child._conclusion_` as the parent reads it: the `Add`s attached to a condition node are static (written at
construction, never cleared), a selector's set is evaluation state -/
def conclAt (pay : Payload) (s : KSt) : Sel → List Nat
  | .leaf _ _ c => conclOf pay c
  | .node _ id _ _ => (s.get id).concl

def clearConcl (s : KSt) (id : Nat) : KSt := s.upd id fun n => { n with concl := [] }

/-- a condition leaf: `x` bound → one result; unbound → enumerates the domain -/
def leafGen (pay : Payload) (id blk : Nat) : List Nat → KSt → Gen
  | [], s => .done s
  | x :: xs, s =>
    let f := !(pay blk).cond.contains x
    .item x f (s.upd id fun n => { n with isF := f }) (fun s => leafGen pay id blk xs s)

/-- `ExceptIf._evaluate__`, the loop over the right operand for one true left value `x`; `ry` = `right_yielded` -/
def exRight (d : Dedup) (id : Nat) (cL cR : KSt → List Nat) (k : KSt → Gen) (x : Nat) : Gen → Bool → Gen
  | .done s, ry =>
    if ry then k s
    else
      let s := s.updateConclusion d id x (cL s)
      .item x (s.get id).isF s (fun s => k (clearConcl s id))
  | .item x2 f2 s nxt, ry =>
    if f2 then exRight d id cL cR k x (nxt s) ry
    else
      let s := s.updateConclusion d id x2 (cR s)
      .item x2 (s.get id).isF s (fun s => exRight d id cL cR k x (nxt (clearConcl s id)) true)

/-- `ExceptIf._evaluate__`, the loop over the left operand -/
def exLeft (d : Dedup) (id : Nat) (cL cR : KSt → List Nat) (evR : Nat → KSt → Gen) : Gen → Gen
  | .done s => .done s
  | .item x f s nxt =>
    let s := s.upd id fun n => { n with isF := f }
    if f then .item x true s (fun s => exLeft d id cL cR evR (nxt s))
    else exRight d id cL cR (fun s => exLeft d id cL cR evR (nxt s)) x (evR x s) false

/-- the body of `Alternative._evaluate__`'s loop -/
def altPost (d : Dedup) (id lid rid : Nat) (cL cR : KSt → List Nat) (x : Nat) (s : KSt) (k : KSt → Gen) : Gen :=
  let s :=
    if !(s.get lid).isF then s.updateConclusion d id x (cL s)
    else if !(s.get rid).isF then s.updateConclusion d id x (cR s)
    else s
  .item x (s.get id).isF s (fun s => k (clearConcl s id))

/-- `OR.evaluate_right` under an `Alternative` -/
def altRight (post : Nat → KSt → (KSt → Gen) → Gen) (id : Nat) (k : KSt → Gen) : Gen → Gen
  | .done s => k (s.upd id fun n => { n with re := false })
  | .item x2 f2 s nxt =>
    post x2 (s.upd id fun n => { n with isF := f2, re := true }) (fun s => altRight post id k (nxt s))

/-- `OR.evaluate_left` under an `Alternative` (`ElseIf`) -/
def altLeft (post : Nat → KSt → (KSt → Gen) → Gen) (id : Nat) (evR : Nat → KSt → Gen) : Gen → Gen
  | .done s => .done s
  | .item x f s nxt =>
    let s := s.upd id fun n => { n with le := true }
    if f then
      altRight post id (fun s => altLeft post id evR (nxt s)) (evR x (s.upd id fun n => { n with le := false }))
    else post x (s.upd id fun n => { n with isF := false }) (fun s => altLeft post id evR (nxt s))

/-- the body of `Next._evaluate__`'s loop -/
def nextPost (d : Dedup) (id : Nat) (cL cR : KSt → List Nat) (x : Nat) (s : KSt) (k : KSt → Gen) : Gen :=
  let s := if (s.get id).le then s.updateConclusion d id x (cL s) else s
  let s := if (s.get id).re then s.updateConclusion d id x (cR s) else s
  .item x (s.get id).isF s (fun s => k (clearConcl s id))

/-- `OR.evaluate_right` under a `Next` (`Union`): from the incoming bindings -/
def nextRight (post : Nat → KSt → (KSt → Gen) → Gen) (id : Nat) : Gen → Gen
  | .done s => .done (s.upd id fun n => { n with re := false })
  | .item x2 f2 s nxt =>
    post x2 (s.upd id fun n => { n with isF := f2, re := true }) (fun s => nextRight post id (nxt s))

/-- `Next.evaluate_left` (a false left result is handed on as it is), then `evaluate_right` -/
def nextLeft (post : Nat → KSt → (KSt → Gen) → Gen) (id : Nat) (evR : KSt → Gen) : Gen → Gen
  | .done s => nextRight post id (evR (s.upd id fun n => { n with le := false }))
  | .item x f s nxt =>
    post x (s.upd id fun n => { n with le := true, isF := f }) (fun s => nextLeft post id evR (nxt s))

/-- **the generators** -/
def evalG (pay : Payload) (d : Dedup) (dom : List Nat) : Sel → Option Nat → KSt → Gen
  | .leaf id blk _, src, s => leafGen pay id blk (match src with | some x => [x] | none => dom) s
  | .node .exceptIf id l r, src, s =>
    exLeft d id (fun s => conclAt pay s l) (fun s => conclAt pay s r) (fun x s => evalG pay d dom r (some x) s)
      (evalG pay d dom l src s)
  | .node .alt id l r, src, s =>
    altLeft (altPost d id l.id r.id (fun s => conclAt pay s l) (fun s => conclAt pay s r)) id
      (fun x s => evalG pay d dom r (some x) s) (evalG pay d dom l src s)
  | .node .next id l r, src, s =>
    nextLeft (nextPost d id (fun s => conclAt pay s l) (fun s => conclAt pay s r)) id
      (fun s => evalG pay d dom r src s) (evalG pay d dom l src s)

/-- one result as the user sees it: candidate classes (more than one: two conclusions in one Python set) and the
element it was built from -/
abbrev Row := List Nat × Nat

inductive PumpRes where
  | emitted (row : Row) (s : KSt) (next : KSt → Gen)
  | finished (s : KSt)

/-- `QueryObjectDescriptor._evaluate__` + `An._evaluate__`: advance until a true result whose conclusions bind the
inferred variable; `rc` reads the `_conclusion_` of the conditions root -/
def pump (rc : KSt → List Nat) : Gen → PumpRes
  | .done s => .finished s
  | .item x f s nxt =>
    if f then pump rc (nxt s)
    else if (rc s).isEmpty then pump rc (nxt s)
    else .emitted (rc s, x) s nxt

/-- a complete evaluation: all results, and the node state it leaves -/
def drain (rc : KSt → List Nat) : Gen → List Row × KSt
  | .done s => ([], s)
  | .item x f s nxt =>
    let r := drain rc (nxt s)
    if f then r
    else if (rc s).isEmpty then r
    else ((rc s, x) :: r.1, r.2)

/-! ## Histories -/

inductive HOp where
  | start (i : Nat)            -- `it_i = query.evaluate()`
  | next (i : Nat)             -- `next(it_i)`
  | abandon (i : Nat)          -- `it_i.close()`
  | full (i : Nat)             -- `list(query.evaluate())`
  | grow (items : List Item)   -- one more `with query:` block with these branches
  -- (no `deriving`: `Item` has none)

inductive Iter where
  | fresh
  | susp (rc : KSt → List Nat) (resume : KSt → Gen) (own : KSt)
  | closed

inductive Outp where
  | none
  | row (r : Row)
  | stop
  | rows (rs : List Row)
  | err                        -- construction raised / the `left`/`right` pointers are cyclic
  deriving DecidableEq, Repr

structure Mach where
  b : Option BState                 -- the expression graph
  ep : List (Option Nat) := []      -- `_eval_parent_` per node
  st : KSt := { ns := [] }
  its : Nat → Iter := fun _ => .closed    -- the iterators by name

def Mach.get (m : Mach) (i : Nat) : Iter := m.its i
def Mach.set (m : Mach) (i : Nat) (it : Iter) : Mach := { m with its := fun j => if j = i then it else m.its j }

/-- extend the node state by the node objects created since -/
def padTo (n : Nat) (s : KSt) : KSt := { s with ns := s.ns ++ List.replicate (n - s.ns.length) {} }

/-- `_reset_evaluation_state_` on every node of the query, then the state the evaluation starts from -/
def resetSt (q : HQuirks) (n : Nat) (root : Option Nat) (s : KSt) : KSt :=
  if q.staleSelectorState then { padTo n s with seen := [], root := root }
  else freshSt n root

def epOfTree (parent : Nat) : Sel → List (Nat × Nat)
  | .leaf id _ _ => [(id, parent)]
  | .node _ id l r => (id, parent) :: (epOfTree id l ++ epOfTree id r)

/-- `_eval_parent_` after an evaluation of tree `t` was advanced: An ← Entity ← conditions root ← … -/
def epAfter (n : Nat) (old : List (Option Nat)) (t : Sel) : List (Option Nat) :=
  let m := (1, 0) :: epOfTree 1 t
  (List.range n).map fun i => match m.lookup i with | some p => some p | none => old.getD i none

/-- the tree the evaluation walks and what the first `next()` starts from -/
def beginEval (pay : Payload) (dom : List Nat) (q : HQuirks) (m : Mach) : Option (Mach × (KSt → List Nat) × Gen) :=
  match m.b with
  | none => none
  | some b =>
    match b.tree with
    | none => none
    | some t =>
      let n := b.nodes.length
      let s0 := resetSt q n (some t.id) m.st
      let rc := fun s => conclAt pay s t
      -- evaluation-local state: the shared state is not touched at all
      let m := if q.sharedState then { m with st := s0, ep := epAfter n m.ep t } else { m with ep := epAfter n m.ep t }
      some (m, rc, evalG pay Quirks.today.dedup dom t none (if q.sharedState then s0 else freshSt n (some t.id)))

/-- the parents as `_parent_` answers: the evaluation parent, if there is one -/
def effParents (b : BState) (ep : List (Option Nat)) : BState :=
  { b with nodes := b.nodes.zipIdx.map fun (n, i) =>
      match ep.getD i none with | some p => { n with parent := some p } | none => n }

/-- one statement of a `with` block. Every statement reads `_parent_` before it writes parents, so with the stale
evaluation parents it is `BState.step` on the graph as `_parent_` shows it; what the statement did not write keeps
its graph parent -/
def growStep (q : HQuirks) (b : BState) (ep : List (Option Nat)) (op : Op) : Option BState :=
  if !q.staleEvalParent then b.step Quirks.today op
  else
    let b' := effParents b ep
    match b'.step Quirks.today op with
    | none => none
    | some b'' =>
      some { b'' with nodes := b''.nodes.zipIdx.map fun (n, i) =>
        if i < b.nodes.length && n.parent = (b'.node i).parent then { n with parent := (b.node i).parent } else n }

def growRun (q : HQuirks) (ep : List (Option Nat)) : BState → List Op → Option BState
  | b, [] => some b
  | b, op :: ops => match growStep q b ep op with
    | some b => growRun q ep b ops
    | none => none

/-- the statements of one more `with query:` block -/
def sessionOps (blk : Nat) (items : List Item) : List Op :=
  Op.enterQuery :: (items.flatMap (Item.ops blk) ++ [Op.exit])

def handleNext (q : HQuirks) (m : Mach) (i : Nat) (rc : KSt → List Nat) (g : Gen) : Mach × Outp :=
  match pump rc g with
  | .finished s => ((if q.sharedState then { m with st := s } else m).set i .closed, .stop)
  | .emitted row s nxt =>
    ((if q.sharedState then { m with st := s } else m).set i (.susp rc nxt s), .row row)

def step (pay : Payload) (dom : List Nat) (blk : Nat) (q : HQuirks) (m : Mach) : HOp → Mach × Outp
  | .start i => (m.set i .fresh, .none)
  | .abandon i => (m.set i .closed, .none)
  | .next i =>
    match m.get i with
    | .closed => (m, .stop)
    | .fresh =>
      match beginEval pay dom q m with
      | none => (m.set i .closed, .err)
      | some (m, rc, g) => handleNext q m i rc g
    | .susp rc nxt own => handleNext q m i rc (nxt (if q.sharedState then m.st else own))
  | .full i =>
    match beginEval pay dom q m with
    | none => (m.set i .closed, .err)
    | some (m, rc, g) =>
      let r := drain rc g
      ((if q.sharedState then { m with st := r.2 } else m).set i .closed, .rows r.1)
  | .grow items =>
    ({ m with b := m.b.bind fun b => growRun q m.ep b (sessionOps blk items) }, .none)

def run (pay : Payload) (dom : List Nat) (blk : Nat) (q : HQuirks) : Mach → List HOp → List Outp
  | _, [] => []
  | m, op :: ops => let r := step pay dom blk q m op; r.2 :: run pay dom blk q r.1 ops

/-- the query object as first written -/
def initMach (a : Authored) : Mach := { b := buildA Quirks.today a }

/-- **the model**: a history on the query object written as `a` -/
def model (q : HQuirks) (pay : Payload) (dom : List Nat) (a : Authored) (ops : List HOp) : List Outp :=
  run pay dom a.blk q (initMach a) ops

/-! ## Specification: every evaluation yields what a freshly written query yields when it is evaluated alone -/

/-- all results of a fresh query object with expression graph `b` (`none`: it cannot be evaluated) -/
def freshRows (pay : Payload) (dom : List Nat) (b : Option BState) : Option (List Row) :=
  match b with
  | none => none
  | some b =>
    match b.tree with
    | none => none
    | some t =>
      some (drain (fun s => conclAt pay s t)
        (evalG pay Quirks.today.dedup dom t none (freshSt b.nodes.length (some t.id)))).1

/-- per iterator: not advanced yet, or the isolated result and the number of results handed out -/
inductive SIter where
  | fresh
  | run (rows : List Row) (k : Nat)
  | closed

structure SMach where
  b : Option BState
  its : Nat → SIter := fun _ => .closed

def SMach.get (m : SMach) (i : Nat) : SIter := m.its i
def SMach.set (m : SMach) (i : Nat) (it : SIter) : SMach := { m with its := fun j => if j = i then it else m.its j }

def specNext (m : SMach) (i : Nat) (rows : List Row) (k : Nat) : SMach × Outp :=
  match rows[k]? with
  | some r => (m.set i (.run rows (k + 1)), .row r)
  | none => (m.set i .closed, .stop)

def specStep (pay : Payload) (dom : List Nat) (blk : Nat) (m : SMach) : HOp → SMach × Outp
  | .start i => (m.set i .fresh, .none)
  | .abandon i => (m.set i .closed, .none)
  | .next i =>
    match m.get i with
    | .closed => (m, .stop)
    | .fresh =>
      match freshRows pay dom m.b with
      | none => (m.set i .closed, .err)
      | some rows => specNext m i rows 0
    | .run rows k => specNext m i rows k
  | .full i =>
    match freshRows pay dom m.b with
    | none => (m.set i .closed, .err)
    | some rows => (m.set i .closed, .rows rows)
  | .grow items =>
    -- a fresh query has no evaluation parents: the same statements, on the graph
    ({ m with b := m.b.bind fun b => growRun HQuirks.ideal [] b (sessionOps blk items) }, .none)

def specRun (pay : Payload) (dom : List Nat) (blk : Nat) : SMach → List HOp → List Outp
  | _, [] => []
  | m, op :: ops => let r := specStep pay dom blk m op; r.2 :: specRun pay dom blk r.1 ops

def spec (pay : Payload) (dom : List Nat) (a : Authored) (ops : List HOp) : List Outp :=
  specRun pay dom a.blk { b := buildA Quirks.today a } ops

/-! ## Histories in which evaluations do not overlap, and the triggers of the three findings -/

/-- once another evaluation has been started (or the tree has grown), an earlier iterator is never advanced again;
it may have been abandoned, or just left suspended, at any point -/
def sequentialAux : Option Nat → List HOp → Bool
  | _, [] => true
  | _, .start i :: ops => sequentialAux (some i) ops
  | cur, .abandon i :: ops => sequentialAux (if cur == some i then none else cur) ops
  | cur, .next i :: ops => cur == some i && sequentialAux cur ops
  | _, .full _ :: ops => sequentialAux none ops
  | _, .grow _ :: ops => sequentialAux none ops

def sequential (ops : List HOp) : Bool := sequentialAux none ops

/-- F-C03-5: evaluations overlap -/
def trigOverlap (ops : List HOp) : Bool := !sequential ops

/-- F-C03-4: an evaluation that was consumed step by step (so it may have been left at a `yield`) is followed by
another evaluation. `adv` = some iterator has been advanced by `next`, `cur` = the one advanced last -/
def trigAbandonedAux : Bool → Option Nat → List HOp → Bool
  | _, _, [] => false
  | adv, cur, .start _ :: ops => trigAbandonedAux adv cur ops
  | adv, cur, .abandon _ :: ops => trigAbandonedAux adv cur ops
  | adv, cur, .next i :: ops => (adv && cur != some i) || trigAbandonedAux true (some i) ops
  | adv, cur, .full _ :: ops => adv || trigAbandonedAux adv cur ops
  | adv, cur, .grow _ :: ops => trigAbandonedAux adv cur ops

def trigAbandoned (ops : List HOp) : Bool := trigAbandonedAux false none ops

def topBranches (items : List Item) : Nat :=
  (items.filter fun i => match i with | .kid _ _ => true | _ => false).length

/-- F-C03-6: after an evaluation, a second branch is attached to the rule before the next evaluation.
`ev` = some evaluation was advanced; `g` = branches attached at the rule's own level since -/
def trigStaleGrowAux : Bool → Nat → List HOp → Bool
  | _, _, [] => false
  | ev, g, .start _ :: ops => trigStaleGrowAux ev g ops
  | ev, g, .abandon _ :: ops => trigStaleGrowAux ev g ops
  | _, _, .next _ :: ops => trigStaleGrowAux true 0 ops
  | _, _, .full _ :: ops => trigStaleGrowAux true 0 ops
  | ev, g, .grow items :: ops =>
    (ev && g + topBranches items ≥ 2) || trigStaleGrowAux ev (g + topBranches items) ops

def trigStaleGrow (ops : List HOp) : Bool := trigStaleGrowAux false 0 ops

end KrroodVerif.RuleHist
