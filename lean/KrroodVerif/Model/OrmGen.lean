/-!
# M-ORM (generation half): ORMatic's schema generation as a function `ClassModel → Schema`

Core Lean only (the native driver links this file).

What is transcribed (krrood `src/krrood/ormatic/`):

* `wrapped_table.py`
  * `WrappedTable.tablename`                      → `tableName`
  * `WrappedTable._find_direct_parent_wrapped` / `parent_table` → `parentOf`, `anc`, `ancestors`
  * `WrappedTable.fields` (inherited-field elimination)          → `inheritedNames`, `tableFields`
  * `WrappedTable.parse_fields` / `parse_field` (kind dispatch)  → `parseField`
  * `create_builtin_column`, `create_json_column`, `create_one_to_one_relationship`,
    `create_one_to_many_relationship`             → the branches of `parseField`, `assocOf`, `fieldImports`
  * `has_children`, `create_mapper_args`, `primary_key`, `base_class_name` → `genTable`
* `ormatic.py` `__post_init__` / `create_type_annotations_map` (imported modules) → `imports`
* `class_diagrams/attribute_introspector.py` `DataclassOnlyIntrospector.discover` and the field merge of
  `dataclasses.fields` along the base chain → `dcFields`, `wrappedFields`
* `class_diagrams/wrapped_field.py` predicates are represented by the constructors of `Kind`
  (the annotation grammar of the property: builtin scalar, Optional scalar, enum, datetime, list of builtins,
  (Optional) reference, collection).

Names are `List Char` (not `String`): the kernel can evaluate them, so counter-examples are closed by `decide`,
and the name formulas become list lemmas. `lower` is ASCII lower-casing (`str.lower` restricted to ASCII
identifiers, which is all the generator produces).

Two documented defects are quirk flags (DESIGN §2.4):
* `sameAssocFkNames` (F-C06-1): both FK columns of an association table are called `<table.lower()>_id`, so a
  collection of the class's own type gives two identically named columns;
* `builtinsOnlyWhenUsed` (F-C06-2): `builtins` is imported only when some builtin-typed column is created, while the
  primary key annotation `Mapped[builtins.int]` always names it.

The file order of the generated classes (a topological order of the inheritance graph) is not modelled: every
observation the property makes is order-free.
-/
namespace KrroodVerif.OrmGen

abbrev Name := List Char

/-- ASCII `str.lower()` -/
def lower (n : Name) : Name := n.map Char.toLower

/-- `name.startswith("_")` -/
def isPrivate : Name → Bool
  | '_' :: _ => true
  | _ => false

inductive Scalar | int | float | str | bool
  deriving DecidableEq, Repr

/-- modules that can be named in a generated annotation / imported by the generated file -/
inductive Module | builtins | typing | typingExtensions | datetime | customTypes | model
  deriving DecidableEq, Repr

/-- The annotation grammar of the property (what `WrappedField`'s predicates distinguish). -/
inductive Kind
  | scalar (s : Scalar) (opt : Bool)   -- `int`, `Optional[int]`, …
  | enum (opt : Bool)                  -- an `enum.Enum` subclass declared in the model module
  | datetime (opt : Bool)
  | jsonList (s : Scalar)              -- `List[int]` …  → JSON column
  | ref (target : Name) (opt : Bool)   -- `B`, `Optional[B]`
  | coll (target : Name)               -- `List[B]`
  | custom (opt : Bool)                -- `P`, `Optional[P]` for a class `P` that is a key of ORMatic's `type_mappings`
  deriving DecidableEq, Repr

structure Field where
  name : Name
  kind : Kind
  deriving DecidableEq, Repr

/-- One dataclass: its name, its first base (if any) and the fields declared in its own body. -/
structure Class where
  name : Name
  base : Option Name
  fields : List Field
  deriving DecidableEq, Repr

/-- The list of classes handed to `ClassDiagram(...)`, in that order. -/
abbrev ClassModel := List Class

structure Quirks where
  sameAssocFkNames : Bool
  builtinsOnlyWhenUsed : Bool
  deriving DecidableEq, Repr

/-- the code as it is today -/
def Quirks.today : Quirks := ⟨true, true⟩
/-- both defects repaired -/
def Quirks.none : Quirks := ⟨false, false⟩

/-! ## schema description -/

inductive AttrKind
  | builtinCol
  | customCol
  | fkCol (target : Name)                                   -- FK column pointing at `target.database_id`
  | rel (target : Name) (many : Bool) (secondary : Option Name)
  deriving DecidableEq, Repr

/-- One mapped attribute of a DAO class (a column or a relationship). `optional` remembers that the source field was
`Optional[...]`, `mods` are the modules named in its `Mapped[...]` annotation. -/
structure Attr where
  name : Name
  kind : AttrKind
  optional : Bool
  nullable : Bool
  mods : List Module
  deriving DecidableEq, Repr

structure Table where
  name : Name                 -- `__tablename__` and DAO class name
  cls : Name                  -- the dataclass it maps
  base : Option Name          -- parent DAO (none = `Base`)
  pkMods : List Module        -- modules named in the primary key annotation
  polyOn : Bool               -- has the `polymorphic_type` column / `polymorphic_on`
  polyIdentity : Option Name
  attrs : List Attr
  deriving DecidableEq, Repr

structure Assoc where
  name : Name
  leftTable : Name
  leftFk : Name
  rightTable : Name
  rightFk : Name
  deriving DecidableEq, Repr

structure Schema where
  tables : List Table
  assocs : List Assoc
  imports : List Module
  /-- generation itself raised (collection of a class without table) -/
  crashed : Bool
  deriving DecidableEq, Repr

/-! ## name formulas -/

def daoSuffix : Name := ['D', 'A', 'O']
def idSuffix : Name := ['_', 'i', 'd']
def assocSuffix : Name := ['_', 'a', 's', 's', 'o', 'c', 'i', 'a', 't', 'i', 'o', 'n']
def pkName : Name := ['d', 'a', 't', 'a', 'b', 'a', 's', 'e', '_', 'i', 'd']
def polyName : Name := ['p', 'o', 'l', 'y', 'm', 'o', 'r', 'p', 'h', 'i', 'c', '_', 't', 'y', 'p', 'e']
def sourcePrefix : Name := ['s', 'o', 'u', 'r', 'c', 'e', '_']
def targetPrefix : Name := ['t', 'a', 'r', 'g', 'e', 't', '_']

/-- `tablename`: `clazz.__name__ + "DAO"` -/
def tableName (c : Name) : Name := c ++ daoSuffix
/-- `f"{field.name}{foreign_key_postfix}"` -/
def fkName (f : Name) : Name := f ++ idSuffix
/-- `f"{self.tablename.lower()}_{field.name}_association"` -/
def assocName (table f : Name) : Name := lower table ++ '_' :: f ++ assocSuffix
/-- `f"{tablename.lower()}{foreign_key_postfix}"` -/
def assocFk (table : Name) : Name := lower table ++ idSuffix

/-! ## class lookup, parent resolution, fields -/

def lookup (m : ClassModel) (n : Name) : Option Class := m.find? (fun c => c.name == n)

def mapped (m : ClassModel) (n : Name) : Bool := (lookup m n).isSome

/-- `_find_direct_parent_wrapped`: the first class of the MRO that has a table. With single inheritance and every
class of the model mapped this is the first base. -/
def parentOf (m : ClassModel) (c : Class) : Option Class := c.base.bind (lookup m)

/-- the `parent_table` chain, fuelled -/
def anc (m : ClassModel) : Nat → Class → List Class
  | 0, _ => []
  | n + 1, c =>
    match parentOf m c with
    | none => []
    | some p => p :: anc m n p

def ancestors (m : ClassModel) (c : Class) : List Class := anc m m.length c

/-- the chain ends by itself within the fuel (no cycle) -/
def natural (m : ClassModel) : Nat → Class → Bool
  | 0, c => (parentOf m c).isNone
  | n + 1, c =>
    match parentOf m c with
    | none => true
    | some p => natural m n p

/-- `dataclasses.fields` merge: a redefined field keeps its position, a new one is appended -/
def mergeField (acc : List Field) (f : Field) : List Field :=
  if acc.any (fun g => g.name == f.name) then acc.map (fun g => if g.name == f.name then f else g)
  else acc ++ [f]

def mergeFields (inherited own : List Field) : List Field := own.foldl mergeField inherited

/-- `dataclasses.fields(cls)`: all fields of the class including inherited ones -/
def dcFields (m : ClassModel) (c : Class) : List Field :=
  ((ancestors m c).reverse ++ [c]).foldl (fun acc k => mergeFields acc k.fields) []

/-- `WrappedClass.fields` with `DataclassOnlyIntrospector`: public dataclass fields -/
def wrappedFields (m : ClassModel) (c : Class) : List Field :=
  (dcFields m c).filter (fun f => !isPrivate f.name)

/-- `inherited_names` in `WrappedTable.fields` -/
def inheritedNames (m : ClassModel) (c : Class) : List Name :=
  (ancestors m c).flatMap (fun a => (wrappedFields m a).map (·.name))

/-- `WrappedTable.fields`: the fields of the class that are not inherited by name. (`parse_fields` skips `_`-names
again; they are already gone here.) -/
def tableFields (m : ClassModel) (c : Class) : List Field :=
  (wrappedFields m c).filter (fun f => !(inheritedNames m c).contains f.name)

/-! ## kind dispatch -/

def optMods (opt : Bool) : List Module := if opt then [.typing] else []

/-- left/right FK column names of an association table -/
def assocFkNames (q : Quirks) (left right : Name) : Name × Name :=
  let l := assocFk left
  let r := assocFk right
  if !q.sameAssocFkNames && l == r then (sourcePrefix ++ l, targetPrefix ++ r) else (l, r)

/-- `parse_field`: the mapped attributes a field contributes to its table -/
def parseField (m : ClassModel) (c : Class) (f : Field) : List Attr :=
  match f.kind with
  | .scalar _ opt => [⟨f.name, .builtinCol, opt, opt, optMods opt ++ [.builtins]⟩]
  | .enum opt => [⟨f.name, .builtinCol, opt, opt, optMods opt ++ [.model]⟩]
  | .datetime opt => [⟨f.name, .builtinCol, opt, opt, optMods opt ++ [.datetime]⟩]
  | .jsonList _ => [⟨f.name, .customCol, false, false, [.typing, .builtins]⟩]
  | .ref t opt =>
    if mapped m t then
      [⟨fkName f.name, .fkCol (tableName t), opt, true, if opt then [.typing, .builtins] else []⟩,
       ⟨f.name, .rel (tableName t) false none, opt, true, []⟩]
    else []   -- "Skipping due to not handled type."
  | .coll t =>
    if mapped m t then
      [⟨f.name, .rel (tableName t) true (some (assocName (tableName c.name) f.name)), false, false, [.typing]⟩]
    else []
  -- `create_custom_type`: a column of the mapped `TypeDecorator`, `nullable=<is_optional>`
  | .custom opt => [⟨f.name, .customCol, opt, opt, optMods opt ++ [.customTypes]⟩]

/-- the association table a field creates -/
def assocOf (q : Quirks) (m : ClassModel) (c : Class) (f : Field) : List Assoc :=
  match f.kind with
  | .coll t =>
    if mapped m t then
      let n := assocFkNames q (tableName c.name) (tableName t)
      [⟨assocName (tableName c.name) f.name, tableName c.name, n.1, tableName t, n.2⟩]
    else []
  | _ => []

/-- `imported_modules.add(...)` calls made while parsing a field -/
def fieldImports (f : Field) : List Module :=
  match f.kind with
  | .scalar _ _ => [.builtins]
  | .enum _ => [.model]
  | .datetime _ => [.datetime]
  | .jsonList _ => [.typingExtensions]
  | _ => []

/-- `create_one_to_many_relationship` raises when the target has no table -/
def fieldCrashes (m : ClassModel) (f : Field) : Bool :=
  match f.kind with
  | .coll t => !mapped m t
  | _ => false

def hasChildren (m : ClassModel) (c : Class) : Bool :=
  m.any (fun d => match parentOf m d with | some p => p.name == c.name | none => false)

def genTable (m : ClassModel) (c : Class) : Table :=
  let parent := parentOf m c
  let root := parent.isNone && hasChildren m c
  { name := tableName c.name
    cls := c.name
    base := parent.map (fun p => tableName p.name)
    pkMods := [.builtins]
    polyOn := root
    polyIdentity := if parent.isSome || hasChildren m c then some (tableName c.name) else none
    attrs := (tableFields m c).flatMap (parseField m c) }

def imports (q : Quirks) (m : ClassModel) : List Module :=
  [.typing, .customTypes] ++ (if m.isEmpty then [] else [.model]) ++
    m.flatMap (fun c => (tableFields m c).flatMap fieldImports) ++
    (if q.builtinsOnlyWhenUsed then [] else [.builtins])

/-- ORMatic(ClassDiagram(classes)).make_all_tables() as a schema description -/
def generate (q : Quirks) (m : ClassModel) : Schema :=
  { tables := m.map (genTable m)
    assocs := m.flatMap (fun c => (tableFields m c).flatMap (assocOf q m c))
    imports := imports q m
    crashed := m.any (fun c => (tableFields m c).any (fieldCrashes m)) }

/-! ## specification -/

/-- all names a DAO class binds: primary key, discriminator, columns, relationships -/
def Table.attrNames (t : Table) : List Name :=
  pkName :: (if t.polyOn then [polyName] else []) ++ t.attrs.map (·.name)

def Schema.tableNames (s : Schema) : List Name := s.tables.map (·.name)

/-- targets named by a table: base, FK targets, relationship targets -/
def Table.targets (t : Table) : List Name :=
  t.base.toList ++ t.attrs.flatMap (fun a => match a.kind with
    | .fkCol tg => [tg]
    | .rel tg _ _ => [tg]
    | _ => [])

def Table.secondaries (t : Table) : List Name :=
  t.attrs.flatMap (fun a => match a.kind with | .rel _ _ (some s) => [s] | _ => [])

/-- `Valid s`: what SQLAlchemy needs to import the module, configure the mappers and create the schema, as far as it
depends on ORMatic's name derivation. Table and column names are compared lower-cased (SQLite identifiers are
case-insensitive). -/
structure Valid (s : Schema) : Prop where
  notCrashed : s.crashed = false
  tablesDistinct : (s.tables.map (fun t => lower t.name) ++ s.assocs.map (fun a => lower a.name)).Nodup
  attrsDistinct : ∀ t ∈ s.tables, (t.attrNames.map lower).Nodup
  assocColsDistinct : ∀ a ∈ s.assocs, a.leftFk ≠ a.rightFk
  targetsExist : ∀ t ∈ s.tables, ∀ x ∈ t.targets, x ∈ s.tableNames
  secondariesExist : ∀ t ∈ s.tables, ∀ x ∈ t.secondaries, x ∈ s.assocs.map (·.name)
  assocTargetsExist : ∀ a ∈ s.assocs, a.leftTable ∈ s.tableNames ∧ a.rightTable ∈ s.tableNames
  modulesImported : ∀ t ∈ s.tables, (∀ x ∈ t.pkMods, x ∈ s.imports) ∧ ∀ a ∈ t.attrs, ∀ x ∈ a.mods, x ∈ s.imports

instance (s : Schema) : Decidable (Valid s) :=
  if h : s.crashed = false ∧
      (s.tables.map (fun t => lower t.name) ++ s.assocs.map (fun a => lower a.name)).Nodup ∧
      (∀ t ∈ s.tables, (t.attrNames.map lower).Nodup) ∧
      (∀ a ∈ s.assocs, a.leftFk ≠ a.rightFk) ∧
      (∀ t ∈ s.tables, ∀ x ∈ t.targets, x ∈ s.tableNames) ∧
      (∀ t ∈ s.tables, ∀ x ∈ t.secondaries, x ∈ s.assocs.map (·.name)) ∧
      (∀ a ∈ s.assocs, a.leftTable ∈ s.tableNames ∧ a.rightTable ∈ s.tableNames) ∧
      (∀ t ∈ s.tables, (∀ x ∈ t.pkMods, x ∈ s.imports) ∧ ∀ a ∈ t.attrs, ∀ x ∈ a.mods, x ∈ s.imports)
  then isTrue ⟨h.1, h.2.1, h.2.2.1, h.2.2.2.1, h.2.2.2.2.1, h.2.2.2.2.2.1, h.2.2.2.2.2.2.1, h.2.2.2.2.2.2.2⟩
  else isFalse (fun v => h ⟨v.1, v.2, v.3, v.4, v.5, v.6, v.7, v.8⟩)

/-- what a public field must become in the table of the class that introduces it -/
def FieldMapped (m : ClassModel) (c : Class) (t : Table) (f : Field) : Prop :=
  match f.kind with
  | .scalar _ opt => ∃ a ∈ t.attrs, a.name = f.name ∧ a.kind = .builtinCol ∧ (opt = true → a.nullable = true)
  | .enum opt => ∃ a ∈ t.attrs, a.name = f.name ∧ a.kind = .builtinCol ∧ (opt = true → a.nullable = true)
  | .datetime opt => ∃ a ∈ t.attrs, a.name = f.name ∧ a.kind = .builtinCol ∧ (opt = true → a.nullable = true)
  | .jsonList _ => ∃ a ∈ t.attrs, a.name = f.name ∧ a.kind = .customCol
  | .custom opt => ∃ a ∈ t.attrs, a.name = f.name ∧ a.kind = .customCol ∧ (opt = true → a.nullable = true)
  | .ref tg opt =>
    mapped m tg = true →
      (∃ a ∈ t.attrs, a.name = f.name ∧ a.kind = .rel (tableName tg) false none) ∧
      (∃ a ∈ t.attrs, a.name = fkName f.name ∧ a.kind = .fkCol (tableName tg) ∧ (opt = true → a.nullable = true))
  | .coll tg =>
    mapped m tg = true →
      ∃ a ∈ t.attrs, ∃ sec, a.name = f.name ∧ a.kind = .rel (tableName tg) true (some sec) ∧
        sec = assocName (tableName c.name) f.name

/-- `Complete m s`: one DAO per class mirroring the first-base chain; every public field of a class is mapped, with
the right kind, on the DAO of the class that introduces it — which is the class itself or one of its ancestors, whose
DAO the class's DAO inherits from; every attribute of a DAO stems from a public field (nothing for `_`-fields). -/
structure Complete (m : ClassModel) (s : Schema) : Prop where
  /-- one DAO per class, in the same order, named `XDAO`, based on the DAO of the first base -/
  mirror : s.tables.map (fun t => (t.cls, t.name, t.base)) =
    m.map (fun c => (c.name, tableName c.name, (parentOf m c).map (fun p => tableName p.name)))
  /-- every public dataclass field (own or inherited) is introduced by the class or one of its ancestors … -/
  covered : ∀ c ∈ m, ∀ f ∈ dcFields m c, isPrivate f.name = false →
    ∃ a ∈ c :: ancestors m c, ∃ g ∈ tableFields m a, g.name = f.name
  /-- … and the DAO of the introducing class maps it with the right kind -/
  mappedKind : ∀ c ∈ m, ∀ t ∈ s.tables, t.cls = c.name → ∀ f ∈ tableFields m c, FieldMapped m c t f
  /-- nothing for fields starting with an underscore: every attribute comes from a public field -/
  nothingPrivate : ∀ t ∈ s.tables, ∀ a ∈ t.attrs, ∃ c ∈ m, t.cls = c.name ∧
    ∃ f ∈ dcFields m c, isPrivate f.name = false ∧ (a.name = f.name ∨ a.name = fkName f.name)

/-! ## documented modelling rules + hygiene (`WF`), triggers of the two findings -/

def endsWithId (n : Name) : Bool := idSuffix.isSuffixOf n

/-- the four characters `dao_` occur nowhere in the (lower-cased) name -/
def hasDaoUnderscore : Name → Bool
  | [] => false
  | c :: r => (['d', 'a', 'o', '_'].isPrefixOf (c :: r)) || hasDaoUnderscore r

def databaseName : Name := ['d', 'a', 't', 'a', 'b', 'a', 's', 'e']

/-- field-name hygiene: a lower-case identifier that is not a generated column name (`*_id`, `polymorphic_type`) and
not `database` (whose foreign key column would be `database_id`, the primary key) -/
def fieldNameOk (n : Name) : Bool := lower n == n && !endsWithId n && n != polyName && n != databaseName

/-- targets of references / collections exist (the property's "mapped classes") -/
def kindOk (m : ClassModel) : Kind → Bool
  | .ref t _ => mapped m t
  | .coll t => mapped m t
  | _ => true

/-- `WF m`: the documented modelling rules the model relies on plus the hygiene conditions the proofs force.
All decidable. -/
structure WF (m : ClassModel) : Prop where
  /-- class names are distinct ignoring case -/
  namesDistinct : (m.map (fun c => lower c.name)).Nodup
  /-- class names do not contain `dao_` (ignoring case) -/
  namesClean : ∀ c ∈ m, hasDaoUnderscore (lower c.name) = false
  /-- every base is a class of the model and the base chain is acyclic -/
  basesMapped : ∀ c ∈ m, ∀ b, c.base = some b → mapped m b = true
  chainsEnd : ∀ c ∈ m, natural m m.length c = true
  /-- a class body declares each field name once (Python guarantees it) -/
  ownFieldsDistinct : ∀ c ∈ m, (c.fields.map (·.name)).Nodup
  /-- no field is called like a generated column -/
  fieldNamesOk : ∀ c ∈ m, ∀ f ∈ c.fields, fieldNameOk f.name = true
  /-- references and collections point at classes of the model -/
  kindsOk : ∀ c ∈ m, ∀ f ∈ c.fields, kindOk m f.kind = true

instance (m : ClassModel) : Decidable (WF m) :=
  if h : (m.map (fun c => lower c.name)).Nodup ∧
      (∀ c ∈ m, hasDaoUnderscore (lower c.name) = false) ∧
      (∀ c ∈ m, ∀ b, c.base = some b → mapped m b = true) ∧
      (∀ c ∈ m, natural m m.length c = true) ∧
      (∀ c ∈ m, (c.fields.map (·.name)).Nodup) ∧
      (∀ c ∈ m, ∀ f ∈ c.fields, fieldNameOk f.name = true) ∧
      (∀ c ∈ m, ∀ f ∈ c.fields, kindOk m f.kind = true)
  then isTrue ⟨h.1, h.2.1, h.2.2.1, h.2.2.2.1, h.2.2.2.2.1, h.2.2.2.2.2.1, h.2.2.2.2.2.2⟩
  else isFalse (fun v => h ⟨v.1, v.2, v.3, v.4, v.5, v.6, v.7⟩)

/-- trigger of F-C06-1: some table maps a collection of its own class -/
def selfCollection (m : ClassModel) : Bool :=
  m.any (fun c => (tableFields m c).any (fun f => f.kind == .coll c.name))

def noSelfCollection (m : ClassModel) : Prop := selfCollection m = false

instance (m : ClassModel) : Decidable (noSelfCollection m) := by unfold noSelfCollection; infer_instance

/-- some table gets a column of a `builtins` type (`int`, `float`, `str`, `bool`, possibly Optional) -/
def hasBuiltinField (m : ClassModel) : Bool :=
  m.any (fun c => (tableFields m c).any (fun f => match f.kind with | .scalar _ _ => true | _ => false))

/-- trigger of F-C06-2 -/
def noBuiltinField (m : ClassModel) : Bool := !m.isEmpty && !hasBuiltinField m

/-! ## observation (what the correspondence compares) -/

/-- The class of a column's SQL type, as far as the generated `Mapped[...]` annotation / explicit column type determine
it: key (primary / foreign key), builtin scalar (`int`, `float`, `str`, `bool`), enum (`sqlalchemy.Enum` derived from the
annotation `Mapped[module.TheEnum]` — for EVERY `enum.Enum` subclass, also `IntEnum`, `(str, Enum)`, `StrEnum`),
datetime, JSON, custom (`TypeDecorator` of `type_mappings`). -/
inductive ColTy | key | builtin | enum | datetime | json | custom
  deriving DecidableEq, Repr

structure ObsTable where
  name : Name
  cls : Name
  base : Option Name
  /-- column names with a marker (`?` Optional source field and nullable column, `!` Optional but not nullable) and the
  class of the column type -/
  cols : List (Name × Option Bool × ColTy)
  deriving DecidableEq, Repr

/-- the type class of a generated column: a builtin column is typed by its annotation (the module it names), a custom
column by the `TypeDecorator` it imports (`customTypes`) or else it is the JSON column of `create_json_column` -/
def Attr.colTy (a : Attr) : ColTy :=
  match a.kind with
  | .fkCol _ => .key
  | .rel _ _ _ => .key
  | .builtinCol =>
    if a.mods.contains .model then .enum else if a.mods.contains .datetime then .datetime else .builtin
  | .customCol => if a.mods.contains .customTypes then .custom else .json

structure Obs where
  tables : List ObsTable
  /-- association table name, the tables its two FK columns point at -/
  assocs : List (Name × Name × Name)
  /-- (source DAO, field, target DAO, many, secondary) -/
  rels : List (Name × Name × Name × Bool × Option Name)
  /-- (table, column, target table) -/
  fks : List (Name × Name × Name)
  polyOk : Bool
  deriving DecidableEq, Repr

def Attr.isColumn (a : Attr) : Bool := match a.kind with | .rel _ _ _ => false | _ => true

def polyOk (s : Schema) : Bool :=
  let hasChild (t : Table) := s.tables.any (fun u => u.base == some t.name)
  s.tables.all (fun t =>
    (if t.base.isSome || hasChild t then t.polyIdentity.isSome else true) &&
    (if t.base.isNone && hasChild t then t.polyOn else true)) &&
  decide ((s.tables.filterMap (·.polyIdentity)).Nodup)

def observe (s : Schema) : Obs :=
  { tables := s.tables.map (fun t =>
      { name := t.name, cls := t.cls, base := t.base
        cols := (pkName, none, .key) :: (if t.polyOn then [(polyName, none, .builtin)] else []) ++
          (t.attrs.filter Attr.isColumn).map
            (fun a => (a.name, if a.optional then some a.nullable else none, a.colTy)) })
    assocs := s.assocs.map (fun a => (a.name, a.leftTable, a.rightTable))
    rels := s.tables.flatMap (fun t => t.attrs.filterMap (fun a => match a.kind with
      | .rel tg many sec => some (t.name, a.name, tg, many, sec)
      | _ => none))
    fks := s.tables.flatMap (fun t =>
      (match t.base with | some b => [(t.name, pkName, b)] | none => []) ++
      t.attrs.filterMap (fun a => match a.kind with
        | .fkCol tg => some (t.name, a.name, tg)
        | _ => none))
    polyOk := polyOk s }

/-! ## executable specification: an independent, direct reading of the dataclasses -/
namespace Spec

/-- names declared by the ancestors of `c` (walking `base` links by name, at most `fuel` steps) -/
def ancestorDeclared (m : ClassModel) : Nat → Option Name → List Name
  | 0, _ => []
  | _ + 1, none => []
  | n + 1, some b =>
    match lookup m b with
    | none => []
    | some p => p.fields.map (·.name) ++ ancestorDeclared m n p.base

/-- the public fields a class introduces: declared in its body and not by any ancestor -/
def introduced (m : ClassModel) (c : Class) : List Field :=
  c.fields.filter (fun f => !isPrivate f.name && !(ancestorDeclared m m.length c.base).contains f.name)

def isColumnKind : Kind → Bool
  | .ref _ _ => false
  | .coll _ => false
  | _ => true

def optOf : Kind → Bool
  | .scalar _ o => o | .enum o => o | .datetime o => o | .ref _ o => o | .custom o => o | _ => false

/-- the class of the column type the property demands for a field of this kind -/
def tyOf : Kind → ColTy
  | .scalar _ _ => .builtin | .enum _ => .enum | .datetime _ => .datetime | .jsonList _ => .json
  | .custom _ => .custom | _ => .key

def dao (n : Name) : Name := n ++ ['D', 'A', 'O']

/-- The schema facts the property demands for `m`. -/
def expected (m : ClassModel) : Obs :=
  let baseOf (c : Class) : Option Name := c.base.bind (fun b => if mapped m b then some (dao b) else none)
  let isParent (c : Class) := m.any (fun d => d.base == some c.name)
  { tables := m.map (fun c =>
      { name := dao c.name, cls := c.name, base := baseOf c
        cols := (pkName, none, .key) :: (if c.base.isNone && isParent c then [(polyName, none, .builtin)] else []) ++
          (introduced m c).flatMap (fun f => match f.kind with
            | .ref t o => if mapped m t then [(f.name ++ ['_', 'i', 'd'], if o then some true else none, .key)] else []
            | .coll _ => []
            | k => [(f.name, if optOf k then some true else none, tyOf k)]) })
    assocs := m.flatMap (fun c => (introduced m c).flatMap (fun f => match f.kind with
      | .coll t => if mapped m t then
          [(lower (dao c.name) ++ ['_'] ++ f.name ++ assocSuffix, dao c.name, dao t)] else []
      | _ => []))
    rels := m.flatMap (fun c => (introduced m c).flatMap (fun f => match f.kind with
      | .ref t _ => if mapped m t then [(dao c.name, f.name, dao t, false, none)] else []
      | .coll t => if mapped m t then
          [(dao c.name, f.name, dao t, true, some (lower (dao c.name) ++ ['_'] ++ f.name ++ assocSuffix))] else []
      | _ => []))
    fks := m.flatMap (fun c =>
      (match baseOf c with | some b => [(dao c.name, pkName, b)] | none => []) ++
      (introduced m c).flatMap (fun f => match f.kind with
        | .ref t _ => if mapped m t then [(dao c.name, f.name ++ ['_', 'i', 'd'], dao t)] else []
        | _ => []))
    polyOk := true }

end Spec

end KrroodVerif.OrmGen
