import KrroodVerif.Model.Eql
/-!
M-EQL, construction-time rewrites as DATA (`RewriteTable`) + an interpreter (`buildWith`). Core Lean only; additive:
nothing in `Model/Eql.lean` changes.

`Model/Eql.lean` `build` transcribes by hand what `entity.py` (`and_`, `or_`, `not_`, `exists`, `for_all`, `contains`,
`in_`) and `symbolic.py` (`chained_logic`, `optimize_or`, every `_invert_`) do when a condition is BUILT. Here the same
logic is a first-order description that `harness/translate/c02_translate.py` regenerates from the CURRENT Python AST on
every run:

* `OrRule`     — `optimize_or`: which variables of the two operands are compared (literals dropped or not), by which
                 test (set equality | subset | list equality | constant), and the node built in either case;
* `InvRule`    — per node class the result of `_invert_`: wrap in `Not` | the operand itself (double negation) | a binary
                 node over (inverted) operands (De Morgan) | a quantifier over the (inverted) body | the comparison with
                 another operation taken from a table (complementary operator);
* `FoldMode`   — how `chained_logic` nests the n-ary `and_` / `or_`;
* which operator `and_` / `or_` chain, whether `not_` calls `_invert_`, which class `exists` / `for_all` construct and the
  operand order of `contains` / `in_`.

`rewrites` is the table of the code as it is (the one `build` was transcribed from); `Props/C02Rewrites.lean` proves
`buildWith rewrites (ofS s) = build s` for every surface expression and, for EVERY table accepted by the decidable check
`RewritesOk`, that building preserves the first-order meaning and keeps the `or_`-decision the evaluation theorems need.
-/
namespace KrroodVerif.Eql

/-! ### the description language -/

/-- the test `optimize_or` applies to the variables of its two operands -/
inductive VarTest where
  | setEq      -- `set(l) == set(r)`
  | subsetLR   -- `set(l).issubset(r)` / `set(l) <= set(r)`
  | subsetRL   -- `set(r).issubset(l)` / `set(l) >= set(r)`
  | listEq     -- `[ids of l] == [ids of r]` on the de-duplicated variables in first-occurrence order
  | always
  | never
  deriving DecidableEq, Repr

/-- node classes `optimize_or` can return -/
inductive OrNode where | and | elseIf | union
  deriving DecidableEq, Repr

/-- binary operators a chain / a De Morgan rewrite can apply: a node class, or `optimize_or` -/
inductive BinCtor where | and | elseIf | union | optOr
  deriving DecidableEq, Repr

inductive QCtor where | exists_ | forAll
  deriving DecidableEq, Repr

/-- `optimize_or(left, right)` -/
structure OrRule where
  /-- the left / right operand's variables are filtered with `not isinstance(v.value, Literal)` -/
  dropLitL : Bool
  dropLitR : Bool
  test : VarTest
  thenNode : OrNode
  elseNode : OrNode
  deriving DecidableEq, Repr

/-- an argument of the node a binary operator's `_invert_` builds -/
inductive Arg where
  | left | right          -- `self.left`, `self.right`
  | leftInv | rightInv    -- `self.left._invert_()`, `self.right._invert_()`
  deriving DecidableEq, Repr

/-- operations of a `Comparator` (`operator.eq` …, `operator.contains`, `not_contains`) -/
inductive OpK where
  | cmp (op : CmpOp)
  | contains
  | notContains
  deriving DecidableEq, Repr

/-- what a class's `_invert_` returns -/
inductive InvRule where
  /-- `Not(self)` -/
  | wrapNot
  /-- `Not` only: `self._child_` (`inverted = false`) or `self._child_._invert_()` -/
  | operand (inverted : Bool)
  /-- binary operators: `C(a, b)` -/
  | bin (c : BinCtor) (a b : Arg)
  /-- quantifiers: `Q(self.variable, self.condition[._invert_()])` -/
  | quant (q : QCtor) (bodyInverted : Bool)
  /-- `Comparator`: the same operands with the operation the table gives, `Not(self)` for operations not in the table -/
  | opTable (tbl : List (OpK × OpK))
  deriving DecidableEq, Repr

/-- `chained_logic(op, c1, …, cn)` -/
inductive FoldMode where
  | leftNested       -- `op(op(c1, c2), c3)`
  | rightNested      -- `op(c1, op(c2, c3))`
  | reversedNested   -- `op(c3, op(c2, c1))`  (the loop with the accumulator passed second)
  deriving DecidableEq, Repr

structure RewriteTable where
  orRule : OrRule
  fold : FoldMode
  /-- the operator `and_` / `or_` hand to `chained_logic` -/
  andOp : BinCtor
  orOp : BinCtor
  /-- the operator `SymbolicExpression.__and__` / `__or__` apply to `(self, other)` (`a & b`, `a | b`) -/
  ampOp : BinCtor
  barOp : BinCtor
  /-- `not_(c)` returns `c._invert_()` (otherwise `Not(c)`) -/
  notInverts : Bool
  /-- the class `exists(v, c)` / `for_all(v, c)` construct -/
  existsCtor : QCtor
  forAllCtor : QCtor
  /-- `contains(container, item)` / `in_(item, container)` build `Comparator(item, container, …)` instead of
  `Comparator(container, item, operator.contains)` -/
  containsSwapped : Bool
  inSwapped : Bool
  /-- `_invert_` as resolved along the MRO of: `Comparator`; the term classes (`Variable`, `Literal`, `Attribute`,
  `Index`, `Call`, `Flatten` — one common rule); `AND`; `ElseIf`; `Union`; `Not`; `Exists`; `ForAll` -/
  invComparator : InvRule
  invTerm : InvRule
  invAnd : InvRule
  invElseIf : InvRule
  invUnion : InvRule
  invNot : InvRule
  invExists : InvRule
  invForAll : InvRule
  deriving DecidableEq, Repr

/-- the rewrites of the code as it is: what `build`, `mkOr`, `invert` in `Model/Eql.lean` transcribe -/
def rewrites : RewriteTable where
  orRule := { dropLitL := true, dropLitR := true, test := .setEq, thenNode := .elseIf, elseNode := .union }
  fold := .leftNested
  andOp := .and
  orOp := .optOr
  ampOp := .and
  barOp := .optOr
  notInverts := true
  existsCtor := .exists_
  forAllCtor := .forAll
  containsSwapped := false
  inSwapped := false
  invComparator := .wrapNot
  invTerm := .wrapNot
  invAnd := .wrapNot
  invElseIf := .wrapNot
  invUnion := .wrapNot
  invNot := .wrapNot
  invExists := .quant .forAll true
  invForAll := .quant .exists_ true

/-! ### the interpreter -/

/-- the variables `optimize_or` looks at: `_unique_variables_` with or without the literal nodes -/
def operandKeys (dropLit : Bool) (e : Expr) : List Key := if dropLit then e.vars.map Key.var else e.nodes

def dedupKeys (xs : List Key) : List Key :=
  xs.foldl (fun acc x => if acc.contains x then acc else acc ++ [x]) []

def VarTest.eval : VarTest → List Key → List Key → Bool
  | .setEq, a, b => a.all (b.contains ·) && b.all (a.contains ·)
  | .subsetLR, a, b => a.all (b.contains ·)
  | .subsetRL, a, b => b.all (a.contains ·)
  | .listEq, a, b => dedupKeys a == dedupKeys b
  | .always, _, _ => true
  | .never, _, _ => false

def OrNode.mk : OrNode → Expr → Expr → Expr
  | .and, l, r => .and l r
  | .elseIf, l, r => .elseIf l r
  | .union, l, r => .union l r

/-- `optimize_or` as described by `o` -/
def mkOrWith (o : OrRule) (l r : Expr) : Expr :=
  if o.test.eval (operandKeys o.dropLitL l) (operandKeys o.dropLitR r) then o.thenNode.mk l r else o.elseNode.mk l r

def mkBin (o : OrRule) : BinCtor → Expr → Expr → Expr
  | .and, l, r => .and l r
  | .elseIf, l, r => .elseIf l r
  | .union, l, r => .union l r
  | .optOr, l, r => mkOrWith o l r

def QCtor.mk : QCtor → VarId → Expr → Expr
  | .exists_, v, e => .exists_ v e
  | .forAll, v, e => .forAll v e

/-- a `Comparator` over the operands `l`, `r` with operation `k` (`not_contains(c, i)` is `not (i in c)`: the node
`Comparator(c, i, not_contains)` yields, binding for binding, what `Not(Comparator(c, i, operator.contains))` yields) -/
def OpK.mk : OpK → Term → Term → Expr
  | .cmp op, l, r => .cmp op l r
  | .contains, l, r => .contains l r
  | .notContains, l, r => .not (.contains l r)

def Arg.pick (l r li ri : Expr) : Arg → Expr
  | .left => l
  | .right => r
  | .leftInv => li
  | .rightInv => ri

/-- the result of a `Comparator`'s `_invert_` -/
def invComparatorWith (rule : InvRule) (k : OpK) (l r : Term) : Expr :=
  match rule with
  | .opTable tbl => match tbl.lookup k with
    | some k' => k'.mk l r
    | none => .not (k.mk l r)
  | _ => .not (k.mk l r)

/-- the result of a binary operator's `_invert_` (`self` = the node, `l r` its operands, `li ri` their inversions) -/
def invBinWith (o : OrRule) (rule : InvRule) (self l r li ri : Expr) : Expr :=
  match rule with
  | .bin c a b => mkBin o c (a.pick l r li ri) (b.pick l r li ri)
  | _ => .not self

/-- the result of a quantifier's `_invert_` (`e` the body, `ei` its inversion) -/
def invQuantWith (rule : InvRule) (self : Expr) (v : VarId) (e ei : Expr) : Expr :=
  match rule with
  | .quant q inv => q.mk v (if inv then ei else e)
  | _ => .not self

/-- the result of `Not._invert_` -/
def invNotWith (rule : InvRule) (e ei : Expr) : Expr :=
  match rule with
  | .operand inv => if inv then ei else e
  | _ => .not (.not e)

/-- `operand._invert_()` as described by the table (a rule that does not apply to the node's class — it mentions
attributes the class does not have — is read as `Not(self)`; `RewritesOk` rejects such tables) -/
def invertWith (t : RewriteTable) : Expr → Expr
  | .cmp op l r => invComparatorWith t.invComparator (.cmp op) l r
  | .contains c i => invComparatorWith t.invComparator .contains c i
  | .truth x => .not (.truth x)
  | .hasType x c => .not (.hasType x c)
  | .and l r => invBinWith t.orRule t.invAnd (.and l r) l r (invertWith t l) (invertWith t r)
  | .elseIf l r => invBinWith t.orRule t.invElseIf (.elseIf l r) l r (invertWith t l) (invertWith t r)
  | .union l r => invBinWith t.orRule t.invUnion (.union l r) l r (invertWith t l) (invertWith t r)
  | .not e => invNotWith t.invNot e (invertWith t e)
  | .exists_ v e => invQuantWith t.invExists (.exists_ v e) v e (invertWith t e)
  | .forAll v e => invQuantWith t.invForAll (.forAll v e) v e (invertWith t e)

/-- `not_(operand)` -/
def notWith (t : RewriteTable) (e : Expr) : Expr := if t.notInverts then invertWith t e else .not e

def rightNest (f : Expr → Expr → Expr) : Expr → List Expr → Expr
  | a, [] => a
  | a, b :: r => f a (rightNest f b r)

/-- `chained_logic(f, first, *rest)` -/
def foldWith (m : FoldMode) (f : Expr → Expr → Expr) (first : Expr) (rest : List Expr) : Expr :=
  match m with
  | .leftNested => rest.foldl f first
  | .reversedNested => rest.foldl (fun acc e => f e acc) first
  | .rightNested => rightNest f first rest

/-! ### surface expressions with the whole construction vocabulary (n-ary `and_` / `or_`, `in_`) -/

mutual
/-- expressions as the user writes them: `and_(c1, …, cn)`, `or_(c1, …, cn)` (n ≥ 1), `l & r`, `l | r`, `not_`, `exists`, `for_all`,
`contains(container, item)`, `in_(item, container)`, comparisons, conditions that are attribute chains, `HasType` -/
inductive Surface where
  | cmp (op : CmpOp) (l r : Term)
  | contains (container item : Term)
  | isIn (item container : Term)
  | truth (t : Term)
  | hasType (t : Term) (cls : Nat)
  | andN (first : Surface) (rest : SList)
  | orN (first : Surface) (rest : SList)
  | amp (l r : Surface)      -- `l & r`
  | bar (l r : Surface)      -- `l | r`
  | not (e : Surface)
  | exists_ (v : VarId) (e : Surface)
  | forAll (v : VarId) (e : Surface)
inductive SList where
  | nil
  | cons (e : Surface) (r : SList)
end

mutual
/-- what the engine builds from a surface expression, the construction-time rewrites being those of the table `t` -/
def buildWith (t : RewriteTable) : Surface → Expr
  | .cmp op l r => .cmp op l r
  | .contains c i => if t.containsSwapped then .contains i c else .contains c i
  | .isIn i c => if t.inSwapped then .contains i c else .contains c i
  | .truth x => .truth x
  | .hasType x c => .hasType x c
  | .andN f r => foldWith t.fold (mkBin t.orRule t.andOp) (buildWith t f) (buildListWith t r)
  | .orN f r => foldWith t.fold (mkBin t.orRule t.orOp) (buildWith t f) (buildListWith t r)
  | .amp l r => mkBin t.orRule t.ampOp (buildWith t l) (buildWith t r)
  | .bar l r => mkBin t.orRule t.barOp (buildWith t l) (buildWith t r)
  | .not e => notWith t (buildWith t e)
  | .exists_ v e => t.existsCtor.mk v (buildWith t e)
  | .forAll v e => t.forAllCtor.mk v (buildWith t e)
def buildListWith (t : RewriteTable) : SList → List Expr
  | .nil => []
  | .cons e r => buildWith t e :: buildListWith t r
end

/-- the binary surface language of `Model/Eql.lean` inside the n-ary one -/
def Surface.ofS : SExpr → Surface
  | .cmp op l r => .cmp op l r
  | .contains c i => .contains c i
  | .truth x => .truth x
  | .hasType x c => .hasType x c
  | .and l r => .andN (ofS l) (.cons (ofS r) .nil)
  | .or l r => .orN (ofS l) (.cons (ofS r) .nil)
  | .not e => .not (ofS e)
  | .exists_ v e => .exists_ v (ofS e)
  | .forAll v e => .forAll v (ofS e)

/-! ### the decidable admissibility check -/

def okComparator : InvRule → Bool
  | .wrapNot => true
  | .opTable tbl => tbl.all fun p => p.1 == .notContains || p == (.contains, .notContains)
  | _ => false

def okTerm : InvRule → Bool
  | .wrapNot => true
  | _ => false

def okInvAnd : InvRule → Bool
  | .wrapNot => true
  | .bin c .leftInv .rightInv => c != .and
  | _ => false

def okInvOr : InvRule → Bool
  | .wrapNot => true
  | .bin .and .leftInv .rightInv => true
  | _ => false

def okInvNot : InvRule → Bool
  | .wrapNot => true
  | .operand false => true
  | _ => false

def okInvExists : InvRule → Bool
  | .wrapNot => true
  | .quant .forAll true => true
  | _ => false

def okInvForAll : InvRule → Bool
  | .wrapNot => true
  | .quant .exists_ true => true
  | _ => false

/-- `optimize_or` decides by SET EQUALITY of the NON-LITERAL variables, builds `ElseIf` on equal sets and `Union`
otherwise. (First-order meaning alone would allow any of the two nodes; the evaluation theorems do not: `ElseIf` over
different variable sets loses answers — C01 —, `Union` over equal ones duplicates them — C02.) -/
def okOrRule (o : OrRule) : Bool :=
  o.dropLitL && o.dropLitR && o.test == .setEq && o.thenNode == .elseIf && o.elseNode == .union

/-- **RewritesOk**: the decidable check a regenerated table has to pass. -/
def RewritesOk (t : RewriteTable) : Bool :=
  okOrRule t.orRule && t.fold != .reversedNested && t.andOp == .and && t.orOp == .optOr &&
  t.ampOp == .and && t.barOp == .optOr &&
  t.existsCtor == .exists_ && t.forAllCtor == .forAll && !t.containsSwapped && !t.inSwapped &&
  okComparator t.invComparator && okTerm t.invTerm && okInvAnd t.invAnd && okInvOr t.invElseIf && okInvOr t.invUnion &&
  okInvNot t.invNot && okInvExists t.invExists && okInvForAll t.invForAll

end KrroodVerif.Eql
