import KrroodVerif.Model.SymbolGraph
/-!
M-SG, lazily consumed (stepwise) evaluations of a domain-less variable: `it = iter(an(entity(x, …)).evaluate())` over
`x = let(T, None)`, advanced one `next()` at a time with arbitrary operations of the history in between.

`evaluate()` creates generators only. The FIRST `next()` runs `remove_dead_instances()` and starts the generator of
`get_instances_of_type(T)`: it fixes the walk `[T] + recursive_subclasses(T)` (the classes that exist then) and copies
the registry's list of a class when the walk REACHES that class (`list(self._class_to_wrapped_instances[cls])`); an
instance that died after the copy was taken is skipped (`skipDead`, the code since fix 414ef35; before it was yielded as
`None` and the condition raised). Every yielded instance enters the cached domain of the variable (a strong reference).
`snap` = every class list copied at the first `next()` — the snapshot behaviour C13 asks for (F-C13-3 open: the code
copies per class).

This file is the model the driver runs (`Drive/SG.lean`, `Drive/C13.lean`, `Drive/C20.lean`) AND the theorems of
`Props/C13Step.lean` are about. Core Lean only.
-/
namespace KrroodVerif.SG

/-- one lazily consumed evaluation -/
structure Iter where
  key : Nat
  cls : Cls
  /-- the first `next()` has happened -/
  started : Bool := false
  /-- classes the walk has yet to reach -/
  walk : List Cls := []
  /-- the copy of the class list being walked (what is left of it) -/
  cur : List Obj := []
  yielded : List Obj := []
  /-- ghost: the census at the first `next()` — what C13 demands the evaluation to range over -/
  expected : List Obj := []
  /-- 0 open, 1 stop, 2 raised -/
  status : Nat := 0
  /-- ghost (trigger of F-C13-3): instances that became known to the registry while this evaluation was suspended and
  whose class its walk had not reached yet -/
  late : List Obj := []
  deriving Repr

/-- the query object behind evaluation `k` (a key of its own in the heap's `qvars`) -/
def iterKey (k : Nat) : Nat := 500000 + k

/-- the yielded instances are the cached domain of the variable -/
def setCache {σ} (st : St σ) (k : Nat) (ys : List Obj) : St σ :=
  { st with h := { st.h with qvars := st.h.qvars.map (fun v =>
      if v.key == iterKey k then { v with cache := some ys.eraseDups } else v) } }

/-- the classes `[T] + recursive_subclasses(T)` as the model lists them -/
def classesOf (q : Quirks) (S : Schema) (T : Cls) : List Cls :=
  if q.dupSubclasses then S.below T else (S.below T).eraseDups

/-- the first `next()`: the sweep, the walk and the census are fixed; `S` is the hierarchy that exists now -/
def Iter.begin {σ} (q : Quirks) (snap : Bool) (S : Schema) (a : Alloc σ) (st : St σ) (it : Iter) : St σ × Iter :=
  let st := step q S a st .sweep
  let classes := classesOf q S it.cls
  let exp := st.h.expected S it.cls
  if snap then
    (st, { it with started := true, walk := [], expected := exp,
                   cur := classes.flatMap fun c => (st.g.byClass.filter (fun w => w.cls == c)).map (·.obj) })
  else (st, { it with started := true, walk := classes, expected := exp })

/-- run the generator up to its next `yield`: it reads the registry's class lists (`byClass`) and the weak references
(`isLive`) as they are NOW -/
def Iter.pull (skipDead : Bool) (byClass : List W) (isLive : Obj → Bool) : Nat → Iter → Iter × Option Obj
  | 0, it => (it, none)
  | fuel + 1, it =>
    match it.cur with
    | o :: rest =>
      if isLive o then ({ it with cur := rest, yielded := it.yielded ++ [o] }, some o)
      else if skipDead then Iter.pull skipDead byClass isLive fuel { it with cur := rest }
      else ({ it with cur := rest, status := 2 }, none)
    | [] =>
      match it.walk with
      | c :: w =>
        Iter.pull skipDead byClass isLive fuel
          { it with walk := w, cur := (byClass.filter (fun x => x.cls == c)).map (·.obj) }
      | [] => ({ it with status := 1 }, none)

/-- one `next()` -/
def advance {σ} (q : Quirks) (snap skipDead : Bool) (S : Schema) (a : Alloc σ) (st : St σ) (it : Iter) : St σ × Iter :=
  if it.status != 0 then (st, it) else
  let p := if it.started then (st, it) else it.begin q snap S a st
  let r := Iter.pull skipDead p.1.g.byClass p.1.h.isLive (p.2.walk.length + p.2.cur.length + p.1.g.byClass.length + 2) p.2
  match r.2 with
  | some _ => (setCache p.1 r.1.key r.1.yielded, r.1)
  | none => (p.1, r.1)

/-! ### histories with evaluations in flight -/

structure SRun (σ : Type) where
  st : St σ
  iters : List Iter := []

/-- is evaluation `it` suspended (first `next()` done, not ended) with the class of `w` still ahead of its walk -/
def Iter.awaits (it : Iter) (w : W) : Bool := it.started && it.status == 0 && it.walk.contains w.cls

/-- the wrappers the registry has now and did not have before: instances created meanwhile, and live instances the
registry had forgotten (`clear`) that were wrapped again (`ensure_wrapped_instance`) -/
def newlyKnown (before after : List W) : List W := after.filter (fun w => !before.contains w)

def Iter.noteLate (before after : List W) (it : Iter) : Iter :=
  { it with late := it.late ++ ((newlyKnown before after).filter it.awaits).map (·.obj) }

/-- anything the history does between two `next()` calls took the state to `st'` -/
def SRun.between {σ} (r : SRun σ) (st' : St σ) : SRun σ :=
  { st := st', iters := r.iters.map (Iter.noteLate r.st.g.byClass st'.g.byClass) }

/-- `it_k = iter(an(entity(let(c, None), …)).evaluate())`: nothing runs yet -/
def SRun.start {σ} (q : Quirks) (S : Schema) (a : Alloc σ) (r : SRun σ) (k : Nat) (c : Cls) : SRun σ :=
  if r.iters.any (fun it => it.key == k) then r
  else { st := step q S a r.st (.mkq (iterKey k) c none), iters := r.iters ++ [{ key := k, cls := c }] }

/-- `next(it_k)` -/
def SRun.next {σ} (q : Quirks) (snap skipDead : Bool) (S : Schema) (a : Alloc σ) (r : SRun σ) (k : Nat) : SRun σ :=
  match r.iters.find? (fun it => it.key == k) with
  | none => r
  | some it =>
    let p := advance q snap skipDead S a r.st it
    { st := p.1, iters := r.iters.map (fun x => if x.key == k then p.2 else x) }

/-- a history: operations of the model interleaved with `next()` calls of any number of evaluations -/
inductive SOp where
  | op (o : Op)
  | start (k : Nat) (c : Cls)
  | next (k : Nat)

def stepSOp {σ} (q : Quirks) (snap skipDead : Bool) (S : Schema) (a : Alloc σ) (r : SRun σ) : SOp → SRun σ
  | .op o => r.between (step q S a r.st o)
  | .start k c => r.start q S a k c
  | .next k => r.next q snap skipDead S a k

def runSOps {σ} (q : Quirks) (snap skipDead : Bool) (S : Schema) (a : Alloc σ) (ops : List SOp) : SRun σ :=
  ops.foldl (stepSOp q snap skipDead S a) { st := St.init a }

/-- trigger of F-C13-3 read off a run: some evaluation met a late instance -/
def SRun.lateKnown {σ} (r : SRun σ) : Bool := r.iters.any (fun it => !it.late.isEmpty)

end KrroodVerif.SG
