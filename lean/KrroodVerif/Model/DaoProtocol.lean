import KrroodVerif.Model.Dao
/-!
M-DAO, second tie: the *conversion protocol* of `krrood/ormatic/dao.py` as a first-order table, and an interpreter
of such tables. Core Lean only.

`harness/translate/c04_translate.py` regenerates a `ProtocolTable` from the CURRENT Python AST on every run (per
direction: is the memo consulted first and keyed by what, is the new node registered before or after its fields are
converted, is the source kept alive, the guard of single-valued relationships, collection handling, scalar handling,
when fix-ups are applied, how a missing state is detected). `copyWith` interprets a table; `Props/C04Protocol.lean`
proves `ProtocolOk t → copyWith t = the proved copy (copyNode, quirk off)` for every environment, every heap and every
fuel, hence every theorem of `Props/C04.lean` (isomorphism, totality, round trip) holds for the interpretation of ANY
table that passes the decidable test `ProtocolOk` — and the kernel re-checks `ProtocolOk Translated.protocol` and
`Translated.protocol = Dao.protocol` on every run.

What the static heap model cannot express by itself is supplied by an *environment* of oracles (`Env`): which objects
are falsy (`__len__`/`__bool__`), which addresses the allocator reuses for an object that was freed, what happens to the
scalars of a node when a guard skips values. A table that is `ProtocolOk` never consults the oracles (that is the
content of the theorem); a table that is not may, and the counter-examples in `Props/C04Protocol.lean` show for each
conjunct of `ProtocolOk` an environment and a heap on which the interpretation is not an isomorphism.
-/
namespace KrroodVerif.Dao

/-- what the memo is keyed by -/
inductive MemoKey where
  /-- `id(obj)` -/
  | identity
  /-- the object itself (`__hash__` / `__eq__`): value-equal objects share an entry -/
  | equality
  deriving Repr, DecidableEq, Inhabited

/-- when the freshly allocated result is entered into the memo -/
inductive RegisterWhen where
  /-- `state.register(obj, result)` / `allocate_and_memoize` BEFORE the fields are converted -/
  | before
  /-- after the descent: a cycle is followed for ever, a node reachable twice below itself is converted twice -/
  | after
  | never
  deriving Repr, DecidableEq, Inhabited

/-- removal of repeated elements from a converted collection -/
inductive Dedup where
  | none
  /-- `x not in result` on the converted elements: `DataAccessObject.__eq__` / dataclass `==` (class and columns) -/
  | byEquality
  /-- `not any(x is y for y in result)` -/
  | byIdentity
  deriving Repr, DecidableEq, Inhabited

/-- how a missing state argument is detected -/
inductive StateInit where
  /-- `state = state or State()` -/
  | orIdiom
  /-- `if state is None: state = State()` -/
  | isNone
  deriving Repr, DecidableEq, Inhabited

/-- when `apply_circular_fixes` runs -/
inductive FixWhen where
  /-- the direction has no placeholders (the memo holds the final result from the start: `to_dao`) -/
  | notNeeded
  /-- after `__init__` (the constructor cannot overwrite what the fix-ups assign) -/
  | afterInit
  | beforeInit
  | never
  deriving Repr, DecidableEq, Inhabited

/-- the protocol of one direction -/
structure DirProto where
  stateInit : StateInit
  /-- the state class defines `__len__` / `__bool__`: an EMPTY state that was passed explicitly is falsy -/
  stateFalsy : Bool
  /-- the memo is consulted before anything is allocated -/
  memoFirst : Bool
  memoKey : MemoKey
  register : RegisterWhen
  /-- the state holds a reference to every memoised SOURCE (so that `id()` keys cannot be reused) -/
  keepAlive : Bool
  /-- guard of single-valued relationships -/
  singleGuard : Guard
  collDedup : Dedup
  /-- scalar columns: `none` = every value is copied (a `None` is passed explicitly); `some g` = values caught by
  the guard are skipped (the constructor's default is used instead) -/
  scalarGuard : Option Guard
  fixups : FixWhen
  /-- the list a fix-up re-assigns is built from the elements that survive this de-duplication -/
  fixDedup : Dedup
  /-- references resolved to the intermediate instance of an alternatively mapped node in progress are resolved
  again once the final object is in the memo (`deferred_fixes`, per value, re-registered while still in progress) -/
  deferredFix : Bool
  deriving Repr, DecidableEq, Inhabited

structure ProtocolTable where
  toD : DirProto
  fromD : DirProto
  deriving Repr, DecidableEq, Inhabited

/-- **the hand-read protocol of today's `dao.py`** (what `copyNode` transcribes) -/
def protocol : ProtocolTable :=
  { toD := { stateInit := .orIdiom, stateFalsy := false, memoFirst := true, memoKey := .identity,
             register := .before, keepAlive := true, singleGuard := .isNone, collDedup := .none,
             scalarGuard := none, fixups := .notNeeded, fixDedup := .none, deferredFix := false },
    fromD := { stateInit := .orIdiom, stateFalsy := false, memoFirst := true, memoKey := .identity,
               register := .before, keepAlive := true, singleGuard := .isNone, collDedup := .none,
               scalarGuard := none, fixups := .afterInit, fixDedup := .none, deferredFix := true } }

/-- what the heap model does not say by itself -/
structure Env where
  /-- `bool(obj)` is false (a mapped class with `__len__` that is empty, `__bool__`) -/
  falsy : Node → Bool
  /-- the allocator gave source `o` the address of an earlier source that was freed (possible only when the state
  does not keep its sources alive) -/
  reuse : Nat → Option Nat
  /-- the label of a converted node when the scalar values caught by the guard are skipped -/
  skip : Guard → Node → Node

/-- an environment in which nothing is falsy, no address is reused and skipping changes nothing -/
def Env.inert : Env := ⟨fun _ => false, fun _ => none, fun _ n => n⟩

/-- references to an alternatively mapped node in progress stay at the intermediate (`Params.quirk`) -/
def DirProto.stale (d : DirProto) : Bool :=
  match d.fixups with
  | .notNeeded => false
  | .afterInit => !d.deferredFix
  | _ => true

/-- an explicitly passed empty state is replaced by a private one at every top-level call -/
def DirProto.losesState (d : DirProto) : Bool := d.stateInit == .orIdiom && d.stateFalsy

/-- `state.get_existing(obj)` / `state.has(self)` -/
def memoFind (d : DirProto) (E : Env) (h : Heap) (memo : List (Nat × Nat)) (o : Nat) : Option Nat :=
  if !d.memoFirst then none
  else match d.memoKey with
    | .identity =>
      match memo.lookup o with
      | some f => some f
      | none => if d.keepAlive then none else (E.reuse o).bind fun k => memo.lookup k
    | .equality =>
      match memo.find? (fun p => h[p.1]? == h[o]?) with
      | some p => some p.2
      | none => none

/-- the converted elements of a collection after de-duplication (`out`: the result heap, for `==` on results) -/
def dedupBy (m : Dedup) (out : Heap) (ds : List Nat) : List Nat :=
  match m with
  | .none => ds
  | .byIdentity => dedupNat ds
  | .byEquality =>
    ds.foldl (fun acc x => if acc.any (fun y => (out[y]?).map (·.lab) == (out[x]?).map (·.lab)) then acc
                           else acc ++ [x]) []

/-- what ends up in a collection field -/
def collResult (d : DirProto) (out : Heap) (ds : List Nat) : List Nat :=
  let ds1 := dedupBy d.collDedup out ds
  if d.fixups == .afterInit then dedupBy d.fixDedup out ds1 else ds1

/-- a single-valued relationship whose target the guard takes for "no value" -/
def guardDrops (d : DirProto) (E : Env) (h : Heap) (t : Nat) : Bool :=
  match d.singleGuard with
  | .isNone => false
  | .truthy => match h[t]? with | some n => E.falsy n | none => false

def copyRefWith (d : DirProto) (E : Env) (h : Heap) (rec : Rec) : Ref → St → Option (Ref × St)
  | .none, st => some (.none, st)
  | .one t, st =>
    if guardDrops d E h t then some (.none, st)
    else match rec t st with
      | none => none
      | some (x, st1) => some (.one x, st1)
  | .many ts, st =>
    match copyList rec ts st with
    | none => none
    | some (ds, st1) => some (.many (collResult d st1.out ds), st1)

def copyRefsWith (d : DirProto) (E : Env) (h : Heap) (rec : Rec) : List Ref → St → Option (List Ref × St)
  | [], st => some ([], st)
  | r :: rs, st =>
    match copyRefWith d E h rec r st with
    | none => none
    | some (r', st1) =>
      match copyRefsWith d E h rec rs st1 with
      | none => none
      | some (rs', st2) => some (r' :: rs', st2)

/-- the scalars of a converted node under the table's scalar handling -/
def scalWith (d : DirProto) (E : Env) (n : Node) : Node :=
  match d.scalarGuard with
  | none => n
  | some g => E.skip g n

def regBefore (d : DirProto) (p : Nat × Nat) (memo : List (Nat × Nat)) : List (Nat × Nat) :=
  if d.register == .before then p :: memo else memo

def regAfter (d : DirProto) (p : Nat × Nat) (memo : List (Nat × Nat)) : List (Nat × Nat) :=
  if d.register == .after then p :: memo else memo

/-- **the interpreter**: `to_dao` / `from_dao` as the table `d` describes them; `conv` / `inter` as in `Params`. -/
def copyWith (d : DirProto) (E : Env) (conv : Node → Node) (inter : Node → Option Node) (h : Heap) :
    Nat → Nat → St → Option (Nat × St)
  | 0, _, _ => none
  | fuel + 1, o, st =>
    match memoFind d E h st.memo o with
    | some f =>
      if st.prog.contains f then
        some (if d.stale then f - 1 else f, { st with hits := st.hits + 1 })
      else some (f, st)
    | none =>
      match h[o]? with
      | none => none
      | some n =>
        let c := scalWith d E (conv n)
        match inter n with
        | none =>
          let x := st.out.length
          let st1 : St := { st with memo := regBefore d (o, x) st.memo, out := st.out ++ [c.withRefs []] }
          match copyRefsWith d E h (copyWith d E conv inter h fuel) n.refs st1 with
          | none => none
          | some (rs, st2) =>
            some (x, { st2 with memo := regAfter d (o, x) st2.memo, out := st2.out.set x (c.withRefs rs) })
        | some m =>
          let x := st.out.length
          let st1 : St := { st with memo := regBefore d (o, x + 1) st.memo,
                                    out := st.out ++ [m.withRefs [], c.withRefs []],
                                    prog := (x + 1) :: st.prog }
          match copyRefsWith d E h (copyWith d E conv inter h fuel) n.refs st1 with
          | none => none
          | some (rs, st2) =>
            some (x + 1, { st2 with memo := regAfter d (o, x + 1) st2.memo,
                                    out := (st2.out.set x (m.withRefs rs)).set (x + 1) (c.withRefs rs),
                                    prog := st2.prog.erase (x + 1) })

/-- the top-level calls, one after the other with the state the caller passes -/
def copyTop (d : DirProto) (rec : Rec) : List Nat → St → Option (List Nat × St)
  | [], st => some ([], st)
  | t :: ts, st =>
    match rec t (if d.losesState then { st with memo := [], prog := [] } else st) with
    | none => none
    | some (x, st1) =>
      match copyTop d rec ts st1 with
      | none => none
      | some (xs, st2) => some (x :: xs, st2)

def copyRootsWith (d : DirProto) (E : Env) (conv : Node → Node) (inter : Node → Option Node) (h : Heap)
    (roots : List Nat) : Option (List Nat × St) :=
  copyTop d (copyWith d E conv inter h (h.length + 1)) roots St.empty

def toDaoWith (t : ProtocolTable) (E : Env) (h : Heap) (roots : List Nat) : Option (List Nat × St) :=
  copyRootsWith t.toD E daoMk (fun _ => none) h roots

def fromDaoWith (t : ProtocolTable) (E : Env) (unmap : Label → Option Label) (dh : Heap) (roots : List Nat) :
    Option (List Nat × St) :=
  copyRootsWith t.fromD E (objMk unmap) objInter dh roots

/-- `to_dao(obj).from_dao()` as the table describes it -/
def roundTripWith (t : ProtocolTable) (E : Env) (unmap : Label → Option Label) (h : Heap) (roots : List Nat) :
    Option (List Nat × St) :=
  match toDaoWith t E h roots with
  | none => none
  | some (droots, st) => fromDaoWith t E unmap st.out droots

/-- tables up to what provably cannot matter: while the state class cannot be falsy, `state = state or State()` and
`if state is None: state = State()` are the same statement -/
def DirProto.canon (d : DirProto) : DirProto := if d.stateFalsy then d else { d with stateInit := .isNone }

def ProtocolTable.canon (t : ProtocolTable) : ProtocolTable := ⟨t.toD.canon, t.fromD.canon⟩

/-- **the decidable test**: the table properties the isomorphism proof needs -/
def DirProto.ok (d : DirProto) : Bool :=
  d.memoFirst && d.memoKey == .identity && d.keepAlive && d.register == .before
    && d.singleGuard == .isNone && d.collDedup == .none && d.scalarGuard == none
    && !d.losesState && !d.stale
    && (d.fixups != .afterInit || d.fixDedup == .none)

def ProtocolOk (t : ProtocolTable) : Prop := t.toD.ok = true ∧ t.fromD.ok = true

instance (t : ProtocolTable) : Decidable (ProtocolOk t) := by unfold ProtocolOk; infer_instance

end KrroodVerif.Dao
