/-!
M-PRED — predicates and symbolic functions (`predicate.py`: `merge_args_and_kwargs`, `symbolic_function`,
`Predicate.__new__`; `symbolic.py`: `_any_of_the_kwargs_is_a_variable`, `Variable._update_child_vars_from_kwargs_`,
`Variable._evaluate__`, `_instantiate_using_child_vars_and_yield_results_`, `_process_output_and_update_values_`;
`utils.py`: `generate_combinations`). Core Lean only.

Python → model:
* a Python `dict` with string keys is an association list in insertion order (`Dict`); `d[k] = v` is `Dict.set`
  (replace in place or append), `d.update(e)` is `Dict.update`, a dict comprehension is `Dict.ofPairs`.
* `merge_args_and_kwargs(function, args, kwargs, ignore_first)` is `mergeArgs names ignoreFirst args kwargs` where
  `names = list(inspect.signature(function).parameters)`.
* CPython's own binding of a call `f(*args, **kwargs)` to positional-or-keyword and keyword-only parameters with
  defaults is `bind`
  (= `inspect.Signature.bind(...).arguments`) followed by `applyDefaults`; this is the *specification* of argument
  passing and also what every real invocation (`function(*args, **kwargs)`, `self._type_(**kwargs)`) does.
* an argument written at a call site is `Arg.lit v` (an ordinary object, identified by a number) or `Arg.var i k`:
  the query variable `i` itself (`k = 0`) or an expression over it that the engine maps per candidate — `x.attr`,
  `x.method()`, `x.items[0]` (`k > 0`; `Attribute` / `Call` / `Index` nodes, which bind `x` and yield the mapped value)
  (a query variable); `isSymbolic` is `_any_of_the_kwargs_is_a_variable`.
* evaluating the condition: every child (`Literal` or variable) is evaluated from the incoming bindings
  (`candidates`), `generate_combinations` is `itertools.product` of those *independently evaluated* children
  (`combosIndependent`; quirk `childVarsIndependent`), the callable is invoked with `**kwargs` once per combination,
  and the result is true iff `bool(result)`.
-/
namespace KrroodVerif.Pred

instance instDecEqExcept {ε α : Type} [DecidableEq ε] [DecidableEq α] : DecidableEq (Except ε α) := fun a b =>
  match a, b with
  | .ok x, .ok y => if h : x = y then isTrue (by rw [h]) else isFalse (fun h' => h (by cases h'; rfl))
  | .error x, .error y => if h : x = y then isTrue (by rw [h]) else isFalse (fun h' => h (by cases h'; rfl))
  | .ok _, .error _ => isFalse (fun h => by cases h)
  | .error _, .ok _ => isFalse (fun h => by cases h)

/-! ### Python dicts with string keys -/

abbrev Dict (α : Type) := List (String × α)

namespace Dict
variable {α β : Type}

/-- `d[k] = v` -/
def set : Dict α → String → α → Dict α
  | [], k, v => [(k, v)]
  | (k', v') :: r, k, v => if k' = k then (k', v) :: r else (k', v') :: set r k v

/-- `d.update(e)` -/
def update (d e : Dict α) : Dict α := e.foldl (fun acc kv => acc.set kv.1 kv.2) d

/-- `{k: v for k, v in pairs}` -/
def ofPairs (pairs : List (String × α)) : Dict α := update [] pairs

/-- `d.get(k)` -/
def get? (d : Dict α) (k : String) : Option α := List.lookup k d

def keys (d : Dict α) : List String := d.map (·.1)
def vals (d : Dict α) : List α := d.map (·.2)
def mapVals (f : α → β) (d : Dict α) : Dict β := d.map (fun kv => (kv.1, f kv.2))

end Dict

/-- two Python dicts are equal: no duplicate keys, same key → value map -/
def DictEq {α : Type} (d₁ d₂ : Dict α) : Prop := d₁.keys.Nodup ∧ d₂.keys.Nodup ∧ ∀ k, d₁.get? k = d₂.get? k

/-! ### `merge_args_and_kwargs` -/

/-- transcription of `merge_args_and_kwargs` (`predicate.py:167-188`):
`starting_index = 1 if ignore_first else 0; all_kwargs = {name: arg for name, arg in zip(names[starting_index:], args)};
all_kwargs.update(kwargs)` -/
def mergeArgs {α : Type} (names : List String) (ignoreFirst : Bool) (args : List α) (kwargs : Dict α) : Dict α :=
  let startingIndex := if ignoreFirst then 1 else 0
  (Dict.ofPairs ((names.drop startingIndex).zip args)).update kwargs

/-! ### Python's own argument binding (the specification of argument passing) -/

/-- a positional-or-keyword parameter, or (`kwOnly`) a keyword-only parameter (`def f(a, *, b, c=3)`, a dataclass field
with `kw_only=True`), possibly with a default value. Python's grammar puts the keyword-only parameters last. -/
structure Param where
  name : String
  dflt : Option Nat
  kwOnly : Bool := false
  deriving DecidableEq, Repr

/-- how many arguments can be passed positionally: the parameters in front of the first keyword-only one -/
def posCapacity (ps : List Param) : Nat := (ps.takeWhile (fun p => !p.kwOnly)).length

/-- the ways CPython rejects a call (all are `TypeError`) -/
inductive BindErr where
  | tooManyPositional
  | multipleValues
  | unexpectedKeyword
  | missingArgument
  deriving DecidableEq, Repr

/-- parameters in order, remaining positional arguments; `look` is the keyword dictionary's lookup -/
def bindAux {α : Type} (look : String → Option α) : List Param → List α → Except BindErr (Dict α)
  | [], [] => .ok []
  | [], _ :: _ => .error .tooManyPositional
  | p :: ps, a :: as =>
    match look p.name with
    | some _ => .error .multipleValues
    | none =>
      match bindAux look ps as with
      | .ok r => .ok ((p.name, a) :: r)
      | .error e => .error e
  | p :: ps, [] =>
    match look p.name with
    | some v =>
      (match bindAux look ps [] with
       | .ok r => .ok ((p.name, v) :: r)
       | .error e => .error e)
    | none => if p.dflt.isSome then bindAux look ps [] else .error .missingArgument

/-- `inspect.signature(f).bind(*args, **kwargs).arguments` for positional-or-keyword and keyword-only parameters:
a positional argument never reaches a keyword-only parameter ("takes n positional arguments but m were given"); a
keyword-only parameter is filled by keyword, by its default, or is missing -/
def bind {α : Type} (ps : List Param) (args : List α) (kwargs : Dict α) : Except BindErr (Dict α) :=
  if posCapacity ps < args.length then .error .tooManyPositional
  else if kwargs.keys.all (fun k => (ps.map (·.name)).contains k) then bindAux kwargs.get? ps args
  else .error .unexpectedKeyword

def Except.isOk' {ε α : Type} : Except ε α → Bool
  | .ok _ => true
  | .error _ => false

/-- `BoundArguments.apply_defaults()`, as the tuple of parameter values the body sees -/
def applyDefaults {α : Type} (inj : Nat → α) (ps : List Param) (b : Dict α) : List α :=
  ps.map (fun p => (b.get? p.name).getD (inj (p.dflt.getD 0)))

/-- the values the body of `f` sees on `f(*args, **kwargs)`, or the `TypeError` -/
def callSpec {α : Type} (inj : Nat → α) (ps : List Param) (args : List α) (kwargs : Dict α) : Except BindErr (List α) :=
  match bind ps args kwargs with
  | .ok b => .ok (applyDefaults inj ps b)
  | .error e => .error e

/-- `f(**kwargs)` on ordinary values -/
def invokeKw (ps : List Param) (kwargs : Dict Nat) : Except BindErr (List Nat) := callSpec id ps [] kwargs

/-! ### call sites -/

/-- an argument as written at the call site: an ordinary object, or variable `i` seen through accessor `k`
(`k = 0`: the variable itself; `k > 0`: `x.attr`, `x.method()`, `x.items[0]`, … — all `CanBehaveLikeAVariable`) -/
inductive Arg where
  | lit (v : Nat)
  | var (i : Nat) (k : Nat)
  deriving DecidableEq, Repr

def Arg.isVar : Arg → Bool
  | .var _ _ => true
  | .lit _ => false

/-- the argument is an expression over variable `i` -/
def Arg.mentions (i : Nat) : Arg → Bool
  | .var j _ => j == i
  | .lit _ => false

/-- `_any_of_the_kwargs_is_a_variable` (`symbolic.py:1837`) -/
def isSymbolic (d : Dict Arg) : Bool := d.any (fun kv => kv.2.isVar)

/-- `symFn`: a callable decorated with `@symbolic_function` — a plain function, or a method, in which case
`params` starts with `self` and `pos` starts with the receiver, exactly as the wrapper sees them.
`pred`: a `Predicate` subclass; `params` are the dataclass fields (`cls.__init__` without `self`). -/
inductive Kind where
  | symFn
  | pred
  deriving DecidableEq, Repr

/-- documented deviations of the unchanged tree (DESIGN §2.4) -/
structure Quirks where
  /-- F-C12-1: `symbolic_function` calls `merge_args_and_kwargs` with the default `ignore_first=True` -/
  symFnIgnoresFirst : Bool
  /-- F-C12-2: `generate_combinations` multiplies *independently* evaluated children, so a variable written in two
  argument positions is enumerated twice -/
  childVarsIndependent : Bool
  /-- F-C12-3: neither `symbolic_function.wrapper` nor `Predicate.__new__` binds the call as written before merging:
  a call Python itself rejects (too many positionals, a parameter passed positionally and by keyword, a keyword-only
  parameter passed positionally) is accepted when a variable survives the merge and the merged dictionary happens to
  be a valid keyword call -/
  acceptsRejected : Bool
  deriving DecidableEq, Repr

def Quirks.none : Quirks := ⟨false, false, false⟩
def Quirks.today : Quirks := ⟨true, true, true⟩

structure Call where
  kind : Kind
  params : List Param
  pos : List Arg
  kw : Dict Arg
  deriving DecidableEq, Repr

def Call.paramNames (c : Call) : List String := c.params.map (·.name)

/-- what Python itself guarantees about a call site: parameter names are distinct (else `SyntaxError`) and no
keyword is repeated -/
structure Call.WF (c : Call) : Prop where
  names_nodup : c.paramNames.Nodup
  kw_nodup : c.kw.keys.Nodup

/-- the parameter names krrood inspects: `function` itself, or `cls.__init__` (which starts with `self`) -/
def Call.inspectedNames (c : Call) : List String :=
  match c.kind with
  | .symFn => c.paramNames
  | .pred => "self" :: c.paramNames

/-- the `ignore_first` flag at the two call sites of `merge_args_and_kwargs` -/
def ignoreFirst (q : Quirks) : Kind → Bool
  | .symFn => q.symFnIgnoresFirst
  | .pred => true

def Call.merged (q : Quirks) (c : Call) : Dict Arg :=
  mergeArgs c.inspectedNames (ignoreFirst q c.kind) c.pos c.kw

/-- all arguments written at the call site, in source order -/
def Call.written (c : Call) : List Arg := c.pos ++ c.kw.vals

def Call.hasVar (c : Call) : Bool := c.written.any Arg.isVar

inductive Dispatch where
  /-- executed immediately: the parameter values the body saw, or the `TypeError` of the call -/
  | concrete (r : Except BindErr (List Arg))
  /-- a condition (`Variable` with `_kwargs_ = d`), nothing executed -/
  | symbolic (d : Dict Arg)
  deriving DecidableEq, Repr

/-- `symbolic_function.wrapper` / `Predicate.__new__` (followed by `__init__` for the concrete case). With quirk
`acceptsRejected` off the call as written is bound first (`inspect.signature(function).bind(*args, **kwargs)`), so a
call Python rejects raises its `TypeError` at once. -/
def dispatch (q : Quirks) (c : Call) : Dispatch :=
  let d := c.merged q
  if !q.acceptsRejected && !Except.isOk' (bind c.params c.pos c.kw) then
    .concrete (callSpec Arg.lit c.params c.pos c.kw)
  else if isSymbolic d then .symbolic d else .concrete (callSpec Arg.lit c.params c.pos c.kw)

/-! ### evaluation of the condition -/

/-- bindings of variable ids (`sources`) -/
abbrev Env := Nat → Option Nat

def Env.empty : Env := fun _ => none
def Env.set (e : Env) (i v : Nat) : Env := fun j => if j = i then some v else e j

/-- the value an argument denotes under bindings -/
def subst (e : Env) : Arg → Nat
  | .lit v => v
  | .var i _ => (e i).getD 0

/-- The state of the world at one evaluation: candidate objects are identified by a number that never changes
(their identity) and carry a mutable state that the accessors and the body read. -/
abbrev World := Nat → Nat

/-- what accessor `k` returns for an object in state `s` (a fresh temporary in the harness) -/
def view (k s : Nat) : Nat := s + 100 * k

/-- the Python value passed for an argument whose candidate object is `o`: a literal is itself, a variable is the
CURRENT state of the candidate seen through the accessor -/
def argValue (w : World) : Arg → Nat → Nat
  | .lit v, _ => v
  | .var _ k, o => view k (w o)

/-- the value an argument denotes under bindings `e` in world `w` -/
def substW (w : World) (e : Env) (a : Arg) : Nat := argValue w a (subst e a)

/-- `child._evaluate__(sources)`: a literal yields its value, a bound variable its binding, an unbound one its domain -/
def candidates (doms : Nat → List Nat) (e : Env) : Arg → List Nat
  | .lit v => [v]
  | .var i _ => match e i with
    | some v => [v]
    | none => doms i

/-- `itertools.product` -/
def product {α : Type} : List (List α) → List (List α)
  | [] => [[]]
  | xs :: r => xs.flatMap (fun x => (product r).map (x :: ·))

/-- `_process_output_and_update_values_`: `for d in kwargs.values(): values.update(d.bindings)` -/
def bindEnv (e : Env) : List Arg → List Nat → Env
  | .var i _ :: as, v :: vs => bindEnv (e.set i v) as vs
  | .lit _ :: as, _ :: vs => bindEnv e as vs
  | _, _ => e

/-- `generate_combinations` of today: every child evaluated from the *same* incoming bindings -/
def combosIndependent (doms : Nat → List Nat) (e : Env) (args : List Arg) : List (List Nat × Env) :=
  (product (args.map (candidates doms e))).map (fun vs => (vs, bindEnv e args vs))

/-- quirk `childVarsIndependent` off: each child evaluated from the bindings extended by the children before it -/
def combosChained (doms : Nat → List Nat) : List Arg → Env → List (List Nat × Env)
  | [], e => [([], e)]
  | .lit v :: r, e => (combosChained doms r e).map (fun p => (v :: p.1, p.2))
  | .var i _ :: r, e =>
    match e i with
    | some v => (combosChained doms r e).map (fun p => (v :: p.1, p.2))
    | none => (doms i).flatMap (fun v => (combosChained doms r (e.set i v)).map (fun p => (v :: p.1, p.2)))

def combos (q : Quirks) (doms : Nat → List Nat) (e : Env) (args : List Arg) : List (List Nat × Env) :=
  if q.childVarsIndependent then combosIndependent doms e args else combosChained doms args e

/-- what the property observes of one evaluation -/
structure Obs where
  /-- one entry per invocation: the parameter values the body saw -/
  log : List (List Nat)
  /-- the bindings of the selected variables for which the condition held -/
  rows : List (List Nat)
  deriving DecidableEq, Repr

def Obs.append (a b : Obs) : Obs := ⟨a.log ++ b.log, a.rows ++ b.rows⟩

/-- first error aborts (an exception leaves the generator) -/
def sequence {ε α : Type} : List (Except ε α) → Except ε (List α)
  | [] => .ok []
  | .error e :: _ => .error e
  | .ok a :: r => match sequence r with
    | .ok as => .ok (a :: as)
    | .error e => .error e

def rowOf (sel : List Nat) (e : Env) : List Nat := sel.map (fun i => (e i).getD 0)

/-- the rows the engine produces for the selected variables from one true result: a selected variable that the
condition did not bind (possible only when quirk F-C12-1 drops an argument) is enumerated over its domain -/
def rowsOf (doms : Nat → List Nat) (sel : List Nat) (e : Env) : List (List Nat) :=
  product (sel.map (fun i => match e i with
    | some v => [v]
    | none => doms i))

/-- the observation made from a list of (bound parameter tuple, bindings) -/
def observe (body : List Nat → Nat) (neg : Bool) (rows : Env → List (List Nat)) (calls : List (List Nat × Env)) : Obs :=
  { log := calls.map (·.1)
    rows := (calls.filter (fun c => (body c.1 != 0) != neg)).flatMap (fun c => rows c.2) }

/-- one invocation `self._type_(**kwargs)` for one combination of child results: every child contributes the value
it denotes NOW (`argValue`), the callable is really invoked -/
def invokeOne (w : World) (ps : List Param) (keys : List String) (args : List Arg) (c : List Nat × Env) :
    Except BindErr (List Nat × Env) :=
  match invokeKw ps (keys.zip (List.zipWith (argValue w) args c.1)) with
  | .ok t => .ok (t, c.2)
  | .error err => .error err

/-- `_instantiate_using_child_vars_and_yield_results_` from bindings `e` in world `w` (under `not_` when `neg`): one
invocation per combination; true iff `bool(result)`. Nothing is remembered between combinations or evaluations. -/
def evalSym (q : Quirks) (w : World) (ps : List Param) (d : Dict Arg) (doms : Nat → List Nat) (e : Env)
    (body : List Nat → Nat) (neg : Bool) (sel : List Nat) : Except BindErr Obs :=
  match sequence ((combos q doms e d.vals).map (invokeOne w ps d.keys d.vals)) with
  | .ok calls => .ok (observe body neg (rowsOf doms sel) calls)
  | .error err => .error err

/-! ### the whole experiment: construct the call, put it in a query, evaluate -/

/-- distinct variables of an argument list in order of first occurrence, skipping those in `seen` -/
def freeVars : List Arg → List Nat → List Nat
  | [], _ => []
  | .lit _ :: r, seen => freeVars r seen
  | .var i _ :: r, seen => if i ∈ seen then freeVars r seen else i :: freeVars r (i :: seen)

/-- all bindings extending `e` by values for `vars` (first variable outermost) -/
def assignsFrom (doms : Nat → List Nat) (e : Env) : List Nat → List Env
  | [] => [e]
  | i :: r => (doms i).flatMap (fun v => assignsFrom doms (e.set i v) r)

structure Experiment where
  call : Call
  doms : Nat → List Nat
  /-- variables already bound by a conjunct to the left of the call: `and_(HasType(p, T)…, call)` -/
  pre : List Nat
  /-- the call stands under `not_` -/
  neg : Bool
  /-- the (pure) body of the function / `__call__`, as a function of the parameter values -/
  body : List Nat → Nat
  /-- the current state of the candidate objects (identity → state) -/
  world : World := id

/-- the selected variables: every variable written in the call, in order of first occurrence -/
def Experiment.sel (x : Experiment) : List Nat := freeVars x.call.written []

inductive Outcome where
  | concrete (r : Except BindErr (List Arg))
  | symbolic (r : Except BindErr Obs)
  /-- specification only: Python itself rejects the call -/
  | invalid
  deriving DecidableEq, Repr

def concatObs : List Obs → Obs := fun l => l.foldr Obs.append ⟨[], []⟩

/-- model of the code: construct, and if a condition came back evaluate `an(set_of(sel, and_(pre…, [not_] call)))` -/
def run (q : Quirks) (x : Experiment) : Outcome :=
  match dispatch q x.call with
  | .concrete r => .concrete r
  | .symbolic d =>
    .symbolic (match sequence ((assignsFrom x.doms Env.empty x.pre).map (fun e =>
        evalSym q x.world x.call.params d x.doms e x.body x.neg x.sel)) with
      | .ok os => .ok (concatObs os)
      | .error err => .error err)

/-- **Specification.** Python accepts the call (else nothing is claimed). No variable written: executed
immediately, the body sees Python's binding. Some variable written: nothing executed; evaluation invokes the body
once per candidate binding of the distinct variables, each parameter bound (by Python's binding of the call as
written) to the CURRENT value of the argument written in its position (`substW`: the candidate's state now, seen
through the accessor written there); the binding is a result iff the body's value is truthy
(falsy under `not_`). -/
def spec (x : Experiment) : Outcome :=
  match bind x.call.params x.call.pos x.call.kw with
  | .error _ => .invalid
  | .ok b =>
    if x.call.hasVar then
      .symbolic (.ok (observe x.body x.neg (fun e => [rowOf x.sel e])
        ((assignsFrom x.doms Env.empty (x.pre ++ freeVars x.call.written x.pre)).map
          (fun e => (applyDefaults id x.call.params (b.mapVals (substW x.world e)), e)))))
    else .concrete (.ok (applyDefaults Arg.lit x.call.params b))

/-- What the property demands of a call Python rejects (`spec = .invalid`): the `TypeError` of the concrete call is
raised at the call or by the evaluation - the body never runs and nothing is returned. -/
def Outcome.rejected : Outcome → Bool
  | .concrete (.error _) => true
  | .symbolic (.error _) => true
  | .symbolic (.ok o) => o.log.isEmpty && o.rows.isEmpty
  | _ => false

/-- Class-level knobs of the callable (`ClassVar`s of the `Predicate` subclass such as `is_expensive`, attributes of the
function): the code reads none of them during construction or evaluation. -/
abbrev Knobs := List (String × Bool)

/-- Model of "evaluate the (same) query object now", after the worlds in `history` were evaluated before with the
same query object: the condition node keeps nothing from one evaluation to the next and reads no knob, so the
outcome is `run` in the current world `x.world`. -/
def evalAfter (q : Quirks) (_knobs : Knobs) (_history : List World) (x : Experiment) : Outcome := run q x

/-- the model of a whole history: the query is built once and evaluated in every world of `ws` in turn -/
def runHistory (q : Quirks) (knobs : Knobs) (x : Experiment) : List World → List World → List Outcome
  | _, [] => []
  | before, w :: r => evalAfter q knobs before { x with world := w } :: runHistory q knobs x (before ++ [w]) r

/-- specification of a history: every evaluation is judged by the concrete calls in ITS world -/
def specHistory (x : Experiment) (ws : List World) : List Outcome := ws.map (fun w => spec { x with world := w })

/-! ### triggers of the open findings (decidable predicates on the input) -/

/-- F-C12-1: a `@symbolic_function` callable receives a positional argument (for a method: always, the receiver)
and some argument is a variable -/
def trigPositional (c : Call) : Bool :=
  c.kind == .symFn && !c.pos.isEmpty && c.hasVar

/-- some variable not bound before occurs twice -/
def sharesUnbound (bound : Nat → Bool) : List Arg → Bool
  | [] => false
  | .lit _ :: r => sharesUnbound bound r
  | .var i _ :: r => if bound i then sharesUnbound bound r else r.any (Arg.mentions i) || sharesUnbound bound r

/-- F-C12-2: a variable that no conjunct to the left has bound is written in two argument positions -/
def trigShared (x : Experiment) : Bool :=
  sharesUnbound (fun i => x.pre.contains i) x.call.written

/-- F-C12-3: Python rejects the call as written, yet a variable survives the merge and the merged dictionary, passed
by keyword (`self._type_(**kwargs)`), is a call Python accepts: the surplus / shadowed / misplaced argument is lost
silently -/
def trigRejected (c : Call) : Bool :=
  !Except.isOk' (bind c.params c.pos c.kw) && isSymbolic (c.merged Quirks.none)
    && Except.isOk' (bind c.params [] (c.merged Quirks.none))

/-! ### `isinstance(value, <class>)` on written arguments (for the decision regenerated from the source) -/

/-- direct bases per class, as written in `class X(B1[T], B2):` (subscripts dropped) -/
abbrev ClassTable := List (String × List String)

def isSubclassFuel (t : ClassTable) : Nat → String → String → Bool
  | 0, a, b => a == b
  | n + 1, a, b => a == b || ((t.lookup a).getD []).any (fun p => isSubclassFuel t n p b)

/-- `issubclass(a, b)` by the class statements of `symbolic.py` (the MRO only adds `object`, which is no key) -/
def isSubclass (t : ClassTable) (a b : String) : Bool := isSubclassFuel t t.length a b

/-- the krrood class of the object a written argument is: an ordinary object, a `Variable` (`let(...)`), or the node
the accessor builds (`x.att`, `x.box.inner`: `Attribute`; `x.items[0]`: `Index`; `x.get()`, `x.plus(1, by=99)`: `Call`) -/
def Arg.pyClass : Arg → String
  | .lit _ => "object"
  | .var _ k => if k = 0 then "Variable" else if k = 1 ∨ k = 4 then "Attribute" else if k = 3 then "Index" else "Call"

/-- `isinstance(a, cls)` -/
def isInstance (t : ClassTable) (a : Arg) (cls : String) : Bool := isSubclass t a.pyClass cls

/-! ### query frames that write the SAME condition object twice (if / else) -/

/-- The if/else frame `or_(and_(c', A), and_(not_(c'), B))` around the condition `c' = [not_] call`: `A` and `B` are
guards over the same variables as the call that hold (`true`) or do not hold (`false`) for every candidate. Both
operands of the `or_` mention the same variables, so `optimize_or` builds an `ElseIf`: the right operand is evaluated
only from the bindings of a false result of the left one. -/
structure Frame where
  thenHolds : Bool
  elseHolds : Bool
  deriving DecidableEq, Repr

/-- The observation of the framed query, from the observation `pos` of `and_(pre…, c')` and `negd` of
`and_(pre…, not_(c'))`. The left operand instantiates the call once per candidate binding (the log of `pos`); the second
occurrence of the SAME condition object is met with the bindings of the first (`Variable._evaluate__`, branch
`self._id_ in sources`): its truth is read from the binding, the callable is NOT invoked again - the log stays
`pos.log`. A candidate is a result iff the call holds and `A` does, or the call does not hold and `B` does. -/
def Obs.framed (f : Frame) (pos negd : Obs) : Obs :=
  { log := pos.log
    rows := (if f.thenHolds then pos.rows else []) ++ (if f.elseHolds then negd.rows else []) }

/-- a call that is executed immediately, is rejected, or whose evaluation raises is not changed by the frame -/
def Outcome.framed (f : Frame) : Outcome → Outcome → Outcome
  | .symbolic (.ok a), .symbolic (.ok b) => .symbolic (.ok (Obs.framed f a b))
  | o, _ => o

/-- model of a history of the framed query (the query object is built once, evaluated in every world) -/
def runFramedHistory (q : Quirks) (knobs : Knobs) (f : Frame) (x : Experiment) (before ws : List World) : List Outcome :=
  List.zipWith (Outcome.framed f) (runHistory q knobs x before ws)
    (runHistory q knobs { x with neg := !x.neg } before ws)

/-- specification of the framed query: per world, the candidates for which "if the concrete call holds then A else B" -/
def specFramedHistory (f : Frame) (x : Experiment) (ws : List World) : List Outcome :=
  List.zipWith (Outcome.framed f) (specHistory x ws) (specHistory { x with neg := !x.neg } ws)

end KrroodVerif.Pred
