/-!
# M-ORM / SqlTr — the EQL → SQL translator (`krrood/ormatic/eql_interface.py`) and both evaluation worlds

Core Lean only (linked into the native driver).

* `Expr`/`Query`      — the EQL condition AST of the fragment the property quantifies over, plus one
                        constructor per construct *outside* the translator's dispatch.
* `translate`         — transcription of `EQLTranslator.translate / translate_query / translate_and /
                        translate_or / translate_comparator / _handle_attribute_equality_join /
                        _handle_contains_operator / translate_attribute / _walk_attribute_chain /
                        _apply_relationship_join` (what is accepted, what raises `EQLTranslationError`,
                        what escapes with another exception today).
* `execSql`           — relational semantics of the produced statement: polymorphic select of the root class,
                        one aliased INNER JOIN per relationship path, attribute-equality joins, WHERE under SQL
                        three-valued logic.  (SQL execution itself is SQLAlchemy's and SQLite's: assumed, validated
                        by the correspondence, never proved.)
* `evalMem`           — the in-memory reference semantics (`an(entity(x, cond)).evaluate()` over the python objects):
                        the selected objects for which some assignment of the other variables satisfies the condition,
                        with Python's `==`/`!=`/ordering/`in`/truthiness on the attribute values.

Representation notes (each is behaviour preserving, and is what the correspondence checks):

* Objects and rows share one store `DB` (object `i` ↔ row `i`: that is `to_dao` + flush, the subject of C04/C05).
  Relationship targets are assumed well typed (a FK always points into the target class's table), so the join to the
  *aliased target class* never drops a row whose FK is non-NULL.
* `JoinManager.aliases_by_path` is keyed by `(dao_class | alias, attribute)`.  An alias is created exactly once per
  key, so aliases are in bijection with `(class of the variable, relationship path from it)`; the model keys joins by
  that pair (`Join`).  A column reference is `(hops, column)`: the column `column` of the alias reached by `hops`
  (`hops = []`: the un-aliased DAO class itself).
* **Columns are resolved BY CLASS (defect F-C07-1).**  `translate_attribute` starts from `get_dao_class(type of the
  chain's variable)`, never from the variable: an un-aliased class column denotes the select's own FROM element
  whenever that column's table belongs to the selected class's joined-inheritance chain.  So a chain on a *second*
  variable of the same class (or of a class sharing the declaring table) silently reads the *selected* row.  The model
  does exactly that (`ColRef` has no variable), and sets the flag `byClass`.  Chains on another variable whose first
  attribute is declared *outside* the selected class's ancestry (implicit cross joins, SQL errors) are outside the model:
  `Fail.outsideModel` — the harness never generates them and no theorem speaks about them.
* Exceptions that are not `EQLTranslationError` (`set_of` → AttributeError, Index/Call/Flatten operand →
  ArgumentError, equality join of the selected class with itself → InvalidRequestError at execution) are `Fail.escape`
  (defect F-C07-3).  Their relative order with `EQLTranslationError`s of *other* atoms of the same query is not modelled
  (the harness never mixes them; the self-join is only generated among hop-free atoms).
* String columns hold the RANK of the string in a code-point sorted table (equality, order and membership are preserved by
  the ranking); the substring tests (`Expr.substr`) carry that table (`StrTab`) to decode ranks: `contains("lit", attr)` and
  `contains(attr, attr)` and (since fix 20e7107) `contains(attr, "lit")` are `instr(c, i) > 0` (exact); before the fix the
  last one was `attr LIKE '%' || lit || '%'` with SQLite's LIKE (`sqlLike`: ASCII case-insensitive, `%`/`_` wildcards, no
  ESCAPE) — defect F-C07-5, repaired.
* `evalMem` quantifies the non-selected variables existentially over their whole domains; the engine binds them lazily,
  which is the same set of answers as long as every variable's domain is non-empty (the harness guarantees it).
-/
namespace KrroodVerif.SqlTr

abbrev Cls := String
abbrev Attr := String

/-! ## Schema (what ORMatic mapped: joined-table inheritance, scalar columns, many-to-one relationships) -/

structure ClassDecl where
  name : Cls
  parent : Option Cls
  cols : List Attr
  rels : List (Attr × Cls)
  deriving Repr, DecidableEq

abbrev Schema := List ClassDecl

def findClass (S : Schema) (c : Cls) : Option ClassDecl := S.find? (fun d => d.name == c)

/-- `c` and its ancestors, nearest first (fuel = number of classes). -/
def ancestorsAux (S : Schema) : Nat → Cls → List Cls
  | 0, c => [c]
  | n + 1, c =>
    c :: (match (findClass S c).bind (·.parent) with
          | some p => ancestorsAux S n p
          | none => [])

def ancestors (S : Schema) (c : Cls) : List Cls := ancestorsAux S S.length c

/-- `isinstance` / polymorphic identity: `c` is `d` or a subclass of it. -/
def isSub (S : Schema) (c d : Cls) : Bool := (ancestors S c).contains d

/-- `mapper.relationships.get(name)` (inherited relationships included): target class. -/
def relTarget (S : Schema) (c : Cls) (a : Attr) : Option Cls :=
  (ancestors S c).findSome? fun k => (findClass S k).bind fun d => d.rels.lookup a

/-- the class of `c`'s ancestry that declares attribute `a` (column or relationship). -/
def declaringClass (S : Schema) (c : Cls) (a : Attr) : Option Cls :=
  (ancestors S c).find? fun k =>
    match findClass S k with
    | some d => d.cols.contains a || (d.rels.lookup a).isSome
    | none => false

/-- `hasattr(dao, name)` for a mapped scalar column. -/
def hasCol (S : Schema) (c : Cls) (a : Attr) : Bool :=
  (ancestors S c).any fun k =>
    match findClass S k with
    | some d => d.cols.contains a
    | none => false

/-! ## Store -/

structure Obj where
  cls : Cls
  vals : List (Attr × Option Int)   -- scalar attributes; `none` = `None` / NULL
  refs : List (Attr × Option Nat)   -- many-to-one relationships; `none` = `None` / NULL foreign key
  deriving Repr, DecidableEq

abbrev DB := List Obj

inductive Val where
  | null
  | num (n : Int)
  | ref (i : Nat)
  deriving Repr, DecidableEq

/-- `getattr(obj, a)`; `none` = AttributeError. -/
def Obj.get? (o : Obj) (a : Attr) : Option Val :=
  match o.refs.lookup a with
  | some (some i) => some (.ref i)
  | some none => some .null
  | none =>
    match o.vals.lookup a with
    | some (some n) => some (.num n)
    | some none => some .null
    | none => none

/-- follow relationship hops from object `i`; `none` = a hop is `None`/NULL (or not a relationship). -/
def navObj (db : DB) : Nat → List Attr → Option Nat
  | i, [] => some i
  | i, a :: rest =>
    match (db[i]?).bind (·.get? a) with
    | some (.ref j) => navObj db j rest
    | _ => none

/-- value of column/attribute `a` of the object reached from `i` by `hops`. -/
def colVal (db : DB) (i : Nat) (hops : List Attr) (a : Attr) : Option Val :=
  (navObj db i hops).bind fun j => (db[j]?).bind (·.get? a)

/-- indices of the objects that are instances of `c` (`let(type_, domain)` filters by isinstance;
`select(DAO_c)` is polymorphic). -/
def rootsOf (S : Schema) (db : DB) (c : Cls) : List Nat :=
  (List.range db.length).filter fun i =>
    match db[i]? with
    | some o => isSub S o.cls c
    | none => false

/-! ## EQL condition AST -/

inductive Cmp where
  | eq | ne | lt | le | gt | ge
  deriving Repr, DecidableEq

/-- `var.a1.a2…an` (`path` non-empty for a real Attribute node). -/
structure Chain where
  var : Nat
  path : List Attr
  deriving Repr, DecidableEq

/-- operands the translator has no case for -/
inductive OtherOperand where
  | index | call | flatten      -- `x.a[0]`, `x.a.m()`, `flatten(x.a)`: pass through untranslated → ArgumentError
  | selfVar | objLit | nested   -- a bare Variable / an object literal / a nested query: outside the model
  deriving Repr, DecidableEq

inductive Operand where
  | chain (c : Chain)
  | lit (v : Option Int)
  | other (k : OtherOperand)
  deriving Repr, DecidableEq

/-- table decoding the ranks of string values/literals (strings as character lists; rank k ↦ entry k-1) -/
abbrev StrTab := List (List Char)

/-- operand of a substring test: an attribute chain (a string column) or a string literal, given by its rank -/
inductive SOperand where
  | chain (c : Chain)
  | lit (rank : Nat)
  deriving Repr, DecidableEq

inductive Expr where
  | and (l r : Expr)
  | or (l r : Expr)
  | cmp (op : Cmp) (l r : Operand)
  /-- `in_(item, [v…])` = `contains([v…], item)` = `Comparator(Literal([v…]), item, operator.contains)` -/
  | isIn (item : Operand) (vs : List (Option Int))
  /-- a bare attribute used as a condition (truthiness) -/
  | attr (c : Chain)
  /-- substring test `contains(container, item)` = `in_(item, container)` = `Comparator(container, item,
  operator.contains)` on strings (`item in container`); `tab` decodes the string ranks occurring in it -/
  | substr (tab : StrTab) (container item : SOperand)
  -- constructors outside the dispatch of `translate_query`
  | not (e : Expr)
  | exist (v : Nat) (e : Expr)
  | all (v : Nat) (e : Expr)
  | pred (name : String)
  | bareVar (v : Nat)
  | bareLit (b : Bool)
  deriving Repr, DecidableEq

inductive SelKind where
  | entity | setOf
  deriving Repr, DecidableEq

structure Query where
  the : Bool
  kind : SelKind
  vars : List Cls          -- type of variable i; variable 0 is the selected one
  cond : Option Expr
  deriving Repr, DecidableEq

/-! ## SQL side -/

/-- one aliased INNER JOIN per relationship path: (class of the chain's variable, hops from it) -/
structure Join where
  cls : Cls
  path : List Attr
  deriving Repr, DecidableEq

/-- column `col` of the alias reached by `hops` (`[]` = the un-aliased class = the selected row, by class) -/
structure ColRef where
  hops : List Attr
  col : Attr
  deriving Repr, DecidableEq

inductive SqlOperand where
  | col (c : ColRef)
  | lit (v : Option Int)
  deriving Repr, DecidableEq

inductive SqlSOperand where
  | col (c : ColRef)
  | lit (rank : Nat)
  deriving Repr, DecidableEq

inductive SqlCond where
  | and (l r : SqlCond)
  | or (l r : SqlCond)
  | cmp (op : Cmp) (l r : SqlOperand)
  | inList (c : ColRef) (vs : List (Option Int))
  | truthy (c : ColRef)
  /-- `instr(container, item) > 0` (string literal / column contains column) -/
  | instr (tab : StrTab) (container item : SqlSOperand)
  /-- `col LIKE '%' || :lit || '%'` (`column.contains("lit")`, no autoescape) -/
  | like (tab : StrTab) (c : ColRef) (lit : Nat)
  deriving Repr, DecidableEq

/-- `select(anchor).join(target, onclause = target.targetRel_id == anchor.anchorRel_id)` -/
structure EqJoin where
  target : Cls
  targetRel : Attr
  anchorRel : Attr
  deriving Repr, DecidableEq

inductive Flag where
  | byClass          -- a chain on a variable other than the selected one was resolved by class   (F-C07-1)
  | eqJoinUnderOr    -- an attribute-equality JOIN was emitted for an atom below an `or_`           (F-C07-4)
  | eqJoinSkipped    -- a second attribute-equality join to an already joined class was dropped     (F-C07-4)
  | likeSubstring    -- `contains(column, "literal")` was rendered with LIKE                         (F-C07-5)
  deriving Repr, DecidableEq

structure St where
  joins : List Join := []
  joinedTables : List Cls := []
  eqJoins : List EqJoin := []
  flags : List Flag := []
  deriving Repr, DecidableEq

structure SqlQuery where
  sel : Cls
  joins : List Join
  eqJoins : List EqJoin
  whr : Option SqlCond
  flags : List Flag
  deriving Repr, DecidableEq

/-- the subclasses of `EQLTranslationError` that can be raised -/
inductive TrErr where
  | unsupportedQueryType | attributeResolution | missingDAO
  deriving Repr, DecidableEq

inductive Fail where
  | rejected (e : TrErr)   -- an `EQLTranslationError`
  | escape                 -- some other exception leaves eql_to_sql(...).evaluate()  (F-C07-3)
  | outsideModel           -- not modelled (never generated, no theorem)
  deriving Repr, DecidableEq

/-! ## The translator -/

/-- `_apply_relationship_join`: reuse the alias of an already joined path, else add one aliased inner join. -/
def addJoin (st : St) (j : Join) (target : Cls) : St :=
  if st.joins.contains j then st
  else { st with joins := st.joins ++ [j], joinedTables := st.joinedTables ++ [target] }

/-- `_walk_attribute_chain`, from the DAO of class `base`; `cur` is the class of the current DAO/alias,
`acc` the hops walked so far. -/
def walk (S : Schema) (base : Cls) : Cls → List Attr → List Attr → St → Except Fail (ColRef × St)
  | _, _, [], _ => .error (.rejected .attributeResolution)           -- "Attribute chain processing error."
  | cur, acc, [a], st =>
    match relTarget S cur a with
    | some _ => .ok (⟨acc, a⟩, st)                                   -- chain ends on a relationship: its FK column
    | none =>
      if hasCol S cur a then .ok (⟨acc, a⟩, st)
      else .error (.rejected .attributeResolution)                   -- "Column … not found on …"
  | cur, acc, a :: b :: rest, st =>
    match relTarget S cur a with
    | some t => walk S base t (acc ++ [a]) (b :: rest) (addJoin st ⟨base, acc ++ [a]⟩ t)
    | none => .error (.rejected .attributeResolution)                -- "… is not a relationship but chain continues."

/-- `translate_attribute`.  `sel` = class of the selected variable. -/
def trChain (S : Schema) (vars : List Cls) (c : Chain) (st : St) : Except Fail (ColRef × St) :=
  match vars[c.var]? with
  | none => .error .outsideModel
  | some base =>
    match findClass S base with
    | none => .error (.rejected .missingDAO)
    | some _ =>
      if c.var = 0 then walk S base base [] c.path st
      else
        -- BY CLASS: the un-aliased column denotes the selected row when its table is in the select's FROM
        match c.path.head?, vars[0]? with
        | some a, some sel =>
          match declaringClass S base a with
          | some d =>
            if isSub S sel d then
              walk S base base [] c.path { st with flags := st.flags ++ [.byClass] }
            else .error .outsideModel
          | none => walk S base base [] c.path st       -- unknown attribute: rejected by the walk
        | _, _ => .error .outsideModel

/-- `_translate_comparator_operand` -/
def trOperand (S : Schema) (vars : List Cls) (o : Operand) (st : St) : Except Fail (SqlOperand × St) :=
  match o with
  | .chain c => (trChain S vars c st).map fun (r, st) => (.col r, st)
  | .lit v => .ok (.lit v, st)
  | .other .index | .other .call | .other .flatten => .error .escape
  | .other _ => .error .outsideModel

/-- the outcome of `_handle_attribute_equality_join` -/
inductive EqJoinOutcome where
  | fallthrough                 -- returned None: translate as an ordinary comparison
  | joined (st : St)            -- JOIN emitted (or skipped because the table is already joined): no WHERE part
  | fail (f : Fail)

def eqJoinAttempt (S : Schema) (vars : List Cls) (underOr : Bool) (l r : Chain) (st : St) : EqJoinOutcome :=
  if l.var = r.var then .fallthrough                       -- `left_leaf is right_leaf`
  else
    match vars[l.var]?, vars[r.var]?, vars[0]? with
    | some lc, some rc, some sel =>
      if (findClass S lc).isNone || (findClass S rc).isNone then .fallthrough
      else
        -- the relationship is looked up on the BASE dao with the LAST attribute name
        match l.path.getLast?, r.path.getLast? with
        | some la, some ra =>
          match relTarget S lc la, relTarget S rc ra with
          | some _, some _ =>
            if l.path.length ≠ 1 || r.path.length ≠ 1 then .fail .outsideModel
            else
              let (target, targetRel, anchorRel) := if lc = sel then (rc, ra, la) else (lc, la, ra)
              if target = sel then
                -- join of the selected class with itself: "Don't know how to join to <Mapper …>" (InvalidRequestError,
                -- at execution) when nothing else was joined before; with earlier joins SQLAlchemy picks some left
                -- side and answers arbitrarily: outside the model
                if st.joins.isEmpty && st.eqJoins.isEmpty then .fail .escape else .fail .outsideModel
              else if isSub S target sel || isSub S sel target then .fail .outsideModel
              else if (declaringClass S sel anchorRel).isNone then .fail .outsideModel
              else
                let fl := if underOr then [Flag.eqJoinUnderOr] else []
                if st.joinedTables.contains target then
                  .joined { st with flags := st.flags ++ fl ++ [.eqJoinSkipped] }
                else
                  .joined { st with eqJoins := st.eqJoins ++ [⟨target, targetRel, anchorRel⟩],
                                    joinedTables := st.joinedTables ++ [target],
                                    flags := st.flags ++ fl }
          | _, _ => .fallthrough                           -- not both relationships
        | _, _ => .fail .outsideModel
    | _, _, _ => .fail .outsideModel

/-- `_combine_logical_parts` for the (at most two) parts of a binary AND/OR -/
def combine (f : SqlCond → SqlCond → SqlCond) : Option SqlCond → Option SqlCond → Option SqlCond
  | some a, some b => some (f a b)
  | some a, none => some a
  | none, some b => some b
  | none, none => none

/-- the ordinary branch of `translate_comparator`: both operands translated, operator mapped -/
def trOrdinary (S : Schema) (vars : List Cls) (op : Cmp) (l r : Operand) (st : St) :
    Except Fail (Option SqlCond × St) :=
  match trOperand S vars l st with
  | .error f => .error f
  | .ok (a, st1) =>
    match trOperand S vars r st1 with
    | .error f => .error f
    | .ok (b, st2) => .ok (some (.cmp op a b), st2)

/-- `_is_attribute_equality_join` (operator `==`, both operands Attributes) + `_handle_attribute_equality_join` -/
def eqJoinFor (S : Schema) (vars : List Cls) (underOr : Bool) (op : Cmp) (l r : Operand) (st : St) : EqJoinOutcome :=
  match op, l, r with
  | .eq, .chain lc, .chain rc => eqJoinAttempt S vars underOr lc rc st
  | _, _, _ => .fallthrough

/-- `translate_query`.  The result part is `none` when the atom was turned into a JOIN. -/
def tr (S : Schema) (vars : List Cls) (underOr : Bool) : Expr → St → Except Fail (Option SqlCond × St)
  | .and l r, st =>
    match tr S vars underOr l st with
    | .error f => .error f
    | .ok (pl, st1) =>
      match tr S vars underOr r st1 with
      | .error f => .error f
      | .ok (pr, st2) => .ok (combine .and pl pr, st2)
  | .or l r, st =>
    match tr S vars true l st with
    | .error f => .error f
    | .ok (pl, st1) =>
      match tr S vars true r st1 with
      | .error f => .error f
      | .ok (pr, st2) => .ok (combine .or pl pr, st2)
  | .cmp op l r, st =>
    match eqJoinFor S vars underOr op l r st with
    | .fallthrough => trOrdinary S vars op l r st
    | .joined st' => .ok (none, st')
    | .fail f => .error f
  | .isIn item vs, st =>
    match item with
    | .chain c =>
      -- operand translation, then `_handle_contains_operator` walks the same chain again (aliases are reused)
      match trChain S vars c st with
      | .error f => .error f
      | .ok (col, st1) => .ok (some (.inList col vs), st1)
    | .lit _ => .error .outsideModel
    | .other .index | .other .call | .other .flatten => .error .escape
    | .other _ => .error .outsideModel
  | .attr c, st =>
    match trChain S vars c st with
    | .error f => .error f
    | .ok (col, st1) => .ok (some (.truthy col), st1)
  -- `OperatorMapper.map_contains_operator` on strings
  | .substr tab (.lit k) (.chain c), st =>            -- `isinstance(left, str)`, right a column: instr(literal, col) > 0
    match trChain S vars c st with
    | .error f => .error f
    | .ok (col, st1) => .ok (some (.instr tab (.lit k) (.col col)), st1)
  | .substr tab (.chain c) (.lit k), st =>            -- left a column, `isinstance(right, str)`: instr(col, literal) > 0
    -- (before fix 20e7107 this branch was `left.contains(right)`, i.e. `.like tab col k` + flag `.likeSubstring`: F-C07-5)
    match trChain S vars c st with
    | .error f => .error f
    | .ok (col, st1) => .ok (some (.instr tab (.col col) (.lit k)), st1)
  | .substr tab (.chain c) (.chain d), st =>          -- column contains column: instr(left, right) > 0
    match trChain S vars c st with
    | .error f => .error f
    | .ok (a, st1) =>
      match trChain S vars d st1 with
      | .error f => .error f
      | .ok (b, st2) => .ok (some (.instr tab (.col a) (.col b)), st2)
  | .substr _ (.lit _) (.lit _), _ => .error .outsideModel
  | .not _, _ => .error (.rejected .unsupportedQueryType)
  | .exist _ _, _ => .error (.rejected .unsupportedQueryType)
  | .all _ _, _ => .error (.rejected .unsupportedQueryType)
  | .pred _, _ => .error (.rejected .unsupportedQueryType)
  | .bareVar _, _ => .error (.rejected .unsupportedQueryType)
  | .bareLit _, _ => .error (.rejected .unsupportedQueryType)

/-- `eql_to_sql(query, session)` = `EQLTranslator(query, session).translate()` -/
def translate (S : Schema) (q : Query) : Except Fail SqlQuery :=
  match q.kind with
  | .setOf => .error .escape                    -- `SetOf` has no `selected_variable`: AttributeError
  | .entity =>
    match q.vars[0]? with
    | none => .error .outsideModel
    | some sel =>
      match findClass S sel with
      | none => .error (.rejected .missingDAO)
      | some _ =>
        match q.cond with
        | none => .error (.rejected .unsupportedQueryType)     -- translate_query(None)
        | some e =>
          match tr S q.vars false e {} with
          | .error f => .error f
          | .ok (w, st) => .ok ⟨sel, st.joins, st.eqJoins, w, st.flags⟩

/-! ## SQL execution: three-valued logic, inner joins -/

def cmpInt (op : Cmp) (a b : Int) : Bool :=
  match op with
  | .eq => a == b | .ne => a != b | .lt => a < b | .le => a ≤ b | .gt => a > b | .ge => a ≥ b

/-- SQL comparison of two column values; `none` = UNKNOWN -/
def sqlCmpVal (op : Cmp) : Val → Val → Option Bool
  | .num a, .num b => some (cmpInt op a b)
  | .ref a, .ref b => some (cmpInt op (Int.ofNat a) (Int.ofNat b))
  | _, _ => none

def litVal : Option Int → Val
  | some n => .num n
  | none => .null

/-- value of an operand for root row `r`; a missing attribute reads as NULL -/
def sqlOperandVal (db : DB) (r : Nat) : SqlOperand → Val
  | .col c => (colVal db r c.hops c.col).getD .null
  | .lit v => litVal v

/-- `col == None` is rendered `IS NULL`, `col != None` `IS NOT NULL` (SQLAlchemy operator coercion);
every other comparison involving NULL is UNKNOWN. -/
def sqlCmp (db : DB) (r : Nat) (op : Cmp) (a b : SqlOperand) : Option Bool :=
  match op, a, b with
  | .eq, x, .lit none => some (sqlOperandVal db r x == .null)
  | .ne, x, .lit none => some (sqlOperandVal db r x != .null)
  | .eq, .lit none, x => some (sqlOperandVal db r x == .null)
  | .ne, .lit none, x => some (sqlOperandVal db r x != .null)
  | _, _, _ => sqlCmpVal op (sqlOperandVal db r a) (sqlOperandVal db r b)

/-- `x IN (v…)` -/
def sqlIn (x : Val) (vs : List (Option Int)) : Option Bool :=
  if vs.isEmpty then some false
  else
    match x with
    | .num n => if vs.contains (some n) then some true else if vs.contains none then none else some false
    | _ => none

/-! ### strings: exact substring (Python `in`, SQL `instr`) and SQLite's LIKE -/

def isPrefixL : List Char → List Char → Bool
  | [], _ => true
  | _ :: _, [] => false
  | a :: as, b :: bs => a == b && isPrefixL as bs

/-- `p in t` on strings / `instr(t, p) > 0` -/
def isInfixL (p : List Char) : List Char → Bool
  | [] => p.isEmpty
  | c :: r => isPrefixL p (c :: r) || isInfixL p r

/-- ASCII lower-casing (SQLite's LIKE is case-insensitive for ASCII letters only) -/
def lowerAscii (c : Char) : Char :=
  if 65 ≤ c.toNat && c.toNat ≤ 90 then Char.ofNat (c.toNat + 32) else c

/-- SQLite `text LIKE pattern` without ESCAPE: `%` any run, `_` any one character, letters case-insensitively.
Fuelled (fuel ≥ |pattern| + |text| suffices). -/
def likeAux : Nat → List Char → List Char → Bool
  | 0, _, _ => false
  | _ + 1, [], [] => true
  | _ + 1, [], _ :: _ => false
  | n + 1, '%' :: p, [] => likeAux n p []
  | n + 1, '%' :: p, c :: t => likeAux n p (c :: t) || likeAux n ('%' :: p) t
  | _ + 1, _ :: _, [] => false
  | n + 1, a :: p, c :: t => (a == '_' || lowerAscii a == lowerAscii c) && likeAux n p t

def sqlLike (text pattern : List Char) : Bool := likeAux (pattern.length + text.length + 1) pattern text

/-- the string a value stands for (string columns hold ranks) -/
def strOf (tab : StrTab) : Val → Option (List Char)
  | .num n => if n ≤ 0 then none else tab[n.toNat - 1]?
  | _ => none

def and3 : Option Bool → Option Bool → Option Bool
  | some false, _ => some false
  | _, some false => some false
  | some true, some true => some true
  | _, _ => none

def or3 : Option Bool → Option Bool → Option Bool
  | some true, _ => some true
  | _, some true => some true
  | some false, some false => some false
  | _, _ => none

def evalSql (db : DB) (r : Nat) : SqlCond → Option Bool
  | .and a b => and3 (evalSql db r a) (evalSql db r b)
  | .or a b => or3 (evalSql db r a) (evalSql db r b)
  | .cmp op a b => sqlCmp db r op a b
  | .inList c vs => sqlIn ((colVal db r c.hops c.col).getD .null) vs
  | .instr tab a b =>
    let sv : SqlSOperand → Option (List Char) := fun o =>
      match o with
      | .col c => strOf tab ((colVal db r c.hops c.col).getD .null)
      | .lit k => strOf tab (.num k)
    match sv a, sv b with
    | some container, some item => some (isInfixL item container)
    | _, _ => none
  | .like tab c k =>
    match strOf tab ((colVal db r c.hops c.col).getD .null), strOf tab (.num k) with
    | some text, some l => some (sqlLike text (('%' :: l) ++ ['%']))
    | _, _ => none
  | .truthy c =>
    match (colVal db r c.hops c.col).getD .null with
    | .num n => some (n != 0)
    | .ref _ => some true
    | .null => none

/-- WHERE keeps a row iff the condition is TRUE (not FALSE, not UNKNOWN) -/
def whereTrue (db : DB) (r : Nat) : Option SqlCond → Bool
  | none => true
  | some c => evalSql db r c == some true

/-- every aliased INNER JOIN finds its partner row -/
def joinsOk (db : DB) (r : Nat) (js : List Join) : Bool :=
  js.all fun j => (navObj db r j.path).isSome

/-- number of partner rows of an attribute-equality join for root row `r` -/
def eqJoinCount (S : Schema) (db : DB) (r : Nat) (j : EqJoin) : Nat :=
  match colVal db r [] j.anchorRel with
  | some (.ref k) =>
    ((rootsOf S db j.target).filter fun t => colVal db t [] j.targetRel == some (.ref k)).length
  | _ => 0

/-- rows returned by `session.scalars(stmt)`: root ids, with the multiplicity the joins produce -/
def execSql (S : Schema) (s : SqlQuery) (db : DB) : List Nat :=
  (rootsOf S db s.sel).flatMap fun r =>
    if joinsOk db r s.joins && whereTrue db r s.whr then
      List.replicate (s.eqJoins.foldl (fun n j => n * eqJoinCount S db r j) 1) r
    else []

/-! ## In-memory reference semantics -/

/-- Python comparison of attribute values; `none` = TypeError (ordering with None / objects) -/
def pyCmp (op : Cmp) (a b : Val) : Option Bool :=
  match op with
  | .eq => some (a == b)
  | .ne => some (a != b)
  | _ =>
    match a, b with
    | .num x, .num y => some (cmpInt op x y)
    | _, _ => none

def pyTruthy : Val → Bool
  | .null => false
  | .num n => n != 0
  | .ref _ => true

/-- `getattr` chain on the object bound to the chain's variable; `none` = AttributeError -/
def chainVal (db : DB) (env : List Nat) (c : Chain) : Option Val :=
  match env[c.var]?, c.path.getLast? with
  | some i, some a => colVal db i c.path.dropLast a
  | _, _ => none

def operandVal (db : DB) (env : List Nat) : Operand → Option Val
  | .chain c => chainVal db env c
  | .lit v => some (litVal v)
  | .other _ => none

/-- truth of a condition under one assignment `env` of the variables; `none` = evaluation raises
(or the construct is outside this reference semantics: it is only needed where the translator accepts). -/
def evalCond (db : DB) (env : List Nat) : Expr → Option Bool
  | .and l r =>
    match evalCond db env l with
    | some true => evalCond db env r
    | x => x
  | .or l r =>
    match evalCond db env l with
    | some false => evalCond db env r
    | x => x
  | .cmp op l r =>
    match operandVal db env l, operandVal db env r with
    | some a, some b => pyCmp op a b
    | _, _ => none
  | .isIn item vs =>
    match operandVal db env item with
    | some a => some (vs.any fun v => litVal v == a)
    | none => none
  | .attr c => (chainVal db env c).map pyTruthy
  | .substr tab container item =>
    let sv : SOperand → Option (List Char) := fun o =>
      match o with
      | .chain c => (chainVal db env c).bind (strOf tab)
      | .lit k => strOf tab (.num k)
    match sv container, sv item with
    | some c, some i => some (isInfixL i c)
    | _, _ => none
  | _ => none

/-- all assignments of the non-selected variables -/
def assignments (S : Schema) (db : DB) : List Cls → List (List Nat)
  | [] => [[]]
  | c :: rest => (rootsOf S db c).flatMap fun i => (assignments S db rest).map fun a => i :: a

/-- is root `r` selected?  `none` = evaluation raises for some assignment -/
def memSelects (S : Schema) (db : DB) (q : Query) (e : Expr) (r : Nat) : Option Bool :=
  let rs := (assignments S db q.vars.tail).map fun a => evalCond db (r :: a) e
  if rs.contains none then none else some (rs.contains (some true))

/-- the set (ascending, duplicate free) of selected objects; `none` = evaluation raises -/
def evalMem (S : Schema) (q : Query) (db : DB) : Option (List Nat) :=
  match q.vars[0]? with
  | none => none
  | some sel =>
    match q.cond with
    | none => some (rootsOf S db sel)
    | some e =>
      let rs := (rootsOf S db sel).map fun r => (r, memSelects S db q e r)
      if rs.any (fun p => p.2.isNone) then none
      else some ((rs.filter fun p => p.2 == some true).map (·.1))

/-- number of solutions in which root `r` is selected: EQL has one solution per satisfying assignment of the
variables (a join between two variables yields the selected entity once per matching PAIR); `none` = raises.
Exact for and_-only conditions in which every non-selected variable occurs (the engine binds variables lazily and
`or_` between different variable sets re-evaluates its right side: multiplicities under `or_` are not modelled). -/
def memCount (S : Schema) (db : DB) (q : Query) (e : Expr) (r : Nat) : Option Nat :=
  let rs := (assignments S db q.vars.tail).map fun a => evalCond db (r :: a) e
  if rs.contains none then none else some (rs.count (some true))

/-- the solutions with their multiplicity (ascending; entity `r` repeated once per solution) -/
def evalMemMulti (S : Schema) (q : Query) (db : DB) : Option (List Nat) :=
  match q.vars[0]? with
  | none => none
  | some sel =>
    match q.cond with
    | none => some (rootsOf S db sel)
    | some e =>
      let rs := (rootsOf S db sel).map fun r => (r, memCount S db q e r)
      if rs.any (fun p => p.2.isNone) then none
      else some (rs.flatMap fun p => List.replicate (p.2.getD 0) p.1)

/-! ## Observations (what the property compares) -/

/-- ascending duplicate-free insertion -/
def insertNat (x : Nat) : List Nat → List Nat
  | [] => [x]
  | y :: ys => if x < y then x :: y :: ys else if x = y then y :: ys else y :: insertNat x ys

/-- the set of a list of row ids, as an ascending duplicate-free list -/
def toSet (xs : List Nat) : List Nat := xs.foldr insertNat []

inductive TheOutcome where
  | one (i : Nat) | noResult | multiple
  deriving Repr, DecidableEq

/-- `The` / `.one()`: exactly one solution/row, else NoSolutionFound/NoResultFound or
MultipleSolutionFound/MultipleResultsFound -/
def theOf : List Nat → TheOutcome
  | [] => .noResult
  | [x] => .one x
  | _ => .multiple

/-! ## Triggers of the open findings (decidable; used by the counter-example theorems and the driver) -/

def exprChains : Expr → List Chain
  | .and l r | .or l r => exprChains l ++ exprChains r
  | .cmp _ l r =>
    (match l with | .chain c => [c] | _ => []) ++ (match r with | .chain c => [c] | _ => [])
  | .isIn item _ => (match item with | .chain c => [c] | _ => [])
  | .attr c => [c]
  | .substr _ a b =>
    (match a with | .chain c => [c] | _ => []) ++ (match b with | .chain c => [c] | _ => [])
  | .not e | .exist _ e | .all _ e => exprChains e
  | _ => []

/-- F-C07-1: a chain on a second variable was resolved by class -/
def trigByClass (s : SqlQuery) : Bool := s.flags.contains .byClass

/-- F-C07-2: some compared attribute chain evaluates to None/NULL on some object of its variable's class -/
def trigNull (S : Schema) (q : Query) (db : DB) : Bool :=
  match q.cond with
  | none => false
  | some e =>
    (exprChains e).any fun c =>
      match q.vars[c.var]?, c.path.getLast? with
      | some cls, some a => (rootsOf S db cls).any fun i => colVal db i c.path.dropLast a == some .null
      | _, _ => false

/-- F-C07-4: an attribute-equality join below an `or_`, or dropped because its class was already joined -/
def trigEqJoin (s : SqlQuery) : Bool := s.flags.contains .eqJoinUnderOr || s.flags.contains .eqJoinSkipped

/-- F-C07-5: `contains(column, "literal")` rendered with LIKE (case-insensitive, `%`/`_` of the literal are wildcards) -/
def trigLike (s : SqlQuery) : Bool := s.flags.contains .likeSubstring

end KrroodVerif.SqlTr
