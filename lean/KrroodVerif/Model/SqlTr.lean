/-!
# M-ORM / SqlTr — the EQL → SQL translator (`krrood/ormatic/eql_interface.py`) and both evaluation worlds

Core Lean only (linked into the native driver).

* `Expr`/`Query`      — the EQL condition AST of the fragment the property quantifies over, plus one
                        constructor per construct *outside* the translator's dispatch.
* `translate`         — transcription of `EQLTranslator.translate / translate_query / translate_and /
                        translate_or / translate_comparator / _handle_attribute_equality_join /
                        _handle_contains_operator / translate_attribute / _walk_attribute_chain /
                        _apply_relationship_join` (what is accepted, what raises `EQLTranslationError`,
                        what escapes with another exception today).
* `execSql`           — relational semantics of the produced statement: polymorphic select of the root class,
                        one aliased INNER JOIN per relationship path, attribute-equality joins, WHERE under SQL
                        three-valued logic.  (SQL execution itself is SQLAlchemy's and SQLite's: assumed, validated
                        by the correspondence, never proved.)
* `evalMem`           — the in-memory reference semantics (`an(entity(x, cond)).evaluate()` over the python objects):
                        the selected objects for which some assignment of the other variables satisfies the condition,
                        with Python's `==`/`!=`/ordering/`in`/truthiness on the attribute values.

Representation notes (each is behaviour preserving, and is what the correspondence checks):

* Objects and rows share one store `DB` (object `i` ↔ row `i`: that is `to_dao` + flush, the subject of C04/C05).
  Relationship targets are assumed well typed (a FK always points into the target class's table), so the join to the
  *aliased target class* never drops a row whose FK is non-NULL.
* `JoinManager.aliases_by_path` is keyed by `(dao_class | alias, attribute)`.  An alias is created exactly once per
  key, so aliases are in bijection with `(class of the variable, relationship path from it)`; the model keys joins by
  that pair (`Join`).  A column reference is `(hops, column)`: the column `column` of the alias reached by `hops`
  (`hops = []`: the un-aliased DAO class itself).
* **One FROM element per variable** (fix 544475f, F-C07-1 and F-C07-4).  `_entity_of_variable`: the selected variable is
  the DAO class itself, every other variable gets its own `aliased(dao, flat=True)`, JOINed `ON true` the first time it is
  met (`St.seen`), so a column reference is `(variable, hops, column)` (`ColRef`) and a statement ranges over one row per
  FROM element (`restEnvs`).  An `==` between relationships accessed directly on the selected and on a not yet seen
  variable, outside `or_`, is the ON clause of that variable's JOIN (`EqJoin`); everywhere else (below `or_`, variable
  already seen, longer chains, neither variable selected) it is an ordinary NULL-safe comparison of the two foreign keys.
  Before the fix every column was resolved BY CLASS (`SqlCond.conflate`: a second variable of the same class denoted the
  SELECTED row) and every such `==` became a global INNER JOIN of the un-aliased class, at most one per class.
* Constructs the translator has no case for are `EQLTranslationError`s (`Fail.rejected`): since fix c10063e (F-C07-3)
  also `set_of` (was AttributeError) and an Index/Call/Flatten/nested-query operand (was an SQLAlchemy ArgumentError); the
  equality join of the selected class with itself (was InvalidRequestError at execution) is translated, see above.  `Fail.escape` (another exception leaves
  `eql_to_sql(...).evaluate()`) is kept as an outcome but no longer produced by `translate`.
* NULL (fix 1eb4fe3, F-C07-2): `!=` is rendered `IS DISTINCT FROM`, `==` between two columns `IS NOT DISTINCT FROM`, and
  a `None` among the values of `in_` becomes an explicit `IS NULL` alternative (`sqlCmp`, `sqlIn`); the former SQL
  three-valued behaviour is kept as `sqlCmpLegacy` / `sqlInLegacy` for the counter-example theorems.
* String columns hold the RANK of the string in a code-point sorted table (equality, order and membership are preserved by
  the ranking); the substring tests (`Expr.substr`) carry that table (`StrTab`) to decode ranks: `contains("lit", attr)` and
  `contains(attr, attr)` and (since fix 20e7107) `contains(attr, "lit")` are `instr(c, i) > 0` (exact); before the fix the
  last one was `attr LIKE '%' || lit || '%'` with SQLite's LIKE (`sqlLike`: ASCII case-insensitive, `%`/`_` wildcards, no
  ESCAPE) — defect F-C07-5, repaired.
* `evalMem` quantifies the non-selected variables existentially over their whole domains; the engine binds them lazily,
  which is the same set of answers as long as every variable's domain is non-empty (the harness guarantees it).
-/
namespace KrroodVerif.SqlTr

abbrev Cls := String
abbrev Attr := String

/-! ## Schema (what ORMatic mapped: joined-table inheritance, scalar columns, many-to-one relationships) -/

structure ClassDecl where
  name : Cls
  parent : Option Cls
  cols : List Attr
  rels : List (Attr × Cls)
  deriving Repr, DecidableEq

abbrev Schema := List ClassDecl

def findClass (S : Schema) (c : Cls) : Option ClassDecl := S.find? (fun d => d.name == c)

/-- `c` and its ancestors, nearest first (fuel = number of classes). -/
def ancestorsAux (S : Schema) : Nat → Cls → List Cls
  | 0, c => [c]
  | n + 1, c =>
    c :: (match (findClass S c).bind (·.parent) with
          | some p => ancestorsAux S n p
          | none => [])

def ancestors (S : Schema) (c : Cls) : List Cls := ancestorsAux S S.length c

/-- `isinstance` / polymorphic identity: `c` is `d` or a subclass of it. -/
def isSub (S : Schema) (c d : Cls) : Bool := (ancestors S c).contains d

/-- `mapper.relationships.get(name)` (inherited relationships included): target class. -/
def relTarget (S : Schema) (c : Cls) (a : Attr) : Option Cls :=
  (ancestors S c).findSome? fun k => (findClass S k).bind fun d => d.rels.lookup a

/-- the class of `c`'s ancestry that declares attribute `a` (column or relationship). -/
def declaringClass (S : Schema) (c : Cls) (a : Attr) : Option Cls :=
  (ancestors S c).find? fun k =>
    match findClass S k with
    | some d => d.cols.contains a || (d.rels.lookup a).isSome
    | none => false

/-- `hasattr(dao, name)` for a mapped scalar column. -/
def hasCol (S : Schema) (c : Cls) (a : Attr) : Bool :=
  (ancestors S c).any fun k =>
    match findClass S k with
    | some d => d.cols.contains a
    | none => false

/-! ## Store -/

structure Obj where
  cls : Cls
  vals : List (Attr × Option Int)   -- scalar attributes; `none` = `None` / NULL
  refs : List (Attr × Option Nat)   -- many-to-one relationships; `none` = `None` / NULL foreign key
  deriving Repr, DecidableEq

abbrev DB := List Obj

inductive Val where
  | null
  | num (n : Int)
  | ref (i : Nat)
  deriving Repr, DecidableEq

/-- `getattr(obj, a)`; `none` = AttributeError. -/
def Obj.get? (o : Obj) (a : Attr) : Option Val :=
  match o.refs.lookup a with
  | some (some i) => some (.ref i)
  | some none => some .null
  | none =>
    match o.vals.lookup a with
    | some (some n) => some (.num n)
    | some none => some .null
    | none => none

/-- follow relationship hops from object `i`; `none` = a hop is `None`/NULL (or not a relationship). -/
def navObj (db : DB) : Nat → List Attr → Option Nat
  | i, [] => some i
  | i, a :: rest =>
    match (db[i]?).bind (·.get? a) with
    | some (.ref j) => navObj db j rest
    | _ => none

/-- value of column/attribute `a` of the object reached from `i` by `hops`. -/
def colVal (db : DB) (i : Nat) (hops : List Attr) (a : Attr) : Option Val :=
  (navObj db i hops).bind fun j => (db[j]?).bind (·.get? a)

/-- indices of the objects that are instances of `c` (`let(type_, domain)` filters by isinstance;
`select(DAO_c)` is polymorphic). -/
def rootsOf (S : Schema) (db : DB) (c : Cls) : List Nat :=
  (List.range db.length).filter fun i =>
    match db[i]? with
    | some o => isSub S o.cls c
    | none => false

/-! ## EQL condition AST -/

inductive Cmp where
  | eq | ne | lt | le | gt | ge
  deriving Repr, DecidableEq

/-- `var.a1.a2…an` (`path` non-empty for a real Attribute node). -/
structure Chain where
  var : Nat
  path : List Attr
  deriving Repr, DecidableEq

/-- operands the translator has no case for -/
inductive OtherOperand where
  | index | call | flatten      -- `x.a[0]`, `x.a.m()`, `flatten(x.a)`: pass through untranslated → ArgumentError
  | selfVar | objLit | nested   -- a bare Variable / an object literal / a nested query: outside the model
  deriving Repr, DecidableEq

inductive Operand where
  | chain (c : Chain)
  | lit (v : Option Int)
  | other (k : OtherOperand)
  /-- a bare variable as comparator operand (`x == obj`).  `sample` = the first element of the variable's domain, which
  is what `DomainValueExtractor.extract_from_variable` reads (the domain is part of the query) -/
  | var (v : Nat) (sample : Option Nat)
  /-- an object literal: object `i` of the store -/
  | obj (i : Nat)
  deriving Repr, DecidableEq

/-- table decoding the ranks of string values/literals (strings as character lists; rank k ↦ entry k-1) -/
abbrev StrTab := List (List Char)

/-- operand of a substring test: an attribute chain (a string column) or a string literal, given by its rank -/
inductive SOperand where
  | chain (c : Chain)
  | lit (rank : Nat)
  deriving Repr, DecidableEq

inductive Expr where
  | and (l r : Expr)
  | or (l r : Expr)
  | cmp (op : Cmp) (l r : Operand)
  /-- `in_(item, [v…])` = `contains([v…], item)` = `Comparator(Literal([v…]), item, operator.contains)` -/
  | isIn (item : Operand) (vs : List (Option Int))
  /-- a bare attribute used as a condition (truthiness) -/
  | attr (c : Chain)
  /-- substring test `contains(container, item)` = `in_(item, container)` = `Comparator(container, item,
  operator.contains)` on strings (`item in container`); `tab` decodes the string ranks occurring in it -/
  | substr (tab : StrTab) (container item : SOperand)
  /-- a bare STRING attribute used as a condition (truthiness of a string: `''` and `None` are falsy); `tab` decodes the
  ranks the string column holds -/
  | strAttr (tab : StrTab) (c : Chain)
  -- constructors outside the dispatch of `translate_query`
  | not (e : Expr)
  | exist (v : Nat) (e : Expr)
  | all (v : Nat) (e : Expr)
  | pred (name : String)
  | bareVar (v : Nat)
  | bareLit (b : Bool)
  deriving Repr, DecidableEq

inductive SelKind where
  | entity | setOf
  deriving Repr, DecidableEq

structure Query where
  the : Bool
  kind : SelKind
  vars : List Cls          -- type of variable i; variable 0 is the selected one
  cond : Option Expr
  deriving Repr, DecidableEq

/-! ## SQL side -/

/-- one aliased INNER JOIN per relationship path: (the chain's variable, hops from it) -/
structure Join where
  var : Nat
  path : List Attr
  deriving Repr, DecidableEq

/-- column `col` of the alias reached by `hops` from the FROM element of variable `var` (`hops = []`: that element itself:
the DAO class for the selected variable, the variable's own alias for every other variable) -/
structure ColRef where
  var : Nat
  hops : List Attr
  col : Attr
  deriving Repr, DecidableEq

inductive SqlOperand where
  | col (c : ColRef)
  | lit (v : Option Int)
  deriving Repr, DecidableEq

inductive SqlSOperand where
  | col (c : ColRef)
  | lit (rank : Nat)
  deriving Repr, DecidableEq

inductive SqlCond where
  | and (l r : SqlCond)
  | or (l r : SqlCond)
  | cmp (op : Cmp) (l r : SqlOperand)
  | inList (c : ColRef) (vs : List (Option Int))
  | truthy (c : ColRef)
  /-- `instr(container, item) > 0` (string literal / column contains column) -/
  | instr (tab : StrTab) (container item : SqlSOperand)
  /-- `col LIKE '%' || :lit || '%'` (`column.contains("lit")`, no autoescape) -/
  | like (tab : StrTab) (c : ColRef) (lit : Nat)
  /-- `WHERE <text column>`: a TEXT value in a boolean context is cast to NUMERIC by SQLite (F-C07-6) -/
  | truthyStr (tab : StrTab) (c : ColRef)
  /-- `WHERE true` / `WHERE false`: a comparison of a whole variable with an object was evaluated by PYTHON at translation
  time, on the first element of the variable's domain (F-C07-7).  `v`, `i`, `neg` record what it stood for: variable `v`
  is (`neg`: is not) object `i`. -/
  | pyConst (b : Bool) (v i : Nat) (neg : Bool)
  /-- repaired rendering of `truthyStr`: `col IS NOT NULL AND col != ''` -/
  | strNonEmpty (tab : StrTab) (c : ColRef)
  /-- repaired rendering of `pyConst`: the primary key of the FROM element of variable `v` is (`neg`: is not) that of
  object `i` -/
  | rowIs (v i : Nat) (neg : Bool)
  deriving Repr, DecidableEq

/-- `select(anchor).join(alias_of_target_variable, onclause = alias.targetRel_id == anchor.anchorRel_id)`;
the anchor is the selected variable -/
structure EqJoin where
  targetVar : Nat
  targetRel : Attr
  anchorRel : Attr
  deriving Repr, DecidableEq

inductive Flag where
  | byClass          -- a chain on a variable other than the selected one was resolved by class   (F-C07-1)
  | eqJoinUnderOr    -- an attribute-equality JOIN was emitted for an atom below an `or_`           (F-C07-4)
  | eqJoinSkipped    -- a second attribute-equality join to an already joined class was dropped     (F-C07-4)
  | likeSubstring    -- `contains(column, "literal")` was rendered with LIKE                         (F-C07-5)
  deriving Repr, DecidableEq

structure St where
  joins : List Join := []
  /-- `EQLTranslator.variable_aliases`: the non-selected variables that already are FROM elements -/
  seen : List Nat := []
  eqJoins : List EqJoin := []
  flags : List Flag := []
  deriving Repr, DecidableEq

structure SqlQuery where
  sel : Cls
  vars : List Cls
  seen : List Nat
  joins : List Join
  eqJoins : List EqJoin
  whr : Option SqlCond
  flags : List Flag
  deriving Repr, DecidableEq

/-- the subclasses of `EQLTranslationError` that can be raised -/
inductive TrErr where
  | unsupportedQueryType | attributeResolution | missingDAO
  deriving Repr, DecidableEq

inductive Fail where
  | rejected (e : TrErr)   -- an `EQLTranslationError`
  | escape                 -- some other exception leaves eql_to_sql(...).evaluate()  (F-C07-3; no longer produced)
  | outsideModel           -- not modelled (never generated, no theorem)
  deriving Repr, DecidableEq

/-! ## The translator -/

/-- `_apply_relationship_join`: reuse the alias of an already joined path, else add one aliased inner join. -/
def addJoin (st : St) (j : Join) : St :=
  if st.joins.contains j then st else { st with joins := st.joins ++ [j] }

/-- `_entity_of_variable`: the selected variable is the DAO class itself; any other variable gets its own alias, joined
`ON true` the first time it is met (fix 544475f, F-C07-1; before, every variable was resolved BY CLASS, i.e. to the
selected row whenever the tables overlapped: see `conflate`). -/
def markSeen (st : St) (v : Nat) : St :=
  if v = 0 || st.seen.contains v then st else { st with seen := st.seen ++ [v] }

/-- `_walk_attribute_chain`, from the FROM element of variable `var`; `cur` is the class of the current DAO/alias,
`acc` the hops walked so far. -/
def walk (S : Schema) (var : Nat) : Cls → List Attr → List Attr → St → Except Fail (ColRef × St)
  | _, _, [], _ => .error (.rejected .attributeResolution)           -- "Attribute chain processing error."
  | cur, acc, [a], st =>
    match relTarget S cur a with
    | some _ => .ok (⟨var, acc, a⟩, st)                              -- chain ends on a relationship: its FK column
    | none =>
      if hasCol S cur a then .ok (⟨var, acc, a⟩, st)
      else .error (.rejected .attributeResolution)                   -- "Column … not found on …"
  | cur, acc, a :: b :: rest, st =>
    match relTarget S cur a with
    | some t => walk S var t (acc ++ [a]) (b :: rest) (addJoin st ⟨var, acc ++ [a]⟩)
    | none => .error (.rejected .attributeResolution)                -- "… is not a relationship but chain continues."

/-- `translate_attribute` -/
def trChain (S : Schema) (vars : List Cls) (c : Chain) (st : St) : Except Fail (ColRef × St) :=
  match vars[c.var]? with
  | none => .error .outsideModel
  | some base =>
    match findClass S base with
    | none => .error (.rejected .missingDAO)
    | some _ => walk S c.var base [] c.path (markSeen st c.var)

/-- `_translate_comparator_operand` -/
def trOperand (S : Schema) (vars : List Cls) (o : Operand) (st : St) : Except Fail (SqlOperand × St) :=
  match o with
  | .chain c => (trChain S vars c st).map fun (r, st) => (.col r, st)
  | .lit v => .ok (.lit v, st)
  -- `isinstance(operand, SymbolicExpression)` without a case: UnsupportedQueryTypeError (before the fix for F-C07-3
  -- the node was passed through untranslated and SQLAlchemy raised ArgumentError)
  | .other .index | .other .call | .other .flatten | .other .nested => .error (.rejected .unsupportedQueryType)
  | .other _ => .error .outsideModel
  | .var _ _ | .obj _ => .error .outsideModel     -- only modelled as `variable ==/!= object` (`varObj?`)

/-- the outcome of `_handle_attribute_equality_join` -/
inductive EqJoinOutcome where
  | fallthrough                 -- returned None: translate as an ordinary comparison
  | joined (st : St)            -- JOIN emitted (or skipped because the table is already joined): no WHERE part
  | fail (f : Fail)

/-- `_handle_attribute_equality_join` (reached for `==` between relationships accessed DIRECTLY on two variables, not
below an `or_`): the non-selected variable is JOINed through its own alias, unless it already is a FROM element — then,
like everywhere else, the condition is an ordinary comparison of the two foreign keys. -/
def eqJoinAttempt (S : Schema) (vars : List Cls) (l r : Chain) (st : St) : EqJoinOutcome :=
  if l.path.length ≠ 1 || r.path.length ≠ 1 then .fallthrough    -- `isinstance(query.left._child_, Variable)` …
  else if l.var = r.var then .fallthrough                        -- `left_leaf is right_leaf`
  else
    match vars[l.var]?, vars[r.var]? with
    | some lc, some rc =>
      if (findClass S lc).isNone || (findClass S rc).isNone then .fallthrough
      else
        match l.path.getLast?, r.path.getLast? with
        | some la, some ra =>
          match relTarget S lc la, relTarget S rc ra with
          | some _, some _ =>
            let target : Option (Nat × Attr × Attr) :=
              if l.var = 0 then some (r.var, ra, la) else if r.var = 0 then some (l.var, la, ra) else none
            match target with
            | none => .fallthrough                                 -- neither is the selected variable
            | some (tv, trel, arel) =>
              if st.seen.contains tv then .fallthrough             -- already a FROM element
              else .joined { st with seen := st.seen ++ [tv], eqJoins := st.eqJoins ++ [⟨tv, trel, arel⟩] }
          | _, _ => .fallthrough                                   -- not both relationships
        | _, _ => .fallthrough
    | _, _ => .fail .outsideModel

/-- `_combine_logical_parts` for the (at most two) parts of a binary AND/OR -/
def combine (f : SqlCond → SqlCond → SqlCond) : Option SqlCond → Option SqlCond → Option SqlCond
  | some a, some b => some (f a b)
  | some a, none => some a
  | none, some b => some b
  | none, none => none

/-- the ordinary branch of `translate_comparator`: both operands translated, operator mapped -/
def trOrdinary (S : Schema) (vars : List Cls) (op : Cmp) (l r : Operand) (st : St) :
    Except Fail (Option SqlCond × St) :=
  match trOperand S vars l st with
  | .error f => .error f
  | .ok (a, st1) =>
    match trOperand S vars r st1 with
    | .error f => .error f
    | .ok (b, st2) => .ok (some (.cmp op a b), st2)

/-- `_is_attribute_equality_join` (operator `==`, both operands Attributes) + `_handle_attribute_equality_join` -/
def eqJoinFor (S : Schema) (vars : List Cls) (underOr : Bool) (op : Cmp) (l r : Operand) (st : St) : EqJoinOutcome :=
  match op, l, r with
  | .eq, .chain lc, .chain rc => if underOr then .fallthrough else eqJoinAttempt S vars lc rc st
  | _, _, _ => .fallthrough

/-- a comparison of a whole variable with an object literal (either order): `(variable, sample, object)` -/
def varObj? : Operand → Operand → Option (Nat × Option Nat × Nat)
  | .var v smp, .obj i => some (v, smp, i)
  | .obj i, .var v smp => some (v, smp, i)
  | _, _ => none

/-- `_resolve_dao_instance`: a sample that has an `id_` or a `name` attribute is looked up in the database and replaced
by the database id of its row -/
def resolvesToDbId (S : Schema) (c : Cls) : Bool := hasCol S c "id_" || hasCol S c "name"

/-- `x == obj` / `x != obj` as the code translates it today (F-C07-7): `_translate_comparator_operand` turns the
Variable into the first element of its domain (`extract_from_variable`; into that element's database id when the class
has a `name`/`id_`), the Literal into the object, and `map_comparison_operator` applies Python's `==` / `!=` to the two
Python values: the WHERE clause is the constant `true` or `false`. -/
def trVarObj (S : Schema) (vars : List Cls) (op : Cmp) (v : Nat) (smp : Option Nat) (i : Nat) (st : St) :
    Except Fail (Option SqlCond × St) :=
  match vars[v]?, smp with
  | some c, some k =>
    if (findClass S c).isNone then .error (.rejected .missingDAO) else
    let same : Bool := if resolvesToDbId S c then false else k == i     -- an int never equals an object
    match op with
    | .eq => .ok (some (.pyConst same v i false), st)
    | .ne => .ok (some (.pyConst (!same) v i true), st)
    | _ => .error .outsideModel                        -- ordering of two objects: TypeError in both worlds
  | _, _ => .error .outsideModel

/-- `translate_query`.  The result part is `none` when the atom was turned into a JOIN. -/
def tr (S : Schema) (vars : List Cls) (underOr : Bool) : Expr → St → Except Fail (Option SqlCond × St)
  | .and l r, st =>
    match tr S vars underOr l st with
    | .error f => .error f
    | .ok (pl, st1) =>
      match tr S vars underOr r st1 with
      | .error f => .error f
      | .ok (pr, st2) => .ok (combine .and pl pr, st2)
  | .or l r, st =>
    match tr S vars true l st with
    | .error f => .error f
    | .ok (pl, st1) =>
      match tr S vars true r st1 with
      | .error f => .error f
      | .ok (pr, st2) => .ok (combine .or pl pr, st2)
  | .cmp op l r, st =>
    match varObj? l r with
    | some (v, smp, i) => trVarObj S vars op v smp i st
    | none =>
      match eqJoinFor S vars underOr op l r st with
      | .fallthrough => trOrdinary S vars op l r st
      | .joined st' => .ok (none, st')
      | .fail f => .error f
  | .isIn item vs, st =>
    match item with
    | .chain c =>
      -- operand translation, then `_handle_contains_operator` walks the same chain again (aliases are reused)
      match trChain S vars c st with
      | .error f => .error f
      | .ok (col, st1) => .ok (some (.inList col vs), st1)
    | .lit _ => .error .outsideModel
    | .other .index | .other .call | .other .flatten | .other .nested => .error (.rejected .unsupportedQueryType)
    | .other _ => .error .outsideModel
    | .var _ _ | .obj _ => .error .outsideModel
  | .attr c, st =>
    match trChain S vars c st with
    | .error f => .error f
    | .ok (col, st1) => .ok (some (.truthy col), st1)
  -- `OperatorMapper.map_contains_operator` on strings
  | .substr tab (.lit k) (.chain c), st =>            -- `isinstance(left, str)`, right a column: instr(literal, col) > 0
    match trChain S vars c st with
    | .error f => .error f
    | .ok (col, st1) => .ok (some (.instr tab (.lit k) (.col col)), st1)
  | .substr tab (.chain c) (.lit k), st =>            -- left a column, `isinstance(right, str)`: instr(col, literal) > 0
    -- (before fix 20e7107 this branch was `left.contains(right)`, i.e. `.like tab col k` + flag `.likeSubstring`: F-C07-5)
    match trChain S vars c st with
    | .error f => .error f
    | .ok (col, st1) => .ok (some (.instr tab (.col col) (.lit k)), st1)
  | .substr tab (.chain c) (.chain d), st =>          -- column contains column: instr(left, right) > 0
    match trChain S vars c st with
    | .error f => .error f
    | .ok (a, st1) =>
      match trChain S vars d st1 with
      | .error f => .error f
      | .ok (b, st2) => .ok (some (.instr tab (.col a) (.col b)), st2)
  | .substr _ (.lit _) (.lit _), _ => .error .outsideModel
  -- a bare string attribute: `translate_attribute` returns the column, which becomes the WHERE clause as it is
  | .strAttr tab c, st =>
    match trChain S vars c st with
    | .error f => .error f
    | .ok (col, st1) => .ok (some (.truthyStr tab col), st1)
  | .not _, _ => .error (.rejected .unsupportedQueryType)
  | .exist _ _, _ => .error (.rejected .unsupportedQueryType)
  | .all _ _, _ => .error (.rejected .unsupportedQueryType)
  | .pred _, _ => .error (.rejected .unsupportedQueryType)
  | .bareVar _, _ => .error (.rejected .unsupportedQueryType)
  | .bareLit _, _ => .error (.rejected .unsupportedQueryType)

/-- `eql_to_sql(query, session)` = `EQLTranslator(query, session).translate()` -/
def translate (S : Schema) (q : Query) : Except Fail SqlQuery :=
  match q.kind with
  | .setOf => .error (.rejected .unsupportedQueryType)   -- not an `Entity` (before the fix for F-C07-3: AttributeError)
  | .entity =>
    match q.vars[0]? with
    | none => .error .outsideModel
    | some sel =>
      match findClass S sel with
      | none => .error (.rejected .missingDAO)
      | some _ =>
        match q.cond with
        | none => .error (.rejected .unsupportedQueryType)     -- translate_query(None)
        | some e =>
          match tr S q.vars false e {} with
          | .error f => .error f
          | .ok (w, st) => .ok ⟨sel, q.vars, st.seen, st.joins, st.eqJoins, w, st.flags⟩

/-! ## SQL execution: three-valued logic, inner joins -/

def cmpInt (op : Cmp) (a b : Int) : Bool :=
  match op with
  | .eq => a == b | .ne => a != b | .lt => a < b | .le => a ≤ b | .gt => a > b | .ge => a ≥ b

/-- SQL comparison of two column values; `none` = UNKNOWN -/
def sqlCmpVal (op : Cmp) : Val → Val → Option Bool
  | .num a, .num b => some (cmpInt op a b)
  | .ref a, .ref b => some (cmpInt op (Int.ofNat a) (Int.ofNat b))
  | _, _ => none

def litVal : Option Int → Val
  | some n => .num n
  | none => .null

/-- value of a column reference under `env` (FROM element of variable i ↦ row `env[i]`); `none` = no such column -/
def sqlColVal (db : DB) (env : List Nat) (c : ColRef) : Option Val :=
  (env[c.var]?).bind fun i => colVal db i c.hops c.col

/-- value of an operand; a missing attribute reads as NULL -/
def sqlOperandVal (db : DB) (env : List Nat) : SqlOperand → Val
  | .col c => (sqlColVal db env c).getD .null
  | .lit v => litVal v

/-- BEFORE the fix for F-C07-2: `col == None` is rendered `IS NULL`, `col != None` `IS NOT NULL` (SQLAlchemy operator
coercion); every other comparison involving NULL is UNKNOWN. -/
def sqlCmpLegacy (db : DB) (env : List Nat) (op : Cmp) (a b : SqlOperand) : Option Bool :=
  match op, a, b with
  | .eq, x, .lit none => some (sqlOperandVal db env x == .null)
  | .ne, x, .lit none => some (sqlOperandVal db env x != .null)
  | .eq, .lit none, x => some (sqlOperandVal db env x == .null)
  | .ne, .lit none, x => some (sqlOperandVal db env x != .null)
  | _, _, _ => sqlCmpVal op (sqlOperandVal db env a) (sqlOperandVal db env b)

/-- BEFORE the fix for F-C07-2: `x IN (v…)` under three-valued logic -/
def sqlInLegacy (x : Val) (vs : List (Option Int)) : Option Bool :=
  if vs.isEmpty then some false
  else
    match x with
    | .num n => if vs.contains (some n) then some true else if vs.contains none then none else some false
    | _ => none

/-- `OperatorMapper.map_comparison_operator`: `!=` is `IS DISTINCT FROM` (NULL-safe), `==` between two SQL expressions is
`IS NOT DISTINCT FROM` (NULL-safe); `col == None` is rendered `IS NULL`; `col == literal` and the ordering operators
are UNKNOWN on NULL. -/
def sqlCmpV (op : Cmp) (a b : SqlOperand) (va vb : Val) : Option Bool :=
  match op with
  | .ne => some (va != vb)
  | .eq =>
    match a, b with
    | .col _, .col _ => some (va == vb)
    | _, .lit none => some (va == .null)
    | .lit none, _ => some (vb == .null)
    | _, _ => sqlCmpVal .eq va vb
  | _ => sqlCmpVal op va vb

def sqlCmp (db : DB) (env : List Nat) (op : Cmp) (a b : SqlOperand) : Option Bool :=
  sqlCmpV op a b (sqlOperandVal db env a) (sqlOperandVal db env b)

/-- `null_safe_in(column, values)`: `x IN (non-None values) OR x IS NULL` when None is among the values, else `x IN (v…)` -/
def sqlIn (x : Val) (vs : List (Option Int)) : Option Bool :=
  match x with
  | .num n => some (vs.contains (some n))
  | .null =>
    if vs.contains none then some true
    else if (vs.filter Option.isSome).isEmpty then some false else none
  | .ref _ => none

/-! ### strings: exact substring (Python `in`, SQL `instr`) and SQLite's LIKE -/

def isPrefixL : List Char → List Char → Bool
  | [], _ => true
  | _ :: _, [] => false
  | a :: as, b :: bs => a == b && isPrefixL as bs

/-- `p in t` on strings / `instr(t, p) > 0` -/
def isInfixL (p : List Char) : List Char → Bool
  | [] => p.isEmpty
  | c :: r => isPrefixL p (c :: r) || isInfixL p r

/-- ASCII lower-casing (SQLite's LIKE is case-insensitive for ASCII letters only) -/
def lowerAscii (c : Char) : Char :=
  if 65 ≤ c.toNat && c.toNat ≤ 90 then Char.ofNat (c.toNat + 32) else c

/-- SQLite `text LIKE pattern` without ESCAPE: `%` any run, `_` any one character, letters case-insensitively.
Fuelled (fuel ≥ |pattern| + |text| suffices). -/
def likeAux : Nat → List Char → List Char → Bool
  | 0, _, _ => false
  | _ + 1, [], [] => true
  | _ + 1, [], _ :: _ => false
  | n + 1, '%' :: p, [] => likeAux n p []
  | n + 1, '%' :: p, c :: t => likeAux n p (c :: t) || likeAux n ('%' :: p) t
  | _ + 1, _ :: _, [] => false
  | n + 1, a :: p, c :: t => (a == '_' || lowerAscii a == lowerAscii c) && likeAux n p t

def sqlLike (text pattern : List Char) : Bool := likeAux (pattern.length + text.length + 1) pattern text

/-- the string a value stands for (string columns hold ranks) -/
def strOf (tab : StrTab) : Val → Option (List Char)
  | .num n => if n ≤ 0 then none else tab[n.toNat - 1]?
  | _ => none

def isDigitC (c : Char) : Bool := 48 ≤ c.toNat && c.toNat ≤ 57

/-- SQLite's truth value of a TEXT value in a boolean context (`WHERE name`): the text is cast to NUMERIC — blanks, an
optional sign, then the longest prefix `digits [. digits]` (an exponent cannot make a non-zero mantissa zero; hexadecimal is
not recognised) — and compared with 0.  Text without a numeric prefix is 0, i.e. false. -/
def sqliteTextTruthy (s : List Char) : Bool :=
  let s := s.dropWhile (· == ' ')
  let s := match s with
    | '-' :: r => r
    | '+' :: r => r
    | _ => s
  let frac := match s.dropWhile isDigitC with
    | '.' :: r => r.takeWhile isDigitC
    | _ => []
  (s.takeWhile isDigitC ++ frac).any (· != '0')

def and3 : Option Bool → Option Bool → Option Bool
  | some false, _ => some false
  | _, some false => some false
  | some true, some true => some true
  | _, _ => none

def or3 : Option Bool → Option Bool → Option Bool
  | some true, _ => some true
  | _, some true => some true
  | some false, some false => some false
  | _, _ => none

def evalSql (db : DB) (env : List Nat) : SqlCond → Option Bool
  | .and a b => and3 (evalSql db env a) (evalSql db env b)
  | .or a b => or3 (evalSql db env a) (evalSql db env b)
  | .cmp op a b => sqlCmp db env op a b
  | .inList c vs => sqlIn ((sqlColVal db env c).getD .null) vs
  | .instr tab a b =>
    let sv : SqlSOperand → Option (List Char) := fun o =>
      match o with
      | .col c => strOf tab ((sqlColVal db env c).getD .null)
      | .lit k => strOf tab (.num k)
    match sv a, sv b with
    | some container, some item => some (isInfixL item container)
    | _, _ => none
  | .like tab c k =>
    match strOf tab ((sqlColVal db env c).getD .null), strOf tab (.num k) with
    | some text, some l => some (sqlLike text (('%' :: l) ++ ['%']))
    | _, _ => none
  | .truthy c =>
    match (sqlColVal db env c).getD .null with
    | .num n => some (n != 0)
    | .ref _ => some true
    | .null => none
  | .truthyStr tab c =>
    match (sqlColVal db env c).getD .null with
    | .null => none
    | v => (strOf tab v).map sqliteTextTruthy
  | .pyConst b _ _ _ => some b
  | .strNonEmpty tab c =>
    match (sqlColVal db env c).getD .null with
    | .null => some false
    | v => (strOf tab v).map fun s => !s.isEmpty
  | .rowIs v i neg => (env[v]?).map fun r => (r == i) != neg

/-- the statement a repaired translator would produce (fix candidates for F-C07-6 / F-C07-7): a string column as a
condition is `IS NOT NULL AND != ''`, a variable compared with an object is a comparison of primary keys -/
def SqlCond.repair : SqlCond → SqlCond
  | .and a b => .and a.repair b.repair
  | .or a b => .or a.repair b.repair
  | .truthyStr tab c => .strNonEmpty tab c
  | .pyConst _ v i neg => .rowIs v i neg
  | c => c

/-- WHERE keeps a row iff the condition is TRUE (not FALSE, not UNKNOWN) -/
def whereTrue (db : DB) (env : List Nat) : Option SqlCond → Bool
  | none => true
  | some c => evalSql db env c == some true

/-- every aliased INNER JOIN finds its partner row -/
def joinsOk (db : DB) (env : List Nat) (js : List Join) : Bool :=
  js.all fun j => ((env[j.var]?).bind fun i => navObj db i j.path).isSome

/-- ON clause of an attribute-equality join: `alias.targetRel_id = anchor.anchorRel_id` (plain `=`: NULL never matches) -/
def eqJoinOk (db : DB) (env : List Nat) (j : EqJoin) : Bool :=
  match sqlColVal db env ⟨0, [], j.anchorRel⟩, sqlColVal db env ⟨j.targetVar, [], j.targetRel⟩ with
  | some (.ref a), some (.ref b) => a == b
  | _, _ => false

/-- the rows the non-selected variables range over: variable `i` (of class `vars[i]`) over every instance of its class
if it is a FROM element (`seen`), else a single placeholder that is never read -/
def restEnvs (S : Schema) (db : DB) (seen : List Nat) : Nat → List Cls → List (List Nat)
  | _, [] => [[]]
  | i, c :: rest =>
    (if seen.contains i then rootsOf S db c else [0]).flatMap fun o =>
      (restEnvs S db seen (i + 1) rest).map fun e => o :: e

/-- rows returned by `session.scalars(stmt)`: the selected row once per combination of rows of the other FROM
elements that passes the inner joins, the ON clauses and the WHERE clause -/
def execSql (S : Schema) (s : SqlQuery) (db : DB) : List Nat :=
  (rootsOf S db s.sel).flatMap fun r =>
    ((restEnvs S db s.seen 1 s.vars.tail).filter fun rest =>
      joinsOk db (r :: rest) s.joins && s.eqJoins.all (eqJoinOk db (r :: rest)) && whereTrue db (r :: rest) s.whr).map
      fun _ => r

/-- BEFORE the fix for F-C07-1 every column was resolved by class: whenever the tables overlapped (always for two
variables of one class) a column of another variable denoted the SELECTED row. -/
def ColRef.conflate (c : ColRef) : ColRef := { c with var := 0 }

def SqlOperand.conflate : SqlOperand → SqlOperand
  | .col c => .col c.conflate
  | o => o

def SqlCond.conflate : SqlCond → SqlCond
  | .and a b => .and a.conflate b.conflate
  | .or a b => .or a.conflate b.conflate
  | .cmp op a b => .cmp op a.conflate b.conflate
  | .inList c vs => .inList c.conflate vs
  | .truthy c => .truthy c.conflate
  | c => c

/-! ## In-memory reference semantics -/

/-- Python comparison of attribute values; `none` = TypeError (ordering with None / objects) -/
def pyCmp (op : Cmp) (a b : Val) : Option Bool :=
  match op with
  | .eq => some (a == b)
  | .ne => some (a != b)
  | _ =>
    match a, b with
    | .num x, .num y => some (cmpInt op x y)
    | _, _ => none

def pyTruthy : Val → Bool
  | .null => false
  | .num n => n != 0
  | .ref _ => true

/-- `getattr` chain on the object bound to the chain's variable; `none` = AttributeError -/
def chainVal (db : DB) (env : List Nat) (c : Chain) : Option Val :=
  match env[c.var]?, c.path.getLast? with
  | some i, some a => colVal db i c.path.dropLast a
  | _, _ => none

def operandVal (db : DB) (env : List Nat) : Operand → Option Val
  | .chain c => chainVal db env c
  | .lit v => some (litVal v)
  | .other _ => none
  | .var v _ => (env[v]?).map .ref       -- the object bound to the variable (compared objects are value-distinct)
  | .obj i => some (.ref i)

/-- truth of a condition under one assignment `env` of the variables; `none` = evaluation raises
(or the construct is outside this reference semantics: it is only needed where the translator accepts). -/
def evalCond (db : DB) (env : List Nat) : Expr → Option Bool
  | .and l r =>
    match evalCond db env l with
    | some true => evalCond db env r
    | x => x
  | .or l r =>
    match evalCond db env l with
    | some false => evalCond db env r
    | x => x
  | .cmp op l r =>
    match operandVal db env l, operandVal db env r with
    | some a, some b => pyCmp op a b
    | _, _ => none
  | .isIn item vs =>
    match operandVal db env item with
    | some a => some (vs.any fun v => litVal v == a)
    | none => none
  | .attr c => (chainVal db env c).map pyTruthy
  | .substr tab container item =>
    let sv : SOperand → Option (List Char) := fun o =>
      match o with
      | .chain c => (chainVal db env c).bind (strOf tab)
      | .lit k => strOf tab (.num k)
    match sv container, sv item with
    | some c, some i => some (isInfixL i c)
    | _, _ => none
  | .strAttr tab c =>
    match chainVal db env c with
    | some .null => some false                                   -- `None` is falsy
    | some v => (strOf tab v).map fun s => !s.isEmpty            -- `''` is falsy, every other string truthy
    | none => none
  | _ => none

/-- all assignments of the non-selected variables -/
def assignments (S : Schema) (db : DB) : List Cls → List (List Nat)
  | [] => [[]]
  | c :: rest => (rootsOf S db c).flatMap fun i => (assignments S db rest).map fun a => i :: a

/-- is root `r` selected?  `none` = evaluation raises for some assignment -/
def memSelects (S : Schema) (db : DB) (q : Query) (e : Expr) (r : Nat) : Option Bool :=
  let rs := (assignments S db q.vars.tail).map fun a => evalCond db (r :: a) e
  if rs.contains none then none else some (rs.contains (some true))

/-- the set (ascending, duplicate free) of selected objects; `none` = evaluation raises -/
def evalMem (S : Schema) (q : Query) (db : DB) : Option (List Nat) :=
  match q.vars[0]? with
  | none => none
  | some sel =>
    match q.cond with
    | none => some (rootsOf S db sel)
    | some e =>
      let rs := (rootsOf S db sel).map fun r => (r, memSelects S db q e r)
      if rs.any (fun p => p.2.isNone) then none
      else some ((rs.filter fun p => p.2 == some true).map (·.1))

/-- number of solutions in which root `r` is selected: EQL has one solution per satisfying assignment of the
variables (a join between two variables yields the selected entity once per matching PAIR); `none` = raises.
Exact for and_-only conditions in which every non-selected variable occurs (the engine binds variables lazily and
`or_` between different variable sets re-evaluates its right side: multiplicities under `or_` are not modelled). -/
def memCount (S : Schema) (db : DB) (q : Query) (e : Expr) (r : Nat) : Option Nat :=
  let rs := (assignments S db q.vars.tail).map fun a => evalCond db (r :: a) e
  if rs.contains none then none else some (rs.count (some true))

/-- the solutions with their multiplicity (ascending; entity `r` repeated once per solution) -/
def evalMemMulti (S : Schema) (q : Query) (db : DB) : Option (List Nat) :=
  match q.vars[0]? with
  | none => none
  | some sel =>
    match q.cond with
    | none => some (rootsOf S db sel)
    | some e =>
      let rs := (rootsOf S db sel).map fun r => (r, memCount S db q e r)
      if rs.any (fun p => p.2.isNone) then none
      else some (rs.flatMap fun p => List.replicate (p.2.getD 0) p.1)

/-! ## Observations (what the property compares) -/

/-- ascending duplicate-free insertion -/
def insertNat (x : Nat) : List Nat → List Nat
  | [] => [x]
  | y :: ys => if x < y then x :: y :: ys else if x = y then y :: ys else y :: insertNat x ys

/-- the set of a list of row ids, as an ascending duplicate-free list -/
def toSet (xs : List Nat) : List Nat := xs.foldr insertNat []

inductive TheOutcome where
  | one (i : Nat) | noResult | multiple
  deriving Repr, DecidableEq

/-- `The` / `.one()`: exactly one solution/row, else NoSolutionFound/NoResultFound or
MultipleSolutionFound/MultipleResultsFound -/
def theOf : List Nat → TheOutcome
  | [] => .noResult
  | [x] => .one x
  | _ => .multiple

/-! ## Triggers of the open findings (decidable; used by the counter-example theorems and the driver) -/

def exprChains : Expr → List Chain
  | .and l r | .or l r => exprChains l ++ exprChains r
  | .cmp _ l r =>
    (match l with | .chain c => [c] | _ => []) ++ (match r with | .chain c => [c] | _ => [])
  | .isIn item _ => (match item with | .chain c => [c] | _ => [])
  | .attr c => [c]
  | .strAttr _ c => [c]
  | .substr _ a b =>
    (match a with | .chain c => [c] | _ => []) ++ (match b with | .chain c => [c] | _ => [])
  | .not e | .exist _ e | .all _ e => exprChains e
  | _ => []

/-- F-C07-1: a chain on a second variable was resolved by class -/
def trigByClass (s : SqlQuery) : Bool := s.flags.contains .byClass

/-- F-C07-2: some compared attribute chain evaluates to None/NULL on some object of its variable's class -/
def trigNull (S : Schema) (q : Query) (db : DB) : Bool :=
  match q.cond with
  | none => false
  | some e =>
    (exprChains e).any fun c =>
      match q.vars[c.var]?, c.path.getLast? with
      | some cls, some a => (rootsOf S db cls).any fun i => colVal db i c.path.dropLast a == some .null
      | _, _ => false

/-- F-C07-4: an attribute-equality join below an `or_`, or dropped because its class was already joined -/
def trigEqJoin (s : SqlQuery) : Bool := s.flags.contains .eqJoinUnderOr || s.flags.contains .eqJoinSkipped

/-- F-C07-5: `contains(column, "literal")` rendered with LIKE (case-insensitive, `%`/`_` of the literal are wildcards) -/
def trigLike (s : SqlQuery) : Bool := s.flags.contains .likeSubstring

/-- F-C07-6: a bare string attribute is (part of) the condition -/
def hasStrAttr : Expr → Bool
  | .and l r | .or l r => hasStrAttr l || hasStrAttr r
  | .strAttr _ _ => true
  | _ => false

/-- F-C07-7: a whole variable is compared with an object -/
def hasVarObj : Expr → Bool
  | .and l r | .or l r => hasVarObj l || hasVarObj r
  | .cmp _ l r => (varObj? l r).isSome
  | _ => false

def SqlQuery.repair (s : SqlQuery) : SqlQuery := { s with whr := s.whr.map SqlCond.repair }

end KrroodVerif.SqlTr
