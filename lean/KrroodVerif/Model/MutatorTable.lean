import KrroodVerif.Model.Descriptor
/-!
M-PD, second tie of C16: the write paths of the monitored containers as a TABLE of first-order summaries. Core Lean only.

`monitored_container.py` (`MonitoredList`, `MonitoredSet`) and `PropertyDescriptor.__set__` are short methods. Each
mutator is: which elements it hands to the recording hook `_on_add` (the argument / every element of the iterable
argument, from a snapshot or not / nothing), which operation of the underlying `list` / `set` it performs, in which
order, or that it delegates to another mutator (`__iadd__ → extend`), or that the class does not override it at all
(`inherited`: the plain `list` / `set` method runs, the hook is not involved). `harness/translate/c16_translate.py`
reads such a table off the CURRENT source on every run; this file holds

* the vocabulary (`Cls`, `Meth`, `MutatorSummary`);
* `mutatorTable`: the hand-written table of the code as it is — the table `stepC` / `setterC` / `inplaceC`
  (`Model/Descriptor.lean`, all quirks off) are built on; `Props/C16Table.lean` proves `interp mutatorTable = stepC`;
* `normTable`: delegations and calls of the private helper `_add_item` resolved (so that HOW a mutator reaches the
  hook — directly, through `_add_item`, through another mutator — does not matter, only what it ends up doing);
* `interp`: the interpreter of (normalised) tables on a container state, for every `COp` and ALL argument values.
-/
namespace KrroodVerif.PD

/-- `MonitoredList`, `MonitoredSet`, `PropertyDescriptor` -/
inductive Cls where | list | set | desc
  deriving Repr, DecidableEq

/-- every public mutating method of `list` and `set` (CPython 3.x), the private helper `_add_item` and the
descriptor's `__set__` -/
inductive Meth where
  -- list
  | append | extend | insert | setitem | delitem | iadd | imul | remove | pop | clear | sort | reverse
  -- set (`remove`, `pop`, `clear` as above)
  | add | update | ior | discard | isub | iand | ixor
  | differenceUpdate | intersectionUpdate | symmetricDifferenceUpdate
  -- `_add_item` (private; every recording mutator of the code as it is goes through it), `__set__`
  | addItem | set
  deriving Repr, DecidableEq

abbrev MutatorName := Cls × Meth

/-- which elements a method hands to the recording hook `_on_add` (one call per element, default flags: a
non-inferred element whose relation is added to the graph) -/
inductive Elems where
  | nothing
  | arg                          -- the (element) argument
  | each (snapshot : Bool)       -- every element the iterable argument yields; `snapshot`: `list(arg)` is taken first
  -- `__setitem__(idx, value)`: a plain index → `value`; a slice → every element of `value`; `keepsList`: what is
  -- stored afterwards is the LIST of what the hook returned (so a one-shot iterable is consumed once only)
  | argOrEach (keepsList : Bool)
  deriving Repr, DecidableEq

/-- the operation performed on the underlying `list` / `set` (`super().…`) with what was handed to the hook -/
inductive StoreOp where
  | none
  | append     -- `super().append(x)`, per element
  | add        -- `super().add(x)`, per element
  | insert     -- `super().insert(idx, x)`
  | setitem    -- `super().__setitem__(idx, v)` (index or slice)
  deriving Repr, DecidableEq

inductive Order where | recordFirst | storeFirst
  deriving Repr, DecidableEq

inductive Body where
  | direct (e : Elems) (st : StoreOp) (ord : Order)   -- calls `_on_add` and `super().…` itself
  | viaAddItem (e : Elems)                            -- `self._add_item(x)` for these elements
  | delegate (to : Meth)                              -- `self.<to>(arg)` and `return self`
  | inherited                                         -- not overridden: the `list` / `set` method, no hook
  -- `PropertyDescriptor.__set__`, container branch: `snapshotFirst` — the assigned value is read (`list(value)`)
  -- BEFORE the container is cleared; `asGiven` — walked in the order given, repetitions included (not through
  -- `make_set`); `clears` — `attr._clear()`; every element goes through `_add_item`; `keepsInferred` — the elements
  -- inference had put into the field are added again afterwards
  | setter (snapshotFirst asGiven clears keepsInferred : Bool)
  deriving Repr, DecidableEq

structure MutatorSummary where
  setArgOnly : Bool     -- guarded by `if not isinstance(arg, (set, frozenset)): return NotImplemented`
  body : Body
  deriving Repr, DecidableEq

abbrev MutatorTable := List (MutatorName × MutatorSummary)

/-- **The table of the code as it is** (monitored_container.py, property_descriptor.py at /repo HEAD). -/
def mutatorTable : MutatorTable :=
  [ ((.list, .addItem), ⟨false, .direct .arg .append .recordFirst⟩),
    ((.list, .append), ⟨false, .viaAddItem .arg⟩),
    ((.list, .extend), ⟨false, .viaAddItem (.each true)⟩),
    ((.list, .insert), ⟨false, .direct .arg .insert .recordFirst⟩),
    ((.list, .setitem), ⟨false, .direct (.argOrEach true) .setitem .recordFirst⟩),
    ((.list, .iadd), ⟨false, .delegate .extend⟩),
    ((.list, .delitem), ⟨false, .inherited⟩),
    ((.list, .imul), ⟨false, .inherited⟩),
    ((.list, .remove), ⟨false, .inherited⟩),
    ((.list, .pop), ⟨false, .inherited⟩),
    ((.list, .clear), ⟨false, .inherited⟩),
    ((.list, .sort), ⟨false, .inherited⟩),
    ((.list, .reverse), ⟨false, .inherited⟩),
    ((.set, .addItem), ⟨false, .direct .arg .add .recordFirst⟩),
    ((.set, .add), ⟨false, .viaAddItem .arg⟩),
    ((.set, .update), ⟨false, .viaAddItem (.each false)⟩),
    ((.set, .ior), ⟨true, .delegate .update⟩),
    ((.set, .remove), ⟨false, .inherited⟩),
    ((.set, .discard), ⟨false, .inherited⟩),
    ((.set, .pop), ⟨false, .inherited⟩),
    ((.set, .clear), ⟨false, .inherited⟩),
    ((.set, .isub), ⟨false, .inherited⟩),
    ((.set, .iand), ⟨false, .inherited⟩),
    ((.set, .ixor), ⟨false, .inherited⟩),
    ((.set, .differenceUpdate), ⟨false, .inherited⟩),
    ((.set, .intersectionUpdate), ⟨false, .inherited⟩),
    ((.set, .symmetricDifferenceUpdate), ⟨false, .inherited⟩),
    ((.desc, .set), ⟨false, .setter true true true true⟩) ]

/-- the public mutating API of `list` and `set` plus the two helpers: every name the table must have a row for -/
def allMutators : List MutatorName :=
  [ (.list, .addItem), (.list, .append), (.list, .extend), (.list, .insert), (.list, .setitem), (.list, .iadd),
    (.list, .delitem), (.list, .imul), (.list, .remove), (.list, .pop), (.list, .clear), (.list, .sort),
    (.list, .reverse),
    (.set, .addItem), (.set, .add), (.set, .update), (.set, .ior), (.set, .remove), (.set, .discard), (.set, .pop),
    (.set, .clear), (.set, .isub), (.set, .iand), (.set, .ixor), (.set, .differenceUpdate),
    (.set, .intersectionUpdate), (.set, .symmetricDifferenceUpdate),
    (.desc, .set) ]

def lookup {α : Type} (t : List (MutatorName × α)) (n : MutatorName) : Option α :=
  (t.find? (fun r => r.1 == n)).map (·.2)

/-- total over the public API, one row per name -/
def tableTotal {α : Type} (t : List (MutatorName × α)) : Bool :=
  t.map (·.1) == allMutators

/-! ### Normal form: delegations and `_add_item` calls resolved -/

/-- what the body ends up doing in class `c`: `(further guard, direct | inherited | setter)`; `none` when it refers
to a row that does not exist, `_add_item` is not a plain record-and-store of its argument, or delegations loop -/
def resolveBody (t : MutatorTable) (c : Cls) : Nat → Body → Option (Bool × Body)
  | _, .direct e st ord => some (false, .direct e st ord)
  | _, .inherited => some (false, .inherited)
  | _, .setter a b c' d => some (false, .setter a b c' d)
  | _, .viaAddItem e =>
    match lookup t (c, .addItem) with
    | some ⟨false, .direct .arg st ord⟩ => some (false, .direct e st ord)
    | _ => none
  | 0, .delegate _ => none
  | n+1, .delegate to =>
    match lookup t (c, to) with
    | some r => (resolveBody t c n r.body).map fun gb => (gb.1 || r.setArgOnly, gb.2)
    | none => none

def normRow (t : MutatorTable) (r : MutatorName × MutatorSummary) : MutatorName × Option MutatorSummary :=
  (r.1, (resolveBody t r.1.1 8 r.2.body).map fun gb => ⟨r.2.setArgOnly || gb.1, gb.2⟩)

/-- the table with every row resolved -/
def normTable (t : MutatorTable) : List (MutatorName × Option MutatorSummary) := t.map (normRow t)

/-! ### Interpretation of a normalised table on a container state -/

/-- the argument of one call -/
inductive MArg where
  | none
  | elem (x : Nat)
  | elems (oneShot : Bool) (xs : List Nat)
  | at (i : Int) (x : Nat)
  | slice (i j : Option Int) (oneShot : Bool) (xs : List Nat)
  | idx (i : Option Int)
  | delAt (i : Int)
  | delSlice (i j : Option Int)
  deriving Repr, DecidableEq

def MArg.elements : MArg → List Nat
  | .elem x => [x] | .elems _ xs => xs | .at _ x => [x] | .slice _ _ _ xs => xs | _ => []

/-- `(elements handed to the hook, elements handed to the store operation)` -/
def handed : Elems → MArg → Option (List Nat × List Nat)
  | .nothing, a => some ([], a.elements)
  | .arg, .elem x => some ([x], [x])
  | .arg, .at _ x => some ([x], [x])
  | .each _, .elems _ xs => some (xs, xs)
  | .argOrEach _, .at _ x => some ([x], [x])
  -- recording walks the value; a one-shot iterable is empty afterwards unless the list built while recording is stored
  | .argOrEach keeps, .slice _ _ oneShot xs => some (xs, if oneShot && !keeps then [] else xs)
  | _, _ => none

def storeOf (key : Nat → Nat) (isSet : Bool) : StoreOp → List Nat → MArg → List Nat → Option (List Nat)
  | .none, c, _, _ => some c
  | .append, c, _, st => if isSet then none else some (st.foldl (rawAdd key false) c)
  | .add, c, _, st => if isSet then some (st.foldl (rawAdd key true) c) else none
  | .insert, c, .at i _, [x] => if isSet then none else some (pyInsert c i x)
  | .setitem, c, .at i _, [x] => if isSet then none else some (pySetItem c i x)
  | .setitem, c, .slice i j _ _, st => if isSet then none else some (pySetSlice c i j st)
  | _, _, _, _ => none

/-- a `direct` row: the hook sees `handed`, the store operation runs (the order of the two is not observable in the
state: the hook does not write into the container it is called from — modelling assumption of C16) -/
def applyDirect (key : Nat → Nat) (isSet : Bool) (e : Elems) (st : StoreOp) (σ : CState) (a : MArg) : Option CState :=
  match handed e a with
  | none => none
  | some (recd, stored) => (storeOf key isSet st σ.c a stored).map fun c => ⟨c, σ.calls ++ recd⟩

/-- an `inherited` row: the plain `list` / `set` method -/
def builtin (key : Nat → Nat) (isSet : Bool) : Meth → List Nat → MArg → Option (List Nat)
  | .append, c, .elem x => some (rawAdd key isSet c x)
  | .add, c, .elem x => some (rawAdd key isSet c x)
  | .extend, c, .elems _ xs => some (xs.foldl (rawAdd key isSet) c)
  | .update, c, .elems _ xs => some (xs.foldl (rawAdd key isSet) c)
  | .iadd, c, .elems _ xs => some (xs.foldl (rawAdd key isSet) c)
  | .ior, c, .elems _ xs => some (xs.foldl (rawAdd key isSet) c)
  | .insert, c, .at i x => some (pyInsert c i x)
  | .setitem, c, .at i x => some (pySetItem c i x)
  | .setitem, c, .slice i j _ xs => some (pySetSlice c i j xs)
  | .remove, c, .elem x => some (pyRemove key c x)
  | .discard, c, .elem x => some (pyRemove key c x)
  | .pop, c, .idx i => some (pyPop c i)
  | .delitem, c, .delAt i => some (pyDelItem c i)
  | .delitem, c, .delSlice i j => some (pySetSlice c i j [])
  | .clear, _, .none => some []
  | _, _, _ => none

abbrev NormTable := List (MutatorName × Option MutatorSummary)

def clsOf (isSet : Bool) : Cls := if isSet then .set else .list

/-- one call `container.<m>(a)` -/
def callNF (t : NormTable) (key : Nat → Nat) (isSet : Bool) (m : Meth) (σ : CState) (a : MArg) : Option CState :=
  match lookup t (clsOf isSet, m) with
  | some (some ⟨_, .direct e st _⟩) => applyDirect key isSet e st σ a
  | some (some ⟨_, .inherited⟩) => (builtin key isSet m σ.c a).map fun c => ⟨c, σ.calls⟩
  | _ => none

def foldOpt {α β : Type} (f : β → α → Option β) : List α → β → Option β
  | [], b => some b
  | x :: xs, b => match f b x with | some b' => foldOpt f xs b' | none => none

/-- `obj.field = value` on a field that holds its container -/
def setterNF (t : NormTable) (key : Nat → Nat) (isSet : Bool) (σ : CState) (v : Assigned) : Option CState :=
  match lookup t (.desc, .set), lookup t (clsOf isSet, .addItem) with
  | some (some ⟨_, .setter snap asGiven clears _⟩), some (some ⟨_, .direct .arg st _⟩) =>
    let walk := fun (xs : List Nat) => if asGiven then xs else hashOrder xs
    let base := if clears then [] else σ.c
    let live := if snap then σ.c else base      -- what an iterable over the live container yields when it is read
    let items := match v with
      | .same => walk live
      | .other xs => walk xs
      | .lazyOf w => walk (w.eval key live)
    foldOpt (fun τ x => applyDirect key isSet .arg st τ (.elem x)) items ⟨base, σ.calls⟩
  | _, _ => none

/-- every write operation of the C16 grammar as calls into the table -/
def interpNF (t : NormTable) (key : Nat → Nat) (isSet : Bool) (σ : CState) : COp → Option CState
  | .append x => callNF t key isSet (if isSet then .add else .append) σ (.elem x)
  | .extend xs => callNF t key isSet (if isSet then .update else .extend) σ (.elems false xs)
  | .insert i x => callNF t key isSet .insert σ (.at i x)
  | .setitem i x => callNF t key isSet .setitem σ (.at i x)
  | .setslice i j one xs => callNF t key isSet .setitem σ (.slice i j one xs)
  | .assign xs => setterNF t key isSet σ (.other xs)
  | .assignSelf => setterNF t key isSet σ .same
  | .assignView v => setterNF t key isSet σ (.lazyOf v)
  -- `a.f += xs` is `tmp = a.f.__iadd__(xs); a.f = tmp`, and `__iadd__` returns the container itself
  | .iadd xs =>
    match callNF t key isSet (if isSet then .ior else .iadd) σ (.elems false xs) with
    | some τ => setterNF t key isSet τ .same
    | none => none
  | .iaddAlias xs => callNF t key isSet (if isSet then .ior else .iadd) σ (.elems false xs)
  | .remove x => callNF t key isSet .remove σ (.elem x)
  | .discard x => callNF t key isSet .discard σ (.elem x)
  | .pop i => callNF t key isSet .pop σ (.idx i)
  | .delitem i => callNF t key isSet .delitem σ (.delAt i)
  | .delslice i j => callNF t key isSet .delitem σ (.delSlice i j)
  | .clear => callNF t key isSet .clear σ .none

/-- **the interpreter of mutator tables**: normalise, then run -/
def interp (t : MutatorTable) (key : Nat → Nat) (isSet : Bool) (σ : CState) (op : COp) : Option CState :=
  interpNF (normTable t) key isSet σ op

/-! ### The tables of the code as it was (for the tests in `Props/C16Table.lean`) -/

/-- before fix 86aebcb: `__iadd__` / `__ior__` not overridden (F-C16-4) -/
def mutatorTableNoInplace : MutatorTable :=
  mutatorTable.map fun r =>
    if r.1 == (.list, .iadd) || r.1 == (.set, .ior) then (r.1, ⟨false, .inherited⟩) else r

/-- before fix 1406c8c: `__set__` cleared the container first and walked `make_set(value)` (F-C16-1..3) -/
def mutatorTableOldSetter : MutatorTable :=
  mutatorTable.map fun r => if r.1 == (.desc, .set) then (r.1, ⟨false, .setter false false true false⟩) else r

end KrroodVerif.PD
