import KrroodVerif.Model.Dom
/-!
M-DOM, repaired machine (`C03_full`): the same shared domain `Dom` (dict cache + one-shot generator), but every
iterator is an *index* into `cache ++ rest` and advances with `Dom.stepIdx` (replay the cache by position, pull the
shared generator only when the index runs past the cache). This is the re-entrant `HashedIterable.__iter__`
(fix candidate of F-C03-1). Core Lean only. Everything is defined analogously to `QIter`, `qnext`, `State`, `run1`,
`run`, `init` of `Model/Dom.lean`; the schedule language `Op` and the specification `specRun` are shared.
-/
namespace KrroodVerif.Dom

/-- a single-variable query iterator of the repaired machine: an index into `cache ++ rest` plus the set of
elements satisfying its condition -/
structure QIterIdx where
  idx : Nat
  sat : List Nat
  deriving DecidableEq, Repr

/-- one `next()` on a repaired query iterator: advance the index until a satisfying element or the end; `fuel`
bounds the number of domain steps exactly as in `qnext` -/
def qnextIdx (d : Dom) (q : QIterIdx) : Nat → Dom × QIterIdx × Out
  | 0 => (d, q, .stop)
  | fuel + 1 =>
    match stepIdx d q.idx with
    | (d', i', .val x) =>
      if q.sat.contains x then (d', { q with idx := i' }, .val x) else qnextIdx d' { q with idx := i' } fuel
    | (d', i', o) => (d', { q with idx := i' }, o)

structure StateIdx where
  dom : Dom
  its : List (Nat × QIterIdx)     -- live iterators by id
  deriving Repr

def StateIdx.get (s : StateIdx) (i : Nat) : Option QIterIdx := s.its.lookup i
def StateIdx.set (s : StateIdx) (i : Nat) (q : QIterIdx) : StateIdx :=
  { s with its := (i, q) :: s.its.filter (·.1 != i) }

/-- `run1` with index cursors -/
def run1Idx (sats : Nat → List Nat) (s : StateIdx) : Op → StateIdx × Option Out
  | .start i => (s.set i { idx := 0, sat := sats i }, none)
  | .abandon i => ({ s with its := s.its.filter (·.1 != i) }, none)
  | .next i =>
    match s.get i with
    | none => (s, some .stop)
    | some q =>
      let r := qnextIdx s.dom q (s.dom.cache.length + s.dom.rest.length + 2)
      ({ dom := r.1, its := (i, r.2.1) :: s.its.filter (·.1 != i) }, some r.2.2)

def runIdx (sats : Nat → List Nat) : StateIdx → List Op → List (Option Out)
  | _, [] => []
  | s, op :: ops => let r := run1Idx sats s op; r.2 :: runIdx sats r.1 ops

def initIdx (n : Nat) : StateIdx := { dom := { cache := [], rest := List.range n }, its := [] }

/-! ### a weaker schedule discipline than `sequential` (used by `C03_nonoverlap_partial`)

Creating an iterator does nothing until its first `next` (the generator body has not started), so what must not
overlap are the *consumption phases* (first `next` … last `next`) of the evaluations, not their lifetimes:
`it0 = iter(q0.evaluate()); it1 = iter(q1.evaluate()); list(it0); list(it1)` is fine. -/

/-- `act`: the iterator whose consumption phase is open (the only one that may be advanced), `fresh`: iterators that
were started and never advanced. Advancing a fresh iterator opens its phase and closes the open one for good. -/
def noOverlapAux : Option Nat → List Nat → List Op → Bool
  | _, _, [] => true
  | act, fresh, .start i :: ops => noOverlapAux (if act == some i then none else act) (i :: fresh) ops
  | act, fresh, .abandon i :: ops =>
    noOverlapAux (if act == some i then none else act) (fresh.filter (· != i)) ops
  | act, fresh, .next i :: ops =>
    if act == some i then noOverlapAux act fresh ops
    else if fresh.contains i then noOverlapAux (some i) (fresh.filter (· != i)) ops
    else false

def noOverlap (ops : List Op) : Bool := noOverlapAux none [] ops

/-- `abandon`-irrelevance (`C03_abandon_irrelevant`): iterator `i` is not advanced in `ops` before it is started
again -/
def neverAdvanced (i : Nat) : List Op → Bool
  | [] => true
  | .start j :: ops => if j = i then true else neverAdvanced i ops
  | .next j :: ops => if j = i then false else neverAdvanced i ops
  | .abandon _ :: ops => neverAdvanced i ops

/-- the machine state after a schedule -/
def stateAfter (sats : Nat → List Nat) (s : State) (ops : List Op) : State :=
  ops.foldl (fun s op => (run1 sats s op).1) s

end KrroodVerif.Dom
