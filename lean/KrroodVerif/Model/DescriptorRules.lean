import KrroodVerif.Model.Descriptor
/-!
M-PD, second tie: the inference procedure of `property_descriptor_relation.py` as DATA — a first-order rule table —
plus an interpreter. Core Lean only.

`harness/translate/c15_translate.py` regenerates the table (`Translated.rules`, `Translated.proc`) from the CURRENT
Python AST on every run; the kernel then re-checks `Translated.rules = rules` and `RulesOk Translated.rules`
(`Props/C15Rules.lean` proves ONCE, unbounded, that `interpRules rules` is `addFact` and that `interpRules tbl`
reaches the closure in every order for EVERY table with `RulesOk tbl`).

Python → table
* `add_to_graph`: `if super().add_to_graph():` (the relation is NEW) … `self.infer_super_relations()`,
  `self.infer_inverse_relation()`, `self.infer_transitive_relations()` — one `Rule` per derivation site, in the order
  in which the sites are reached; `guardNew` = the site is inside that `if`.
* a derivation site is `<relation class>(<src>, <tgt>, <field>, inferred=<flag>).add_to_graph()` inside
  `for super_domain, super_field in self.super_relations` (`Source.superRelations`), after
  `inverse_domain, inverse_field = self.inverse_domain_and_field` (`Source.inversePair`), or inside
  `for nxt in self.<neighbour property>` where the neighbour property is
  `SymbolGraph().get_{outgoing,incoming}_relations_with_condition(self.{source,target}, <condition>)`
  (`Source.neighbours dir end filter`); the conjuncts of the condition are the `NbFilter` flags.
* `if self.transitive:` / `if self.inverse_of:` / `… and not self.inferred` around a site are `need` /
  `selfNotInferred`.
-/
namespace KrroodVerif.PD

/-- the test on `self` a derivation site is guarded by -/
inductive Need where
  | none
  | inverse      -- `if self.inverse_of:`
  | transitive   -- `if self.transitive:`
  deriving Repr, DecidableEq

inductive Dir where
  | outgoing     -- `get_outgoing_relations_with_condition`
  | incoming     -- `get_incoming_relations_with_condition`
  deriving Repr, DecidableEq

inductive End where
  | source       -- `self.source`
  | target       -- `self.target`
  deriving Repr, DecidableEq

/-- the conjuncts of the condition applied to a neighbour relation -/
structure NbFilter where
  sameDescriptor : Bool     -- `relation.property_descriptor_cls is self.property_descriptor_cls`
  sameWrappedField : Bool   -- `relation.wrapped_field == self.wrapped_field`
  liveSource : Bool         -- `relation.source.instance is not None`
  liveTarget : Bool         -- `relation.target.instance is not None`
  notInferred : Bool        -- `not relation.inferred`
  deriving Repr, DecidableEq

/-- what a derivation site iterates over -/
inductive Source where
  | superRelations                                   -- trigger kind "super"
  | inversePair                                      -- trigger kind "inverse"
  | neighbours (dir : Dir) (node : End) (filter : NbFilter)   -- "transitive-out" = outgoing of the target, "transitive-in" = incoming of the source
  deriving Repr, DecidableEq

inductive ObjTerm where
  | selfSource | selfTarget   -- `self.source` / `self.target`
  | nbSource | nbTarget       -- `nxt.source` / `nxt.target`
  | ruleDomain                -- `super_domain` / `inverse_domain`
  deriving Repr, DecidableEq

inductive FieldTerm where
  | selfField                 -- `self.wrapped_field`
  | nbField                   -- `nxt.wrapped_field`
  | ruleField                 -- `super_field` / `inverse_field`
  deriving Repr, DecidableEq

structure Rule where
  source : Source
  guardNew : Bool          -- reached only when `super().add_to_graph()` returned True (the relation is new)
  need : Need
  selfNotInferred : Bool   -- additionally guarded by `not self.inferred`
  src : ObjTerm            -- the derived relation: source,
  tgt : ObjTerm            --   target,
  field : FieldTerm        --   wrapped field,
  inferredFlag : Bool      --   `inferred=` flag
  recurses : Bool          -- the derived relation goes through `add_to_graph()` of the same class (the full procedure)
  deriving Repr, DecidableEq

/-- everything else `add_to_graph` / `add_relation_to_the_graph` do around the rules -/
structure Proc where
  writeBackWhenInferred : Bool   -- `if self.inferred: self.update_source_wrapped_field_value()`
  writeBackGuardNew : Bool       --   inside the "relation is new" branch
  writeBackFirst : Bool          --   before any rule fires
  entryNotNone : Bool            -- `add_relation_to_the_graph`: `if domain_value is not None and range_value is not None`
  entryEach : Bool               --   `for v in make_set(range_value)`: one relation per element
  entryThroughAddToGraph : Bool  --   `PropertyDescriptorRelation(domain_value, v, self.wrapped_field, inferred=inferred).add_to_graph()`
  deriving Repr, DecidableEq

def liveFar (d : Dir) : NbFilter :=
  match d with
  | .outgoing => ⟨true, false, false, true, false⟩
  | .incoming => ⟨true, false, true, false, false⟩

/-- **the table the hand-written model transcribes** (= the code at the time of writing) -/
def rules : List Rule :=
  [ ⟨.superRelations, true, .none, false, .ruleDomain, .selfTarget, .ruleField, true, true⟩,
    ⟨.inversePair, true, .inverse, false, .ruleDomain, .selfSource, .ruleField, true, true⟩,
    ⟨.neighbours .outgoing .target (liveFar .outgoing), true, .transitive, false, .selfSource, .nbTarget, .nbField, true, true⟩,
    ⟨.neighbours .incoming .source (liveFar .incoming), true, .transitive, false, .nbSource, .selfTarget, .nbField, true, true⟩ ]

def proc : Proc := ⟨true, true, true, true, true, true⟩

/-! ### Interpreter -/

/-- the schema-dependent ingredients the rules consult -/
structure Sem where
  sup : Fact → List (Nat × Nat)     -- `self.super_relations`: (domain object, field) pairs, direct then role taker
  inv : Fact → Option (Nat × Nat)   -- `self.inverse_domain_and_field` (`none`: the descriptor has no inverse)
  tr : Nat → Bool                   -- `self.transitive`

/-- the declared rules in the abstract (`Rules` of `Model/Descriptor.lean`) -/
def Sem.toRules (P : Sem) : Rules :=
  { u := fun r => (P.sup r).map (fun df => (df.2, df.1, r.2.2)) ++ (P.inv r).toList.map (fun df => (df.2, df.1, r.2.1)),
    tr := P.tr }

/-- `super_relations` and `inverse_domain_and_field` over a schema and world (the two halves of `uRule`) -/
def schemaSem (S : Schema) (W : World) : Sem :=
  { sup := fun r =>
      (S.superFields (W.clsOf r.2.1) (S.propOf r.1)).map (fun g => (r.2.1, g)) ++
      (match W.rtOf r.2.1 with
       | some x => (S.superFields (W.clsOf x) (S.propOf r.1)).map fun g => (x, g)
       | none => []),
    inv := fun r =>
      match S.inverseOf (S.propOf r.1) with
      | none => none
      | some q =>
        match S.exactField (W.clsOf r.2.2) q with
        | some g => some (r.2.2, g)
        | none =>
          match W.rtOf r.2.2 with
          | some x => (match S.exactField (W.clsOf x) q with | some g => some (x, g) | none => none)
          | none => none,
    tr := fun f => S.transProps.contains (S.propOf f) }

/-- the relation graph with the `inferred` flags: `inf` lists the relations of `g` whose flag is set -/
structure TGraph where
  g : List Fact
  inf : List Fact

def TGraph.empty : TGraph := ⟨[], []⟩

def TGraph.add (G : TGraph) (r : Fact) (flag : Bool) : TGraph :=
  ⟨r :: G.g, if flag then r :: G.inf else G.inf⟩

def objOf (t : ObjTerm) (self nb : Fact) (dom : Nat) : Nat :=
  match t with
  | .selfSource => self.2.1 | .selfTarget => self.2.2
  | .nbSource => nb.2.1 | .nbTarget => nb.2.2
  | .ruleDomain => dom

def fieldOf (t : FieldTerm) (self nb : Fact) (fld : Nat) : Nat :=
  match t with
  | .selfField => self.1 | .nbField => nb.1 | .ruleField => fld

def Rule.build (ρ : Rule) (self nb : Fact) (dom fld : Nat) : Fact :=
  (fieldOf ρ.field self nb fld, objOf ρ.src self nb dom, objOf ρ.tgt self nb dom)

/-- the neighbour condition on relation `nb` whose flag is `nbInf`. Every instance a history mentions is alive, so
the liveness conjuncts hold; the model identifies all wrapped fields of one descriptor class (the quotient of
`Model/Descriptor.lean`), so `sameWrappedField` can only be read as `sameDescriptor` here — `RulesOk` rejects it,
because in the code it is strictly finer. -/
def NbFilter.ok (φ : NbFilter) (nbInf : Bool) (self nb : Fact) : Bool :=
  (!φ.sameDescriptor || nb.1 == self.1) && (!φ.sameWrappedField || nb.1 == self.1) && (!φ.notInferred || !nbInf)

def atNode (d : Dir) (e : End) (self nb : Fact) : Bool :=
  (match d with | .outgoing => nb.2.1 | .incoming => nb.2.2) == (match e with | .source => self.2.1 | .target => self.2.2)

/-- the relations one derivation site proposes for relation `self` (flag `selfInf`) on graph `G` — computed when the
site is reached (a snapshot, like the edge list rustworkx returns) -/
def Rule.candidates (P : Sem) (ρ : Rule) (G : TGraph) (self : Fact) (selfInf : Bool) : List Fact :=
  if ρ.selfNotInferred && selfInf then [] else
  if ρ.need == .transitive && !P.tr self.1 then [] else
  match ρ.source with
  | .superRelations => (P.sup self).map fun df => ρ.build self self df.1 df.2
  | .inversePair => (P.inv self).toList.map fun df => ρ.build self self df.1 df.2
  | .neighbours d e φ =>
    (G.g.filter fun q => φ.ok (G.inf.contains q) self q && atNode d e self q).map fun q => ρ.build self q 0 0

/-- `add_to_graph` driven by a rule table; fuel bounds the recursion like in `addFact` -/
def interpRules (P : Sem) (tbl : List Rule) : Nat → TGraph → Fact → Bool → TGraph
  | 0, G, _, _ => G
  | n+1, G, r, flag =>
    let known := decide (r ∈ G.g)
    let G1 := if known then G else G.add r flag
    tbl.foldl (fun H ρ =>
      if ρ.guardNew && known then H else
      (ρ.candidates P H r flag).foldl (fun H' t =>
        if ρ.recurses then interpRules P tbl n H' t ρ.inferredFlag
        else if t ∈ H'.g then H' else H'.add t ρ.inferredFlag) H) G1

/-- a history of asserted relations -/
def runRules (P : Sem) (tbl : List Rule) (fuel : Nat) (hist : List Fact) : TGraph :=
  hist.foldl (fun G r => interpRules P tbl fuel G r false) TGraph.empty

/-! ### The decidable predicate on tables -/

inductive Kind4 where | super | inverse | transOut | transIn
  deriving Repr, DecidableEq

/-- the part of a rule that decides WHICH relations are derived (the `inferred=` flag of the derived relation and
the liveness conjuncts do not: every instance of a history is alive) -/
def Rule.core (ρ : Rule) : Rule :=
  { ρ with inferredFlag := true,
           source := match ρ.source with
             | .neighbours d e φ => .neighbours d e { φ with liveSource := false, liveTarget := false }
             | s => s }

def coreRule : Kind4 → Rule
  | .super => ⟨.superRelations, true, .none, false, .ruleDomain, .selfTarget, .ruleField, true, true⟩
  | .inverse => ⟨.inversePair, true, .inverse, false, .ruleDomain, .selfSource, .ruleField, true, true⟩
  | .transOut => ⟨.neighbours .outgoing .target ⟨true, false, false, false, false⟩, true, .transitive, false,
                  .selfSource, .nbTarget, .nbField, true, true⟩
  | .transIn => ⟨.neighbours .incoming .source ⟨true, false, false, false, false⟩, true, .transitive, false,
                 .nbSource, .selfTarget, .nbField, true, true⟩

def Rule.isKind (ρ : Rule) (k : Kind4) : Bool := decide (ρ.core = coreRule k)

def Rule.wf (ρ : Rule) : Bool :=
  ρ.isKind .super || ρ.isKind .inverse || ρ.isKind .transOut || ρ.isKind .transIn

/-- **RulesOk.** Every rule of the table is one of the four sound derivations — guarded by "the relation is new",
recursing through the full procedure, with joins over ALL relations of the same descriptor class irrespective of
their `inferred` flag (and of the flag of the new relation) — and all four are present: super-properties, inverse,
and BOTH transitive joins. Order and repetition of the rules are free. -/
def RulesOk (tbl : List Rule) : Bool :=
  tbl.all Rule.wf && tbl.any (·.isKind .super) && tbl.any (·.isKind .inverse) &&
  tbl.any (·.isKind .transOut) && tbl.any (·.isKind .transIn)

end KrroodVerif.PD
