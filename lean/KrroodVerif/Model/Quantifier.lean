/-!
M-QUANT — result quantification (`result_quantification_constraint.py`, `ResultQuantifier._evaluate__`,
`The.evaluate` in `symbolic.py`). Core Lean only.

Python → model:
* `Exactly(v) / AtLeast(v) / AtMost(v)`: `__post_init__` raises `NegativeQuantificationError` when `v < 0`;
  `Range(AtLeast(a), AtMost(b))` additionally raises `QuantificationConsistencyError` when `b < a`.
* `assert_satisfaction(number_of_solutions, quantifier, done)` — one function per class, transcribed.
* `ResultQuantifier._evaluate__`: `count += 1; assert(count, done=False); yield` per child result, then
  `assert(count, done=True)`.
* `The`: constraint `Exactly(1)`; `Less → NoSolutionFound`, `Greater → MultipleSolutionFound`;
  `evaluate()` returns `list(...)[0]`.
-/
namespace KrroodVerif.Quant

inductive Constraint where
  | exactly (v : Nat)
  | atLeast (v : Nat)
  | atMost (v : Nat)
  | range (lo hi : Nat)
  deriving Repr, DecidableEq

inductive Err where
  | negative      -- NegativeQuantificationError
  | inconsistent  -- QuantificationConsistencyError
  | greater       -- GreaterThanExpectedNumberOfSolutions
  | less          -- LessThanExpectedNumberOfSolutions
  deriving Repr, DecidableEq

inductive Kind where | exactly | atLeast | atMost
  deriving Repr, DecidableEq

/-- constructor of the single-valued constraints on *integers* as the user writes them -/
def mkSingle (k : Kind) (v : Int) : Except Err Constraint :=
  if v < 0 then .error .negative
  else match k with
    | .exactly => .ok (.exactly v.toNat)
    | .atLeast => .ok (.atLeast v.toNat)
    | .atMost => .ok (.atMost v.toNat)

/-- `Range(AtLeast(a), AtMost(b))`: the arguments are constructed first (left to right), then the range -/
def mkRange (a b : Int) : Except Err Constraint :=
  if a < 0 then .error .negative
  else if b < 0 then .error .negative
  else if b < a then .error .inconsistent
  else .ok (.range a.toNat b.toNat)

/-- `assert_satisfaction` of each class; `Range` calls `at_least` first, then `at_most`. -/
def assertSat : Constraint → Nat → Bool → Except Err Unit
  | .exactly v, n, done =>
      if n > v then .error .greater
      else if done && n < v then .error .less
      else .ok ()
  | .atLeast v, n, done => if done && n < v then .error .less else .ok ()
  | .atMost v, n, _ => if n > v then .error .greater else .ok ()
  | .range lo hi, n, done =>
      if done && n < lo then .error .less
      else if n > hi then .error .greater
      else .ok ()

def assertOpt : Option Constraint → Nat → Bool → Except Err Unit
  | none, _, _ => .ok ()
  | some c, n, d => assertSat c n d

inductive Outcome where
  | ok
  | err (e : Err)
  deriving Repr, DecidableEq

/-- the generator loop of `ResultQuantifier._evaluate__`, started with `count` results already seen -/
def loop {α} (c : Option Constraint) : Nat → List α → List α × Outcome
  | count, [] =>
      match assertOpt c count true with
      | .ok () => ([], .ok)
      | .error e => ([], .err e)
  | count, x :: xs =>
      match assertOpt c (count + 1) false with
      | .error e => ([], .err e)
      | .ok () =>
        let r := loop c (count + 1) xs
        (x :: r.1, r.2)

def run {α} (c : Option Constraint) (sols : List α) : List α × Outcome := loop c 0 sols

/-! ### Specification (what the property says) -/

def upper : Constraint → Option Nat
  | .exactly v => some v | .atLeast _ => none | .atMost v => some v | .range _ hi => some hi
def lower : Constraint → Nat
  | .exactly v => v | .atLeast v => v | .atMost _ => 0 | .range lo _ => lo

/-- well-formed: what the constructors guarantee -/
def Constraint.WF : Constraint → Prop
  | .range lo hi => lo ≤ hi
  | _ => True

/-- `n` solutions satisfy `c` -/
def satisfies (c : Constraint) (n : Nat) : Bool :=
  decide (lower c ≤ n) && (match upper c with | some u => decide (n ≤ u) | none => true)

def spec {α} (c : Option Constraint) (sols : List α) : List α × Outcome :=
  match c with
  | none => (sols, .ok)
  | some c =>
    let n := sols.length
    match upper c with
    | some u =>
      if n > u then (sols.take u, .err .greater)
      else if n < lower c then (sols, .err .less) else (sols, .ok)
    | none => if n < lower c then (sols, .err .less) else (sols, .ok)

/-! ### `the` -/
inductive TheOutcome (α : Type) where
  | value (x : α)
  | noSolution
  | multipleSolutions
  deriving Repr, DecidableEq

/-- `The._evaluate__` maps the two count errors; `The.evaluate` takes element 0 of the yielded list.
(`other` cannot occur; kept total and proved unreachable in `Props/C09`.) -/
def theRun {α} (sols : List α) : Option (TheOutcome α) :=
  match run (some (.exactly 1)) sols with
  | (_, .err .less) => some .noSolution
  | (_, .err .greater) => some .multipleSolutions
  | (x :: _, .ok) => some (.value x)
  | _ => none

def theSpec {α} : List α → TheOutcome α
  | [] => .noSolution
  | [x] => .value x
  | _ :: _ :: _ => .multipleSolutions

end KrroodVerif.Quant

namespace KrroodVerif.Quant

/-- what a consumer observes that asks an evaluation for at most `k` results (`none`: until it ends) and then keeps
the iterator alive without advancing it -/
inductive Seen where
  | stillOpen
  | ended (o : Outcome)
  deriving Repr, DecidableEq

def consume {α} (k : Option Nat) (r : List α × Outcome) : List α × Seen :=
  match k with
  | none => (r.1, .ended r.2)
  | some k => if k ≤ r.1.length then (r.1.take k, .stillOpen) else (r.1, .ended r.2)

/-- a history of evaluations of ONE query object: every evaluation counts from zero — earlier evaluations, finished
or still suspended, leave nothing behind (the counter is local to the generator frame) -/
def history {α} (c : Option Constraint) (sols : List α) (ks : List (Option Nat)) : List (List α × Seen) :=
  ks.map fun k => consume k (run c sols)

end KrroodVerif.Quant

namespace KrroodVerif.Quant

/-- number of child results the generator loop has taken from its (lazy) child when it ends: the result that makes the
count exceed an upper bound is the last one taken -/
def consumedFrom {α} (c : Option Constraint) : Nat → List α → Nat
  | _, [] => 0
  | count, _ :: xs =>
      match assertOpt c (count + 1) false with
      | .error _ => 1
      | .ok () => 1 + consumedFrom c (count + 1) xs

def consumed {α} (c : Option Constraint) (sols : List α) : Nat := consumedFrom c 0 sols

/-- what the `p`-th `next()` (0-based) on ONE evaluation returns: a value, then the outcome (end of iteration or the
error), then nothing any more (a finished generator) -/
inductive NextObs (α : Type) where
  | value (x : α)
  | finished (o : Outcome)
  | exhausted
  deriving Repr, DecidableEq

def nextObs {α} (r : List α × Outcome) (p : Nat) : NextObs α :=
  match r.1[p]? with
  | some x => .value x
  | none => if p = r.1.length then .finished r.2 else .exhausted

/-- several evaluations of ONE query object advanced in an interleaved order `js` (the j-th entry names the evaluation
whose `next()` is called): every evaluation counts on its own — its p-th `next()` is the p-th observation of the
evaluation run alone -/
def interleaved {α} (c : Option Constraint) (sols : List α) : List Nat → List (Nat × Nat) → List (Nat × NextObs α)
  | [], _ => []
  | j :: rest, pos =>
    let p := (pos.lookup j).getD 0
    (j, nextObs (run c sols) p) :: interleaved c sols rest ((j, p + 1) :: pos.filter (·.1 != j))

end KrroodVerif.Quant
