import KrroodVerif.Model.Rule
/-!
M-RULE as TABLES — the second tie of C08 (by translation). Core Lean only.

`Model/Rule.lean` is a hand-written transcription of `rule.py` / `conclusion_selector.py`. Here the two parts of it
that decide what a rule tree means are described once more, as first-order DATA, in the form a translator
(`harness/translate/c08_translate.py`) regenerates from the Python AST on every run:

* `SurgeryTable` — what `rule.refinement` and `rule.alternative_or_next` do to the expression graph: which parent
  is read, whether the current node is detached, which node is built from which operands, how it is re-linked into
  the previous parent (which operand tests in which order), the continue-conditions of the climb loop;
  `buildWith : SurgeryTable → Prog → Option BState` interprets it over the same pointer store (`BState`);
* `SelectorTable` — per selector class (`ExceptIf`, `Alternative`, `Next`) what happens for a true / false left value,
  whether and from which bindings the right operand is evaluated, what is yielded per true / false right value, whose
  conclusions are handed to `update_conclusion`, and how `update_conclusion` de-duplicates (`DedupSpec`);
  `evalWith : SelectorTable → … → Sel → …` interprets it.

`Rdr.surgery` / `Rdr.selectors` are the hand tables (the code as it is). `Props/C08Tables.lean` proves ONCE, unbounded,
`build Quirks.today = buildWith Rdr.surgery` and `evalT … = evalWith Rdr.selectorsOneVar`; the per-run obligations are
`Translated.surgery = Rdr.surgery`, `Translated.selectors = Rdr.selectors` (kernel `decide`).
-/
namespace KrroodVerif.Rdr

/-! ## the surgery as a table -/

/-- how the surgery finds the parent of a node: `_graph_parent_(n)` (= `n._node_.parent`, fix 97ba516) or `n._parent_`
(which answers with the parent of the node's LAST EVALUATION first). The single-evaluation store of `BState` has no
last-evaluation parent: both read the graph parent here (the difference is C03's `RuleHistory` model); the field is
compared, not interpreted. -/
inductive ParentRead where | graph | lastEval
  deriving DecidableEq, Repr

inductive Side where | left | right
  deriving DecidableEq, Repr

/-- the operands of the node that is built -/
inductive Operand where | current | newBranch
  deriving DecidableEq, Repr

/-- what a surgery function returns -/
inductive Ret where | rightOfNew | leftOfNew | newRoot
  deriving DecidableEq, Repr

/-- `K(l, r)`; `weight` = the edge weight put on the new branch (rendering only: compared, not interpreted) -/
structure Wrap where
  cls : NK
  left : Operand
  right : Operand
  weight : Kind
  deriving DecidableEq, Repr

/-- `if P.t₁ is old: P.a₁ = new  elif P.t₂ is old: P.a₂ = new …`, optionally guarded by
`isinstance(P, BinaryOperator)` -/
structure Relink where
  guardBinop : Bool
  tests : List (Side × Side)
  deriving DecidableEq, Repr

/-- one continue-condition of the climb loop of `alternative_or_next` -/
inductive ClimbCond where
  | parentIs (ks : List NK)         -- `isinstance(parent, (K₁, K₂))`
  | parentIsAndLeft (k : NK)        -- `isinstance(parent, K) and current_node is parent.left`
  | parentIsAndRight (k : NK)       -- `isinstance(parent, K) and current_node is parent.right`
  deriving DecidableEq, Repr

structure RefinementRow where
  parentRead : ParentRead
  detach : Bool            -- `current_node._parent_ = None`
  wrap : Wrap              -- `ExceptIf(current, new_branch)`
  reparent : Bool          -- `new_conditions_root._parent_ = prev_parent`
  relink : Relink          -- `_replace_operand(prev_parent, current_node, new_conditions_root)`
  ret : Ret
  deriving DecidableEq, Repr

structure AltNextRow where
  climbRead : ParentRead
  climbLoops : Bool        -- `while True:` (false: one step only — the code before fix 5ccefb5)
  climb : List ClimbCond
  parentRead : ParentRead
  detach : Bool
  wrapAlt : Wrap           -- built for `RDREdge.Alternative`
  wrapNext : Wrap          -- built for `RDREdge.Next`
  reparent : Bool
  relink : Relink
  ret : Ret
  deriving DecidableEq, Repr

structure SurgeryTable where
  refinement : RefinementRow
  altOrNext : AltNextRow
  deriving DecidableEq, Repr

/-- **the hand table**: `rule.py` as it is (after the fixes 5ccefb5, 6d59379, 97ba516) -/
def surgery : SurgeryTable :=
  { refinement :=
      { parentRead := .graph, detach := true,
        wrap := ⟨.exceptIf, .current, .newBranch, .ref⟩,
        reparent := true,
        relink := ⟨true, [(.left, .left), (.right, .right)]⟩,
        ret := .rightOfNew },
    altOrNext :=
      { climbRead := .graph, climbLoops := true,
        climb := [.parentIs [.alt, .next], .parentIsAndLeft .exceptIf],
        parentRead := .graph, detach := true,
        wrapAlt := ⟨.alt, .current, .newBranch, .alt⟩,
        wrapNext := ⟨.next, .current, .newBranch, .next⟩,
        reparent := true,
        relink := ⟨true, [(.right, .right), (.left, .left)]⟩,
        ret := .rightOfNew } }

namespace BState

def sideOf (n : Node) : Side → Option Nat
  | .left => n.left
  | .right => n.right

def setSide (sd : Side) (v : Nat) (n : Node) : Node :=
  match sd with
  | .left => { n with left := some v }
  | .right => { n with right := some v }

def relinkTests (s : BState) (pp cur nw : Nat) : List (Side × Side) → BState
  | [] => s
  | (tst, asg) :: rest =>
    if sideOf (s.node pp) tst = some cur then s.modify pp (setSide asg nw) else relinkTests s pp cur nw rest

def relinkWith (r : Relink) (s : BState) (pp : Option Nat) (cur nw : Nat) : BState :=
  match pp with
  | some pp => if !r.guardBinop || s.isBinop pp then relinkTests s pp cur nw r.tests else s
  | none => s

def operandOf (o : Operand) (cur nb : Nat) : Nat :=
  match o with
  | .current => cur
  | .newBranch => nb

def retOf (r : Ret) (w : Wrap) (cur nb e : Nat) : Nat :=
  match r with
  | .rightOfNew => operandOf w.right cur nb
  | .leftOfNew => operandOf w.left cur nb
  | .newRoot => e

/-- the common tail of both surgery functions: detach, build, re-parent, re-link -/
def wrapWith (s : BState) (cur nb : Nat) (detach : Bool) (w : Wrap) (reparent : Bool) (rl : Relink) (ret : Ret) :
    BState :=
  let pp := (s.node cur).parent
  let s := if detach then s.modify cur fun n => { n with parent := none } else s
  let (s, e) := s.mkBinop w.cls (operandOf w.left cur nb) (operandOf w.right cur nb)
  let s := if reparent then s.setParent e pp else s
  let s := relinkWith rl s pp cur e
  { s with last := some (retOf ret w cur nb e) }

/-- `rule.refinement`, from the table -/
def doRefinementWith (t : RefinementRow) (s : BState) (b : Nat) : Option BState :=
  match s.stack with
  | [] => none
  | cur :: _ =>
    let (s, nb) := s.alloc { kind := .leaf, blk := b }
    some (wrapWith s cur nb t.detach t.wrap t.reparent t.relink t.ret)

def condHolds (s : BState) (cur par : Nat) : ClimbCond → Bool
  | .parentIs ks => ks.contains (s.node par).kind
  | .parentIsAndLeft k => (s.node par).kind = k && (s.node par).left = some cur
  | .parentIsAndRight k => (s.node par).kind = k && (s.node par).right = some cur

def climbStepWith (cs : List ClimbCond) (s : BState) (cur : Nat) : Nat :=
  match (s.node cur).parent with
  | none => cur
  | some par => if cs.any (condHolds s cur par) then par else cur

def climbWith (cs : List ClimbCond) (s : BState) : Nat → Nat → Nat
  | 0, cur => cur
  | f + 1, cur => let c := climbStepWith cs s cur; if c = cur then cur else climbWith cs s f c

/-- `rule.alternative_or_next`, from the table; `w` = the node built for the edge type asked for -/
def doAltOrNextWith (t : AltNextRow) (s : BState) (w : Wrap) (b : Nat) : Option BState :=
  match s.stack with
  | [] => none
  | top :: _ =>
    let (s, nb) := s.alloc { kind := .leaf, blk := b }
    let cur := if t.climbLoops then climbWith t.climb s s.nodes.length top else climbStepWith t.climb s top
    some (wrapWith s cur nb t.detach w t.reparent t.relink t.ret)

def stepWith (t : SurgeryTable) (s : BState) : Op → Option BState
  | .refinement b => s.doRefinementWith t.refinement b
  | .alternative b => s.doAltOrNextWith t.altOrNext t.altOrNext.wrapAlt b
  | .next b => s.doAltOrNextWith t.altOrNext t.altOrNext.wrapNext b
  | op => s.step Quirks.today op     -- the `with`-block machinery and `Add` are not part of the surgery

def runWith (t : SurgeryTable) (s : BState) : List Op → Option BState
  | [] => some s
  | op :: ops => match s.stepWith t op with
    | some s => runWith t s ops
    | none => none

end BState

/-- **the builder, from the table** -/
def buildWith (t : SurgeryTable) (p : Prog) : Option BState :=
  (BState.init p.blk).runWith t (Op.enterQuery :: (p.ops ++ [Op.exit]))

/-- the builder on an authoring schedule, from the table -/
def buildAWith (t : SurgeryTable) (a : Authored) : Option BState :=
  (BState.init a.blk).runWith t (Op.enterQuery :: (a.ops ++ [Op.exit]))

/-! ## the selectors as a table -/

/-- whose `_conclusion_` set is handed to `update_conclusion` (none: no call) -/
inductive Pick where | none | left | right
  deriving DecidableEq, Repr

/-- one yielded result: its truth flag (`self._is_false_` at the yield, also the truth part of the de-duplication
key) and the conclusions selected for it -/
structure Emit where
  isF : Bool
  pick : Pick
  deriving DecidableEq, Repr

/-- what a selector does with one value of its left operand -/
inductive OnLeft where
  /-- yield one result for the left value; the right operand is not evaluated for it -/
  | emit (e : Emit)
  /-- evaluate the right operand from the left value's bindings; per true / false right value yield (or skip);
  after the loop, if no right value was true, yield for the left value -/
  | evalRight (onTrue onFalse : Option Emit) (ifNoTrue : Option Emit)
  deriving DecidableEq, Repr

structure SelRow where
  leftTrue : OnLeft
  leftFalse : OnLeft
  /-- after the left operand is exhausted: evaluate the right operand from the INCOMING bindings; per true / false
  right value -/
  thenRight : Option (Option Emit × Option Emit)
  deriving DecidableEq, Repr

/-- `ConclusionSelector.update_conclusion` / `_reset_evaluation_state_` -/
structure DedupSpec where
  emptySkips : Bool       -- `if not conclusions: return`
  innerHandsOn : Bool     -- `if isinstance(self._parent_, ConclusionSelector): self._conclusion_.update(..); return`
  keyTruth : Bool         -- the memory is keyed by `not self._is_false_`
  keyConclusions : Bool   -- … and by `frozenset(conclusions)`
  keyBindings : Bool      -- the `SeenSet` holds the bindings of the conclusions' non-literal variables
  resetMemory : Bool      -- `_reset_evaluation_state_` clears every `concluded_before` set
  resetSelection : Bool   -- … and `_conclusion_`
  deriving DecidableEq, Repr

structure SelectorTable where
  exceptIf : SelRow
  alt : SelRow
  next : SelRow
  dedup : DedupSpec
  deriving DecidableEq, Repr

/-- **the hand table**: `conclusion_selector.py` as it is (after f11669e, db1eb2f, f749997) -/
def selectors : SelectorTable :=
  { exceptIf :=
      { leftTrue := .evalRight (some ⟨false, .right⟩) none (some ⟨false, .left⟩),
        leftFalse := .emit ⟨true, .none⟩,
        thenRight := none },
    alt :=
      { leftTrue := .emit ⟨false, .left⟩,
        leftFalse := .evalRight (some ⟨false, .right⟩) (some ⟨true, .none⟩) none,
        thenRight := none },
    next :=
      { leftTrue := .emit ⟨false, .left⟩,
        leftFalse := .emit ⟨true, .left⟩,
        thenRight := some (some ⟨false, .right⟩, some ⟨true, .right⟩) },
    dedup := ⟨true, true, true, true, true, true, true⟩ }

/-- the `Next` row before fix db1eb2f (F-C08-4): a false left value's bindings are handed to the right operand.
With ONE rule variable this only repeats results of the right operand (`evalT` transcribes this form). -/
def nextRowLeak : SelRow :=
  { leftTrue := .emit ⟨false, .left⟩,
    leftFalse := .evalRight (some ⟨false, .right⟩) (some ⟨true, .right⟩) none,
    thenRight := some (some ⟨false, .right⟩, some ⟨true, .right⟩) }

/-- the one-variable reading of a table: `Next` hands a false left value's bindings to its right operand -/
def SelectorTable.oneVar (t : SelectorTable) : SelectorTable := { t with next := nextRowLeak }

def SelectorTable.row (t : SelectorTable) : SK → SelRow
  | .exceptIf => t.exceptIf
  | .alt => t.alt
  | .next => t.next

/-- the keying of `concluded_before` a `DedupSpec` describes. Keys without the truth flag or without the bindings
have no counterpart in the one-variable evaluator (false and true results of one binding never carry the same
conclusions there): read as the nearest keying with them. -/
def DedupSpec.toDedup (d : DedupSpec) : Dedup :=
  if d.innerHandsOn then (if d.keyConclusions then .atRoot else .byBinding)
  else if d.keyConclusions then .byConclusion else .byBinding

/-- the static `_conclusion_` of an operand outside its own yields: the `Add`s of a condition leaf; a selector's
set is empty (cleared after every yield) -/
def staticConcl (pay : Payload) : Sel → List Nat
  | .leaf _ _ c => conclOf pay c
  | .node _ _ _ _ => []

def pickConcl (p : Pick) (leftC rightC : List Nat) : List Nat :=
  match p with
  | .none => []
  | .left => leftC
  | .right => rightC

/-- yield one result for binding `x`; `concl` = the conclusions picked -/
def emitOut (d : Dedup) (id x : Nat) (leftC rightC : List Nat) (e : Emit) (s : Seen) : List Out × Seen :=
  match e.pick with
  | .none => ([⟨x, e.isF, []⟩], s)
  | p =>
    let (c, s) := update d id x e.isF (pickConcl p leftC rightC) s
    ([⟨x, e.isF, c⟩], s)

def optEmit (d : Dedup) (id x : Nat) (leftC rightC : List Nat) : Option Emit → Seen → List Out × Seen
  | none, s => ([], s)
  | some e, s => emitOut d id x leftC rightC e s

/-- the loop over the values of the right operand: per true / false value yield (or skip) -/
def rightEmits (d : Dedup) (id : Nat) (lc : List Nat) (onT onF : Option Emit) (rs : List Out) (s : Seen) :
    List Out × Seen :=
  mapSeen (fun (rv : Out) s => optEmit d id rv.x lc rv.concl (if rv.isF then onF else onT) s) rs s

/-- what a selector does with one value `lv` of its left operand; `evalR` = evaluation of the right operand,
`rstatic` = the right operand's `_conclusion_` outside its own yields -/
def onLeftWith (d : Dedup) (id : Nat) (rstatic : List Nat) (evalR : Option Nat → Seen → List Out × Seen) (lv : Out) :
    OnLeft → Seen → List Out × Seen
  | .emit e, s => emitOut d id lv.x lv.concl rstatic e s
  | .evalRight onT onF noT, s =>
    let (rs, s) := evalR (some lv.x) s
    let (o, s) := rightEmits d id lv.concl onT onF rs s
    match noT with
    | none => (o, s)
    | some e =>
      if (rs.filter fun o => !o.isF).isEmpty then
        let (o', s) := emitOut d id lv.x lv.concl rstatic e s
        (o ++ o', s)
      else (o, s)

/-- **the evaluator, from the table** (same reading of the generators as `evalT`: exact when no node is shared) -/
def evalWith (tb : SelectorTable) (pay : Payload) (dom : List Nat) : Sel → Option Nat → Seen → List Out × Seen
  | .leaf _ blk concl, src, s => (leafOuts pay dom blk concl src, s)
  | .node k id l r, src, s =>
    let d := tb.dedup.toDedup
    let (ls, s) := evalWith tb pay dom l src s
    let (o1, s) := mapSeen (fun (lv : Out) s =>
      onLeftWith d id (staticConcl pay r) (fun src s => evalWith tb pay dom r src s) lv
        (if lv.isF then (tb.row k).leftFalse else (tb.row k).leftTrue) s) ls s
    match (tb.row k).thenRight with
    | none => (o1, s)
    | some (onT, onF) =>
      let (rs, s) := evalWith tb pay dom r src s
      let (o2, s) := rightEmits d id (staticConcl pay l) onT onF rs s
      (o1 ++ o2, s)

/-- `query.evaluate()` on a selector tree, from the table, as rows -/
def evalTopWith (tb : SelectorTable) (pay : Payload) (dom : List Nat) (t : Sel) : List (Nat × Nat) :=
  rowsOf (rootDedup tb.dedup.toDedup t (topOuts (evalWith tb pay dom t none []).1))

end KrroodVerif.Rdr
