import KrroodVerif.Model.ClassDiagram
/-!
M-CD/Py — the primitive operations the `WrappedField` accessors of `class_diagrams/wrapped_field.py` are written in,
with their Lean semantics fixed ONCE, here. Core Lean only.

`harness/translate/c17_translate.py` parses the CURRENT source of `wrapped_field.py` on every run and regenerates a
Lean file in which each accessor (`is_optional`, `is_container`, `contained_type`, `type_endpoint`, …) is a function
`Val → M Val` written in terms of the operations below and nothing else; the same generated file proves that every
translated accessor equals the hand-written model of `Model/ClassDiagram.lean` for **every** annotation
(`C17_<accessor>_translated_eq_model`). What is trusted about this file is therefore exactly the table of Python
facts it states (each is an *assumed behaviour of CPython 3.12 `typing` / builtins*, the same assumptions
`CD.getOrigin` / `CD.getArgs` already make; validated by the correspondence, which runs the real accessors):

* values (`Val`): `True/False`, small ints, `None`, type objects (`NoneType`, or the object a resolved annotation
  denotes: `Arg`), the objects `get_origin` can return (`Origin`), and three objects that are never the value of an
  annotation of the grammar but that the source names (`typing.Optional`, bare `typing.Type`, `uuid.UUID`);
* `get_origin` / `get_args` are `CD.getOrigin` / `CD.getArgs`; they never raise and return `None` / `()` on
  anything that is not a parameterised form;
* `is`, `==`, `in` are only ever translated when one side is a *named constant* (or a list of them), and then
  compare atoms (`Val.same`): a typing construct (`List[C]`, `Optional[C]`, …) is equal to no named constant, and
  neither is a proper SUBCLASS of a builtin scalar (`class Meters(float)`, `IntEnum`, `class Unit(str, Enum)`:
  `Ann.ext`) — membership in `[int, float, str, bool, datetime, NoneType]` is exact, not `issubclass`;
* `issubclass(x, enum.Enum)` is `CD.issubclassEnum` (TypeError when `x` is not a class);
* `len`, `x[i]`, iteration, `next`, `all`, `any`, `hasattr(x, "__iter__")`, `try/except` as below;
* exceptions are a small enum (`Exc`); `except Exception` catches all of them.
-/
namespace KrroodVerif.CD.Py

inductive Exc where
  | valueError | typeError | indexError | stopIteration | attributeError | keyError
  | missingContainedType            -- `MissingContainedTypeOfContainer`
  deriving DecidableEq, Repr

/-- the classes an `except` clause of the translated fragment may name -/
inductive ExcClass where
  | only (e : Exc)
  | lookupError                     -- IndexError, KeyError
  | all                             -- `Exception` / `BaseException` / bare `except`
  deriving DecidableEq, Repr

def ExcClass.catches : ExcClass → Exc → Bool
  | .only e, x => e == x
  | .lookupError, x => x == .indexError || x == .keyError
  | .all, _ => true

inductive Val where
  | bool (b : Bool)
  | int (n : Nat)
  | none                             -- Python `None`
  | obj (x : Arg)                    -- a type object: `NoneType`, or the object a resolved annotation denotes
  | origin (o : Origin)              -- `list`, `set`, `tuple`, `type`, `collections.abc.Sequence`, `Union`, `types.UnionType`
  | optionalForm                     -- `typing.Optional` (never an origin, never an annotation value)
  | typingType                       -- bare `typing.Type` (bare containers are outside the grammar)
  | uuid                             -- `uuid.UUID` (outside the grammar)
  | tuple (xs : List Arg)            -- what `get_args` returns
  deriving DecidableEq, Repr

abbrev M := Except Exc

@[inline] def bind (m : M Val) (k : Val → M Val) : M Val :=
  match m with
  | .ok v => k v
  | .error e => .error e

@[inline] def pure (v : Val) : M Val := .ok v

/-- Python truthiness of the values of the fragment -/
def truthy : Val → Bool
  | .bool b => b
  | .int n => n != 0
  | .none => false
  | .tuple xs => !xs.isEmpty
  | _ => true

/-- identity / equality of two type objects, decided on atoms only: a typing construct equals no named constant
(the translator only emits comparisons with a named constant on one side) -/
def sameAtom : Arg → Arg → Bool
  | .noneType, .noneType => true
  | .ann (.builtin a), .ann (.builtin b) => a == b
  | .ann (.cls i), .ann (.cls j) => i == j
  | .ann (.enum i), .ann (.enum j) => i == j
  | _, _ => false

/-- `a is b` / `a == b` -/
def Val.same : Val → Val → Bool
  | .bool a, .bool b => a == b
  | .int a, .int b => a == b
  | .none, .none => true
  | .obj x, .obj y => sameAtom x y
  | .origin a, .origin b => a == b
  | .optionalForm, .optionalForm => true
  | .typingType, .typingType => true
  | .uuid, .uuid => true
  | _, _ => false

def is_ (a b : Val) : Val := .bool (a.same b)
def isNot (a b : Val) : Val := .bool (!a.same b)
def not_ (a : Val) : Val := .bool (!truthy a)

/-- `x in [c₁, …, cₙ]` (a list display of named constants, or a class constant such as `container_types`) -/
def inList (x : Val) (l : List Val) : Val := .bool (l.any (fun c => x.same c))
def notInList (x : Val) (l : List Val) : Val := .bool (!l.any (fun c => x.same c))

/-- `x in container` for a runtime container (a `get_args` tuple) -/
def inVal (x : Val) : Val → M Val
  | .tuple xs => .ok (.bool (xs.any (fun a => x.same (.obj a))))
  | _ => .error .typeError

def notInVal (x : Val) (c : Val) : M Val := bind (inVal x c) (fun b => .ok (not_ b))

/-- `typing.get_origin` -/
def getOrigin : Val → Val
  | .obj (.ann t) => (match CD.getOrigin t with | .none => .none | o => .origin o)
  | _ => .none

/-- `typing.get_args` -/
def getArgs : Val → Val
  | .obj (.ann t) => .tuple (CD.getArgs t)
  | _ => .tuple []

/-- `len(x)` -/
def len : Val → M Val
  | .tuple xs => .ok (.int xs.length)
  | _ => .error .typeError

/-- `a < b`, `a <= b`, … between ints (`len(args) >= 2`) -/
def cmpInt (f : Nat → Nat → Bool) : Val → Val → M Val
  | .int a, .int b => .ok (.bool (f a b))
  | _, _ => .error .typeError

def lt := cmpInt Nat.blt
def le := cmpInt Nat.ble
def gt := cmpInt (fun a b => Nat.blt b a)
def ge := cmpInt (fun a b => Nat.ble b a)

/-- `x[i]` for a literal index `i ≥ 0` -/
def index (x : Val) (i : Nat) : M Val :=
  match x with
  | .tuple xs => (match xs[i]? with | some a => .ok (.obj a) | none => .error .indexError)
  | _ => .error .typeError

/-- `iter(x)` as the list of the elements -/
def iter : Val → M (List Val)
  | .tuple xs => .ok (xs.map .obj)
  | _ => .error .typeError

def bindIter (m : M Val) (k : List Val → M Val) : M Val :=
  match m with
  | .ok v => (match iter v with | .ok xs => k xs | .error e => .error e)
  | .error e => .error e

/-- `next(elt(v) for v in xs if cond(v))`, evaluated lazily like the generator is -/
def nextWhere (cond elt : Val → M Val) : List Val → M Val
  | [] => .error .stopIteration
  | x :: xs => bind (cond x) fun b => if truthy b then elt x else nextWhere cond elt xs

/-- `next((elt(v) for v in xs if cond(v)), default)` -/
def nextWhereD (cond elt : Val → M Val) (dflt : Val) : List Val → M Val
  | [] => .ok dflt
  | x :: xs => bind (cond x) fun b => if truthy b then elt x else nextWhereD cond elt dflt xs

/-- `all(elt(v) for v in xs if cond(v))` -/
def allWhere (cond elt : Val → M Val) : List Val → M Val
  | [] => .ok (.bool true)
  | x :: xs => bind (cond x) fun b =>
      if truthy b then bind (elt x) fun r => if truthy r then allWhere cond elt xs else .ok (.bool false)
      else allWhere cond elt xs

/-- `any(elt(v) for v in xs if cond(v))` -/
def anyWhere (cond elt : Val → M Val) : List Val → M Val
  | [] => .ok (.bool false)
  | x :: xs => bind (cond x) fun b =>
      if truthy b then bind (elt x) fun r => if truthy r then .ok (.bool true) else anyWhere cond elt xs
      else anyWhere cond elt xs

/-- `issubclass(x, enum.Enum)` -/
def issubclassEnum : Val → M Val
  | .obj x => (match CD.issubclassEnum x with | .t => .ok (.bool true) | .f => .ok (.bool false) | .err => .error .typeError)
  | .origin .list | .origin .set | .origin .tuple | .origin .type | .origin .sequence | .uuid => .ok (.bool false)
  | _ => .error .typeError

/-- the listed builtin scalars a class object derives from (itself excluded): `bool` is a subclass of `int`; a class
`Ann.ext (.sub b)` / `Ann.ext (.mixEnum b)` derives from `b` -/
def scalarBases : Arg → List Builtin
  | .ann (.builtin .bool) => [.int]
  | .ann (.ext (.sub b) _) => if b == .bool then [.bool, .int] else [b]
  | .ann (.ext (.mixEnum b) _) => if b == .bool then [.bool, .int] else [b]
  | _ => []

/-- is the value a class (something `issubclass` accepts as its first argument)? -/
def isClass : Val → Bool
  | .obj .noneType => true
  | .obj (.ann (.builtin _)) | .obj (.ann (.cls _)) | .obj (.ann (.enum _)) | .obj (.ann (.ext _ _)) => true
  | .origin .list | .origin .set | .origin .tuple | .origin .type | .origin .sequence | .origin .unionType => true
  | .uuid => true
  | _ => false

/-- `issubclass(x, (c₁, …, cₙ))` for named constants `cᵢ`: TypeError when `x` is not a class -/
def issubclassOf (x : Val) (l : List Val) : M Val :=
  if !isClass x then .error .typeError
  else .ok (.bool (l.any fun c => x.same c ||
    (match x with
     | .obj a => (scalarBases a).any (fun b => (Val.obj (.ann (.builtin b))).same c)
     | _ => false)))

/-- `hasattr(x, "__iter__")`: the container classes iterate, the class `type` does not (`type.__iter__` does not
exist; only instances of `EnumMeta` have it); a parameterised form forwards to its origin; `None` does not -/
def hasIter : Val → Val
  | .origin .list | .origin .set | .origin .tuple | .origin .sequence => .bool true
  | .tuple _ => .bool true
  | .obj (.ann (.container _ _)) => .bool true
  | .obj (.ann (.enum _)) => .bool true       -- an Enum *class* is iterable
  | .obj (.ann (.ext (.mixEnum _) _)) => .bool true
  | _ => .bool false

/-- `try: m  except <cs₁>: h₁  except <cs₂>: h₂ …`: the first clause that names the exception handles it; an
exception raised by a handler propagates -/
def handle (e : Exc) : List (List ExcClass × M Val) → M Val
  | [] => .error e
  | (cs, h) :: rest => if cs.any (fun c => c.catches e) then h else handle e rest

def tryCatchN (m : M Val) (hs : List (List ExcClass × M Val)) : M Val :=
  match m with
  | .ok v => .ok v
  | .error e => handle e hs

/-! ### The named constants of the source -/

def c_int : Val := .obj (.ann (.builtin .int))
def c_float : Val := .obj (.ann (.builtin .float))
def c_str : Val := .obj (.ann (.builtin .str))
def c_bool : Val := .obj (.ann (.builtin .bool))
def c_datetime : Val := .obj (.ann (.builtin .datetime))
def c_NoneType : Val := .obj .noneType
def c_Union : Val := .origin .union
def c_UnionType : Val := .origin .unionType
def c_Optional : Val := .optionalForm
def c_list : Val := .origin .list
def c_set : Val := .origin .set
def c_tuple : Val := .origin .tuple
def c_type : Val := .origin .type
def c_Sequence : Val := .origin .sequence
def c_Type : Val := .typingType
def c_UUID : Val := .uuid

/-! ### How the model's results look as Python values -/

def ofBool (b : Bool) : M Val := .ok (.bool b)

def ofTri : Tri → M Val
  | .t => .ok (.bool true)
  | .f => .ok (.bool false)
  | .err => .error .typeError

/-- `contained_type`: the model's `none` is the `ValueError("Field is not a container")` -/
def ofContained : Option Arg → M Val
  | some x => .ok (.obj x)
  | none => .error .valueError

/-- `container_type` -/
def ofContainerType (t : Ann) : M Val :=
  .ok (match containerType t with | some o => .origin o | none => .none)

/-- the value of `self.resolved_type` for a resolved annotation `t` -/
def rt (t : Ann) : Val := .obj (.ann t)

/-- read a translated boolean accessor -/
def asBool : M Val → Option Bool
  | .ok (.bool b) => some b
  | _ => none

def asTri : M Val → Option Tri
  | .ok (.bool true) => some .t
  | .ok (.bool false) => some .f
  | .error .typeError => some .err
  | _ => none

def asArg : M Val → Option Arg
  | .ok (.obj x) => some x
  | _ => none

/-! ### Diagnostics for a broken obligation

When a regenerated obligation `C17_<accessor>_translated_eq_model` no longer checks, the generated file also evaluates
translated accessor and model on a finite list of probe annotations (every leaf, every wrapper around every leaf,
every pair of wrappers, some unions) and prints the first ones on which they differ, written the way the annotation is
written in Python — a concrete candidate for the search through the correspondence. Not part of any proof. -/

def pyText : Ann → String
  | .builtin .int => "int" | .builtin .float => "float" | .builtin .str => "str" | .builtin .bool => "bool"
  | .builtin .datetime => "datetime"
  | .cls i => s!"C{i}" | .enum i => s!"E{i}"
  | .ext (.sub b) i => s!"S{pyText (.builtin b)}{i}"       -- `class Sfloat0(float)`
  | .ext (.mixEnum b) i => s!"M{pyText (.builtin b)}{i}"   -- `class Mint0(int, Enum)` / IntEnum / StrEnum
  | .ext .plain i => s!"P{i}"                              -- `class P0`
  | .optional .typing a => s!"Optional[{pyText a}]"
  | .optional .unionNone a => s!"Union[{pyText a}, None]"
  | .optional .noneFirst a => s!"Union[None, {pyText a}]"
  | .optional .pipe a => s!"{pyText a} | None"
  | .container .list a => s!"List[{pyText a}]" | .container .set a => s!"Set[{pyText a}]"
  | .container .tuple a => s!"Tuple[{pyText a}, ...]" | .container .sequence a => s!"Sequence[{pyText a}]"
  | .container .blist a => s!"list[{pyText a}]" | .container .bset a => s!"set[{pyText a}]"
  | .container .btuple a => s!"tuple[{pyText a}, ...]"
  | .typeOf a => s!"Type[{pyText a}]"
  | .fwd a => s!"'{pyText a}'"
  | .union a b false => s!"Union[{pyText a}, {pyText b}]"
  | .union a b true => s!"Union[{pyText a}, {pyText b}, None]"

def probeLeaves : List Ann :=
  [.builtin .int, .builtin .float, .builtin .str, .builtin .bool, .builtin .datetime, .cls 0, .enum 0,
   .ext (.sub .float) 0, .ext (.sub .int) 0, .ext (.mixEnum .int) 0, .ext (.mixEnum .str) 0, .ext .plain 0]

def probeWrap (x : Ann) : List Ann :=
  [.optional .typing x, .optional .unionNone x, .optional .noneFirst x, .optional .pipe x,
   .container .list x, .container .set x, .container .tuple x, .container .sequence x, .container .blist x,
   .container .bset x, .container .btuple x, .typeOf x]

def probes : List Ann :=
  let one := probeLeaves.flatMap probeWrap
  let unions : List Ann := [.union (.cls 0) (.builtin .int) false, .union (.cls 0) (.builtin .int) true,
    .union (.enum 0) (.cls 0) false, .union (.builtin .int) (.builtin .str) true]
  probeLeaves ++ one ++ unions ++ unions.flatMap probeWrap ++ one.flatMap probeWrap

def showM : M Val → String
  | .ok (.bool b) => if b then "True" else "False"
  | .ok (.int n) => toString n
  | .ok .none => "None"
  | .ok (.obj .noneType) => "NoneType"
  | .ok (.obj (.ann a)) => pyText a
  | .ok (.origin o) => reprStr o
  | .ok (.tuple xs) => s!"<tuple of {xs.length}>"
  | .ok .optionalForm => "typing.Optional" | .ok .typingType => "typing.Type" | .ok .uuid => "UUID"
  | .error e => "raises " ++ reprStr e

def sameM : M Val → M Val → Bool
  | .ok a, .ok b => a == b
  | .error a, .error b => a == b
  | _, _ => false

/-- the first probe annotations on which `f` (translated) and `g` (model) differ -/
def diffReport (name : String) (f g : Ann → M Val) : String :=
  let bad := probes.filter (fun t => !sameM (f t) (g t))
  if bad.isEmpty then s!"DIFF {name}: none on {probes.length} probe annotations"
  else s!"DIFF {name}: {bad.length} of {probes.length} probe annotations, first: " ++
    "; ".intercalate ((bad.take 3).map fun t => s!"{pyText t} -> translated code {showM (f t)}, model {showM (g t)}")

end KrroodVerif.CD.Py
