import KrroodVerif.Model.ClassDiagram
/-!
M-CD/Py — the primitive operations the `WrappedField` accessors of `class_diagrams/wrapped_field.py` are written in,
with their Lean semantics fixed ONCE, here. Core Lean only.

`harness/translate/c17_translate.py` parses the CURRENT source of `wrapped_field.py` on every run and regenerates a
Lean file in which each accessor (`is_optional`, `is_container`, `contained_type`, `type_endpoint`, …) is a function
`Val → M Val` written in terms of the operations below and nothing else; the same generated file proves that every
translated accessor equals the hand-written model of `Model/ClassDiagram.lean` for **every** annotation
(`C17_<accessor>_translated_eq_model`). What is trusted about this file is therefore exactly the table of Python
facts it states (each is an *assumed behaviour of CPython 3.12 `typing` / builtins*, the same assumptions
`CD.getOrigin` / `CD.getArgs` already make; validated by the correspondence, which runs the real accessors):

* values (`Val`): `True/False`, small ints, `None`, type objects (`NoneType`, or the object a resolved annotation
  denotes: `Arg`), the objects `get_origin` can return (`Origin`), and three objects that are never the value of an
  annotation of the grammar but that the source names (`typing.Optional`, bare `typing.Type`, `uuid.UUID`);
* `get_origin` / `get_args` are `CD.getOrigin` / `CD.getArgs`; they never raise and return `None` / `()` on
  anything that is not a parameterised form;
* `is`, `==`, `in` are only ever translated when one side is a *named constant* (or a list of them), and then
  compare atoms (`Val.same`): a typing construct (`List[C]`, `Optional[C]`, …) is equal to no named constant;
* `issubclass(x, enum.Enum)` is `CD.issubclassEnum` (TypeError when `x` is not a class);
* `len`, `x[i]`, iteration, `next`, `all`, `any`, `hasattr(x, "__iter__")`, `try/except` as below;
* exceptions are a small enum (`Exc`); `except Exception` catches all of them.
-/
namespace KrroodVerif.CD.Py

inductive Exc where
  | valueError | typeError | indexError | stopIteration | attributeError | keyError
  | missingContainedType            -- `MissingContainedTypeOfContainer`
  deriving DecidableEq, Repr

/-- the classes an `except` clause of the translated fragment may name -/
inductive ExcClass where
  | only (e : Exc)
  | lookupError                     -- IndexError, KeyError
  | all                             -- `Exception` / `BaseException` / bare `except`
  deriving DecidableEq, Repr

def ExcClass.catches : ExcClass → Exc → Bool
  | .only e, x => e == x
  | .lookupError, x => x == .indexError || x == .keyError
  | .all, _ => true

inductive Val where
  | bool (b : Bool)
  | int (n : Nat)
  | none                             -- Python `None`
  | obj (x : Arg)                    -- a type object: `NoneType`, or the object a resolved annotation denotes
  | origin (o : Origin)              -- `list`, `set`, `tuple`, `type`, `collections.abc.Sequence`, `Union`, `types.UnionType`
  | optionalForm                     -- `typing.Optional` (never an origin, never an annotation value)
  | typingType                       -- bare `typing.Type` (bare containers are outside the grammar)
  | uuid                             -- `uuid.UUID` (outside the grammar)
  | tuple (xs : List Arg)            -- what `get_args` returns
  deriving DecidableEq, Repr

abbrev M := Except Exc

@[inline] def bind (m : M Val) (k : Val → M Val) : M Val :=
  match m with
  | .ok v => k v
  | .error e => .error e

@[inline] def pure (v : Val) : M Val := .ok v

/-- Python truthiness of the values of the fragment -/
def truthy : Val → Bool
  | .bool b => b
  | .int n => n != 0
  | .none => false
  | .tuple xs => !xs.isEmpty
  | _ => true

/-- identity / equality of two type objects, decided on atoms only: a typing construct equals no named constant
(the translator only emits comparisons with a named constant on one side) -/
def sameAtom : Arg → Arg → Bool
  | .noneType, .noneType => true
  | .ann (.builtin a), .ann (.builtin b) => a == b
  | .ann (.cls i), .ann (.cls j) => i == j
  | .ann (.enum i), .ann (.enum j) => i == j
  | _, _ => false

/-- `a is b` / `a == b` -/
def Val.same : Val → Val → Bool
  | .bool a, .bool b => a == b
  | .int a, .int b => a == b
  | .none, .none => true
  | .obj x, .obj y => sameAtom x y
  | .origin a, .origin b => a == b
  | .optionalForm, .optionalForm => true
  | .typingType, .typingType => true
  | .uuid, .uuid => true
  | _, _ => false

def is_ (a b : Val) : Val := .bool (a.same b)
def isNot (a b : Val) : Val := .bool (!a.same b)
def not_ (a : Val) : Val := .bool (!truthy a)

/-- `x in [c₁, …, cₙ]` (a list display of named constants, or a class constant such as `container_types`) -/
def inList (x : Val) (l : List Val) : Val := .bool (l.any (fun c => x.same c))
def notInList (x : Val) (l : List Val) : Val := .bool (!l.any (fun c => x.same c))

/-- `x in container` for a runtime container (a `get_args` tuple) -/
def inVal (x : Val) : Val → M Val
  | .tuple xs => .ok (.bool (xs.any (fun a => x.same (.obj a))))
  | _ => .error .typeError

def notInVal (x : Val) (c : Val) : M Val := bind (inVal x c) (fun b => .ok (not_ b))

/-- `typing.get_origin` -/
def getOrigin : Val → Val
  | .obj (.ann t) => (match CD.getOrigin t with | .none => .none | o => .origin o)
  | _ => .none

/-- `typing.get_args` -/
def getArgs : Val → Val
  | .obj (.ann t) => .tuple (CD.getArgs t)
  | _ => .tuple []

/-- `len(x)` -/
def len : Val → M Val
  | .tuple xs => .ok (.int xs.length)
  | _ => .error .typeError

/-- `x[i]` for a literal index `i ≥ 0` -/
def index (x : Val) (i : Nat) : M Val :=
  match x with
  | .tuple xs => (match xs[i]? with | some a => .ok (.obj a) | none => .error .indexError)
  | _ => .error .typeError

/-- `iter(x)` as the list of the elements -/
def iter : Val → M (List Val)
  | .tuple xs => .ok (xs.map .obj)
  | _ => .error .typeError

def bindIter (m : M Val) (k : List Val → M Val) : M Val :=
  match m with
  | .ok v => (match iter v with | .ok xs => k xs | .error e => .error e)
  | .error e => .error e

/-- `next(elt(v) for v in xs if cond(v))`, evaluated lazily like the generator is -/
def nextWhere (cond elt : Val → M Val) : List Val → M Val
  | [] => .error .stopIteration
  | x :: xs => bind (cond x) fun b => if truthy b then elt x else nextWhere cond elt xs

/-- `next((elt(v) for v in xs if cond(v)), default)` -/
def nextWhereD (cond elt : Val → M Val) (dflt : Val) : List Val → M Val
  | [] => .ok dflt
  | x :: xs => bind (cond x) fun b => if truthy b then elt x else nextWhereD cond elt dflt xs

/-- `all(elt(v) for v in xs if cond(v))` -/
def allWhere (cond elt : Val → M Val) : List Val → M Val
  | [] => .ok (.bool true)
  | x :: xs => bind (cond x) fun b =>
      if truthy b then bind (elt x) fun r => if truthy r then allWhere cond elt xs else .ok (.bool false)
      else allWhere cond elt xs

/-- `any(elt(v) for v in xs if cond(v))` -/
def anyWhere (cond elt : Val → M Val) : List Val → M Val
  | [] => .ok (.bool false)
  | x :: xs => bind (cond x) fun b =>
      if truthy b then bind (elt x) fun r => if truthy r then .ok (.bool true) else anyWhere cond elt xs
      else anyWhere cond elt xs

/-- `issubclass(x, enum.Enum)` -/
def issubclassEnum : Val → M Val
  | .obj x => (match CD.issubclassEnum x with | .t => .ok (.bool true) | .f => .ok (.bool false) | .err => .error .typeError)
  | .origin .list | .origin .set | .origin .tuple | .origin .type | .origin .sequence | .uuid => .ok (.bool false)
  | _ => .error .typeError

/-- `hasattr(x, "__iter__")`: the container classes iterate, the class `type` does not (`type.__iter__` does not
exist; only instances of `EnumMeta` have it); a parameterised form forwards to its origin; `None` does not -/
def hasIter : Val → Val
  | .origin .list | .origin .set | .origin .tuple | .origin .sequence => .bool true
  | .tuple _ => .bool true
  | .obj (.ann (.container _ _)) => .bool true
  | .obj (.ann (.enum _)) => .bool true       -- an Enum *class* is iterable
  | _ => .bool false

/-- `try: m  except <cs₁>: h₁  except <cs₂>: h₂ …`: the first clause that names the exception handles it; an
exception raised by a handler propagates -/
def handle (e : Exc) : List (List ExcClass × M Val) → M Val
  | [] => .error e
  | (cs, h) :: rest => if cs.any (fun c => c.catches e) then h else handle e rest

def tryCatchN (m : M Val) (hs : List (List ExcClass × M Val)) : M Val :=
  match m with
  | .ok v => .ok v
  | .error e => handle e hs

/-! ### The named constants of the source -/

def c_int : Val := .obj (.ann (.builtin .int))
def c_float : Val := .obj (.ann (.builtin .float))
def c_str : Val := .obj (.ann (.builtin .str))
def c_bool : Val := .obj (.ann (.builtin .bool))
def c_datetime : Val := .obj (.ann (.builtin .datetime))
def c_NoneType : Val := .obj .noneType
def c_Union : Val := .origin .union
def c_UnionType : Val := .origin .unionType
def c_Optional : Val := .optionalForm
def c_list : Val := .origin .list
def c_set : Val := .origin .set
def c_tuple : Val := .origin .tuple
def c_type : Val := .origin .type
def c_Sequence : Val := .origin .sequence
def c_Type : Val := .typingType
def c_UUID : Val := .uuid

/-! ### How the model's results look as Python values -/

def ofBool (b : Bool) : M Val := .ok (.bool b)

def ofTri : Tri → M Val
  | .t => .ok (.bool true)
  | .f => .ok (.bool false)
  | .err => .error .typeError

/-- `contained_type`: the model's `none` is the `ValueError("Field is not a container")` -/
def ofContained : Option Arg → M Val
  | some x => .ok (.obj x)
  | none => .error .valueError

/-- `container_type` -/
def ofContainerType (t : Ann) : M Val :=
  .ok (match containerType t with | some o => .origin o | none => .none)

/-- the value of `self.resolved_type` for a resolved annotation `t` -/
def rt (t : Ann) : Val := .obj (.ann t)

/-- read a translated boolean accessor -/
def asBool : M Val → Option Bool
  | .ok (.bool b) => some b
  | _ => none

def asTri : M Val → Option Tri
  | .ok (.bool true) => some .t
  | .ok (.bool false) => some .f
  | .error .typeError => some .err
  | _ => none

def asArg : M Val → Option Arg
  | .ok (.obj x) => some x
  | _ => none

end KrroodVerif.CD.Py
