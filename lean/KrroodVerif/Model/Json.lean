/-!
M-JSON — `krrood/adapters/json_serializer.py`: `to_json`, `from_json`, `SubclassJSONSerializer.to_json`,
`SubclassJSONSerializer.from_json` (tag resolution), the type registry. Core Lean only.

Python → model:
* JSON trees (`Json`): what `json.loads` returns — `None/bool/int/float/str/list/dict`. `json.dumps`/`json.loads`
  is an *assumed* identity on these trees (validated per case by the harness). Floats are carried as their
  IEEE-754 bit pattern (a `Nat`), never as text.
* Python values of the property's grammar (`PyVal`): leaves, lists, instances of registered third-party types
  (`ext`, e.g. `uuid.UUID`; payload = the string its serializer writes), `SubclassJSONSerializer` instances
  (`obj cls fields`).
* The import environment is DATA (`Env`): what `importlib.import_module(name)` does and what
  `getattr(module, name)` finds (`AttrKind`).  The harness fills it by probing the real interpreter.
* `resolve` transcribes `SubclassJSONSerializer.from_json` from `data.get(JSON_TYPE_NAME)` up to the dispatch.
  Each escaping exception of the current code is one `Quirks` flag; all flags off = the repaired resolver.
-/
namespace KrroodVerif.Json

/-- `JSON_TYPE_NAME` -/
def tagKey : String := "__json_type__"

/-- a Python class object: `ident` is its identity (two different classes may share module and name),
`module` = `__module__`, `name` = `__name__` -/
structure Cls where
  ident : String
  module : String
  name : String
  deriving DecidableEq, Repr

/-- `get_full_class_name(cls)` = `cls.__module__ + "." + cls.__name__` -/
def Cls.fullName (c : Cls) : String := c.module ++ "." ++ c.name

inductive Json where
  | null
  | bool (b : Bool)
  | int (i : Int)
  | float (bits : Nat)
  | str (s : String)
  | arr (xs : List Json)
  | obj (kvs : List (String × Json))
  deriving Repr

inductive PyVal where
  | none
  | bool (b : Bool)
  | int (i : Int)
  | float (bits : Nat)
  | str (s : String)
  | ext (c : Cls) (payload : String)
  | list (xs : List PyVal)
  | obj (c : Cls) (fields : List (String × PyVal))
  deriving Repr

/-! ### The import environment and tag resolution (C19, used by C18's `fromJson`) -/

/-- outcome of `importlib.import_module(name)` -/
inductive ImportOutcome where
  | ok
  | notFound   -- ModuleNotFoundError
  | importErr  -- any other ImportError (raised by the module being imported)
  | valueErr   -- ValueError  (importlib: "Empty module name")
  | typeErr    -- TypeError   (importlib: relative name without `package`)
  deriving Repr, DecidableEq

inductive NonClassKind where
  | function | typevar | module | instance
  deriving Repr, DecidableEq

/-- what `getattr(module, class_name)` finds; for a class: whether `issubclass(_, SubclassJSONSerializer)`, whether
`JSONSerializableTypeRegistry().get_deserializer(_)` is set (registration is by EXACT type), and whether the class
implements `_from_json` (`impl = false`: it only inherits `SubclassJSONSerializer._from_json`, which raises
NotImplementedError — the abstract base itself, or an abstract intermediate class) -/
inductive AttrKind where
  | missing                                   -- AttributeError
  | nonClass (k : NonClassKind)
  | cls (c : Cls) (ser reg impl : Bool)
  deriving Repr, DecidableEq

structure Env where
  importModule : String → ImportOutcome
  getattr : String → String → AttrKind
  /-- the key under which the (de)serializer registered for a type keeps its payload (`serialize_uuid`: `"value"`);
  a registration is a matching pair: both sides use this key -/
  payloadKey : Cls → String := fun _ => "value"

/-- the documented `JSONSerializationError` subclasses raised by tag resolution -/
inductive DocErr where
  | missingType        -- MissingTypeError
  | invalidFormat      -- InvalidTypeFormatError
  | unknownModule      -- UnknownModuleError
  | classNotFound      -- ClassNotFoundError
  | notDeserializable  -- ClassNotDeserializableError
  deriving Repr, DecidableEq

/-- exceptions outside the documented hierarchy -/
inductive Exc where
  | attributeError | valueError | typeError | importError | notImplementedError | moduleNotFoundError
  deriving Repr, DecidableEq

inductive Via where
  | fromJson   -- `target_cls._from_json(data, **kwargs)`
  | registry   -- the registered deserializer
  deriving Repr, DecidableEq

inductive Outcome where
  | err (e : DocErr)
  | dispatch (c : Cls) (via : Via)
  | escape (x : Exc)
  deriving Repr, DecidableEq

/-- one flag per escaping exception of the code as it is (DESIGN §2.4) -/
structure Quirks where
  /-- F-C19-1: `tag.rsplit` on a truthy non-string raises AttributeError -/
  nonStringTag : Bool
  /-- F-C19-2: ValueError of `import_module` (empty module name, tag `".x"`) is not caught -/
  importValueErr : Bool
  /-- F-C19-3: TypeError of `import_module` (relative module name, tag `"..x"`) is not caught -/
  importTypeErr : Bool
  /-- F-C19-4: `issubclass(non-class, …)` raises TypeError -/
  nonClassAttr : Bool
  /-- F-C19-5: an ImportError that is not ModuleNotFoundError is not caught -/
  importErr : Bool
  /-- F-C19-6: a `SubclassJSONSerializer` class that does not implement `_from_json` (the abstract base itself) is
  dispatched to and its NotImplementedError escapes -/
  abstractSerializer : Bool
  deriving Repr, DecidableEq

def Quirks.none : Quirks := ⟨false, false, false, false, false, false⟩
def Quirks.all : Quirks := ⟨true, true, true, true, true, true⟩
/-- the code as it is at this commit. F-C19-1..5 are repaired (fixes/C19_tag_resolution.diff); F-C19-6 (abstract
serializer class) is still there. The correspondence runs the model under this setting (`model=`) and under
`Quirks.none` (`model_fixed=`); set this to `Quirks.none` in the commit that applies fixes/C19_abstract_base.diff and
moves F-C19-6 to `fixed`. -/
def Quirks.current : Quirks := Quirks.none

/-- Python truthiness of a JSON value (`if not fully_qualified_class_name`) -/
def Json.truthy : Json → Bool
  | .null => false
  | .bool b => b
  | .int i => i != 0
  | .float bits => !(bits == 0 || bits == 2 ^ 63)   -- +0.0 and -0.0 are falsy, NaN is truthy
  | .str s => s != ""
  | .arr xs => !xs.isEmpty
  | .obj kvs => !kvs.isEmpty

/-- `s.rsplit(".", 1)` unpacked into two names: `none` = the unpacking ValueError (no dot) -/
def rsplitDot : List Char → Option (List Char × List Char)
  | [] => none
  | c :: cs =>
    match rsplitDot cs with
    | some (m, n) => some (c :: m, n)
    | none => if c = '.' then some ([], cs) else none

def rsplit (s : String) : Option (String × String) :=
  (rsplitDot s.toList).map fun (m, n) => (String.ofList m, String.ofList n)

/-- `SubclassJSONSerializer.from_json` from `data.get(JSON_TYPE_NAME)` (`none` = key absent) to the dispatch. -/
def resolve (q : Quirks) (env : Env) (tag : Option Json) : Outcome :=
  match tag with
  | none => .err .missingType
  | some t =>
    if !t.truthy then .err .missingType
    else match t with
      | .str s =>
        match rsplit s with
        | none => .err .invalidFormat
        | some (m, c) =>
          match env.importModule m with
          | .notFound => .err .unknownModule
          | .importErr => if q.importErr then .escape .importError else .err .unknownModule
          | .valueErr => if q.importValueErr then .escape .valueError else .err .unknownModule
          | .typeErr => if q.importTypeErr then .escape .typeError else .err .unknownModule
          | .ok =>
            match env.getattr m c with
            | .missing => .err .classNotFound
            | .nonClass _ => if q.nonClassAttr then .escape .typeError else .err .classNotFound
            | .cls k ser reg impl =>
              if ser then
                if impl then .dispatch k .fromJson
                else if q.abstractSerializer then .escape .notImplementedError
                else .err .notDeserializable
              else if reg then .dispatch k .registry
              else .err .notDeserializable
      | _ => if q.nonStringTag then .escape .attributeError else .err .invalidFormat

/-! #### Specification of C19 (what the property demands) -/

/-- what the property accepts for one input: a specific outcome (the five canonical situations and a
successful dispatch) or *any* `JSONSerializationError` subclass -/
inductive Expect where
  | exactly (o : Outcome)
  | anyDocumented
  deriving Repr, DecidableEq

def Expect.accepts : Expect → Outcome → Bool
  | .exactly o, o' => o == o'
  | .anyDocumented, .err _ => true
  | .anyDocumented, _ => false

/-- The property, read directly: missing tag → MissingTypeError; a string without a dot → InvalidTypeFormatError;
a module that is not there → UnknownModuleError; an attribute that is not there → ClassNotFoundError; a class that
is neither a `SubclassJSONSerializer` nor registered → ClassNotDeserializableError; a deserialisable class → that
class is dispatched to; everything else (wrong JSON type, empty string, module names importlib rejects, modules
that fail while importing, attributes that are not classes, serializer classes that do not implement `_from_json`)
→ some documented error. -/
def spec (env : Env) (tag : Option Json) : Expect :=
  match tag with
  | none | some .null => .exactly (.err .missingType)
  | some (.str s) =>
    if s = "" then .anyDocumented
    else match rsplit s with
      | none => .exactly (.err .invalidFormat)
      | some (m, c) =>
        match env.importModule m with
        | .notFound => .exactly (.err .unknownModule)
        | .ok =>
          match env.getattr m c with
          | .missing => .exactly (.err .classNotFound)
          | .nonClass _ => .anyDocumented
          | .cls k ser reg impl =>
            if ser then (if impl then .exactly (.dispatch k .fromJson) else .anyDocumented)
            else if reg then .exactly (.dispatch k .registry)
            else .exactly (.err .notDeserializable)
        | _ => .anyDocumented
  | some _ => .anyDocumented

/-! #### Decidable triggers of the open findings (one per quirk flag) -/

def isStr : Json → Bool | .str _ => true | _ => false

/-- the import outcome `resolve` reaches for this tag, if it gets that far -/
def importOf (env : Env) (tag : Option Json) : Option ImportOutcome :=
  match tag with
  | some (.str s) => if s = "" then none else (rsplit s).map fun (m, _) => env.importModule m
  | _ => none

def trigNonString (tag : Option Json) : Bool :=
  match tag with | some t => t.truthy && !isStr t | none => false
def trigImportValueErr (env : Env) (tag : Option Json) : Bool := importOf env tag == some .valueErr
def trigImportTypeErr (env : Env) (tag : Option Json) : Bool := importOf env tag == some .typeErr
def trigImportErr (env : Env) (tag : Option Json) : Bool := importOf env tag == some .importErr
def trigNonClass (env : Env) (tag : Option Json) : Bool :=
  match tag with
  | some (.str s) =>
    if s = "" then false else
    match rsplit s with
    | some (m, c) =>
      env.importModule m == .ok && (match env.getattr m c with | .nonClass _ => true | _ => false)
    | none => false
  | _ => false

/-- the tag names a `SubclassJSONSerializer` class that does not implement `_from_json` -/
def trigAbstract (env : Env) (tag : Option Json) : Bool :=
  match tag with
  | some (.str s) =>
    if s = "" then false else
    match rsplit s with
    | some (m, c) =>
      env.importModule m == .ok && (match env.getattr m c with | .cls _ true _ false => true | _ => false)
    | none => false
  | _ => false

/-- the input hits a quirk that is switched on in `q` -/
def trigger (q : Quirks) (env : Env) (tag : Option Json) : Bool :=
  (q.nonStringTag && trigNonString tag) || (q.importValueErr && trigImportValueErr env tag) ||
  (q.importTypeErr && trigImportTypeErr env tag) || (q.nonClassAttr && trigNonClass env tag) ||
  (q.importErr && trigImportErr env tag) || (q.abstractSerializer && trigAbstract env tag)

/-! ### Serialisation and deserialisation (C18) -/

mutual
/-- module-level `to_json(obj)`; for `SubclassJSONSerializer` instances `obj.to_json()` = the tag written by the base
class followed by the fields, each serialised with `to_json` (the convention of every subclass); for registered
types the serializer registered *now* (`serialize_uuid`: the tag and the payload under `"value"`). The result
depends only on the structure of the value (and the registry): whether two equal sub-values are one Python object
or two does not enter. -/
def toJson (env : Env) : PyVal → Json
  | .none => .null
  | .bool b => .bool b
  | .int i => .int i
  | .float x => .float x
  | .str s => .str s
  | .ext c p => .obj [(tagKey, .str c.fullName), (env.payloadKey c, .str p)]
  | .list xs => .arr (toJsonList env xs)
  | .obj c fs => .obj ((tagKey, .str c.fullName) :: toJsonFields env fs)
/-- `[to_json(item) for item in obj]` -/
def toJsonList (env : Env) : List PyVal → List Json
  | [] => []
  | x :: xs => toJson env x :: toJsonList env xs
def toJsonFields (env : Env) : List (String × PyVal) → List (String × Json)
  | [] => []
  | (k, v) :: r => (k, toJson env v) :: toJsonFields env r
end

/-- `data.get(key)` on a decoded JSON object -/
def lookup (key : String) : List (String × Json) → Option Json
  | [] => none
  | (k, v) :: r => if k = key then some v else lookup key r

inductive Err where
  | doc (e : DocErr)      -- a documented JSONSerializationError of tag resolution
  | escape (x : Exc)      -- an undocumented exception of tag resolution
  | payload               -- the deserializer of the class rejected the payload (KeyError …): not tag resolution
  deriving Repr, DecidableEq

mutual
/-- module-level `from_json(data)` = `SubclassJSONSerializer.from_json(data)`; after the dispatch a
`SubclassJSONSerializer` subclass rebuilds itself from every entry but the tag, each through `from_json`
(the convention of every subclass); the deserializer registered *now* reads the payload under its key. -/
def fromJson (q : Quirks) (env : Env) : Json → Except Err PyVal
  | .null => .ok .none
  | .bool b => .ok (.bool b)
  | .int i => .ok (.int i)
  | .float x => .ok (.float x)
  | .str s => .ok (.str s)
  | .arr xs =>
    match fromJsonList q env xs with
    | .ok ys => .ok (.list ys)
    | .error e => .error e
  | .obj kvs =>
    match resolve q env (lookup tagKey kvs) with
    | .err e => .error (.doc e)
    | .escape x => .error (.escape x)
    | .dispatch c .fromJson =>
      match fromJsonFields q env kvs with
      | .ok fs => .ok (.obj c fs)
      | .error e => .error e
    | .dispatch c .registry =>
      match lookup (env.payloadKey c) kvs with
      | some (.str p) => .ok (.ext c p)
      | _ => .error .payload
/-- `[from_json(d) for d in data]` -/
def fromJsonList (q : Quirks) (env : Env) : List Json → Except Err (List PyVal)
  | [] => .ok []
  | x :: xs =>
    match fromJson q env x with
    | .error e => .error e
    | .ok y =>
      match fromJsonList q env xs with
      | .ok ys => .ok (y :: ys)
      | .error e => .error e
/-- `{k: from_json(v) for k, v in data.items() if k != JSON_TYPE_NAME}` -/
def fromJsonFields (q : Quirks) (env : Env) : List (String × Json) → Except Err (List (String × PyVal))
  | [] => .ok []
  | (k, v) :: r =>
    if k = tagKey then fromJsonFields q env r
    else
      match fromJson q env v with
      | .error e => .error e
      | .ok y =>
        match fromJsonFields q env r with
        | .ok ys => .ok ((k, y) :: ys)
        | .error e => .error e
end

/-! #### Well-formed values (the hypothesis of the round-trip theorem; a decidable, executable predicate) -/

/-- the class is module-level and resolvable under its `__name__`: importing `__module__` works and looking
`__name__` up in it finds *this* class (with the expected registration), and `__name__` has no dot -/
def resolvable (env : Env) (c : Cls) (ser : Bool) : Bool :=
  !c.name.toList.contains '.' && env.importModule c.module == .ok &&
  (match env.getattr c.module c.name with
   | .cls c' ser' reg' impl' =>
     c' == c && ser' == ser && (if ser then impl' else (reg' && env.payloadKey c != tagKey))
   | _ => false)

mutual
def wf (env : Env) : PyVal → Bool
  | .ext c _ => resolvable env c false
  | .list xs => wfList env xs
  | .obj c fs => resolvable env c true && wfFields env fs
  | _ => true
def wfList (env : Env) : List PyVal → Bool
  | [] => true
  | x :: xs => wf env x && wfList env xs
/-- field names differ from the tag key -/
def wfFields (env : Env) : List (String × PyVal) → Bool
  | [] => true
  | (k, v) :: r => k != tagKey && wf env v && wfFields env r
end

/-! #### The type tags a serialised document carries, and the ones the property demands -/

mutual
/-- every `__json_type__` entry of a JSON document, in document order (`none` = an object without the key) -/
def jsonTags : Json → List (Option Json)
  | .arr xs => jsonTagsList xs
  | .obj kvs => lookup tagKey kvs :: jsonTagsFields kvs
  | _ => []
def jsonTagsList : List Json → List (Option Json)
  | [] => []
  | x :: xs => jsonTags x ++ jsonTagsList xs
def jsonTagsFields : List (String × Json) → List (Option Json)
  | [] => []
  | (_, v) :: r => jsonTags v ++ jsonTagsFields r
end

mutual
/-- the fully qualified class name of every object of a value, in the same order -/
def valueTags : PyVal → List (Option Json)
  | .ext c _ => [some (.str c.fullName)]
  | .list xs => valueTagsList xs
  | .obj c fs => some (.str c.fullName) :: valueTagsFields fs
  | _ => []
def valueTagsList : List PyVal → List (Option Json)
  | [] => []
  | x :: xs => valueTags x ++ valueTagsList xs
def valueTagsFields : List (String × PyVal) → List (Option Json)
  | [] => []
  | (_, v) :: r => valueTags v ++ valueTagsFields r
end

/-! ### The decision structure of `from_json` as DATA (second tie: regenerated from the source on every run)

After the leaf and list cases `SubclassJSONSerializer.from_json` is a straight line of *stages*: each attempts one
thing; some are wrapped in `try … except (classes): raise Error`, some are guards `if …: raise Error`; two return.
`StageTable` describes that line as first-order data, `interp` is an interpreter of such tables over the import
environment (it knows what each primitive raises in Python and which `except` class catches what), and
`stageTable` is the table of the code as it is. `harness/translate/c19_translate.py` rebuilds the table from the
AST of /repo's current `json_serializer.py`; the kernel re-checks `Translated.stageTable = stageTable`. -/

/-- what a stage attempts -/
inductive Op where
  | getTag              -- `tag = data.get(JSON_TYPE_NAME)`
  | checkTruthy         -- guard `if not tag`
  | checkIsStr          -- guard `if not isinstance(tag, str)`
  | rsplit              -- `module_name, class_name = tag.rsplit(".", 1)`  (AttributeError on a non-string, ValueError without a dot)
  | importModule        -- `module = importlib.import_module(module_name)`
  | getattrClass        -- `target = getattr(module, class_name)`
  | checkIsType         -- guard `if not isinstance(target, type)`
  | subclassBranch      -- `issubclass(target, SubclassJSONSerializer)` (TypeError on a non-class); opens the serializer branch
  | implementsFromJson  -- guard, serializer branch only: `target._from_json` is the base's unimplemented method
  | callFromJson        -- serializer branch only: `return target._from_json(data, **kwargs)`
  | registryLookup      -- `deser = JSONSerializableTypeRegistry().get_deserializer(target)`
  | checkRegistered     -- guard `if not deser`
  | callRegistry        -- `return deser(data, **kwargs)`
  deriving Repr, DecidableEq

/-- exception classes that may be named in an `except` clause -/
inductive ExcClass where
  | exception | importError | moduleNotFoundError | valueError | typeError | attributeError
  | notImplementedError | runtimeError
  | other   -- any class that catches none of the exceptions the primitives raise (KeyError, OSError, …)
  deriving Repr, DecidableEq

/-- `isinstance(raised, class)`: Python's exception hierarchy restricted to what the primitives raise -/
def catches : ExcClass → Exc → Bool
  | .exception, _ => true
  | .importError, .importError => true
  | .importError, .moduleNotFoundError => true
  | .moduleNotFoundError, .moduleNotFoundError => true
  | .valueError, .valueError => true
  | .typeError, .typeError => true
  | .attributeError, .attributeError => true
  | .notImplementedError, .notImplementedError => true
  | .runtimeError, .notImplementedError => true
  | _, _ => false

/-- one stage: what is attempted, the classes caught around it (order-free; the translator sorts them), and the
documented error raised when the guard fires / a caught exception arrives (`none`: the stage raises nothing itself) -/
structure Stage where
  op : Op
  caught : List ExcClass
  error : Option DocErr
  deriving Repr, DecidableEq

abbrev StageTable := List Stage

/-- local variables of `from_json` bound so far -/
structure Locals where
  tag : Option (Option Json) := none          -- bound by getTag (`some none` = Python `None`)
  names : Option (String × String) := none    -- module_name, class_name
  module : Option String := none              -- the imported module
  target : Option AttrKind := none            -- what getattr found (never `.missing`)
  ser : Option Bool := none                   -- result of the issubclass test
  reg : Option Bool := none                   -- is a deserializer registered

inductive Step where
  | next (l : Locals)      -- falls through to the next stage
  | raised (x : Exc)       -- the primitive raised
  | fire                   -- the guard is true
  | ret (o : Outcome)      -- the function returns (a dispatch)
  | stuck                  -- uses a variable that is not bound: not a table of a running program

def isStrTag : Option Json → Bool
  | some (.str _) => true
  | _ => false
def tagTruthy : Option Json → Bool
  | some t => t.truthy
  | none => false

/-- what one primitive does (Python semantics of the operation, the environment supplying import and getattr) -/
def step (env : Env) (data : Option Json) (op : Op) (l : Locals) : Step :=
  match op with
  | .getTag => .next { l with tag := some data }
  | .checkTruthy =>
    match l.tag with
    | some t => if tagTruthy t then .next l else .fire
    | none => .stuck
  | .checkIsStr =>
    match l.tag with
    | some t => if isStrTag t then .next l else .fire
    | none => .stuck
  | .rsplit =>
    match l.tag with
    | some (some (.str s)) =>
      (match rsplit s with
       | some mc => .next { l with names := some mc }
       | none => .raised .valueError)
    | some _ => .raised .attributeError
    | none => .stuck
  | .importModule =>
    match l.names with
    | some (m, _) =>
      (match env.importModule m with
       | .ok => .next { l with module := some m }
       | .notFound => .raised .moduleNotFoundError
       | .importErr => .raised .importError
       | .valueErr => .raised .valueError
       | .typeErr => .raised .typeError)
    | none => .stuck
  | .getattrClass =>
    match l.module, l.names with
    | some m, some (_, c) =>
      (match env.getattr m c with
       | .missing => .raised .attributeError
       | k => .next { l with target := some k })
    | _, _ => .stuck
  | .checkIsType =>
    match l.target with
    | some (.cls _ _ _ _) => .next l
    | some _ => .fire
    | none => .stuck
  | .subclassBranch =>
    match l.target with
    | some (.cls _ ser _ _) => .next { l with ser := some ser }
    | some _ => .raised .typeError
    | none => .stuck
  | .implementsFromJson =>
    match l.ser, l.target with
    | some true, some (.cls _ _ _ impl) => if impl then .next l else .fire
    | some false, some _ => .next l
    | _, _ => .stuck
  | .callFromJson =>
    match l.ser, l.target with
    | some true, some (.cls k _ _ impl) => if impl then .ret (.dispatch k .fromJson) else .raised .notImplementedError
    | some false, some _ => .next l
    | _, _ => .stuck
  | .registryLookup =>
    match l.target with
    | some (.cls _ _ reg _) => .next { l with reg := some reg }
    | some _ => .next { l with reg := some false }
    | none => .stuck
  | .checkRegistered =>
    match l.reg with
    | some r => if r then .next l else .fire
    | none => .stuck
  | .callRegistry =>
    match l.reg, l.target with
    | some true, some (.cls k _ _ _) => .ret (.dispatch k .registry)
    | some _, some _ => .raised .typeError      -- calling `None`
    | _, _ => .stuck

/-- run a table from a given point; `none` = not the table of a running program (unbound variable, a handler without
a `raise`, falling off the end) -/
def interpFrom (env : Env) (data : Option Json) : StageTable → Locals → Option Outcome
  | [], _ => none
  | stg :: rest, l =>
    match step env data stg.op l with
    | .next l' => interpFrom env data rest l'
    | .raised x => if stg.caught.any (catches · x) then stg.error.map .err else some (.escape x)
    | .fire => stg.error.map .err
    | .ret o => some o
    | .stuck => none

def interp (t : StageTable) (env : Env) (data : Option Json) : Option Outcome := interpFrom env data t {}

/-- the code as it is at this commit (= `resolve Quirks.current`, theorem `fromJson_eq_interp`) -/
def stageTable : StageTable :=
  [ ⟨.getTag, [], none⟩,
    ⟨.checkTruthy, [], some .missingType⟩,
    ⟨.checkIsStr, [], some .invalidFormat⟩,
    ⟨.rsplit, [.valueError], some .invalidFormat⟩,
    ⟨.importModule, [.importError, .valueError, .typeError], some .unknownModule⟩,
    ⟨.getattrClass, [.attributeError], some .classNotFound⟩,
    ⟨.checkIsType, [], some .classNotFound⟩,
    ⟨.subclassBranch, [], none⟩,
    ⟨.implementsFromJson, [], some .notDeserializable⟩,
    ⟨.callFromJson, [], none⟩,
    ⟨.registryLookup, [], none⟩,
    ⟨.checkRegistered, [], some .notDeserializable⟩,
    ⟨.callRegistry, [], none⟩ ]

/-- the code as it was found (commit 03a79e4; = `resolve Quirks.all`, theorem `asFound_eq_interp`): no string check,
only ModuleNotFoundError caught around the import, no class check, no `_from_json` check -/
def stageTableAsFound : StageTable :=
  [ ⟨.getTag, [], none⟩,
    ⟨.checkTruthy, [], some .missingType⟩,
    ⟨.rsplit, [.valueError], some .invalidFormat⟩,
    ⟨.importModule, [.moduleNotFoundError], some .unknownModule⟩,
    ⟨.getattrClass, [.attributeError], some .classNotFound⟩,
    ⟨.subclassBranch, [], none⟩,
    ⟨.callFromJson, [], none⟩,
    ⟨.registryLookup, [], none⟩,
    ⟨.checkRegistered, [], some .notDeserializable⟩,
    ⟨.callRegistry, [], none⟩ ]

/-! ### Values with SHARED sub-values (C18: aliasing is irrelevant)

A Python value of the grammar may reference one list object (or one serialisable object) from several places — a
DAG, not a tree (`[[0] * 3] * 3`, `e = []; [e, e]`). `SVal` is the syntax of such values: `defn n v` is the first
occurrence of the object labelled `n`, `ref n` a further reference to it. `expand` forgets the sharing. The model's
`toJson` is defined on the expansion: serialisation depends only on the structure of a value. (Cyclic values have no
`SVal`: a `ref` inside its own `defn` is unbound.) -/

inductive SVal where
  | leaf (v : PyVal)
  | list (xs : List SVal)
  | obj (c : Cls) (fs : List (String × SVal))
  | defn (n : Nat) (v : SVal)
  | ref (n : Nat)

def lookupDef (n : Nat) : List (Nat × PyVal) → Option PyVal
  | [] => none
  | (k, v) :: r => if k = n then some v else lookupDef n r

mutual
/-- forget the sharing, in document order (`none`: a reference to an object that is not defined before it) -/
def expand : SVal → List (Nat × PyVal) → Option (PyVal × List (Nat × PyVal))
  | .leaf v, d => some (v, d)
  | .list xs, d =>
    match expandList xs d with
    | some (ys, d') => some (.list ys, d')
    | none => none
  | .obj c fs, d =>
    match expandFields fs d with
    | some (gs, d') => some (.obj c gs, d')
    | none => none
  | .defn n v, d =>
    match expand v d with
    | some (w, d') => some (w, (n, w) :: d')
    | none => none
  | .ref n, d =>
    match lookupDef n d with
    | some w => some (w, d)
    | none => none
def expandList : List SVal → List (Nat × PyVal) → Option (List PyVal × List (Nat × PyVal))
  | [], d => some ([], d)
  | x :: xs, d =>
    match expand x d with
    | none => none
    | some (y, d') =>
      match expandList xs d' with
      | some (ys, d'') => some (y :: ys, d'')
      | none => none
def expandFields : List (String × SVal) → List (Nat × PyVal) → Option (List (String × PyVal) × List (Nat × PyVal))
  | [], d => some ([], d)
  | (k, x) :: r, d =>
    match expand x d with
    | none => none
    | some (y, d') =>
      match expandFields r d' with
      | some (ys, d'') => some ((k, y) :: ys, d'')
      | none => none
end

/-- the tree a shared value stands for -/
def SVal.tree (s : SVal) : Option PyVal := (expand s []).map (·.1)

/-! ### Registry histories (C18: the round trip uses the registry as it is at the time of the call)

`JSONSerializableTypeRegistry.register(type, serializer, deserializer)` may be called at any time, also again for a
type that is already registered (the pair is replaced). A registry state is the list of registrations made so far,
newest first; `envWith base R` is the environment the calls see in state `R`. A history is a list of operations; each
`to_json` / `from_json` reads the state current at that moment and nothing else. -/

structure Registration where
  cls : Cls
  key : String     -- the pair (serializer, deserializer) keeps the payload under this key
  deriving Repr, DecidableEq

abbrev RegState := List Registration

def RegState.byCls (R : RegState) (c : Cls) : Option Registration := R.find? fun r => r.cls == c

/-- what lookups see in registry state `R` on top of the interpreter `base` -/
def envWith (base : Env) (R : RegState) : Env where
  importModule := base.importModule
  getattr := fun m n =>
    match base.getattr m n with
    | .cls c ser reg impl => .cls c ser (reg || (R.byCls c).isSome) impl
    | k => k
  payloadKey := fun c => match R.byCls c with | some r => r.key | none => base.payloadKey c

mutual
/-- `to_json` raises ClassNotSerializableError for an instance of a type without a registered serializer -/
def serializable (env : Env) : PyVal → Bool
  | .ext c _ => (match env.getattr c.module c.name with | .cls c' _ reg _ => c' == c && reg | _ => false)
  | .list xs => serializableList env xs
  | .obj _ fs => serializableFields env fs
  | _ => true
def serializableList (env : Env) : List PyVal → Bool
  | [] => true
  | x :: xs => serializable env x && serializableList env xs
def serializableFields (env : Env) : List (String × PyVal) → Bool
  | [] => true
  | (_, v) :: r => serializable env v && serializableFields env r
end

inductive HOp where
  | register (c : Cls) (key : String)       -- `JSONSerializableTypeRegistry().register(c, ser_key, deser_key)`
  | ser (v : PyVal)                         -- `json.dumps(to_json(v))`, result not read back
  | rt (v : PyVal)                          -- `from_json(json.loads(json.dumps(to_json(v))))`
  | de (j : Json)                           -- `from_json(j)` of a stored document

inductive HObs where
  | done
  | notSerializable                         -- ClassNotSerializableError
  | serialised (j : Json)
  | result (r : Except Err PyVal)

/-- one operation in registry state `R` -/
def stepOp (q : Quirks) (base : Env) (R : RegState) : HOp → HObs × RegState
  | .register c key => (.done, ⟨c, key⟩ :: R)
  | .ser v =>
    let env := envWith base R
    (if serializable env v then .serialised (toJson env v) else .notSerializable, R)
  | .rt v =>
    let env := envWith base R
    (if serializable env v then .result (fromJson q env (toJson env v)) else .notSerializable, R)
  | .de j => (.result (fromJson q (envWith base R) j), R)

def runOps (q : Quirks) (base : Env) : List HOp → RegState → List HObs × RegState
  | [], R => ([], R)
  | op :: ops, R =>
    let (o, R') := stepOp q base R op
    let (os, R'') := runOps q base ops R'
    (o :: os, R'')

/-! ### The dispatch of `to_json` / `from_json` as DATA (second tie of C18: regenerated from the source on every run)

Module-level `to_json(obj)` and the head of `SubclassJSONSerializer.from_json(data)` are *decision lists*: a sequence of
`if <test on the runtime type of the argument>: return <action>` statements, the first test that holds decides.
`Rule` / `Tables` describe them as first-order data over value KINDS; `dispatchK` evaluates a decision list on a kind
(it knows Python's `isinstance` lattice: `bool` is an `int`), `toJsonT` / `fromJsonT` are interpreters of whole tables
on values, and `tables` is the table of the code as it is. `harness/translate/c18_translate.py` rebuilds the table from
the AST of /repo's current `json_serializer.py` (+ `utils.get_full_class_name`); the kernel re-checks
`Translated.tables.dispatch = tables.dispatch` and `RoundTrips Translated.tables`. -/

/-- the Python types the tests of `to_json` / `from_json` mention -/
inductive PyType where
  | noneType | bool | int | float | str | list | tuple | set | dict
  | serializer   -- `SubclassJSONSerializer`
  deriving Repr, DecidableEq

/-- what the argument IS at run time (as far as a test on its type can tell) -/
inductive Kind where
  | none | bool | int
  | intSub     -- instance of a proper subclass of `int` other than `bool` (IntEnum)
  | float | str
  | strSub     -- instance of a proper subclass of `str` (StrEnum)
  | list | tuple | set | dict
  | serObj     -- instance of a `SubclassJSONSerializer` subclass (the class itself not registered)
  | serRegObj  -- instance of a `SubclassJSONSerializer` subclass that is ALSO registered in the type registry
  | regObj     -- instance of a class that is itself registered in the type registry (exact type)
  | regSubObj  -- instance of an unregistered subclass of a registered class
  | other      -- anything else
  deriving Repr, DecidableEq

def Kind.all : List Kind :=
  [.none, .bool, .int, .intSub, .float, .str, .strSub, .list, .tuple, .set, .dict, .serObj, .serRegObj, .regObj, .regSubObj,
   .other]

/-- `isinstance(x, t)` -/
def instOf : Kind → PyType → Bool
  | .none, .noneType => true
  | .bool, .bool => true
  | .bool, .int => true          -- `bool` is a subclass of `int`
  | .int, .int => true
  | .intSub, .int => true
  | .float, .float => true
  | .str, .str => true
  | .strSub, .str => true
  | .list, .list => true
  | .tuple, .tuple => true
  | .set, .set => true
  | .dict, .dict => true
  | .serObj, .serializer => true
  | .serRegObj, .serializer => true
  | _, _ => false

/-- `type(x) is t` -/
def exactOf : Kind → PyType → Bool
  | .none, .noneType => true
  | .bool, .bool => true
  | .int, .int => true
  | .float, .float => true
  | .str, .str => true
  | .list, .list => true
  | .tuple, .tuple => true
  | .set, .set => true
  | .dict, .dict => true
  | _, _ => false

/-- how `JSONSerializableTypeRegistry.get_serializer / get_deserializer` find an entry for a class -/
inductive Lookup where
  | exact             -- `self._serializers.get(type_class)`: the class itself is a key
  | mro               -- first class of `type_class.__mro__` that is a key
  | isinstanceOrder   -- first key, in registration order, that `type_class` is a subclass of
  deriving Repr, DecidableEq

inductive Test where
  | isinstance (ts : List PyType)   -- `isinstance(x, (t₁, …))`
  | typeIs (ts : List PyType)       -- `type(x) in (t₁, …)` / `type(x) is t` / `x is None`
  | registered                      -- the registry lookup for `type(x)` finds a (de)serializer
  | always
  | and (a b : Test)
  | or (a b : Test)
  | not (a : Test)
  deriving Repr

def Test.holds (l : Lookup) : Test → Kind → Bool
  | .isinstance ts, k => ts.any (instOf k)
  | .typeIs ts, k => ts.any (exactOf k)
  | .registered, k => k == .regObj || k == .serRegObj || (l != .exact && k == .regSubObj)
  | .always, _ => true
  | .and a b, k => a.holds l k && b.holds l k
  | .or a b, k => a.holds l k || b.holds l k
  | .not a, k => !a.holds l k

inductive Action where
  | self                    -- `return x`
  | mapRec                  -- `return [f(item) for item in x]` with `f` the function itself
  | method                  -- `return x.to_json()`
  | registry                -- `return <registered serializer>(x)`
  | resolve                 -- (from_json) go on to the tag resolution (the stage table of C19)
  | raiseNotSerializable    -- `raise ClassNotSerializableError(type(x))`
  | coerce (t : PyType)     -- `return t(x)`
  | fallOff                 -- no rule applies: the function returns `None`
  deriving Repr, DecidableEq

structure Rule where
  test : Test
  action : Action
  deriving Repr

/-- evaluate a decision list on a kind: the first rule whose test holds decides -/
def dispatchK (l : Lookup) : List Rule → Kind → Action
  | [], _ => .fallOff
  | r :: rs, k => if r.test.holds l k then r.action else dispatchK l rs k

/-- how the type tag is put together from the class (`get_full_class_name`) -/
inductive NamePart where
  | module | name | qualname
  | lit (s : String)
  deriving Repr, DecidableEq

/-- a (serializer, deserializer) pair the module registers itself (`uuid.UUID`): the key each side keeps the payload
under, and whether the serializer writes the tag of `type(obj)` with `get_full_class_name` -/
structure Builtin where
  cls : String
  serKey : String
  deserKey : String
  tagOfType : Bool
  deriving Repr, DecidableEq

def Builtin.ok (b : Builtin) : Bool := b.serKey == b.deserKey && b.serKey != tagKey && b.tagOfType

structure Tables where
  /-- module-level `to_json` -/
  toRules : List Rule
  /-- head of `SubclassJSONSerializer.from_json` (the module-level `from_json` delegates to it) -/
  fromRules : List Rule
  /-- `SubclassJSONSerializer.to_json` writes `{JSON_TYPE_NAME: <these parts of self.__class__ concatenated>}` -/
  tag : List NamePart
  /-- the rest of `from_json`: tag resolution (split by `rsplit(".", 1)`, import, getattr, dispatch) -/
  stages : StageTable
  serLookup : Lookup
  deserLookup : Lookup
  builtins : List Builtin
  deriving Repr

/-- all a table says, as comparable data: the action for EVERY kind (in the order of `Kind.all`) instead of the rule
lists — two rule lists that decide every kind alike are the same dispatch -/
structure Dispatch where
  toActs : List Action
  fromActs : List Action
  tag : List NamePart
  stages : StageTable
  serLookup : Lookup
  deserLookup : Lookup
  builtins : List Builtin
  deriving Repr, DecidableEq

def Tables.toSel (T : Tables) : Kind → Action := dispatchK T.serLookup T.toRules
def Tables.fromSel (T : Tables) : Kind → Action := dispatchK T.deserLookup T.fromRules

def Tables.dispatch (T : Tables) : Dispatch :=
  ⟨Kind.all.map T.toSel, Kind.all.map T.fromSel, T.tag, T.stages, T.serLookup, T.deserLookup, T.builtins⟩

/-- `leaf_types = (int, float, str, bool, NoneType)` -/
def leafTypes : List PyType := [.int, .float, .str, .bool, .noneType]
/-- `list_like_classes = (list, tuple, set)` -/
def listLike : List PyType := [.list, .tuple, .set]
/-- `cls.__module__ + "." + cls.__name__` -/
def stdTag : List NamePart := [.module, .lit ".", .name]

/-- the code as it is at this commit -/
def tables : Tables where
  toRules :=
    [ ⟨.isinstance leafTypes, .self⟩,
      ⟨.isinstance listLike, .mapRec⟩,
      ⟨.isinstance [.serializer], .method⟩,
      ⟨.registered, .registry⟩,
      ⟨.always, .raiseNotSerializable⟩ ]
  fromRules :=
    [ ⟨.isinstance leafTypes, .self⟩,
      ⟨.isinstance listLike, .mapRec⟩,
      ⟨.always, .resolve⟩ ]
  tag := stdTag
  stages := stageTable
  serLookup := .exact
  deserLookup := .exact
  builtins := [⟨"uuid.UUID", "value", "value", true⟩]

/-! #### Interpreters of tables on values -/

/-- the tag a `SubclassJSONSerializer` instance writes (`none`: `__qualname__` is not part of the class model) -/
def composeTag : List NamePart → Cls → Option String
  | [], _ => some ""
  | p :: ps, c =>
    match (match p with
      | .module => some c.module
      | .name => some c.name
      | .qualname => none
      | .lit s => some s), composeTag ps c with
    | some a, some b => some (a ++ b)
    | _, _ => none

/-- a serializer is registered for exactly this class -/
def regExact (env : Env) (c : Cls) : Bool :=
  match env.getattr c.module c.name with
  | .cls c' _ reg _ => c' == c && reg
  | _ => false

inductive TErr where
  | notSerializable   -- ClassNotSerializableError
  | stuck             -- the table does something this interpreter has no semantics for on this value
  deriving Repr, DecidableEq

/-- an action that is not the one the value's constructor can carry out -/
def offAction : Action → Except TErr Json
  | .raiseNotSerializable => .error .notSerializable
  | _ => .error .stuck

mutual
/-- run a to-side dispatch `sel` (a decision list evaluated per kind) on a value; `exact`: the registry lookup is the
exact one (the only one with value-level semantics here) -/
def toJsonWith (sel : Kind → Action) (tag : List NamePart) (exact : Bool) (env : Env) : PyVal → Except TErr Json
  | .none => (match sel .none with | .self => .ok .null | a => offAction a)
  | .bool b => (match sel .bool with | .self => .ok (.bool b) | a => offAction a)
  | .int i => (match sel .int with | .self => .ok (.int i) | a => offAction a)
  | .float x => (match sel .float with | .self => .ok (.float x) | a => offAction a)
  | .str s => (match sel .str with | .self => .ok (.str s) | a => offAction a)
  | .list xs =>
    (match sel .list with
     | .mapRec =>
       (match toJsonListWith sel tag exact env xs with
        | .ok ys => .ok (.arr ys)
        | .error e => .error e)
     | a => offAction a)
  | .obj c fs =>
    (match sel (if regExact env c then .serRegObj else .serObj) with
     | .method =>
       (match composeTag tag c with
        | none => .error .stuck
        | some t =>
          match toJsonFieldsWith sel tag exact env fs with
          | .ok gs => .ok (.obj ((tagKey, .str t) :: gs))
          | .error e => .error e)
     | a => offAction a)
  | .ext c p =>
    if regExact env c then
      (match sel .regObj with
       | .registry =>
         if exact then .ok (.obj [(tagKey, .str c.fullName), (env.payloadKey c, .str p)]) else .error .stuck
       | a => offAction a)
    else
      (match sel .other with
       | .raiseNotSerializable => .error .notSerializable
       | _ => .error .stuck)
def toJsonListWith (sel : Kind → Action) (tag : List NamePart) (exact : Bool) (env : Env) :
    List PyVal → Except TErr (List Json)
  | [] => .ok []
  | x :: xs =>
    match toJsonWith sel tag exact env x with
    | .error e => .error e
    | .ok y =>
      match toJsonListWith sel tag exact env xs with
      | .ok ys => .ok (y :: ys)
      | .error e => .error e
def toJsonFieldsWith (sel : Kind → Action) (tag : List NamePart) (exact : Bool) (env : Env) :
    List (String × PyVal) → Except TErr (List (String × Json))
  | [] => .ok []
  | (k, v) :: r =>
    match toJsonWith sel tag exact env v with
    | .error e => .error e
    | .ok y =>
      match toJsonFieldsWith sel tag exact env r with
      | .ok ys => .ok ((k, y) :: ys)
      | .error e => .error e
end

/-- `to_json` as the table says -/
def toJsonT (T : Tables) (env : Env) (v : PyVal) : Except TErr Json :=
  toJsonWith T.toSel T.tag (T.serLookup == .exact) env v

mutual
/-- run a from-side dispatch on a decoded JSON tree; errors: `some e` = what `fromJson` reports, `none` = stuck -/
def fromJsonWith (sel : Kind → Action) (stages : StageTable) (exact : Bool) (env : Env) :
    Json → Except (Option Err) PyVal
  | .null => (match sel .none with | .self => .ok .none | _ => .error none)
  | .bool b => (match sel .bool with | .self => .ok (.bool b) | _ => .error none)
  | .int i => (match sel .int with | .self => .ok (.int i) | _ => .error none)
  | .float x => (match sel .float with | .self => .ok (.float x) | _ => .error none)
  | .str s => (match sel .str with | .self => .ok (.str s) | _ => .error none)
  | .arr xs =>
    (match sel .list with
     | .mapRec =>
       (match fromJsonListWith sel stages exact env xs with
        | .ok ys => .ok (.list ys)
        | .error e => .error e)
     | _ => .error none)
  | .obj kvs =>
    (match sel .dict with
     | .resolve =>
       if exact then
         (match interp stages env (lookup tagKey kvs) with
          | none => .error none
          | some (.err e) => .error (some (.doc e))
          | some (.escape x) => .error (some (.escape x))
          | some (.dispatch c .fromJson) =>
            (match fromJsonFieldsWith sel stages exact env kvs with
             | .ok fs => .ok (.obj c fs)
             | .error e => .error e)
          | some (.dispatch c .registry) =>
            (match lookup (env.payloadKey c) kvs with
             | some (.str p) => .ok (.ext c p)
             | _ => .error (some .payload)))
       else .error none
     | _ => .error none)
def fromJsonListWith (sel : Kind → Action) (stages : StageTable) (exact : Bool) (env : Env) :
    List Json → Except (Option Err) (List PyVal)
  | [] => .ok []
  | x :: xs =>
    match fromJsonWith sel stages exact env x with
    | .error e => .error e
    | .ok y =>
      match fromJsonListWith sel stages exact env xs with
      | .ok ys => .ok (y :: ys)
      | .error e => .error e
def fromJsonFieldsWith (sel : Kind → Action) (stages : StageTable) (exact : Bool) (env : Env) :
    List (String × Json) → Except (Option Err) (List (String × PyVal))
  | [] => .ok []
  | (k, v) :: r =>
    if k = tagKey then fromJsonFieldsWith sel stages exact env r
    else
      match fromJsonWith sel stages exact env v with
      | .error e => .error e
      | .ok y =>
        match fromJsonFieldsWith sel stages exact env r with
        | .ok ys => .ok ((k, y) :: ys)
        | .error e => .error e
end

/-- `from_json` as the table says -/
def fromJsonT (T : Tables) (env : Env) (j : Json) : Except (Option Err) PyVal :=
  fromJsonWith T.fromSel T.stages (T.deserLookup == .exact) env j

/-- the hand-written model's result in the interpreter's result type -/
def liftErr {α : Type} : Except Err α → Except (Option Err) α
  | .ok v => .ok v
  | .error e => .error (some e)

/-! #### The decidable well-formedness predicate of tables: enough for the round trip

Weaker than equality with `tables`: only the kinds of the property's grammar are pinned (what a table does with tuples,
sets, dicts, subclasses of leaf types, unregistered classes is free), any rule list with that dispatch will do, and the
stage table may be the one of the code as it is or as it was found (the escaping exceptions of C19 are never reached
from a serialised well-formed value). -/

def goodTo (sel : Kind → Action) : Bool :=
  sel .none == .self && sel .bool == .self && sel .int == .self && sel .float == .self && sel .str == .self &&
  sel .list == .mapRec && sel .serObj == .method && sel .serRegObj == .method && sel .regObj == .registry

def goodFrom (sel : Kind → Action) : Bool :=
  sel .none == .self && sel .bool == .self && sel .int == .self && sel .float == .self && sel .str == .self &&
  sel .list == .mapRec && sel .dict == .resolve

def RoundTrips (T : Tables) : Bool :=
  goodTo T.toSel && goodFrom T.fromSel && T.tag == stdTag &&
  (T.stages == stageTable || T.stages == stageTableAsFound) &&
  T.serLookup == .exact && T.deserLookup == .exact && T.builtins.all Builtin.ok

end KrroodVerif.Json
