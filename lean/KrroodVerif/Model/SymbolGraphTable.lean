import KrroodVerif.Model.SymbolGraph
/-!
M-SG, second tie: the short registry methods of `symbol_graph.py` (`add_node`, `remove_node`,
`remove_dead_instances`, `get_instances_of_type`, `get_wrapped_instance` + `ensure_wrapped_instance`, `clear`) and
`recursive_subclasses` (`utils.py`) as TABLES of container operations (`Instr`), with interpreters over the model's
state (`SG σ`). `SG.table` is the hand-written table of the code as it is; `harness/translate/sg_translate.py`
regenerates the same table from the current Python AST on every run and the kernel re-checks
`Translated.table = SG.table`. `Props/C13Table.lean` proves, once and unbounded, that the interpreters run on `SG.table`
ARE the hand-written model functions (`addNode`, `removeNode`, `sweep`, `instancesOf`, `ensure`, `SG.empty`).
Core Lean only.

One instruction = one Python statement (or loop header / filter) over one container:
`_instance_graph` (`nodes`, `edges`, allocator), `_instance_index` (`instIdx`), `_class_to_wrapped_instances`
(`byClass`), `_relation_index` (`relIdx`).
-/
namespace KrroodVerif.SG

/-- which key an `_instance_index` operation uses -/
inductive IdxKey where
  /-- `id(w.instance)` — `id(None)` once the instance is dead -/
  | idOfInstance
  /-- `w.instance_id`, the id stored when the instance was wrapped -/
  | storedId
  deriving DecidableEq, Repr

inductive Liveness where
  /-- `w.instance is None` -/
  | dead
  /-- `w.instance is not None` -/
  | alive
  deriving DecidableEq, Repr

inductive ClsSource where
  /-- `[type_]` -/
  | selfOnly
  /-- `recursive_subclasses(type_)` -/
  | subsOnly
  /-- `[type_] + recursive_subclasses(type_)` -/
  | selfThenSubs
  /-- `recursive_subclasses(type_) + [type_]` -/
  | subsThenSelf
  deriving DecidableEq, Repr

inductive Instr where
  /-- `w.index = self._instance_graph.add_node(w)` -/
  | graphAddNode
  /-- `self._instance_index[key] = w` -/
  | indexSet (k : IdxKey)
  /-- `if self._instance_index.get(key) is w: del self._instance_index[key]` -/
  | indexDelIfSame (k : IdxKey)
  /-- `self._instance_index.pop(key, None)` -/
  | indexPop (k : IdxKey)
  /-- `self._class_to_wrapped_instances[w.instance_type].append(w)` -/
  | classAppend
  /-- `self._class_to_wrapped_instances[w.instance_type].remove(w)` -/
  | classRemove
  /-- `for s, t, r in in_edges(w.index) [+] out_edges(w.index): self._relation_index.get(r.wrapped_field, set()).discard((s, t))` -/
  | relDiscardIncident (inE outE : Bool)
  /-- `self._instance_graph.remove_node(w.index)` (the node and its incident edges) -/
  | graphRemoveNode
  /-- `for node in self._instance_graph.nodes():` (a list, by node index) -/
  | forEachGraphNode
  /-- `if node.instance is None:` / `is not None:` — the rest of the loop body runs for these nodes only -/
  | onlyIf (l : Liveness)
  /-- `self.remove_node(node)` -/
  | callRemoveNode
  /-- `for cls in …` -/
  | forEachClassIn (s : ClsSource)
  /-- `for w in list(self._class_to_wrapped_instances[cls])` (`copy`) / `… in self._class_to_wrapped_instances[cls]` -/
  | forEachWrappedIn (copy : Bool)
  /-- `if (instance := w.instance) is not None` = skip the dead ones -/
  | skipIf (l : Liveness)
  /-- `yield w.instance` -/
  | yieldInstance
  /-- `w = self._instance_index.get(key, None)` (`get_wrapped_instance`) -/
  | lookupIndex (k : IdxKey)
  /-- `if w is None:` guarding the next `n` instructions -/
  | ifMissing (n : Nat)
  /-- `w = WrappedInstance(instance)` -/
  | wrapNew
  /-- `self.add_node(w)` -/
  | callAddNode
  /-- `return w` -/
  | returnWrapper
  /-- `SingletonMeta.clear_instance(type(self))`: the next `SymbolGraph()` is a new, empty one -/
  | resetSingleton
  /-- `cls.__subclasses__()` -/
  | directSubclasses
  /-- `[g for s in cls.__subclasses__() for g in recursive_subclasses(s)]` -/
  | recurseOverDirect
  /-- `list(dict.fromkeys(…))` -/
  | dedupKeepFirst
  deriving DecidableEq, Repr

abbrev Prog := List Instr

structure Table where
  addNode : Prog
  removeNode : Prog
  sweep : Prog
  getInstances : Prog
  ensure : Prog
  clear : Prog
  recSubs : Prog
  deriving DecidableEq, Repr

/-- the methods as they are in the code the model transcribes (`Quirks.asIs`) -/
def table : Table where
  addNode := [.graphAddNode, .indexSet .idOfInstance, .classAppend]
  removeNode := [.indexDelIfSame .storedId, .classRemove, .relDiscardIncident true true, .graphRemoveNode]
  sweep := [.forEachGraphNode, .onlyIf .dead, .callRemoveNode]
  getInstances := [.forEachClassIn .selfThenSubs, .forEachWrappedIn true, .skipIf .dead, .yieldInstance]
  ensure := [.lookupIndex .idOfInstance, .ifMissing 2, .wrapNew, .callAddNode, .returnWrapper]
  clear := [.resetSingleton]
  recSubs := [.directSubclasses, .recurseOverDirect, .dedupKeepFirst]

/-- the tree the design was written against (`Quirks.original`): `pop(id(w.instance), None)`, no purge of the
relation index, no de-duplication of the subclasses, dead instances yielded as `None` -/
def tableOriginal : Table :=
  { table with
    removeNode := [.indexPop .idOfInstance, .classRemove, .graphRemoveNode]
    getInstances := [.forEachClassIn .selfThenSubs, .forEachWrappedIn true, .yieldInstance]
    recSubs := [.directSubclasses, .recurseOverDirect] }

/-! ### interpreters -/

/-- the dictionary key an instruction uses for wrapper `w`; `none` = `id(None)`, a key no instance has -/
def keyOf (isLive : Obj → Bool) (k : IdxKey) (w : W) : Option Nat :=
  match k with
  | .storedId => some w.pid
  | .idOfInstance => if isLive w.obj then some w.pid else none

def matchesLiveness (isLive : Obj → Bool) (l : Liveness) (w : W) : Bool :=
  match l with
  | .dead => !isLive w.obj
  | .alive => isLive w.obj

/-- the edges of the graph that `in_edges(i)` / `out_edges(i)` list -/
def incident {σ} (g : SG σ) (inE outE : Bool) (i : Nat) : List Edge :=
  g.edges.filter (fun e => (inE && e.tgt.idx == i) || (outE && e.src.idx == i))

/-- one statement of `add_node` / `remove_node` about wrapper `w` -/
def execMut {σ} (a : Alloc σ) (isLive : Obj → Bool) (gw : SG σ × W) : Instr → SG σ × W
  | .graphAddNode =>
    let p := a.pick gw.1.al (gw.1.nodes.map (·.idx))
    let w : W := { gw.2 with idx := p.1 }
    ({ gw.1 with nodes := gw.1.nodes ++ [w], al := p.2, ever := gw.1.ever ++ [p.1],
                 reused := gw.1.reused || gw.1.ever.contains p.1 }, w)
  | .indexSet k =>
    match keyOf isLive k gw.2 with
    | some p => ({ gw.1 with instIdx := gw.1.instIdx.filter (fun kw => kw.1 != p) ++ [(p, gw.2)] }, gw.2)
    | none => gw
  | .indexDelIfSame k =>
    match keyOf isLive k gw.2 with
    | some p => ({ gw.1 with instIdx := gw.1.instIdx.filter (fun kw => !(kw.1 == p && kw.2 == gw.2)) }, gw.2)
    | none => gw
  | .indexPop k =>
    match keyOf isLive k gw.2 with
    | some p => ({ gw.1 with instIdx := gw.1.instIdx.filter (fun kw => kw.1 != p) }, gw.2)
    | none => gw
  | .classAppend => ({ gw.1 with byClass := gw.1.byClass ++ [gw.2] }, gw.2)
  | .classRemove => ({ gw.1 with byClass := gw.1.byClass.erase gw.2 }, gw.2)
  | .relDiscardIncident inE outE =>
    let inc := incident gw.1 inE outE gw.2.idx
    let keep : Fld × Nat × Nat → Bool :=
      fun r => !inc.any (fun e => e.fld == r.1 && e.src.idx == r.2.1 && e.tgt.idx == r.2.2)
    ({ gw.1 with relIdx := gw.1.relIdx.filter keep }, gw.2)
  | .graphRemoveNode =>
    ({ gw.1 with nodes := gw.1.nodes.erase gw.2,
                 edges := gw.1.edges.filter (fun e => e.src.idx != gw.2.idx && e.tgt.idx != gw.2.idx),
                 al := a.release gw.1.al gw.2.idx }, gw.2)
  | _ => gw

/-- a straight-line method body about one wrapper -/
def interpMut {σ} (a : Alloc σ) (isLive : Obj → Bool) (p : Prog) (g : SG σ) (w : W) : SG σ × W :=
  p.foldl (execMut a isLive) (g, w)

/-- `add_node` by table: the wrapper is built from the instance (label, class, `id()`), its index comes from the graph -/
def addNodeI {σ} (t : Table) (a : Alloc σ) (isLive : Obj → Bool) (g : SG σ) (o : Obj) (c : Cls) (pid : Nat) : SG σ × W :=
  interpMut a isLive t.addNode g ⟨o, c, 0, pid⟩

/-- `remove_node` by table -/
def removeNodeI {σ} (t : Table) (a : Alloc σ) (isLive : Obj → Bool) (g : SG σ) (w : W) : SG σ :=
  (interpMut a isLive t.removeNode g w).1

/-- the nodes a loop body guarded by `onlyIf`s runs for, and what it does for each -/
def loopFilter (isLive : Obj → Bool) : Prog → W → Bool
  | .onlyIf l :: r => fun w => matchesLiveness isLive l w && loopFilter isLive r w
  | _ :: r => loopFilter isLive r
  | [] => fun _ => true

def loopBody {σ} (t : Table) (a : Alloc σ) (isLive : Obj → Bool) (g : SG σ) (w : W) : Prog → SG σ
  | .callRemoveNode :: r => loopBody t a isLive (removeNodeI t a isLive g w) w r
  | _ :: r => loopBody t a isLive g w r
  | [] => g

/-- `remove_dead_instances` by table: `nodes()` is a list (by index) taken before the loop runs -/
def sweepI {σ} (t : Table) (a : Alloc σ) (isLive : Obj → Bool) (g : SG σ) : SG σ :=
  match t.sweep with
  | .forEachGraphNode :: body =>
    (sortByIdx (g.nodes.filter (loopFilter isLive body))).foldl (fun g w => loopBody t a isLive g w body) g
  | _ => g

/-- `recursive_subclasses` by table (`n` bounds the recursion like `Schema.depth`) -/
def recSubsI (S : Schema) (p : Prog) : Nat → Cls → List Cls
  | 0, _ => []
  | n + 1, c =>
    p.foldl (fun acc i => match i with
      | .directSubclasses => acc ++ S.subs c
      | .recurseOverDirect => acc ++ (S.subs c).flatMap (recSubsI S p n)
      | .dedupKeepFirst => acc.eraseDups
      | _ => acc) []

def classesI (S : Schema) (t : Table) (s : ClsSource) (T : Cls) : List Cls :=
  match s with
  | .selfOnly => [T]
  | .subsOnly => recSubsI S t.recSubs S.depth T
  | .selfThenSubs => T :: recSubsI S t.recSubs S.depth T
  | .subsThenSelf => recSubsI S t.recSubs S.depth T ++ [T]

/-- the generator `get_instances_of_type` consumed at once: nested loops, filters, what is yielded; a dead instance that
is not skipped is yielded as `None` (`none`) -/
def genI {σ} (S : Schema) (t : Table) (g : SG σ) (isLive : Obj → Bool) (T : Cls) :
    Prog → Option Cls → Option W → List (Option Obj)
  | [], _, _ => []
  | .forEachClassIn s :: r, _, w => (classesI S t s T).flatMap (fun c => genI S t g isLive T r (some c) w)
  | .forEachWrappedIn _ :: r, some c, _ =>
    (g.byClass.filter (fun w => w.cls == c)).flatMap (fun w => genI S t g isLive T r (some c) (some w))
  | .skipIf l :: r, c, some w => if matchesLiveness isLive l w then [] else genI S t g isLive T r c (some w)
  | .yieldInstance :: r, c, some w => (if isLive w.obj then some w.obj else none) :: genI S t g isLive T r c (some w)
  | _ :: r, c, w => genI S t g isLive T r c w

def getInstancesI {σ} (S : Schema) (t : Table) (g : SG σ) (isLive : Obj → Bool) (T : Cls) : List (Option Obj) :=
  genI S t g isLive T t.getInstances none none

/-- `ensure_wrapped_instance` by table; `cur` = the local holding the wrapper -/
def execEnsure {σ} (t : Table) (a : Alloc σ) (isLive : Obj → Bool) (x : HObj) :
    Nat → Prog → SG σ → Option W → SG σ × Option W
  | 0, _, g, cur => (g, cur)
  | _, [], g, cur => (g, cur)
  | f + 1, .lookupIndex k :: r, g, _ =>
    execEnsure t a isLive x f r g ((keyOf isLive k ⟨x.obj, x.cls, 0, x.pid⟩).bind (lookup g))
  | f + 1, .ifMissing n :: r, g, cur =>
    if cur.isNone then execEnsure t a isLive x f r g cur else execEnsure t a isLive x f (r.drop n) g cur
  | f + 1, .wrapNew :: r, g, _ => execEnsure t a isLive x f r g (some ⟨x.obj, x.cls, 0, x.pid⟩)
  | f + 1, .callAddNode :: r, g, some w =>
    let p := addNodeI t a isLive g w.obj w.cls w.pid
    execEnsure t a isLive x f r p.1 (some p.2)
  | _ + 1, .returnWrapper :: _, g, cur => (g, cur)
  | f + 1, _ :: r, g, cur => execEnsure t a isLive x f r g cur

def ensureI {σ} (t : Table) (a : Alloc σ) (isLive : Obj → Bool) (g : SG σ) (x : HObj) : SG σ × Option W :=
  execEnsure t a isLive x (t.ensure.length + 1) t.ensure g none

/-- `clear` by table: after `resetSingleton` the registry in use is a new one (the ghost `reused` flag is about the
process) -/
def clearI {σ} (t : Table) (a : Alloc σ) (g : SG σ) : SG σ :=
  if t.clear.contains .resetSingleton then { SG.empty a with reused := g.reused } else g

end KrroodVerif.SG
