/-!
M-RULE — rule trees (`rule.py`, `conclusion_selector.py`, the `with`-block machinery of `symbolic.py`).
Core Lean only.

Two layers, as the code has them.

**(a) Construction** (`Builder`): the user writes nested `with` blocks; every `refinement(..)`,
`alternative(..)`, `next_rule(..)` performs *tree surgery* on the expression graph. The graph is kept the way
the code keeps it, in two representations that the defects let drift apart:

* the Python attributes `left`, `right` (what `_evaluate__` follows) and `_child_` (what `Entity` evaluates and
  what `_conditions_root_` walks),
* the rustworkx primary-parent pointer `_node_.parent` (what `_parent_`, `_root_` and the surgery itself read),

plus the per-node `_conclusion_` sets, the class-level `_symbolic_expression_stack_` and the
`cached_property` `_conditions_root_` of the query node.

Python → model (construction):
* `SymbolicExpression.__enter__/__exit__`            → `Op.enterQuery`, `Op.enter`, `Op.exit` (`step`)
* `Conclusion.__post_init__` (`_add_conclusion_`)     → `Op.add`
* `rule.refinement`                                   → `Op.refinement` (`doRefinement`)
* `rule.alternative_or_next`                          → `Op.alternative`, `Op.next` (`doAltOrNext`)
* `_parent_` setter (`value._child_ = self`)          → `setParent`
* `BinaryOperator.__post_init__/_update_children_`    → `mkBinop`
* `_root_`, `_conditions_root_`                       → `rootOf`, `conditionsRoot`
* several `with rule:` blocks on one rule, `Add` anywhere  → `Authored`, `Item`, `buildA`

**(b) Evaluation**: `ExceptIf._evaluate__`, `Alternative._evaluate__` (over `ElseIf`/`OR.evaluate_left/right`),
`Next._evaluate__` (over `Union`), `ConclusionSelector.update_conclusion` with the never-reset
`concluded_before` `SeenSet`s, `QueryObjectDescriptor.evaluate_conclusions_and_update_bindings` /
`any_selected_variable_is_inferred_and_unbound`. Two evaluators over the selector tree read off the store
through `left`/`right`:

* `evalK` — continuation-passing transcription of the generators with the per-node mutable state
  (`_conclusion_`, `_is_false_`, `left_evaluated`, `right_evaluated`, `concluded_before`); exact also when the
  broken surgery makes one node reachable twice (re-entrant generators on one node object);
* `evalT` — the same semantics as a pure function returning the list of results, exact when no node is shared
  (this is the one the theorems are about; the driver uses it whenever the extracted tree has pairwise distinct
  node ids and cross-checks it against `evalK`).

Programs are *skeletons over a payload table*: a block carries only its number `blk`; its condition and its
conclusions live in a table `Payload = Nat → Block`. The builder never sees the table (the surgery does not
depend on what the conditions say — in the model this is true by construction), evaluation and the
specification look the payload up.

Abstraction (stated in the manifest): the base condition enumerates one variable `x` over a finite domain of
distinct elements; every branch condition is a predicate on `x`, given as the list of domain elements for which
it holds; every conclusion is `Add(views, inference(Cls_c)(src=x))`, identified by the class number `c`.
With that, the key `update_conclusion` stores in `concluded_before` (the bindings restricted to the variables
of the conclusions) is just the value of `x` — `Dedup.byBinding`.

Quirks (DESIGN 2.4), all three repaired in the code (`Quirks.today`; `Quirks.legacy` = before the fixes):
`climbOnce` (F-C08-1, 5ccefb5), `refNoRelink` (F-C08-2, 6d59379), `dedup := byBinding` (F-C08-3,
f11669e: now `atRoot`). Open: the `leak` flag of the two-variable evaluators (F-C08-4).

**Spec**: `Rule`, `fire` — the ripple-down-rules interpreter of the property text.
-/
namespace KrroodVerif.Rdr

/-! ## Programs -/

inductive Kind where | ref | alt | next
  deriving DecidableEq, Repr

/-- what the user wrote in one block: the condition (as the list of domain elements for which it holds) and
the classes of the `Add` conclusions -/
structure Block where
  cond : List Nat := []
  concl : List Nat := []
  deriving DecidableEq, Repr, Inhabited

/-- payload table: block number → block -/
abbrev Payload := Nat → Block

def Payload.ofList (bs : List Block) : Payload := fun i => bs.getD i {}

mutual
/-- a block (number `blk` in the payload table) and the branches nested in it, in textual order -/
inductive Prog where
  | mk (blk : Nat) (kids : Kids)
/-- the `with refinement(..)/alternative(..)/next_rule(..)` blocks written inside a block, in textual order -/
inductive Kids where
  | nil
  | cons (k : Kind) (p : Prog) (rest : Kids)
end

def Prog.blk : Prog → Nat | .mk b _ => b
def Prog.kids : Prog → Kids | .mk _ k => k


/-! ## Specification: abstract rule trees and the ripple-down-rules interpreter -/

mutual
/-- abstract rule: conditions, conclusion, and the refinement / alternative / next_rule branches written in its
block (each list in written order) -/
inductive Rule where
  | mk (blk : Nat) (refs alts nexts : Rules)
inductive Rules where
  | nil
  | cons (r : Rule) (rs : Rules)
end

mutual
def Prog.toRule : Prog → Rule
  | .mk b kids => .mk b (kids.pick .ref) (kids.pick .alt) (kids.pick .next)
def Kids.pick (kd : Kind) : Kids → Rules
  | .nil => .nil
  | .cons k p rest => if k = kd then .cons p.toRule (rest.pick kd) else rest.pick kd
end

/-- result of a group of rules: `none` = no rule of the group fired; `some cs` = fired, with conclusions `cs` -/
def combine (chain : Option (List Nat)) (nexts : List (List Nat)) : Option (List Nat) :=
  match chain, nexts with
  | none, [] => none
  | c, ns => some (c.getD [] ++ ns.flatten)

mutual
/-- the chain `N, a₁, (alternatives written inside a₁ …), a₂, …`: the first member, in written order, whose
conditions hold fires — with the conclusion of its deepest holding refinement -/
def Rule.chain (pay : Payload) (x : Nat) : Rule → Option (List Nat)
  | .mk b refs alts _ =>
    if (pay b).cond.contains x then some ((refs.firstFiring pay x).getD (pay b).concl) else alts.chainFirst pay x
def Rules.chainFirst (pay : Payload) (x : Nat) : Rules → Option (List Nat)
  | .nil => none
  | .cons a as => match a.chain pay x with
    | some c => some c
    | none => as.chainFirst pay x
/-- refinements of one rule: the first one (written order) whose group fires overrides the rule's conclusion -/
def Rules.firstFiring (pay : Payload) (x : Nat) : Rules → Option (List Nat)
  | .nil => none
  | .cons r rs => match r.group pay x with
    | some c => some c
    | none => rs.firstFiring pay x
/-- the next_rules of a chain: those written in the blocks of its alternatives and in its own block; each fires
in addition whenever its own group fires -/
def Rule.nextsOf (pay : Payload) (x : Nat) : Rule → List (List Nat)
  | .mk _ _ alts nexts => alts.nextsIn pay x ++ nexts.nextGroups pay x
def Rules.nextsIn (pay : Payload) (x : Nat) : Rules → List (List Nat)
  | .nil => []
  | .cons a as => a.nextsOf pay x ++ as.nextsIn pay x
def Rules.nextGroups (pay : Payload) (x : Nat) : Rules → List (List Nat)
  | .nil => []
  | .cons n ns => (match n.group pay x with | some c => [c] | none => []) ++ ns.nextGroups pay x
/-- a rule with its alternatives and next_rules -/
def Rule.group (pay : Payload) (x : Nat) : Rule → Option (List Nat)
  | .mk b refs alts nexts =>
    combine (if (pay b).cond.contains x then some ((refs.firstFiring pay x).getD (pay b).concl)
             else alts.chainFirst pay x)
      (alts.nextsIn pay x ++ nexts.nextGroups pay x)
end

/-- **the specification**: conclusions (class numbers) that must be instantiated from the binding `x` -/
def fire (pay : Payload) (r : Rule) (x : Nat) : List Nat := (r.group pay x).getD []

/-- the property's observation for a whole domain: the set of (class, source element) pairs -/
def specObs (pay : Payload) (r : Rule) (dom : List Nat) : List (Nat × Nat) :=
  dom.flatMap fun x => (fire pay r x).map fun c => (c, x)

/-! ## Selector trees -/

inductive SK where | exceptIf | alt | next
  deriving DecidableEq, Repr

/-- what `_evaluate__` walks: condition leaves under ExceptIf / Alternative / Next nodes. `id` is the node's
identity (state is per node object); a leaf is the condition of block `blk` and carries, as its static
`_conclusion_`, the `Add`s of the blocks `concl` -/
inductive Sel where
  | leaf (id : Nat) (blk : Nat) (concl : List Nat)
  | node (k : SK) (id : Nat) (l r : Sel)
  deriving DecidableEq, Repr

def Sel.id : Sel → Nat
  | .leaf i _ _ => i
  | .node _ i _ _ => i

def Sel.ids : Sel → List Nat
  | .leaf i _ _ => [i]
  | .node _ i l r => i :: (l.ids ++ r.ids)

/-- forget node identities -/
def Sel.shape : Sel → Sel
  | .leaf _ h c => .leaf 0 h c
  | .node k _ l r => .node k 0 l.shape r.shape

mutual
/-- a rule with its refinements: `ExceptIf(ExceptIf(leaf, R₂), R₁)` — the first written is outermost -/
def Rule.body : Rule → Sel
  | .mk b refs _ _ => refs.wrap (.leaf 0 b [b])
def Rules.wrap (inner : Sel) : Rules → Sel
  | .nil => inner
  | .cons r rs => .node .exceptIf 0 (rs.wrap inner) r.compile
/-- bodies of the alternatives of a chain, in chain order -/
def Rule.chainItems : Rule → List Sel
  | .mk _ _ alts _ => alts.chainItemsL
def Rules.chainItemsL : Rules → List Sel
  | .nil => []
  | .cons a as => (a.body :: a.chainItems) ++ as.chainItemsL
/-- the next_rules of a chain, each with its own chain of alternatives -/
def Rule.nextItems : Rule → List Sel
  | .mk _ _ alts nexts => alts.nextItemsA ++ nexts.nextItemsN
def Rules.nextItemsA : Rules → List Sel
  | .nil => []
  | .cons a as => a.nextItems ++ as.nextItemsA
def Rules.nextItemsN : Rules → List Sel
  | .nil => []
  | .cons n ns => (n.chainItems.foldl (fun t b => .node .alt 0 t b) n.body :: n.nextItems) ++ ns.nextItemsN
/-- **the well-formed selector tree of a rule** -/
def Rule.compile : Rule → Sel
  | .mk b refs alts nexts =>
    (alts.nextItemsA ++ nexts.nextItemsN).foldl (fun t b => .node .next 0 t b)
      (alts.chainItemsL.foldl (fun t b => .node .alt 0 t b) (refs.wrap (.leaf 0 b [b])))
end

/-- `t` is a well-formed selector tree for rule `r`: right shape, and every node is its own object -/
def WellFormed (t : Sel) (r : Rule) : Prop := t.shape = r.compile ∧ t.ids.Nodup

/-! ## Quirks -/

/-- how `ConclusionSelector.update_conclusion` keys `concluded_before` -/
inductive Dedup where
  | byBinding      -- before fix f11669e: every selector, keyed by the bindings of the conclusions' variables only
  | byConclusion   -- every selector, keyed by the conclusions and those bindings
  | off            -- no de-duplication
  | atRoot         -- today (fix f11669e): only the outermost selector, keyed by the conclusions and those bindings
  deriving DecidableEq, Repr

structure Quirks where
  /-- F-C08-1 (fixed): `alternative_or_next` climbed one level only and always overwrote `prev_parent.right` -/
  climbOnce : Bool
  /-- F-C08-2 (fixed): `refinement` re-parented in the rx graph / `_child_` but left `prev_parent.left/right` alone -/
  refNoRelink : Bool
  /-- F-C08-3 -/
  dedup : Dedup
  deriving DecidableEq, Repr

/-- the code before the fixes of F-C08-1/2/3 -/
def Quirks.legacy : Quirks := ⟨true, true, .byBinding⟩
/-- the code as it is: `alternative_or_next` climbs to the top of the chain and re-links the side it was on,
`refinement` re-links `prev_parent.left/right`, conclusions are de-duplicated once, by the outermost selector -/
def Quirks.today : Quirks := ⟨false, false, .atRoot⟩

/-! ## (a) Construction -/

inductive NK where | an | entity | leaf | exceptIf | alt | next
  deriving DecidableEq, Repr

structure Node where
  kind : NK
  left : Option Nat := none     -- Python attribute `left`
  right : Option Nat := none    -- Python attribute `right`
  child : Option Nat := none    -- Python attribute `_child_`
  parent : Option Nat := none   -- rx graph: `_node_._primary_parent_id`
  concl : List Nat := []        -- `_conclusion_` (static part): numbers of the blocks whose `Add`s are attached here
  blk : Nat := 0                -- leaf: the block whose condition this is
  deriving DecidableEq, Repr

instance : Inhabited Node := ⟨{ kind := .leaf }⟩

structure BState where
  nodes : List Node
  stack : List Nat                   -- `_symbolic_expression_stack_`
  cachedRoot : Option Nat := none    -- `cached_property _conditions_root_` of the query node
  last : Option Nat := none          -- value returned by the last refinement/alternative/next_rule call
  deriving DecidableEq, Repr

inductive Op where
  | enterQuery                      -- `with query:`
  | enter                           -- `with <the branch just returned>:`
  | exit
  | add (b : Nat)                   -- the `Add(views, inference(Cls_c)(src=x))` statements of block `b`
  | refinement (b : Nat)            -- `refinement(<condition of block b>)`
  | alternative (b : Nat)
  | next (b : Nat)
  deriving DecidableEq, Repr

namespace BState

def node (s : BState) (i : Nat) : Node := s.nodes.getD i default
def modify (s : BState) (i : Nat) (f : Node → Node) : BState := { s with nodes := s.nodes.set i (f (s.node i)) }
def alloc (s : BState) (n : Node) : BState × Nat := ({ s with nodes := s.nodes ++ [n] }, s.nodes.length)

/-- `an(entity(views, base))`: node 0 = An, 1 = Entity, 2 = the base condition -/
def init (baseBlk : Nat) : BState :=
  { nodes := [ { kind := .an, child := some 1 },
               { kind := .entity, child := some 2, parent := some 0 },
               { kind := .leaf, parent := some 1, blk := baseBlk } ],
    stack := [] }

def isBinop (s : BState) (i : Nat) : Bool :=
  match (s.node i).kind with
  | .leaf | .exceptIf | .alt | .next => true
  | _ => false

/-- `_root_`: follow primary parents -/
def rootOf (s : BState) : Nat → Nat → Nat
  | 0, i => i
  | f + 1, i => match (s.node i).parent with
    | some p => rootOf s f p
    | none => i

/-- the loop of `_conditions_root_` -/
def condLoop (s : BState) : Nat → Nat → Nat
  | 0, c => c
  | f + 1, c => match (s.node c).child with
    | none => c
    | some c' =>
      match (s.node c').parent with
      | some p => if (s.node p).kind = .entity then c' else condLoop s f c'
      | none => condLoop s f c'

/-- `_conditions_root_` of the query node, a `cached_property` -/
def conditionsRoot (s : BState) : BState × Nat :=
  match s.cachedRoot with
  | some c => (s, c)
  | none =>
    let c := condLoop s s.nodes.length (rootOf s s.nodes.length 0)
    ({ s with cachedRoot := some c }, c)

/-- the `_parent_` setter: rx parent, and `value._child_ = self` -/
def setParent (s : BState) (i : Nat) (p : Option Nat) : BState :=
  let s := s.modify i fun n => { n with parent := p }
  match p with
  | some p => s.modify p fun n => { n with child := some i }
  | none => s

/-- `ExceptIf(l, r)` / `Alternative(l, r)` / `Next(l, r)`: `_update_children_` makes the new node the rx parent
of both operands -/
def mkBinop (s : BState) (k : NK) (l r : Nat) : BState × Nat :=
  let (s, i) := s.alloc { kind := k, left := some l, right := some r }
  let s := s.modify l fun n => { n with parent := some i }
  let s := s.modify r fun n => { n with parent := some i }
  (s, i)

/-- `rule.refinement` -/
def doRefinement (q : Quirks) (s : BState) (b : Nat) : Option BState :=
  match s.stack with
  | [] => none
  | cur :: _ =>
    let (s, nb) := s.alloc { kind := .leaf, blk := b }
    let pp := (s.node cur).parent
    let s := s.modify cur fun n => { n with parent := none }
    let (s, e) := s.mkBinop .exceptIf cur nb
    let s := s.setParent e pp
    let s := if q.refNoRelink then s else
      match pp with
      | some pp =>
        if s.isBinop pp then
          if (s.node pp).left = some cur then s.modify pp fun n => { n with left := some e }
          else if (s.node pp).right = some cur then s.modify pp fun n => { n with right := some e }
          else s
        else s
      | none => s
    some { s with last := some nb }

/-- one step of the climb in `alternative_or_next` -/
def climbStep (s : BState) (cur : Nat) : Nat :=
  match (s.node cur).parent with
  | none => cur
  | some par =>
    let k := (s.node par).kind
    if k = .alt || k = .next then par
    else if k = .exceptIf && (s.node par).left = some cur then par
    else cur

def climb (s : BState) : Nat → Nat → Nat
  | 0, cur => cur
  | f + 1, cur => let c := s.climbStep cur; if c = cur then cur else climb s f c

/-- `rule.alternative_or_next` -/
def doAltOrNext (q : Quirks) (s : BState) (k : NK) (b : Nat) : Option BState :=
  match s.stack with
  | [] => none
  | top :: _ =>
    let (s, nb) := s.alloc { kind := .leaf, blk := b }
    let cur := if q.climbOnce then s.climbStep top else s.climb s.nodes.length top
    let pp := (s.node cur).parent
    let s := s.modify cur fun n => { n with parent := none }
    let (s, nw) := s.mkBinop k cur nb
    let s := s.setParent nw pp
    let s := match pp with
      | some pp =>
        if s.isBinop pp then
          if q.climbOnce || (s.node pp).right = some cur then s.modify pp fun n => { n with right := some nw }
          else if (s.node pp).left = some cur then s.modify pp fun n => { n with left := some nw }
          else s
        else s
      | none => s
    some { s with last := some nb }

def step (q : Quirks) (s : BState) : Op → Option BState
  | .enterQuery =>
    -- `node is self._root_` holds for the query node: push its (cached) conditions root
    let (s, c) := s.conditionsRoot
    some { s with stack := c :: s.stack }
  | .enter =>
    match s.last with
    | none => none
    | some n =>
      let r := s.rootOf s.nodes.length n
      if n = r || (s.node n).parent = some r then
        let (s, c) := s.conditionsRoot
        some { s with stack := c :: s.stack }
      else some { s with stack := n :: s.stack }
  | .exit => match s.stack with
    | [] => none
    | _ :: st => some { s with stack := st }
  | .add b => match s.stack with
    | [] => none
    | top :: _ => some (s.modify top fun n => { n with concl := n.concl ++ [b] })
  | .refinement b => s.doRefinement q b
  | .alternative b => s.doAltOrNext q .alt b
  | .next b => s.doAltOrNext q .next b

def run (q : Quirks) (s : BState) : List Op → Option BState
  | [] => some s
  | op :: ops => match s.step q op with
    | some s => run q s ops
    | none => none

end BState

mutual
/-- what the user's nested `with` blocks execute, in order -/
def Prog.ops : Prog → List Op
  | .mk b kids => Op.add b :: kids.ops
def Kids.ops : Kids → List Op
  | .nil => []
  | .cons k p rest =>
    (match k with
      | .ref => Op.refinement p.blk
      | .alt => Op.alternative p.blk
      | .next => Op.next p.blk) :: Op.enter :: (p.ops ++ Op.exit :: rest.ops)
end

/-- **the builder**: run the user's program against the surgery -/
def build (q : Quirks) (p : Prog) : Option BState :=
  (BState.init p.blk).run q (Op.enterQuery :: (p.ops ++ [Op.exit]))

/-! ### Multi-step authoring

A rule tree need not be written in one `with rule:` block. The user may close the block and open
`with rule:` again later (every `__enter__` of the rule pushes its — cached — conditions root), and the `Add`
statements of the base rule may stand anywhere between the branches. `Authored` is a program together with
that schedule; `Authored.toProg` is the program it means. -/

/-- what stands at the top level of the `with rule:` blocks, in the order written -/
inductive Item where
  | kid (k : Kind) (p : Prog)   -- `with refinement(..)/alternative(..)/next_rule(..): …`
  | reenter                     -- the `with rule:` block ends, a new `with rule:` block on the same rule begins
  | add                         -- the `Add` statements of the base rule

structure Authored where
  blk : Nat
  items : List Item

/-- one branch block: the branch call, `with <it>:`, its body -/
def kidOps (k : Kind) (p : Prog) : List Op :=
  (match k with
    | .ref => Op.refinement p.blk
    | .alt => Op.alternative p.blk
    | .next => Op.next p.blk) :: Op.enter :: (p.ops ++ [Op.exit])

def Item.ops (b : Nat) : Item → List Op
  | .kid k p => kidOps k p
  | .reenter => [Op.exit, Op.enterQuery]
  | .add => [Op.add b]

def Authored.ops (a : Authored) : List Op := a.items.flatMap (Item.ops a.blk)

def kidsOfItems : List Item → Kids
  | [] => .nil
  | .kid k p :: rest => .cons k p (kidsOfItems rest)
  | _ :: rest => kidsOfItems rest

def itemsOfKids : Kids → List Item
  | .nil => []
  | .cons k p rest => .kid k p :: itemsOfKids rest

/-- the program an authoring schedule means: its branches in the order written -/
def Authored.toProg (a : Authored) : Prog := .mk a.blk (kidsOfItems a.items)

/-- the base rule's `Add` statements are written exactly once -/
def Authored.oneAdd (a : Authored) : Bool :=
  (a.items.filter fun i => match i with | .add => true | _ => false).length == 1

/-- single-block authoring, conclusions first (what `Prog.ops` does) -/
def Authored.ofProg (p : Prog) : Authored := ⟨p.blk, .add :: itemsOfKids p.kids⟩

def Item.isReenter : Item → Bool
  | .reenter => true
  | _ => false

/-- the same schedule without closing and re-opening the `with rule:` block -/
def Authored.oneBlock (a : Authored) : Authored :=
  ⟨a.blk, a.items.filter fun i => !i.isReenter⟩

/-- **the builder** on an authoring schedule -/
def buildA (q : Quirks) (a : Authored) : Option BState :=
  (BState.init a.blk).run q (Op.enterQuery :: (a.ops ++ [Op.exit]))

/-- read the selector tree that `Entity._evaluate__` will walk: `Entity._child_`, then `left`/`right`.
`none` when the pointers do not bottom out within the fuel (cyclic) or are dangling -/
def extractFrom (nodes : List Node) : Nat → Nat → Option Sel
  | 0, _ => none
  | f + 1, i =>
    let n := nodes.getD i default
    match n.kind with
    | .leaf => some (.leaf i n.blk n.concl)
    | .exceptIf | .alt | .next =>
      match n.left, n.right with
      | some l, some r =>
        match extractFrom nodes f l, extractFrom nodes f r with
        | some lt, some rt =>
          some (.node (match n.kind with | .exceptIf => .exceptIf | .alt => .alt | _ => .next) i lt rt)
        | _, _ => none
      | _, _ => none
    | _ => none

def BState.tree (s : BState) : Option Sel :=
  match (s.node 1).child with
  | some c => extractFrom s.nodes (s.nodes.length + 1) c
  | none => none

/-! ## (b) Evaluation -/

/-- resolve the static `_conclusion_` of a leaf: the classes concluded in the blocks attached to it -/
def conclOf (pay : Payload) (bs : List Nat) : List Nat := bs.flatMap fun b => (pay b).concl

/-- one `OperationResult` seen by a parent: value of `x`, `is_false`, the producing node's `_conclusion_` at
the moment of the yield -/
structure Out where
  x : Nat
  isF : Bool
  concl : List Nat
  deriving DecidableEq, Repr

/-- `concluded_before` of all nodes: (node, truth branch, x, conclusions-part-of-the-key) -/
abbrev Seen := List (Nat × Bool × Nat × List Nat)

/-- `ConclusionSelector.update_conclusion`: returns the node's `_conclusion_` after the call (it was empty) -/
def update (d : Dedup) (id x : Nat) (isF : Bool) (concl : List Nat) (seen : Seen) : List Nat × Seen :=
  if concl.isEmpty then ([], seen)
  else match d with
    | .off => (concl, seen)
    | .atRoot => (concl, seen)   -- an inner selector hands its selection on; the outermost one: `rootDedup`
    | .byBinding =>
      if seen.contains (id, !isF, x, []) then ([], seen) else (concl, (id, !isF, x, []) :: seen)
    | .byConclusion =>
      if seen.contains (id, !isF, x, concl) then ([], seen) else (concl, (id, !isF, x, concl) :: seen)

/-- a condition leaf: `x` bound → one result; unbound → enumerates the domain -/
def leafOuts (pay : Payload) (dom : List Nat) (blk : Nat) (concl : List Nat) (src : Option Nat) : List Out :=
  (match src with | some x => [x] | none => dom).map fun x => ⟨x, !(pay blk).cond.contains x, conclOf pay concl⟩

/-- process a list of child results with a state-passing function -/
def mapSeen {α} (f : α → Seen → List Out × Seen) : List α → Seen → List Out × Seen
  | [], s => ([], s)
  | a :: as, s =>
    let (o1, s) := f a s
    let (o2, s) := mapSeen f as s
    (o1 ++ o2, s)

/-- **pure evaluator** (exact when no node object is shared). -/
def evalT (pay : Payload) (d : Dedup) (dom : List Nat) : Sel → Option Nat → Seen → List Out × Seen
  | .leaf _ blk concl, src, s => (leafOuts pay dom blk concl src, s)
  | .node .exceptIf id l r, src, s =>
    let (ls, s) := evalT pay d dom l src s
    mapSeen (fun (lv : Out) s =>
      if lv.isF then ([⟨lv.x, true, []⟩], s)
      else
        let (rs, s) := evalT pay d dom r (some lv.x) s
        let trues := rs.filter fun o => !o.isF
        if trues.isEmpty then
          let (c, s) := update d id lv.x false lv.concl s
          ([⟨lv.x, false, c⟩], s)
        else
          mapSeen (fun (rv : Out) s =>
            let (c, s) := update d id rv.x false rv.concl s
            ([⟨rv.x, false, c⟩], s)) trues s) ls s
  | .node .alt id l r, src, s =>
    let (ls, s) := evalT pay d dom l src s
    mapSeen (fun (lv : Out) s =>
      if lv.isF then
        let (rs, s) := evalT pay d dom r (some lv.x) s
        mapSeen (fun (rv : Out) s =>
          if rv.isF then ([⟨rv.x, true, []⟩], s)
          else
            let (c, s) := update d id rv.x false rv.concl s
            ([⟨rv.x, false, c⟩], s)) rs s
      else
        let (c, s) := update d id lv.x false lv.concl s
        ([⟨lv.x, false, c⟩], s)) ls s
  | .node .next id l r, src, s =>
    let (ls, s) := evalT pay d dom l src s
    let (o1, s) := mapSeen (fun (lv : Out) s =>
      if lv.isF then
        let (rs, s) := evalT pay d dom r (some lv.x) s
        mapSeen (fun (rv : Out) s =>
          let (c, s) := update d id rv.x rv.isF rv.concl s
          ([⟨rv.x, rv.isF, c⟩], s)) rs s
      else
        let (c, s) := update d id lv.x false lv.concl s
        ([⟨lv.x, false, c⟩], s)) ls s
    let (rs, s) := evalT pay d dom r src s
    let (o2, s) := mapSeen (fun (rv : Out) s =>
      let (c, s) := update d id rv.x rv.isF rv.concl s
      ([⟨rv.x, rv.isF, c⟩], s)) rs s
    (o1 ++ o2, s)

/-- `QueryObjectDescriptor._evaluate__`: keep the true results of the child; evaluate the child's current
conclusions (each `Add` re-binds `views`; with the generated programs there is at most one) and drop the result
when `views` stayed unbound. Each entry: the candidate classes (more than one only when a block has several
`Add`s or a shared node leaked a second conclusion into the set: then CPython's set order decides which one
binds last) and the source element. -/
def topOuts (outs : List Out) : List (List Nat × Nat) :=
  outs.filterMap fun o => if o.isF || o.concl.isEmpty then none else some (o.concl, o.x)

/-- the rows of an observation: every candidate class with its source element -/
def rowsOf (obs : List (List Nat × Nat)) : List (Nat × Nat) :=
  obs.flatMap fun (cs, x) => cs.map fun c => (c, x)

/-- keep the first occurrence of every element -/
def dedupFirst {α} [BEq α] (l : List α) : List α :=
  l.foldl (fun acc a => if acc.contains a then acc else acc ++ [a]) []

/-- `Dedup.atRoot`: the outermost selector skips a set of conclusions it already produced for the same values of
their variables (its `_conclusion_` stays empty, the query descriptor drops the result); a query whose condition
is a plain condition has no selector -/
def rootDedup {α} [BEq α] (d : Dedup) (t : Sel) (rows : List α) : List α :=
  match d, t with
  | .atRoot, .node _ _ _ _ => dedupFirst rows
  | _, _ => rows

/-- `query.evaluate()` on a selector tree, as rows -/
def evalTop (pay : Payload) (d : Dedup) (dom : List Nat) (t : Sel) : List (Nat × Nat) :=
  rowsOf (rootDedup d t (topOuts (evalT pay d dom t none []).1))

/-! ### continuation-passing transcription (exact under sharing) -/

/-- mutable attributes of one node object -/
structure NSt where
  concl : List Nat := []   -- `_conclusion_`
  isF : Bool := false      -- `_is_false_`
  le : Bool := false       -- `left_evaluated`
  re : Bool := false       -- `right_evaluated`
  deriving DecidableEq, Repr

structure KSt where
  ns : List NSt
  /-- the outermost selector (`Dedup.atRoot`) -/
  root : Option Nat := none
  seen : Seen := []
  out : List (List Nat × Nat) := []
  deriving DecidableEq, Repr

namespace KSt
def get (s : KSt) (i : Nat) : NSt := s.ns.getD i {}
def upd (s : KSt) (i : Nat) (f : NSt → NSt) : KSt := { s with ns := s.ns.set i (f (s.get i)) }

/-- `update_conclusion(output, conclusions)` on node `id` (reads `self._is_false_` at that moment) -/
def updateConclusion (d : Dedup) (s : KSt) (id x : Nat) (concl : List Nat) : KSt :=
  if concl.isEmpty then s
  else
    let d := match d with
      | .atRoot => if s.root == some id then Dedup.byConclusion else Dedup.off
      | d => d
    let key : Nat × Bool × Nat × List Nat :=
      (id, !(s.get id).isF, x, match d with | .byConclusion => concl | _ => [])
    if d != .off && s.seen.contains key then s
    else
      let s := s.upd id fun n =>
        { n with concl := concl.foldl (fun acc c => if acc.contains c then acc else acc ++ [c]) n.concl }
      if d = .off then s else { s with seen := key :: s.seen }
end KSt

/-- truth values are independent of the mutable state: does `t` yield a true result for the bound `x`? -/
def anyTrue (pay : Payload) : Sel → Nat → Bool
  | .leaf _ blk _, x => (pay blk).cond.contains x
  | .node .exceptIf _ l _, x => anyTrue pay l x
  | .node .alt _ l r, x => anyTrue pay l x || anyTrue pay r x
  | .node .next _ l r, x => anyTrue pay l x || anyTrue pay r x

/-- the generators, in continuation-passing style: `k x isFalse` is what the consumer does at each `yield`;
what follows the call of `k` is what the generator does when it is resumed. -/
def evalK (pay : Payload) (d : Dedup) (dom : List Nat) :
    Sel → Option Nat → (Nat → Bool → KSt → KSt) → KSt → KSt
  | .leaf id blk _, src, k, s =>
    (match src with | some x => [x] | none => dom).foldl (fun s x =>
      let f := !(pay blk).cond.contains x
      k x f (s.upd id fun n => { n with isF := f })) s
  | .node .exceptIf id l r, src, k, s =>
    evalK pay d dom l src (fun x f s =>
      let s := s.upd id fun n => { n with isF := f }
      if f then k x true s
      else
        let s := evalK pay d dom r (some x) (fun x2 f2 s =>
          if f2 then s
          else
            let s := s.updateConclusion d id x2 (s.get r.id).concl
            let s := k x2 (s.get id).isF s
            s.upd id fun n => { n with concl := [] }) s
        if anyTrue pay r x then s
        else
          let s := s.updateConclusion d id x (s.get l.id).concl
          let s := k x (s.get id).isF s
          s.upd id fun n => { n with concl := [] }) s
  | .node .alt id l r, src, k, s =>
    let post := fun (x : Nat) (s : KSt) =>
      let s :=
        if !(s.get l.id).isF then s.updateConclusion d id x (s.get l.id).concl
        else if !(s.get r.id).isF then s.updateConclusion d id x (s.get r.id).concl
        else s
      let s := k x (s.get id).isF s
      s.upd id fun n => { n with concl := [] }
    evalK pay d dom l src (fun x f s =>
      let s := s.upd id fun n => { n with le := true }
      if f then
        let s := s.upd id fun n => { n with le := false }
        let s := evalK pay d dom r (some x) (fun x2 f2 s =>
          post x2 (s.upd id fun n => { n with isF := f2, re := true })) s
        s.upd id fun n => { n with re := false }
      else post x (s.upd id fun n => { n with isF := false })) s
  | .node .next id l r, src, k, s =>
    let post := fun (x : Nat) (s : KSt) =>
      let s := if (s.get id).le then s.updateConclusion d id x (s.get l.id).concl else s
      let s := if (s.get id).re then s.updateConclusion d id x (s.get r.id).concl else s
      let s := k x (s.get id).isF s
      s.upd id fun n => { n with concl := [] }
    let evalRight := fun (src2 : Option Nat) (s : KSt) =>
      let s := s.upd id fun n => { n with le := false }
      let s := evalK pay d dom r src2 (fun x2 f2 s =>
        post x2 (s.upd id fun n => { n with isF := f2, re := true })) s
      s.upd id fun n => { n with re := false }
    let s := evalK pay d dom l src (fun x f s =>
      let s := s.upd id fun n => { n with le := true }
      if f then evalRight (some x) s
      else post x (s.upd id fun n => { n with isF := false })) s
    evalRight src s

/-- initial per-node state: the static `_conclusion_` sets -/
def KSt.init (pay : Payload) (nodes : List Node) : KSt :=
  { ns := nodes.map fun n => { concl := conclOf pay n.concl } }

def runK (pay : Payload) (d : Dedup) (dom : List Nat) (nodes : List Node) (t : Sel) : List (List Nat × Nat) :=
  (evalK pay d dom t none (fun x f s =>
    if f then s
    else
      let c := (s.get t.id).concl
      if c.isEmpty then s else { s with out := s.out ++ [(c, x)] })
    { KSt.init pay nodes with root := some t.id }).out

/-! ## The model of `query.evaluate()` for a program -/

inductive Obs where
  | ok (rows : List (List Nat × Nat))
  | raised          -- a Python exception during construction
  | cyclic          -- the `left`/`right` pointers do not form a finite tree
  | mismatch        -- internal: `evalT` and `evalK` disagree on an unshared tree (never expected)
  deriving DecidableEq, Repr

/-- the selector tree a program's `with` blocks leave behind under a quirk setting, node identities erased -/
def buildShape (q : Quirks) (p : Prog) : Option Sel :=
  ((build q p).bind BState.tree).map Sel.shape

/-- evaluate what a (possibly failed) construction left behind -/
def modelOf (built : Option BState) (d : Dedup) (pay : Payload) (dom : List Nat) : Obs :=
  match built with
  | none => .raised
  | some st =>
    match st.tree with
    | none => .cyclic
    | some t =>
      let rk := runK pay d dom st.nodes t
      if t.ids.Nodup then
        let rt := rootDedup d t (topOuts (evalT pay d dom t none []).1)
        if rt = rk then .ok rt else .mismatch
      else .ok rk

/-- builder + evaluator under a quirk setting -/
def model (q : Quirks) (pay : Payload) (p : Prog) (dom : List Nat) : Obs :=
  modelOf (build q p) q.dedup pay dom

/-- the specification's observation for a program -/
def spec (pay : Payload) (p : Prog) (dom : List Nat) : List (Nat × Nat) := specObs pay p.toRule dom

/-- builder + evaluator for an authoring schedule -/
def modelA (q : Quirks) (pay : Payload) (a : Authored) (dom : List Nat) : Obs :=
  modelOf (buildA q a) q.dedup pay dom

/-! ## Decidable triggers of the three findings (predicates on the program as written) -/

mutual
/-- F-C08-2: a `refinement` that is not the first branch written in the query's own block (only there is the
current node still directly below the query descriptor, so that the `_parent_` setter alone links it) -/
def Prog.trigRef (isRoot : Bool) : Prog → Bool
  | .mk _ kids => kids.trigRef isRoot true
def Kids.trigRef (isRoot first : Bool) : Kids → Bool
  | .nil => false
  | .cons k p rest =>
    (k = .ref && !(isRoot && first)) || p.trigRef false || rest.trigRef isRoot false
end

mutual
/-- F-C08-1: walk of the blocks of one chain scope. `writer` = 0 for the scope's own rule, `j` for the block
of the scope's j-th branch; `m0` = levels already above the scope's rule (1 when the query's base rule has its
working refinement); `i` = branches written so far. A branch is mis-attached when one climb step from the
writer's node does not reach the top of the chain: written in the scope rule's block with `m0 + i ≥ 2`
levels above it, or in the block of branch `j` when a branch `i > j` already exists above. Returns (bad, i). -/
def Prog.trigClimbScope : Prog → Bool
  | .mk _ kids => (kids.trigClimb 0 0 0).1
/-- continue the walk inside the block of a branch of the same scope -/
def Prog.trigClimbIn (writer m0 i : Nat) : Prog → Bool × Nat
  | .mk _ kids => kids.trigClimb writer m0 i
def Kids.trigClimb (writer m0 i : Nat) : Kids → Bool × Nat
  | .nil => (false, i)
  | .cons k p rest =>
    match k with
    | .ref =>
      let b1 := p.trigClimbScope
      let (b2, i) := rest.trigClimb writer m0 i
      (b1 || b2, i)
    | _ =>
      let bad := if writer = 0 then decide (m0 + i ≥ 2) else decide (writer < i)
      let (b1, i1) := p.trigClimbIn (i + 1) m0 (i + 1)
      let (b2, i2) := rest.trigClimb writer m0 i1
      (bad || b1 || b2, i2)
end

def Prog.trigClimb : Prog → Bool
  | .mk _ kids =>
    let m0 := match kids with | .cons .ref _ _ => 1 | _ => 0
    (kids.trigClimb 0 m0 0).1

mutual
/-- F-C08-3: in one chain scope, a `next_rule` whose condition holds for a domain element for which the
condition of an earlier member of the scope (the rule, an alternative, an earlier next_rule) also holds.
`members` = blocks of the members written so far. Returns (bad, members). -/
def Prog.trigNextScope (pay : Payload) (dom : List Nat) : Prog → Bool
  | .mk b kids => (kids.trigNext pay dom [b]).1
def Prog.trigNextIn (pay : Payload) (dom : List Nat) (members : List Nat) : Prog → Bool × List Nat
  | .mk b kids => kids.trigNext pay dom (members ++ [b])
def Kids.trigNext (pay : Payload) (dom : List Nat) (members : List Nat) : Kids → Bool × List Nat
  | .nil => (false, members)
  | .cons k p rest =>
    match k with
    | .ref =>
      let b1 := p.trigNextScope pay dom
      let (b2, m) := rest.trigNext pay dom members
      (b1 || b2, m)
    | _ =>
      let bad := k = .next && dom.any fun x =>
        (pay p.blk).cond.contains x && members.any fun m => (pay m).cond.contains x
      let (b1, m1) := p.trigNextIn pay dom members
      let (b2, m2) := rest.trigNext pay dom m1
      (bad || b1 || b2, m2)
end

mutual
/-- the generator's (and the build theorems') class of programs: inside one chain scope no `alternative` is
written after a `next_rule` (for such programs the readings "else-if of the rule" and "else-if of everything
written so far" differ, and the property text does not decide between them) -/
def Prog.unambiguousScope : Prog → Bool
  | .mk _ kids => (kids.unamb false).1
def Prog.unambIn (seenNext : Bool) : Prog → Bool × Bool
  | .mk _ kids => kids.unamb seenNext
def Kids.unamb (seenNext : Bool) : Kids → Bool × Bool
  | .nil => (true, seenNext)
  | .cons k p rest =>
    match k with
    | .ref =>
      let b1 := p.unambiguousScope
      let (b2, sn) := rest.unamb seenNext
      (b1 && b2, sn)
    | .alt =>
      let (b1, sn1) := p.unambIn seenNext
      let (b2, sn2) := rest.unamb sn1
      (!seenNext && b1 && b2, sn2)
    | .next =>
      let (b1, sn1) := p.unambIn true
      let (b2, sn2) := rest.unamb sn1
      (b1 && b2, sn2)
end

def Prog.unambiguous (p : Prog) : Bool := p.unambiguousScope

/-- the class today's surgery handles: no trigger of F-C08-1 / F-C08-2, unambiguous -/
def Prog.clean (p : Prog) : Bool := !p.trigClimb && !p.trigRef true && p.unambiguous

/-! ## Two rule variables

Everything above abstracts the binding to one enumerated variable `x`. Here a second variable `y` may be
*introduced by a branch*: a block's condition is then a relation between `x` and `y` (realised by the harness as
`in_(x, y.r_k)`), evaluating it with `y` unbound enumerates the domain of `y`, and conclusions may be constructed
from `x` alone or from `x` and `y` — by convention the classes numbered ≥ 1000 take both
(`Add(views, inference(KY_c)(src=x, aux=y))`). A binding is `(x, some y)` or `(x, none)`.

What this adds to the semantics, transcribed from the code:
* a condition leaf can yield several results for one bound `x` (one per `y`), with different truth values;
* the key `update_conclusion` stores in `concluded_before` is the projection of the binding onto the variables
  of the conclusions **it is handed at that moment** (`keyOf`), and `SeenSet.check` is a *coverage* test: a stored
  partial assignment that is a subset of the new one suppresses it (`covers`).
With a payload that never mentions `y` these definitions coincide with the one-variable ones (the driver
cross-checks that on every such case). -/

/-- a binding: the value of `x` and, once a condition has enumerated it, of `y` -/
abbrev Bnd := Nat × Option Nat

/-- the second variable: its domain and, per block, the relation its condition states (none: a condition on `x`) -/
structure Rel2 where
  domY : List Nat := []
  rel : Nat → Option (List (Nat × Nat)) := fun _ => none

def Rel2.ofList (domY : List Nat) (rs : List (Option (List (Nat × Nat)))) : Rel2 :=
  { domY := domY, rel := fun i => rs.getD i none }

/-- classes numbered ≥ 1000 are constructed from both variables -/
def classUsesY (c : Nat) : Bool := decide (c ≥ 1000)

/-- projection of the binding onto the variables of the conclusions (`required_output`) -/
def keyOf (concl : List Nat) (b : Bnd) : Bnd := (b.1, if concl.any classUsesY then b.2 else none)

/-- `SeenSet.check`: the stored constraint is a subset of the assignment -/
def covers (stored new : Bnd) : Bool :=
  stored.1 == new.1 && (match stored.2 with | none => true | some y => new.2 == some y)

structure Out2 where
  b : Bnd
  isF : Bool
  concl : List Nat
  deriving DecidableEq, Repr

abbrev Seen2 := List (Nat × Bool × Bnd × List Nat)

def update2 (d : Dedup) (id : Nat) (b : Bnd) (isF : Bool) (concl : List Nat) (seen : Seen2) :
    List Nat × Seen2 :=
  if concl.isEmpty then ([], seen)
  else
    let key := keyOf concl b
    match d with
    | .off => (concl, seen)
    | .atRoot => (concl, seen)
    | .byBinding =>
      if seen.any fun e => e.1 == id && e.2.1 == !isF && e.2.2.2 == [] && covers e.2.2.1 key then ([], seen)
      else (concl, (id, !isF, key, []) :: seen)
    | .byConclusion =>
      if seen.any fun e => e.1 == id && e.2.1 == !isF && e.2.2.2 == concl && covers e.2.2.1 key then ([], seen)
      else (concl, (id, !isF, key, concl) :: seen)

/-- the bindings a condition leaf produces from the incoming ones. A condition on `x` enumerates `x` when it is
unbound. A relation `in_(x, y.r)` evaluates the side whose variable is bound first: `x` bound → enumerates `y`;
nothing bound → `y` outer, `x` inner. -/
def leafBnds (r2 : Rel2) (dom : List Nat) (blk : Nat) (src : Option Bnd) : List Bnd :=
  match r2.rel blk with
  | none => (match src with | some b => [b] | none => dom.map fun x => (x, none))
  | some _ =>
    match src with
    | none => r2.domY.flatMap fun y => dom.map fun x => (x, some y)
    | some (x, none) => r2.domY.map fun y => (x, some y)
    | some (x, some y) => [(x, some y)]

def leafHolds (pay : Payload) (r2 : Rel2) (blk : Nat) (b : Bnd) : Bool :=
  match r2.rel blk with
  | none => (pay blk).cond.contains b.1
  | some R => match b.2 with
    | some y => R.contains (b.1, y)
    | none => false

def leafOuts2 (pay : Payload) (r2 : Rel2) (dom : List Nat) (blk : Nat) (concl : List Nat) (src : Option Bnd) :
    List Out2 :=
  (leafBnds r2 dom blk src).map fun b => ⟨b, !leafHolds pay r2 blk b, conclOf pay concl⟩

def mapSeen2 {α} (f : α → Seen2 → List Out2 × Seen2) : List α → Seen2 → List Out2 × Seen2
  | [], s => ([], s)
  | a :: as, s =>
    let (o1, s) := f a s
    let (o2, s) := mapSeen2 f as s
    (o1 ++ o2, s)

/-- `evalT` over bindings. `leak` (F-C08-4, today: on): `Union.evaluate_left` hands a *false* left result's
bindings to the right side — including a `y` that only the failed left side bound; off = the false result is
passed on and the right side is evaluated from the incoming bindings only. -/
def evalT2 (pay : Payload) (r2 : Rel2) (d : Dedup) (leak : Bool) (dom : List Nat) :
    Sel → Option Bnd → Seen2 → List Out2 × Seen2
  | .leaf _ blk concl, src, s => (leafOuts2 pay r2 dom blk concl src, s)
  | .node .exceptIf id l r, src, s =>
    let (ls, s) := evalT2 pay r2 d leak dom l src s
    mapSeen2 (fun (lv : Out2) s =>
      if lv.isF then ([⟨lv.b, true, []⟩], s)
      else
        let (rs, s) := evalT2 pay r2 d leak dom r (some lv.b) s
        let trues := rs.filter fun o => !o.isF
        if trues.isEmpty then
          let (c, s) := update2 d id lv.b false lv.concl s
          ([⟨lv.b, false, c⟩], s)
        else
          mapSeen2 (fun (rv : Out2) s =>
            let (c, s) := update2 d id rv.b false rv.concl s
            ([⟨rv.b, false, c⟩], s)) trues s) ls s
  | .node .alt id l r, src, s =>
    let (ls, s) := evalT2 pay r2 d leak dom l src s
    mapSeen2 (fun (lv : Out2) s =>
      if lv.isF then
        let (rs, s) := evalT2 pay r2 d leak dom r (some lv.b) s
        mapSeen2 (fun (rv : Out2) s =>
          if rv.isF then ([⟨rv.b, true, []⟩], s)
          else
            let (c, s) := update2 d id rv.b false rv.concl s
            ([⟨rv.b, false, c⟩], s)) rs s
      else
        let (c, s) := update2 d id lv.b false lv.concl s
        ([⟨lv.b, false, c⟩], s)) ls s
  | .node .next id l r, src, s =>
    let (ls, s) := evalT2 pay r2 d leak dom l src s
    let (o1, s) := mapSeen2 (fun (lv : Out2) s =>
      if lv.isF && !leak then ([⟨lv.b, true, []⟩], s)
      else if lv.isF then
        let (rs, s) := evalT2 pay r2 d leak dom r (some lv.b) s
        mapSeen2 (fun (rv : Out2) s =>
          let (c, s) := update2 d id rv.b rv.isF rv.concl s
          ([⟨rv.b, rv.isF, c⟩], s)) rs s
      else
        let (c, s) := update2 d id lv.b false lv.concl s
        ([⟨lv.b, false, c⟩], s)) ls s
    let (rs, s) := evalT2 pay r2 d leak dom r src s
    let (o2, s) := mapSeen2 (fun (rv : Out2) s =>
      let (c, s) := update2 d id rv.b rv.isF rv.concl s
      ([⟨rv.b, rv.isF, c⟩], s)) rs s
    (o1 ++ o2, s)

def topOuts2 (outs : List Out2) : List (List Nat × Bnd) :=
  outs.filterMap fun o => if o.isF || o.concl.isEmpty then none else some (o.concl, o.b)

/-- the (binding, truth) results of a tree: independent of the mutable state -/
def truths2 (pay : Payload) (r2 : Rel2) (leak : Bool) (dom : List Nat) : Sel → Option Bnd → List (Bnd × Bool)
  | .leaf _ blk _, src => (leafBnds r2 dom blk src).map fun b => (b, !leafHolds pay r2 blk b)
  | .node .exceptIf _ l r, src =>
    (truths2 pay r2 leak dom l src).flatMap fun lv =>
      if lv.2 then [(lv.1, true)]
      else
        let trues := (truths2 pay r2 leak dom r (some lv.1)).filter fun o => !o.2
        if trues.isEmpty then [(lv.1, false)] else trues
  | .node .alt _ l r, src =>
    (truths2 pay r2 leak dom l src).flatMap fun lv =>
      if lv.2 then truths2 pay r2 leak dom r (some lv.1) else [lv]
  | .node .next _ l r, src =>
    ((truths2 pay r2 leak dom l src).flatMap fun lv =>
      if lv.2 && leak then truths2 pay r2 leak dom r (some lv.1) else [lv]) ++ truths2 pay r2 leak dom r src

def anyTrue2 (pay : Payload) (r2 : Rel2) (leak : Bool) (dom : List Nat) (t : Sel) (b : Bnd) : Bool :=
  (truths2 pay r2 leak dom t (some b)).any fun o => !o.2

structure KSt2 where
  ns : List NSt
  root : Option Nat := none
  seen : Seen2 := []
  out : List (List Nat × Bnd) := []

namespace KSt2
def get (s : KSt2) (i : Nat) : NSt := s.ns.getD i {}
def upd (s : KSt2) (i : Nat) (f : NSt → NSt) : KSt2 := { s with ns := s.ns.set i (f (s.get i)) }

def updateConclusion (d : Dedup) (s : KSt2) (id : Nat) (b : Bnd) (concl : List Nat) : KSt2 :=
  if concl.isEmpty then s
  else
    let d := match d with
      | .atRoot => if s.root == some id then Dedup.byConclusion else Dedup.off
      | d => d
    let key := keyOf concl b
    let truth := !(s.get id).isF
    let seenBefore := match d with
      | .off => false
      | .atRoot => false
      | .byBinding => s.seen.any fun e => e.1 == id && e.2.1 == truth && e.2.2.2 == [] && covers e.2.2.1 key
      | .byConclusion =>
        s.seen.any fun e => e.1 == id && e.2.1 == truth && e.2.2.2 == concl && covers e.2.2.1 key
    if seenBefore then s
    else
      let s := s.upd id fun n =>
        { n with concl := concl.foldl (fun acc c => if acc.contains c then acc else acc ++ [c]) n.concl }
      match d with
      | .off => s
      | .atRoot => s
      | .byBinding => { s with seen := (id, truth, key, []) :: s.seen }
      | .byConclusion => { s with seen := (id, truth, key, concl) :: s.seen }
end KSt2

/-- `evalK` over bindings -/
def evalK2 (pay : Payload) (r2 : Rel2) (d : Dedup) (leak : Bool) (dom : List Nat) :
    Sel → Option Bnd → (Bnd → Bool → KSt2 → KSt2) → KSt2 → KSt2
  | .leaf id blk _, src, k, s =>
    (leafBnds r2 dom blk src).foldl (fun s b =>
      let f := !leafHolds pay r2 blk b
      k b f (s.upd id fun n => { n with isF := f })) s
  | .node .exceptIf id l r, src, k, s =>
    evalK2 pay r2 d leak dom l src (fun x f s =>
      let s := s.upd id fun n => { n with isF := f }
      if f then k x true s
      else
        let s := evalK2 pay r2 d leak dom r (some x) (fun x2 f2 s =>
          if f2 then s
          else
            let s := s.updateConclusion d id x2 (s.get r.id).concl
            let s := k x2 (s.get id).isF s
            s.upd id fun n => { n with concl := [] }) s
        if anyTrue2 pay r2 leak dom r x then s
        else
          let s := s.updateConclusion d id x (s.get l.id).concl
          let s := k x (s.get id).isF s
          s.upd id fun n => { n with concl := [] }) s
  | .node .alt id l r, src, k, s =>
    let post := fun (x : Bnd) (s : KSt2) =>
      let s :=
        if !(s.get l.id).isF then s.updateConclusion d id x (s.get l.id).concl
        else if !(s.get r.id).isF then s.updateConclusion d id x (s.get r.id).concl
        else s
      let s := k x (s.get id).isF s
      s.upd id fun n => { n with concl := [] }
    evalK2 pay r2 d leak dom l src (fun x f s =>
      let s := s.upd id fun n => { n with le := true }
      if f then
        let s := s.upd id fun n => { n with le := false }
        let s := evalK2 pay r2 d leak dom r (some x) (fun x2 f2 s =>
          post x2 (s.upd id fun n => { n with isF := f2, re := true })) s
        s.upd id fun n => { n with re := false }
      else post x (s.upd id fun n => { n with isF := false })) s
  | .node .next id l r, src, k, s =>
    let post := fun (x : Bnd) (s : KSt2) =>
      let s := if (s.get id).le then s.updateConclusion d id x (s.get l.id).concl else s
      let s := if (s.get id).re then s.updateConclusion d id x (s.get r.id).concl else s
      let s := k x (s.get id).isF s
      s.upd id fun n => { n with concl := [] }
    let evalRight := fun (src2 : Option Bnd) (s : KSt2) =>
      let s := s.upd id fun n => { n with le := false }
      let s := evalK2 pay r2 d leak dom r src2 (fun x2 f2 s =>
        post x2 (s.upd id fun n => { n with isF := f2, re := true })) s
      s.upd id fun n => { n with re := false }
    let s := evalK2 pay r2 d leak dom l src (fun x f s =>
      let s := s.upd id fun n => { n with le := true }
      if f && !leak then
        -- repaired: a false left result is passed on; the right side is evaluated once, from the incoming bindings
        let s := s.upd id fun n => { n with isF := true, le := false }
        let s := k x true s
        s.upd id fun n => { n with concl := [] }
      else if f then evalRight (some x) s
      else post x (s.upd id fun n => { n with isF := false })) s
    evalRight src s

def runK2 (pay : Payload) (r2 : Rel2) (d : Dedup) (leak : Bool) (dom : List Nat) (nodes : List Node) (t : Sel) :
    List (List Nat × Bnd) :=
  (evalK2 pay r2 d leak dom t none (fun x f s =>
    if f then s
    else
      let c := (s.get t.id).concl
      if c.isEmpty then s else { s with out := s.out ++ [(c, x)] })
    { ns := nodes.map fun n => { concl := conclOf pay n.concl }, root := some t.id }).out

/-- `Dedup.atRoot` over two variables: the key is the set of conclusions and the projection of the binding onto
their variables -/
def rootDedup2 (d : Dedup) (t : Sel) (rows : List (List Nat × Bnd)) : List (List Nat × Bnd) :=
  match d, t with
  | .atRoot, .node _ _ _ _ =>
    rows.foldl (fun acc r =>
      if acc.any fun a => a.1 == r.1 && keyOf a.1 a.2 == keyOf r.1 r.2 then acc else acc ++ [r]) []
  | _, _ => rows

inductive Obs2 where
  | ok (rows : List (List Nat × Bnd))
  | raised
  | cyclic
  | mismatch
  deriving DecidableEq, Repr

def modelOf2 (built : Option BState) (d : Dedup) (leak : Bool) (pay : Payload) (r2 : Rel2) (dom : List Nat) : Obs2 :=
  match built with
  | none => .raised
  | some st =>
    match st.tree with
    | none => .cyclic
    | some t =>
      let rk := runK2 pay r2 d leak dom st.nodes t
      if t.ids.Nodup then
        let rt := rootDedup2 d t (topOuts2 (evalT2 pay r2 d leak dom t none []).1)
        if rt = rk then .ok rt else .mismatch
      else .ok rk

/-- builder + evaluator over two variables -/
def modelA2 (q : Quirks) (leak : Bool) (pay : Payload) (r2 : Rel2) (a : Authored) (dom : List Nat) : Obs2 :=
  modelOf2 (buildA q a) q.dedup leak pay r2 dom

/-! ### specification over two variables

A branch whose condition introduces `y` *holds* for a base binding when some value of `y` satisfies it, and fires
once per such value (the witnesses); everything nested in it sees `y` bound. -/

/-- the extensions of the binding that satisfy the block's condition -/
def holdsExt (pay : Payload) (r2 : Rel2) (blk : Nat) (b : Bnd) : List Bnd :=
  (leafBnds r2 [] blk (some b)).filter fun b' => leafHolds pay r2 blk b'

def combine2 (chain : Option (List (Nat × Bnd))) (nexts : List (List (Nat × Bnd))) : Option (List (Nat × Bnd)) :=
  match chain, nexts with
  | none, [] => none
  | c, ns => some (c.getD [] ++ ns.flatten)

mutual
def Rule.chain2 (pay : Payload) (r2 : Rel2) (b : Bnd) : Rule → Option (List (Nat × Bnd))
  | .mk blk refs alts _ =>
    let exts := holdsExt pay r2 blk b
    if exts.isEmpty then alts.chainFirst2 pay r2 b
    else some (exts.flatMap fun b' =>
      (refs.firstFiring2 pay r2 b').getD ((pay blk).concl.map fun c => (c, b')))
def Rules.chainFirst2 (pay : Payload) (r2 : Rel2) (b : Bnd) : Rules → Option (List (Nat × Bnd))
  | .nil => none
  | .cons a as => match a.chain2 pay r2 b with
    | some c => some c
    | none => as.chainFirst2 pay r2 b
def Rules.firstFiring2 (pay : Payload) (r2 : Rel2) (b : Bnd) : Rules → Option (List (Nat × Bnd))
  | .nil => none
  | .cons r rs => match r.group2 pay r2 b with
    | some c => some c
    | none => rs.firstFiring2 pay r2 b
def Rule.nextsOf2 (pay : Payload) (r2 : Rel2) (b : Bnd) : Rule → List (List (Nat × Bnd))
  | .mk _ _ alts nexts => alts.nextsIn2 pay r2 b ++ nexts.nextGroups2 pay r2 b
def Rules.nextsIn2 (pay : Payload) (r2 : Rel2) (b : Bnd) : Rules → List (List (Nat × Bnd))
  | .nil => []
  | .cons a as => a.nextsOf2 pay r2 b ++ as.nextsIn2 pay r2 b
def Rules.nextGroups2 (pay : Payload) (r2 : Rel2) (b : Bnd) : Rules → List (List (Nat × Bnd))
  | .nil => []
  | .cons n ns => (match n.group2 pay r2 b with | some c => [c] | none => []) ++ ns.nextGroups2 pay r2 b
def Rule.group2 (pay : Payload) (r2 : Rel2) (b : Bnd) : Rule → Option (List (Nat × Bnd))
  | .mk blk refs alts nexts =>
    let exts := holdsExt pay r2 blk b
    combine2
      (if exts.isEmpty then alts.chainFirst2 pay r2 b
       else some (exts.flatMap fun b' =>
         (refs.firstFiring2 pay r2 b').getD ((pay blk).concl.map fun c => (c, b'))))
      (alts.nextsIn2 pay r2 b ++ nexts.nextGroups2 pay r2 b)
end

/-- the row an inferred instance shows: its class and the constructor arguments it was built from -/
def rowOf (c : Nat) (b : Bnd) : Nat × Bnd := (c, keyOf [c] b)

/-- **the specification over two variables** -/
def spec2 (pay : Payload) (r2 : Rel2) (p : Prog) (dom : List Nat) : List (Nat × Bnd) :=
  dom.flatMap fun x => ((p.toRule.group2 pay r2 (x, none)).getD []).map fun (c, b) => rowOf c b

/-! ### triggers over two variables -/

mutual
/-- all classes concluded in a block and below it -/
def Prog.classes (pay : Payload) : Prog → List Nat
  | .mk b kids => (pay b).concl ++ kids.classes pay
def Kids.classes (pay : Payload) : Kids → List Nat
  | .nil => []
  | .cons _ p rest => p.classes pay ++ rest.classes pay
end

mutual
/-- some condition in the block or below it relates `x` and `y` -/
def Prog.mentionsY (r2 : Rel2) : Prog → Bool
  | .mk b kids => (r2.rel b).isSome || kids.mentionsY r2
def Kids.mentionsY (r2 : Rel2) : Kids → Bool
  | .nil => false
  | .cons _ p rest => p.mentionsY r2 || rest.mentionsY r2
end

mutual
/-- a refinement, in the block or below it, whose own subtree relates `x` and `y` -/
def Prog.refMentionsY (r2 : Rel2) : Prog → Bool
  | .mk _ kids => kids.refMentionsY r2
def Kids.refMentionsY (r2 : Rel2) : Kids → Bool
  | .nil => false
  | .cons k p rest => (k = .ref && p.mentionsY r2) || p.refMentionsY r2 || rest.refMentionsY r2
end

mutual
/-- F-C08-3 over two variables: a block whose condition *introduces* `y` (`ctx` = `y` already bound where the
block's condition is evaluated) produces one result per value of `y`; if those results can carry different
conclusions and one of them is built from `x` alone, its key `{x}` covers the keys of the others -/
def Prog.trigWitness (pay : Payload) (r2 : Rel2) (ctx : Bool) : Prog → Bool
  | .mk b kids =>
    let here := (r2.rel b).isSome && !ctx &&
      (let cs := ((pay b).concl ++ kids.classes pay).eraseDups
       decide (cs.length ≥ 2) && cs.any fun c => !classUsesY c)
    here || kids.trigWitness pay r2 ctx (ctx || (r2.rel b).isSome)
def Kids.trigWitness (pay : Payload) (r2 : Rel2) (ctx ctxRef : Bool) : Kids → Bool
  | .nil => false
  | .cons k p rest =>
    p.trigWitness pay r2 (if k = .ref then ctxRef else ctx) || rest.trigWitness pay r2 ctx ctxRef
end

mutual
/-- F-C08-4: walk of one chain scope; `intro` = a member written so far (the scope's rule, an alternative, a
next_rule) introduced `y`. A `next_rule` written after that, with a refinement below it that relates `x` and `y`,
is evaluated once per *failed* value of `y` of that member, with `y` still bound. Returns (bad, intro). -/
def Prog.trigLeakScope (r2 : Rel2) (ctx : Bool) : Prog → Bool
  | .mk b kids => (kids.trigLeak r2 ctx (ctx || (r2.rel b).isSome) ((r2.rel b).isSome && !ctx)).1
def Prog.trigLeakIn (r2 : Rel2) (ctx : Bool) (intro : Bool) : Prog → Bool × Bool
  | .mk b kids => kids.trigLeak r2 ctx (ctx || (r2.rel b).isSome) (intro || ((r2.rel b).isSome && !ctx))
def Kids.trigLeak (r2 : Rel2) (ctx ctxRef : Bool) (intro : Bool) : Kids → Bool × Bool
  | .nil => (false, intro)
  | .cons k p rest =>
    match k with
    | .ref =>
      let b1 := p.trigLeakScope r2 ctxRef
      let (b2, i2) := rest.trigLeak r2 ctx ctxRef intro
      (b1 || b2, i2)
    | _ =>
      let bad := k = .next && intro && p.refMentionsY r2
      let (b1, i1) := p.trigLeakIn r2 ctx intro
      let (b2, i2) := rest.trigLeak r2 ctx ctxRef i1
      (bad || b1 || b2, i2)
end

end KrroodVerif.Rdr
