import KrroodVerif.Model.SqlTr
/-!
# M-ORM / SqlTable — the operator tables of `eql_interface.py` as DATA (second tie of C07, by translation)

Core Lean only.  `OperatorMapper.map_comparison_operator`, `OperatorMapper.map_contains_operator`, `null_safe_in`, the
dispatch of `EQLTranslator.translate_query` / `_translate_comparator_operand` and the places where the translator raises
an `EQLTranslationError` are table-like decision logic: WHICH SQLAlchemy construct is returned for WHICH EQL operator
and WHICH operand shape.  This file states that logic as tables

* `opTable  : List (EqlOp × SqlForm)`    — operator × operand shape ↦ the SQLAlchemy construct returned,
* `dispatch : List (NodeKind × Handler)` — the node kinds `translate_query` / `_translate_comparator_operand` have a case for,
* `rejects  : List (Shape × TrErr)`      — where an `EQLTranslationError` is raised, and which,

gives the tables a semantics (`cmpT`, `memT`, `subT`: SQL three-valued logic, SQLAlchemy's rendering of `== None`), and
defines the decidable check `tableOk` (every row's SQL form is TRUE exactly when Python's operator is, on every way two
scalar operands can be related — the NULL-safe reading included).  `harness/translate/c07_translate.py` regenerates the
three tables from the CURRENT Python AST on every run; the kernel then re-checks `Translated.opTable = SqlTr.opTable`
and `tableOk Translated.opTable = true` (Props/C07Table.lean has the theorems that give those two facts their meaning:
`cmpT_opTable` … the hand-written model IS the interpretation of `opTable`; `C07_table_preserves` … translation with ANY
table that passes `tableOk` preserves answers on the fragment of `C07_preserves_partial`).
-/
namespace KrroodVerif.SqlTr

/-! ## Keys: EQL operator × operand shape -/

/-- which operands of a comparison are SQL expressions (`hasattr(x, "is_distinct_from")`): a translated attribute chain
is a column, a translated Literal is a plain Python value -/
inductive Sides where
  | colCol | colLit | litCol | litLit
  deriving Repr, DecidableEq

def Sides.swap : Sides → Sides
  | .colLit => .litCol
  | .litCol => .colLit
  | s => s

def isLitOperand : SqlOperand → Bool
  | .lit _ => true
  | .col _ => false

def sidesOf (a b : SqlOperand) : Sides :=
  match isLitOperand a, isLitOperand b with
  | false, false => .colCol
  | false, true => .colLit
  | true, false => .litCol
  | true, true => .litLit

/-- operand shapes `map_contains_operator` distinguishes (`isinstance(x, (list, tuple, set))`, `isinstance(x, str)`) -/
inductive ContShape where
  | leftColl      -- left is a python collection
  | rightColl     -- right is a python collection (left is not)
  | strCol        -- left a python str, right not a str
  | colStr        -- right a python str, left not a str
  | strStr        -- both python strs
  | colCol        -- neither (two SQL expressions)
  deriving Repr, DecidableEq

inductive EqlOp where
  /-- `operator.eq/ne/lt/le/gt/ge` by operand shape -/
  | cmp (op : Cmp) (sides : Sides)
  /-- `contains` / `in_` by operand shape -/
  | contains (shape : ContShape)
  /-- the negated form `not_contains` (what is done to the expression built for `contains`) -/
  | notContains
  /-- `null_safe_in(column, values)` by whether `None` is among the values -/
  | member (hasNone : Bool)
  deriving Repr, DecidableEq

/-! ## Forms: the SQLAlchemy construct returned -/

inductive SqlRel where
  | eq | ne | lt | le | gt | ge        -- `l == r`, … (Python operator on the translated operands)
  | isNotDistinctFrom | isDistinctFrom -- `l.is_not_distinct_from(r)`, `l.is_distinct_from(r)`
  deriving Repr, DecidableEq

/-- `swap`: the receiver / left operand of the construct is the RIGHT operand of the comparator -/
structure CmpForm where
  rel : SqlRel
  swap : Bool
  deriving Repr, DecidableEq

/-- the expression `null_safe_in` returns -/
inductive MemForm where
  | inAll       -- `column.in_(values)`
  | inNonNull   -- `column.in_([v for v in values if v is not None])`
  | isNull      -- `column.is_(None)`
  | isNotNull   -- `column.is_not(None)`
  | or (a b : MemForm)
  | and (a b : MemForm)
  | not (a : MemForm)
  deriving Repr, DecidableEq

inductive Side where
  | left | right
  deriving Repr, DecidableEq

inductive SqlForm where
  | cmp (f : CmpForm)
  /-- `null_safe_in(column := that operand, values := the other operand)` -/
  | nullSafeIn (column : Side)
  /-- `func.instr(container, item) > 0`; `swap = false`: container = left operand, item = right operand -/
  | instrGt0 (swap : Bool)
  /-- `literal(right in left)` (`swap`: `left in right`): Python's own substring test on two Python strs -/
  | pyIn (swap : Bool)
  /-- `column.contains(item)`: `column LIKE '%' || item || '%'` (the rendering before fix 20e7107) -/
  | like (swap : Bool)
  /-- `sa_not(expression)` -/
  | saNot
  | mem (f : MemForm)
  deriving Repr, DecidableEq

abbrev OpTable := List (EqlOp × SqlForm)

/-! ## The tables of the code as it is (hand-written; the translator must regenerate exactly these) -/

def allCmps : List Cmp := [.eq, .ne, .lt, .le, .gt, .ge]
def allSides : List Sides := [.colCol, .colLit, .litCol, .litLit]

/-- the SQL relation an ordering operator is bound to -/
def ordRel : Cmp → SqlRel
  | .eq => .eq | .ne => .ne | .lt => .lt | .le => .le | .gt => .gt | .ge => .ge

/-- `OperatorMapper.map_comparison_operator` -/
def cmpRow (op : Cmp) (s : Sides) : CmpForm :=
  match op, s with
  | .eq, .colCol => ⟨.isNotDistinctFrom, false⟩       -- two columns: NULL-safe (fix 1eb4fe3)
  | .eq, _ => ⟨.eq, false⟩                            -- `left == right` (`== None` renders IS NULL)
  | .ne, .colCol | .ne, .colLit => ⟨.isDistinctFrom, false⟩   -- `left.is_distinct_from(right)`
  | .ne, .litCol => ⟨.isDistinctFrom, false⟩          -- `right.is_distinct_from(left)`: the same SQL (symmetric; the
                                                      -- translator mirrors `right ⋄ left` into `left ⋄' right`)
  | .ne, .litLit => ⟨.ne, false⟩                      -- `left != right` on two Python values
  | o, _ => ⟨ordRel o, false⟩

def opTable : OpTable :=
  (allCmps.flatMap fun op => allSides.map fun s => (EqlOp.cmp op s, SqlForm.cmp (cmpRow op s))) ++
  [ (.contains .leftColl, .nullSafeIn .right),
    (.contains .rightColl, .nullSafeIn .left),
    (.contains .strCol, .instrGt0 false),
    (.contains .colStr, .instrGt0 false),     -- fix 20e7107 (was `.like false`: F-C07-5)
    (.contains .strStr, .pyIn false),
    (.contains .colCol, .instrGt0 false),
    (.notContains, .saNot),
    (.member false, .mem .inAll),
    (.member true, .mem (.or .inNonNull .isNull)) ]    -- fix 1eb4fe3

/-- node kinds of an EQL condition tree / of a comparator operand -/
inductive NodeKind where
  | andNode | orNode | comparator | attribute | literal | variable
  | notNode | existsNode | forAllNode | predicate | index | call | flatten | nestedQuery | plainValue
  deriving Repr, DecidableEq

inductive Handler where
  | translateAnd | translateOr | translateComparator | translateAttribute   -- `translate_query`
  | extractLiteral | extractVariable | passThrough                         -- `_translate_comparator_operand`
  deriving Repr, DecidableEq

/-- the `isinstance` dispatch of `translate_query` (first match wins; the four classes are disjoint) -/
def dispatch : List (NodeKind × Handler) :=
  [(.andNode, .translateAnd), (.orNode, .translateOr), (.comparator, .translateComparator),
   (.attribute, .translateAttribute)]

/-- the `isinstance` dispatch of `_translate_comparator_operand`; a non-symbolic operand passes through -/
def operandDispatch : List (NodeKind × Handler) :=
  [(.attribute, .translateAttribute), (.literal, .extractLiteral), (.variable, .extractVariable),
   (.plainValue, .passThrough)]

/-- the places where the translator refuses -/
inductive Shape where
  | selectNotEntity       -- `translate`: the select-like node is not an `Entity` (set_of)
  | noDaoForSelected      -- `translate`: no DAO class for the selected variable's type
  | condNodeOther         -- `translate_query`: a node none of the dispatch cases matches
  | operandSymbolicOther  -- `_translate_comparator_operand`: a SymbolicExpression none of the cases matches
  | operatorUnknown       -- `map_comparison_operator`: an operator none of the cases matches
  | quantifierUnknown     -- `evaluate`: neither `An` nor `The`
  deriving Repr, DecidableEq

/-- `EQLTranslationError` subclasses by name (all are `Fail.rejected`) -/
inductive ErrClass where
  | unsupportedQueryType | unsupportedOperator | unsupportedQuantifier | attributeResolution | missingDAO
  | domainExtraction | eqlTranslationError
  deriving Repr, DecidableEq

def rejects : List (Shape × ErrClass) :=
  [(.selectNotEntity, .unsupportedQueryType), (.noDaoForSelected, .missingDAO),
   (.condNodeOther, .unsupportedQueryType), (.operandSymbolicOther, .unsupportedQueryType),
   (.operatorUnknown, .unsupportedOperator), (.quantifierUnknown, .unsupportedQuantifier)]

/-- the `TrErr` of the hand-written translator for an error class (where it has one) -/
def ErrClass.toTrErr : ErrClass → Option TrErr
  | .unsupportedQueryType => some .unsupportedQueryType
  | .attributeResolution => some .attributeResolution
  | .missingDAO => some .missingDAO
  | _ => none

def exprKind : Expr → NodeKind
  | .and _ _ => .andNode
  | .or _ _ => .orNode
  | .cmp _ _ _ | .isIn _ _ | .substr _ _ _ => .comparator
  | .attr _ | .strAttr _ _ => .attribute
  | .not _ => .notNode
  | .exist _ _ => .existsNode
  | .all _ _ => .forAllNode
  | .pred _ => .predicate
  | .bareVar _ => .variable
  | .bareLit _ => .plainValue

/-! ## Semantics of the forms -/

/-- how two scalar operand values are related: all a comparison (Python's or SQL's) can depend on -/
inductive Rel where
  | lt | eq | gt        -- both are numbers
  | nullL | nullR | nullLR
  deriving Repr, DecidableEq

def allRels : List Rel := [.lt, .eq, .gt, .nullL, .nullR, .nullLR]

def Rel.swap : Rel → Rel
  | .lt => .gt | .gt => .lt | .nullL => .nullR | .nullR => .nullL | r => r

def Rel.isLt : Rel → Bool | .lt => true | _ => false
def Rel.isEq : Rel → Bool | .eq => true | _ => false
def Rel.isGt : Rel → Bool | .gt => true | _ => false
def Rel.bothNull : Rel → Bool | .nullLR => true | _ => false

def relOf : Val → Val → Option Rel
  | .num a, .num b => some (if a < b then .lt else if a = b then .eq else .gt)
  | .null, .num _ => some .nullL
  | .num _, .null => some .nullR
  | .null, .null => some .nullLR
  | _, _ => none

/-- Python's comparison of two scalars as a function of their relation; `none` = TypeError (ordering with None) -/
def pyRel : Cmp → Rel → Option Bool
  | .eq, r => some (r.isEq || r.bothNull)
  | .ne, r => some (!(r.isEq || r.bothNull))
  | .lt, .lt => some true | .lt, .eq => some false | .lt, .gt => some false
  | .le, .lt => some true | .le, .eq => some true | .le, .gt => some false
  | .gt, .lt => some false | .gt, .eq => some false | .gt, .gt => some true
  | .ge, .lt => some false | .ge, .eq => some true | .ge, .gt => some true
  | _, _ => none

/-- SQL's plain comparison of two non-NULL numbers -/
def plainRel : SqlRel → Rel → Bool
  | .eq, r | .isNotDistinctFrom, r => r.isEq
  | .ne, r | .isDistinctFrom, r => !r.isEq
  | .lt, r => r.isLt
  | .le, r => !r.isGt
  | .gt, r => r.isGt
  | .ge, r => !r.isLt

/-- three-valued reading of the construct `l REL r` (`none` = UNKNOWN, or for two Python values: raises).
`sides` says which operands are Python values: SQLAlchemy renders `column == None` as `IS NULL` and `column != None` as
`IS NOT NULL`; between two Python values the operator is Python's own. -/
def SqlRel.sem (rel : SqlRel) (sides : Sides) (r : Rel) : Option Bool :=
  match r with
  | .lt | .eq | .gt => some (plainRel rel r)
  | _ =>
    match rel with
    | .isNotDistinctFrom => some r.bothNull
    | .isDistinctFrom => some (!r.bothNull)
    | .eq =>
      match sides, r with
      | .litLit, _ => some r.bothNull
      | .colLit, .nullR | .litCol, .nullL => some false   -- `col IS NULL` on a non-NULL column
      | .colLit, .nullLR | .litCol, .nullLR => some true  -- `col IS NULL` on a NULL column
      | _, _ => none
    | .ne =>
      match sides, r with
      | .litLit, _ => some (!r.bothNull)
      | .colLit, .nullR | .litCol, .nullL => some true    -- `col IS NOT NULL`
      | .colLit, .nullLR | .litCol, .nullLR => some false
      | _, _ => none
    | _ => none

def CmpForm.sem (f : CmpForm) (sides : Sides) (r : Rel) : Option Bool :=
  if f.swap then f.rel.sem sides.swap r.swap else f.rel.sem sides r

def lookupOp (T : OpTable) (k : EqlOp) : Option SqlForm := T.lookup k

/-- the value of `.cmp op a b` when the operator is rendered as table `T` says -/
def cmpT (T : OpTable) (op : Cmp) (a b : SqlOperand) (va vb : Val) : Option Bool :=
  match lookupOp T (.cmp op (sidesOf a b)) with
  | some (.cmp f) => (relOf va vb).bind (f.sem (sidesOf a b))
  | _ => none

/-- what membership of a scalar `x` in a literal list can depend on -/
structure MemCase where
  xNull : Bool          -- the column is NULL
  member : Bool         -- the column's (non-NULL) value is among the non-None values
  hasNone : Bool        -- None is among the values
  noNonNull : Bool      -- there is no non-None value
  deriving Repr, DecidableEq

def MemCase.wf (c : MemCase) : Bool := (!c.member || (!c.xNull && !c.noNonNull))

def allMemCases : List MemCase :=
  [true, false].flatMap fun a => [true, false].flatMap fun b => [true, false].flatMap fun c => [true, false].flatMap fun d =>
    let k : MemCase := ⟨a, b, c, d⟩
    if k.wf then [k] else []

def not3 : Option Bool → Option Bool
  | some b => some (!b)
  | none => none

/-- three-valued reading of the expressions `null_safe_in` can return -/
def MemForm.sem : MemForm → MemCase → Option Bool
  | .inAll, c =>
    if c.xNull then (if c.noNonNull && !c.hasNone then some false else none)
    else if c.member then some true else if c.hasNone then none else some false
  | .inNonNull, c =>
    if c.xNull then (if c.noNonNull then some false else none) else some c.member
  | .isNull, c => some c.xNull
  | .isNotNull, c => some (!c.xNull)
  | .or a b, c => or3 (a.sem c) (b.sem c)
  | .and a b, c => and3 (a.sem c) (b.sem c)
  | .not a, c => not3 (a.sem c)

/-- Python's `x in values` -/
def pyMem (c : MemCase) : Bool := if c.xNull then c.hasNone else c.member

def memCaseOf (x : Val) (vs : List (Option Int)) : Option MemCase :=
  match x with
  | .num n => some ⟨false, vs.contains (some n), vs.contains none, (vs.filter Option.isSome).isEmpty⟩
  | .null => some ⟨true, false, vs.contains none, (vs.filter Option.isSome).isEmpty⟩
  | .ref _ => none

/-- the value of `.inList c vs` (a literal collection on the left of `contains`) when rendered as `T` says -/
def memT (T : OpTable) (x : Val) (vs : List (Option Int)) : Option Bool :=
  match lookupOp T (.contains .leftColl), lookupOp T (.member (vs.contains none)) with
  | some (.nullSafeIn .right), some (.mem f) => (memCaseOf x vs).bind f.sem
  | _, _ => none

/-- how two strings are related as far as a substring test goes: is the right operand inside the left one, and the
left one inside the right one -/
structure SubCase where
  rInL : Bool
  lInR : Bool
  deriving Repr, DecidableEq

def allSubCases : List SubCase := [⟨true, true⟩, ⟨true, false⟩, ⟨false, true⟩, ⟨false, false⟩]

/-- truth of a substring form on two (non-NULL) strings; `none`: the form is not a function of the substring relation
(LIKE: case-insensitive, `%`/`_` of the item are wildcards — `C07_cex_like_substring`) -/
def subFormSem : SqlForm → SubCase → Option Bool
  | .instrGt0 false, c | .pyIn false, c => some c.rInL
  | .instrGt0 true, c | .pyIn true, c => some c.lInR
  | _, _ => none

/-- the shape `map_contains_operator` sees for a substring atom of the model -/
def subShape : SqlSOperand → SqlSOperand → ContShape
  | .lit _, .col _ => .strCol
  | .col _, .lit _ => .colStr
  | .col _, .col _ => .colCol
  | .lit _, .lit _ => .strStr

/-- the value of `.instr tab container item` (the model's substring atom) when rendered as `T` says; `c`/`i` are the
decoded strings (`none` = NULL) -/
def subT (T : OpTable) (a b : SqlSOperand) (c i : Option (List Char)) : Option Bool :=
  match lookupOp T (.contains (subShape a b)), c, i with
  | some f, some cs, some is => subFormSem f ⟨isInfixL is cs, isInfixL cs is⟩
  | _, _, _ => none

/-! ## The check -/

def cmpRowOk (op : Cmp) (s : Sides) (f : CmpForm) : Bool :=
  allRels.all fun r =>
    match pyRel op r with
    | some b => (f.sem s r == some true) == b
    | none => true          -- in memory the comparison raises: nothing to preserve

def memRowOk (hasNone : Bool) (f : MemForm) : Bool :=
  allMemCases.all fun c => c.hasNone != hasNone || ((f.sem c == some true) == pyMem c)

def subRowOk (f : SqlForm) : Bool :=
  allSubCases.all fun c => subFormSem f c == some c.rInL

/-- **the per-run obligation.**  Every operator × operand shape has a row, and the row's SQL form is TRUE under SQL's
three-valued logic exactly when Python's operator is True — on non-NULL operands and, where Python's operator is
defined on `None` (`==`, `!=`, `in`), on NULL operands as well (the NULL-safe reading). -/
def tableOk (T : OpTable) : Bool :=
  (allCmps.all fun op => allSides.all fun s =>
    match lookupOp T (.cmp op s) with
    | some (.cmp f) => cmpRowOk op s f
    | _ => false) &&
  (lookupOp T (.contains .leftColl) == some (.nullSafeIn .right)) &&
  (lookupOp T (.contains .rightColl) == some (.nullSafeIn .left)) &&
  ([true, false].all fun h =>
    match lookupOp T (.member h) with
    | some (.mem f) => memRowOk h f
    | _ => false) &&
  ([ContShape.strCol, .colStr, .strStr, .colCol].all fun sh =>
    match lookupOp T (.contains sh) with
    | some f => subRowOk f
    | none => false) &&
  (lookupOp T .notContains == some .saNot)

/-! ## Evaluation and execution of a statement with the operators rendered as a table says -/

def strOperandVal (db : DB) (env : List Nat) (tab : StrTab) : SqlSOperand → Option (List Char)
  | .col c => strOf tab ((sqlColVal db env c).getD .null)
  | .lit k => strOf tab (.num k)

def evalSqlT (T : OpTable) (db : DB) (env : List Nat) : SqlCond → Option Bool
  | .and a b => and3 (evalSqlT T db env a) (evalSqlT T db env b)
  | .or a b => or3 (evalSqlT T db env a) (evalSqlT T db env b)
  | .cmp op a b => cmpT T op a b (sqlOperandVal db env a) (sqlOperandVal db env b)
  | .inList c vs => memT T ((sqlColVal db env c).getD .null) vs
  | .instr tab a b => subT T a b (strOperandVal db env tab a) (strOperandVal db env tab b)
  | c => evalSql db env c        -- truthiness of a column, LIKE: not table driven

/-- `whereTrue` with the condition evaluated by `ev` -/
def whereTrueWith (ev : DB → List Nat → SqlCond → Option Bool) (db : DB) (env : List Nat) : Option SqlCond → Bool
  | none => true
  | some c => ev db env c == some true

/-- `execSql` with the WHERE clause evaluated by `ev` -/
def execSqlWith (ev : DB → List Nat → SqlCond → Option Bool) (S : Schema) (s : SqlQuery) (db : DB) : List Nat :=
  (rootsOf S db s.sel).flatMap fun r =>
    ((restEnvs S db s.seen 1 s.vars.tail).filter fun rest =>
      joinsOk db (r :: rest) s.joins && s.eqJoins.all (eqJoinOk db (r :: rest)) &&
        whereTrueWith ev db (r :: rest) s.whr).map
      fun _ => r

end KrroodVerif.SqlTr
