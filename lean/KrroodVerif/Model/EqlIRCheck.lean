import KrroodVerif.Model.EqlIRTable
/-!
Cross-check of the IR interpreter against the hand-written evaluator, used by the drivers of C01 / C02 on every case:
`runIR irTable` and `Eql.eval` must return the SAME list of `(bindings, truth)` results (or the same error) for the
query's condition, and `runIRTerm irTable` the same as `Eql.evalTerm` for every selected expression under every row.
Core Lean only.
-/
namespace KrroodVerif.Eql.IR
open KrroodVerif.Eql

def sameRes {α} [DecidableEq α] (a : R α) (b : Except Err α) : Bool :=
  match a, b with
  | .ok x, .ok y => x == y
  | .error (.err e), .error f => e == f
  | _, _ => false

def showIErr {α} (a : R α) : String :=
  match a with
  | .ok _ => "ok"
  | .error (.err e) => "err " ++ (repr e).pretty
  | .error (.stuck s) => "stuck " ++ s

/-- `Eql.evalQuery` with the condition and the selected expressions evaluated by the IR interpreter -/
def evalQueryIR (tbl : Table) (w : World) (q : Query) : R (List (List Val)) := do
  let rows ← match q.cond with
    | some c => do let rs ← runIR tbl w c []; pure ((rs.filter (·.2)).map (·.1))
    | none => pure [[]]
  liftFlat rows fun env => do
    let per ← q.sel.mapM fun s => do
      let rs ← runIRTerm tbl w false s env
      pure (rs.map (·.2.1))
    pure (product per)
where
  liftFlat {α β} (xs : List α) (f : α → R (List β)) : R (List β) :=
    match xs with
    | [] => .ok []
    | x :: r => do let a ← f x; let b ← liftFlat r f; pure (a ++ b)

/-- `none` = the interpreter on `irTable` agrees with `Eql.eval` / `Eql.evalTerm` on this query (raw result lists);
`some why` otherwise -/
def irDisagreement (w : World) (q : Query) : Option String :=
  let rows : List Env := match q.cond with
    | some c => match eval w c [] with
      | .ok rs => (rs.filter (·.2)).map (·.1)
      | .error _ => []
    | none => [[]]
  let condBad : Option String := match q.cond with
    | some c =>
      let a := runIR irTable w c []
      if sameRes a (eval w c []) then none else some ("condition: runIR " ++ showIErr a)
    | none => none
  match condBad with
  | some s => some s
  | none =>
    if rows.all fun env => q.sel.all fun s => sameRes (runIRTerm irTable w false s env) (evalTerm w false s env)
    then none else some "selected expression"

end KrroodVerif.Eql.IR
