import KrroodVerif.Model.Eql
import KrroodVerif.Model.EqlFindings
/-!
The QUANTIFIER FRAGMENT of M-EQL as a decidable predicate (`quantProved`), for the driver: on a query inside it the
theorems of `Props/C01Quant.lean` prove that evaluation and specification return the same set of rows, so the driver
does not let such a case be attributed to the quantifier findings F-C01-5 / F-C01-7 / F-C01-11 (whose own triggers
over-approximate). Core Lean only. `Lemmas/EqlQuant.lean` proves that the `…Q` copies below are the definitions the
cover lemmas use (`Expr.FcQ = Expr.Fc`, …) — they are repeated here only because `Lemmas/EqlCover.lean` is not a
model file.
-/
namespace KrroodVerif.Eql

/-- copy of `Term.noFlat` -/
def Term.noFlatQ : Term → Bool
  | .var _ => true
  | .lit _ _ => true
  | .attr t _ => t.noFlatQ
  | .index t _ => t.noFlatQ
  | .flatten _ => false

/-- copy of `Term.isChain` -/
def Term.isChainQ : Term → Bool
  | .attr t _ => t.noFlatQ
  | .index t _ => t.noFlatQ
  | _ => false

/-- copy of `Term.noLit` -/
def Term.noLitQ : Term → Bool
  | .var _ => true
  | .lit _ _ => false
  | .attr t _ => t.noLitQ
  | .index t _ => t.noLitQ
  | .flatten t => t.noLitQ

/-- copy of the cover fragment `Expr.Fc` -/
def Expr.FcQ : Expr → Bool
  | .cmp _ l r => l.noFlatQ && r.noFlatQ
  | .contains c i => c.noFlatQ && i.noFlatQ
  | .hasType t _ => t.noFlatQ
  | .truth t => t.isChainQ
  | .and l r => l.FcQ && r.FcQ
  | .elseIf l r => l.FcQ && r.FcQ
  | .not e => e.FcQ
  | .union _ _ => false
  | .exists_ _ _ => false
  | .forAll _ _ => false

/-- quantified variables -/
def Expr.qvars : Expr → List VarId
  | .and l r | .elseIf l r | .union l r => l.qvars ++ r.qvars
  | .not e => e.qvars
  | .exists_ v e | .forAll v e => v :: e.qvars
  | _ => []

/-- keys that every result cell of `e` with truth flag `pol` binds (a syntactic under-approximation): an atom binds
all its nodes; a false cell of `and l r` is a false cell of `l` passed through UN-EXTENDED or a false cell of `r`
extending a true cell of `l`; a true cell of `and l r` extends a true cell of `l` by a true cell of `r`; dually for
`elseIf`; `not` swaps the flags -/
def Expr.bK : Bool → Expr → List Key
  | _, .cmp _ l r => l.nodes ++ r.nodes
  | _, .contains c i => c.nodes ++ i.nodes
  | _, .truth t => t.nodes
  | _, .hasType t _ => t.nodes
  | true, .and l r => Expr.bK true l ++ Expr.bK true r
  | false, .and l r => (Expr.bK false l).filter fun k => (Expr.bK true l ++ Expr.bK false r).contains k
  | true, .elseIf l r => (Expr.bK true l).filter fun k => (Expr.bK false l ++ Expr.bK true r).contains k
  | false, .elseIf l r => Expr.bK false l ++ Expr.bK false r
  | pol, .not e => Expr.bK (!pol) e
  | _, _ => []

/-- **the quantifier fragment** (`A`: variables that MAY be bound when `e` is reached; `B`: keys that ARE bound then):
a chain of `and`s whose left operands are in the cover fragment and whose last operand is ONE quantifier over a
condition `φ` in the cover fragment, such that the quantified variable is not used outside the quantifier, and

* `exists_ q φ`: every result cell of `φ` — true or false — binds `q` (negation of the trigger of F-C01-7), and every
  other variable of `φ` is bound before the quantifier is reached (negation of the trigger of F-C01-5);
* `forAll q φ`: every TRUE result cell of `φ` binds every VARIABLE of `φ` (negation of the trigger of F-C01-11; a literal
  node that a candidate leaves unbound is harmless: the re-check reads the literal afresh). -/
def Expr.Ql : Expr → List VarId → List Key → Bool
  | .and l e', A, B => l.FcQ && Expr.Ql e' (A ++ l.vars) (B ++ Expr.bK true l)
  | .exists_ q φ, A, B => φ.FcQ && !A.contains q && (Expr.bK true φ).contains (.var q) &&
      (Expr.bK false φ).contains (.var q) && φ.vars.all fun v => v == q || B.contains (.var v)
  | .forAll q φ, A, _ => φ.FcQ && !A.contains q && φ.vars.all fun v => (Expr.bK true φ).contains (.var v)
  | _, _, _ => false

def Expr.noForAll : Expr → Bool
  | .forAll _ _ => false
  | .and l r | .elseIf l r | .union l r => l.noForAll && r.noForAll
  | .not e | .exists_ _ e => e.noForAll
  | _ => true

/-- keys that every TRUE result cell binds, for conjunctions that may contain `exists` (whose results are the true
cells of its condition) -/
def Expr.tb : Expr → List Key
  | .and l r => l.tb ++ r.tb
  | .exists_ _ φ => Expr.bK true φ
  | .forAll _ _ => []
  | e => Expr.bK true e

/-- **the quantifier fragment, and-TREES** (`A`: variables that MAY be bound when `e` is reached; `B`: keys that ARE bound
then): conjunctions, nested in any way, of conditions in the cover fragment and quantifiers `exists_ q φ` / `forAll q φ`
over conditions `φ` in the cover fragment, with the side conditions of `Expr.Ql` at each quantifier (the variables an
`exists` needs bound may be bound by ANY conjunct evaluated before it, also by an earlier `exists`), every quantified
variable used nowhere outside its quantifier. Conjuncts may also be evaluated AFTER a `forAll` (the row a `ForAll` passes
on lists the candidate's keys twice, with one value: `EnvFn` in `Lemmas/EqlQuant.lean`) -/
def Expr.Qt : Expr → List VarId → List Key → Bool
  | .and l r, A, B => Expr.Qt l A B && (l.qvars.all fun v => !r.vars.contains v) &&
      Expr.Qt r (A ++ l.vars) (B ++ l.tb)
  | .exists_ q φ, A, B => φ.FcQ && !A.contains q && (Expr.bK true φ).contains (.var q) &&
      (Expr.bK false φ).contains (.var q) && φ.vars.all fun v => v == q || B.contains (.var v)
  | .forAll q φ, A, _ => φ.FcQ && !A.contains q && φ.vars.all fun v => (Expr.bK true φ).contains (.var v)
  | e, _, _ => e.FcQ

/-- no selected expression mentions a quantified variable -/
def selNoQuant (sel : List Term) (e : Expr) : Bool :=
  e.qvars.all fun v => !(sel.flatMap Term.vars).contains v

/-- copy of `litIds` -/
def litIdsQ (ks : List Key) : List Nat := ks.filterMap fun k => match k with | .lit i => some i | .var _ => none

def nodupNat : List Nat → Bool
  | [] => true
  | x :: r => !r.contains x && nodupNat r

def nodupVal : List Val → Bool
  | [] => true
  | x :: r => !r.contains x && nodupVal r

/-- **every hypothesis of `C01_quant_tree_sound_complete_partial`, decidably**: the built condition is in the quantifier
fragment `Expr.Qt` (and contains a quantifier); the selected expressions are `flatten`-free chains over variables, no variable feeds two of them, none mentions
the quantified variable; the domains are duplicate-free and — for the query's free and selected variables —
non-empty; literal ids are distinct -/
def quantProved (w : World) (q : SQuery) : Bool :=
  match q.cond with
  | none => false
  | some c =>
    let e := build c
    e.Qt [] [] && !e.qvars.isEmpty && (q.sel.all fun s => s.noFlatQ && s.noLitQ) && !trigMultiSel q && selNoQuant q.sel e &&
      (w.doms.all fun d => nodupVal d.2) && (q.vars.all fun v => !(w.dom v).isEmpty) && nodupNat (litIdsQ e.nodes)

/-- the triggers a case may be attributed to: inside the proved quantifier fragment the quantifier findings
F-C01-5 (de-duplication across outer bindings), F-C01-7 (`KeyError`) and F-C01-11 (unbound variable in a `ForAll`
candidate) cannot show, so they are not offered as an excuse there -/
def triggersQ (w : World) (q : SQuery) : List String :=
  if quantProved w q then (triggers w q).filter fun t => t != "F-C01-5" && t != "F-C01-7" && t != "F-C01-11"
  else triggers w q

end KrroodVerif.Eql
