import KrroodVerif.Model.Descriptor
/-!
M-PD, half-built instances (F-C16-10 / F-C15-4). Core Lean only.

The dataclass `__init__` assigns the fields of a new instance one after the other. Assigning a managed field runs the
descriptor's `__set__`, and with it the whole inference — while the LATER fields of the instance do not exist yet.
Inference writes derived relations back into the backing fields of other instances
(`PropertyDescriptor.update_value`):

* a list field through `MonitoredContainer._update`: `if value in self: return False` — `list.__contains__` walks
  the elements, stops at the element that IS `value`, and otherwise asks `element == value`;
* a single-valued field through `elif v != range_value:` — `!=` has no identity shortcut;
* a set field by hash (the harness instances and the repository's named instances hash apart: `==` is never asked).

For the instances of an eq-dataclass (`@dataclass`, `eq=True`: the repository's `Person`, `Company`, `CEO`) `==` is the
generated `__eq__`: `if other.__class__ is self.__class__: return (self.f1, …) == (other.f1, …)` — it READS EVERY
FIELD OF BOTH instances. Reading a managed field goes through `PropertyDescriptor.__get__` →
`getattr(obj, private_attr_name)`, which raises `AttributeError` for a field `__init__` has not assigned (and
inference has not started) yet. So the comparison raises as soon as one side is the instance under construction, the
other side has the same class, and some later field is still missing.

`addCoreH` / `stepH` / `runH` are `addCore` / `step` / `runOps` of `Model/Descriptor.lean` carrying one more bit
(`the code has raised`); the state they compute is the same (`C16_half_state`), the bit is decided by `HCtx`:
which instance is under construction, which of its fields are still to come, which classes compare by value, and the
quirk flag (`false` = membership by identity, the repair in `fixes/C16_half_built_instance.diff`).

Fragment: distinct instances never compare EQUAL (harness instances compare by identity, the repository's by distinct
names), so a value comparison that does not raise answers "different", as identity does.
-/
namespace KrroodVerif.PD

/-- the backing attribute `_f` of object `o` exists: something (an assignment or inference) has written it -/
def Store.has (st : Store) (f o : Nat) : Bool := st.cells.any fun c => c.1.1 == f && c.1.2 == o

/-- the constructor call in progress: the instance, and the managed fields its `__init__` assigns AFTER the field
being assigned now (dataclass declaration order) -/
structure Half where
  obj : Nat
  later : List Nat
  deriving Repr, DecidableEq

structure HCtx where
  quirk : Bool            -- F-C16-10 open: inference looks an instance up by VALUE (`in`, `!=`)
  cls : Nat → Nat         -- exact class of an object
  eqc : Nat → Bool        -- classes with a generated `__eq__` (eq-dataclasses)
  half : Option Half

/-- `x` is the instance under construction and one of its later fields has no backing attribute yet -/
def unbuilt (C : HCtx) (st : Store) (x : Nat) : Bool :=
  match C.half with
  | some h => h.obj == x && h.later.any (fun g => !st.has g x)
  | none => false

/-- `x == y` / `x != y` raises AttributeError: the generated `__eq__` of their common class reads all fields of both -/
def eqRaises (C : HCtx) (st : Store) (x y : Nat) : Bool :=
  C.cls x == C.cls y && C.eqc (C.cls x) && (unbuilt C st x || unbuilt C st y)

/-- `t in c` on a list raises: an element before the first identical one is compared by value and that raises -/
def memberRaises (C : HCtx) (st : Store) : List Nat → Nat → Bool
  | [], _ => false
  | x :: xs, t => if x == t then false else eqRaises C st x t || memberRaises C st xs t

/-- `update_value(source, target)` of an inferred relation raises -/
def updateRaises (C : HCtx) (K : Nat → Kind) (st : Store) (r : Fact) : Bool :=
  C.quirk && (match K r.1 with
    | .single => (match st r.1 r.2.1 with | [v] => eqRaises C st v r.2.2 | _ => false)
    | .list => memberRaises C st (st r.1 r.2.1) r.2.2
    | .set => false)

/-- `addCore` with the bit "AttributeError was raised" (the state is computed as if it had not been: once the bit
is set the state is not observed any more) -/
def addCoreH (C : HCtx) (R : Rules) (K : Nat → Kind) : Nat → State × Bool → Fact → Bool → State × Bool
  | 0, σb, _, _ => σb
  | n+1, σb, r, inferred =>
    if r ∈ σb.1.g then σb else
    let σ := σb.1
    let σ1 : State := { σ with g := r :: σ.g, st := if inferred then updateValue K σ.st r else σ.st,
                               inf := if inferred then markInf K σ r else σ.inf }
    let b1 := σb.2 || (inferred && updateRaises C K σ.st r)
    let σ2 := (R.u r).foldl (fun h q => addCoreH C R K n h q true) (σ1, b1)
    if R.tr r.1 then
      let outs := σ2.1.g.filter (fun q => q.1 == r.1 && q.2.1 == r.2.2)
      let σ3 := (outs.map fun q => (r.1, r.2.1, q.2.2)).foldl (fun h t => addCoreH C R K n h t true) σ2
      let ins := σ3.1.g.filter (fun q => q.1 == r.1 && q.2.2 == r.2.1)
      (ins.map fun q => (r.1, q.2.1, r.2.2)).foldl (fun h t => addCoreH C R K n h t true) σ3
    else σ2

def addItemH (C : HCtx) (R : Rules) (K : Nat → Kind) (n : Nat) (σb : State × Bool) (f s t : Nat) : State × Bool :=
  let τ := addCoreH C R K n σb (f, s, t) false
  ({ τ.1 with st := τ.1.st.set f s (storeAdd (K f) (τ.1.st f s) t) }, τ.2)

/-- `for v in list(attr._inferred_items): attr._update(v)` at the end of `__set__` raises (list fields) -/
def reAddRaises (C : HCtx) (K : Nat → Kind) (σ : State) (f s : Nat) : Bool :=
  C.quirk && K f == .list &&
    ((inferredOf σ f s).foldl (fun (a : List Nat × Bool) t =>
      (if t ∈ a.1 then a.1 else a.1 ++ [t], a.2 || memberRaises C σ.st a.1 t)) (σ.st f s, false)).2

def stepH (C : HCtx) (R : Rules) (K : Nat → Kind) (n : Nat) (σb : State × Bool) : Op → State × Bool
  | .set1 f s t => addCoreH C R K n ({ σb.1 with st := σb.1.st.set f s [t] }, σb.2) (f, s, t) false
  | .add f s t => addItemH C R K n σb f s t
  | .assign f s xs =>
    let σ := σb.1
    let σ0 : State := { σ with st := σ.st.set f s [],
                               clob := σ.clob || (σ.st f s).any (fun t => !σ.inf.contains (f, s, t)) }
    let τ := xs.foldl (fun h t => addItemH C R K n h f s t) (σ0, σb.2)
    (reAdd τ.1 f s, τ.2 || reAddRaises C K τ.1 f s)
  | .assignQ f s xs muted =>
    let σ := σb.1
    let σ0 : State := { σ with st := σ.st.set f s [], clob := σ.clob || !(σ.st f s).isEmpty }
    xs.foldl (fun h t =>
      if muted.contains t then ({ h.1 with st := h.1.st.set f s (storeAdd (K f) (h.1.st f s) t) }, h.2)
      else addItemH C R K n h f s t) (σ0, σb.2)
  | op => (step R K n σb.1 op, σb.2)   -- `churn`, `storeOnly`: no inference, nothing is compared

/-- a history in which every operation knows the constructor call it is part of (`none`: a plain write) -/
def runH (C : HCtx) (R : Rules) (K : Nat → Kind) (n : Nat) (items : List (Option Half × Op)) : State × Bool :=
  items.foldl (fun σb it => stepH { C with half := it.1 } R K n σb it.2) (State.init, false)

/-- the model of the code on a history with constructor calls; `q` = F-C16-10 open; `eqc` = the eq-dataclasses -/
def runModelH (q : Bool) (S : Schema) (W : World) (eqc : List Nat) (items : List (Option Half × Op)) : State × Bool :=
  runH ⟨q, W.clsOf, eqc.contains, none⟩ (schemaRules S W) S.kindOf (fuelFor S W) items

/-- the constructor contexts of `(ctor o …)` whose entries assign the fields `fs` in this order: entry `j` runs
while the fields `fs[j+1:]` are still to come -/
def halvesOfCtor (o : Nat) (fs : List Nat) : List Half :=
  (List.range fs.length).map fun j => ⟨o, fs.drop (j + 1)⟩

end KrroodVerif.PD
