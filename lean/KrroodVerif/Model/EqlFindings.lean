import KrroodVerif.Model.Eql
/-!
Decidable trigger predicates of the recorded C01/C02 findings (DESIGN.md §6). A trigger over-approximates the
inputs on which the corresponding defect can show; a case is attributed to a finding only if its trigger holds
**and** the implementation behaves exactly like the model (which transcribes the defect).
-/
namespace KrroodVerif.Eql

def Expr.hasUnion : Expr → Bool
  | .union _ _ => true
  | .and l r | .elseIf l r => l.hasUnion || r.hasUnion
  | .not e | .exists_ _ e | .forAll _ e => e.hasUnion
  | _ => false

def Expr.hasQuant : Expr → Bool
  | .exists_ _ _ | .forAll _ _ => true
  | .and l r | .elseIf l r | .union l r => l.hasQuant || r.hasQuant
  | .not e => e.hasQuant
  | _ => false

def Expr.hasExists : Expr → Bool
  | .exists_ _ _ => true
  | .forAll _ e | .not e => e.hasExists
  | .and l r | .elseIf l r | .union l r => l.hasExists || r.hasExists
  | _ => false

/-- F-C01-1: a `Union` below a `Not` or a `ForAll` — the two consumers that read *false* results (or the first
result only); a `Union`'s result stream is not a decision partition of the assignment space -/
def Expr.unionUnderNot : Expr → Bool
  | .not e => e.hasUnion || e.unionUnderNot
  | .forAll _ e => e.hasUnion || e.unionUnderNot
  | .and l r | .elseIf l r | .union l r => l.unionUnderNot || r.unionUnderNot
  | .exists_ _ e => e.unionUnderNot
  | _ => false

/-- F-C01-6: a `ForAll` whose universal variable has an empty domain -/
def Expr.forAllEmpty (w : World) : Expr → Bool
  | .forAll v e => (w.dom v).isEmpty || e.forAllEmpty w
  | .exists_ _ e | .not e => e.forAllEmpty w
  | .and l r | .elseIf l r | .union l r => l.forAllEmpty w || r.forAllEmpty w
  | _ => false

/-- F-C01-8: a quantifier below `Not`, or on either side of an `or_` (quantifiers never yield false results) -/
def Expr.quantUnderNotOrOr : Expr → Bool
  | .not e => e.hasQuant
  | .elseIf l r | .union l r => l.hasQuant || r.hasQuant
  | .and l r => l.quantUnderNotOrOr || r.quantUnderNotOrOr
  | .exists_ _ e | .forAll _ e => e.quantUnderNotOrOr
  | _ => false

def hasDup : List VarId → Bool
  | [] => false
  | x :: r => r.contains x || hasDup r

/-- F-C01-2: one variable feeds two selected expressions (they are evaluated independently) -/
def trigMultiSel (q : SQuery) : Bool := hasDup (q.sel.flatMap Term.vars)

/-! F-C01-3 / F-C02-1 (a bound variable or literal node with a falsy value read as false, so the comparison using it as
an operand dropped the row) is REPAIRED by fix commit `78cb732`: the model follows the repaired code (`Eql.boundFlag`)
and its former trigger `trigFalsy` ("a domain contains a falsy value, or a falsy literal below `for_all`") is no longer
emitted — such inputs must meet the specification like any other. -/

/-- F-C01-9: some variable of the query has an empty domain (no assignment exists, yet a branch that never
enumerates that variable — `or_` over different variable sets, a short-circuited `and_` under `not_` — answers) -/
def trigUnionEmptyDom (w : World) (q : SQuery) (e : Expr) : Bool :=
  (q.vars ++ e.vars).any fun v => (w.dom v).isEmpty

def Term.hasFlatten : Term → Bool
  | .flatten _ => true
  | .attr t _ | .index t _ => t.hasFlatten
  | _ => false

def Expr.hasFlatten : Expr → Bool
  | .cmp _ l r | .contains l r => l.hasFlatten || r.hasFlatten
  | .truth t | .hasType t _ => t.hasFlatten
  | .and l r | .elseIf l r | .union l r => l.hasFlatten || r.hasFlatten
  | .not e | .exists_ _ e | .forAll _ e => e.hasFlatten

def Expr.hasNotOrOr : Expr → Bool
  | .not _ | .elseIf _ _ | .union _ _ => true
  | .and l r => l.hasNotOrOr || r.hasNotOrOr
  | .exists_ _ e | .forAll _ e => e.hasNotOrOr
  | _ => false

/-- F-C01-10: `flatten` yields one result per element — none for an empty collection (the binding vanishes
instead of the atom being false) and a negated flattened atom means "some element fails" — so it only has its
first-order reading ("some element satisfies") in purely conjunctive positive positions -/
def trigFlatten (e : Expr) : Bool := e.hasFlatten && (e.hasNotOrOr || e.hasQuant)

def Expr.isCompound : Expr → Bool
  | .and _ _ | .elseIf _ _ | .union _ _ => true
  | .not e | .exists_ _ e | .forAll _ e => e.isCompound
  | _ => false

/-- F-C01-11: a `ForAll` over a compound condition: a candidate produced by a short-circuited branch does not bind
every other variable, and its re-check under the next universal value reads only the FIRST result of a condition
that now enumerates the unbound variable -/
def Expr.forAllCompound : Expr → Bool
  | .forAll _ e => e.isCompound || e.forAllCompound
  | .exists_ _ e | .not e => e.forAllCompound
  | .and l r | .elseIf l r | .union l r => l.forAllCompound || r.forAllCompound
  | _ => false

def triggers (w : World) (q : SQuery) : List String :=
  match q.cond.map build with
  | none => if trigMultiSel q then ["F-C01-2"] else []
  | some e =>
    (if e.unionUnderNot then ["F-C01-1"] else []) ++
    (if trigMultiSel q then ["F-C01-2"] else []) ++
    (if e.hasExists then ["F-C01-5", "F-C01-7"] else []) ++
    (if e.forAllEmpty w then ["F-C01-6"] else []) ++
    (if e.quantUnderNotOrOr then ["F-C01-8"] else []) ++
    (if trigUnionEmptyDom w q e then ["F-C01-9"] else []) ++
    (if trigFlatten e then ["F-C01-10"] else []) ++
    (if e.forAllCompound then ["F-C01-11"] else [])

end KrroodVerif.Eql
