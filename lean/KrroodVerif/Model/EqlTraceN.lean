import KrroodVerif.Model.EqlTraceQ
/-!
M-EQL trace, quantifiers in ARBITRARY position — `exists_` / `forAll` anywhere below `and` / `elseIf` / `union` / `not`
(and below each other), as event lists built on top of the frozen quantifier-free trace (`traceCmp`, `traceTerm` of
`Model/EqlTrace.lean`, which are not modified). `traceN` is `traceE` with the two quantifier clauses filled in; on
quantifier-free expressions the two are the same function (`C10N_extends`).

How a generator that keeps STATE across the results of its child is written in continuation-passing style: the child is
run with the continuation `cell`, which hands each result `(bindings, is_true)` over as ONE `row` event carrying an
encoding of the result (`encCell`; expressions themselves never emit `row` events — rows are the business of the query's
selection — so inside an expression's own stream `row` is free to mean "a result of this expression"). The stream
`traceN w c env cell` is therefore the child generator as the quantifier sees it: pull/read/err events performed while
the child computes its next result, then that result, and so on. The quantifier walks this stream:

* `Exists._evaluate__` (`existsWalkN`): every child result is looked up for the quantified variable (`val[self.variable
  ._id_]`: `KeyError` when the result does not bind it — true or false result alike); a TRUE result with a value not
  in `seen_var_values` (a list, compared with `==`) is handed on AT ONCE — the continuation's events are spliced in at
  that point of the child's stream, nothing of the child is performed ahead of it; other results are dropped.
  Each evaluation of the node (one per result of what is to its left) starts with an empty `seen` list.
* `ForAll._evaluate__` (`traceForAllN`): the universal variable is evaluated from the incoming bindings — bound: that
  one value, no pull; unbound: its domain, one `pull` per value (`uvals`); empty: `for sol in None` → `TypeError`.
  Under the first value the child is run to exhaustion (`get_all_candidate_solutions`; the candidates are its TRUE
  results restricted to the condition's other variable and literal nodes); under every later value each surviving
  candidate is re-checked by running the child from `{**candidate, **bindings}` up to its FIRST result and abandoning it
  (`evaluate_condition`: `uptoCell` — the events before the first result are performed, nothing after); the loop stops
  pulling as soon as no candidate is left (`if not solution_set: break`). Only then are the survivors handed on, merged
  into the incoming bindings, all true. So `for_all` is lazy in its universal variable and BLOCKING in its condition:
  everything it does happens before its first result.

A result met after an `err` event is meaningless (the exception has escaped); like `traceE`, the functions below keep
going and the observer looks at `hasErr` first.
Core Lean only.
-/
namespace KrroodVerif.Eql

/-! ### results as events -/

def encKey : Key → List Val
  | .var v => [.int 0, .int (Int.ofNat v)]
  | .lit i => [.int 1, .int (Int.ofNat i)]

def encEnv : Env → List Val
  | [] => []
  | (k, x) :: r => encKey k ++ x :: encEnv r

def encCell (env : Env) (t : Bool) : List Val := .bool t :: encEnv env

def decEnv : List Val → Env
  | .int tag :: .int n :: x :: r => ((if tag = 0 then Key.var n.toNat else Key.lit n.toNat), x) :: decEnv r
  | _ => []

def decCell : List Val → Env × Bool
  | .bool t :: r => (decEnv r, t)
  | _ => ([], false)

/-- the continuation that hands a result over as one event -/
def cell (env : Env) (t : Bool) : List Ev := [Ev.row (encCell env t)]

/-- the results of a stream, in order -/
def cellsOf (evs : List Ev) : List (Env × Bool) := (rowsOf evs).map decCell

/-- everything but results -/
def dropRows (evs : List Ev) : List Ev := evs.filter fun e => !e.isRow

/-- the part of a stream performed by a consumer that takes ONE result and abandons the generator: the events before
the first result, and that result (`none`: the stream ended without one) -/
def uptoCell : List Ev → List Ev × Option (Env × Bool)
  | [] => ([], none)
  | .row r :: _ => ([], some (decCell r))
  | e :: rest => let p := uptoCell rest; (e :: p.1, p.2)

/-! ### `Exists` -/

/-- `Exists._evaluate__` over the child's stream; `k` is what the parent does with a result -/
def existsWalkN (w : World) (u : VarId) (k : Env → Bool → List Ev) : List Ev → List Val → List Ev
  | [], _ => []
  | .row r :: evs, seen =>
    let c := decCell r
    match c.1.lookup (.var u) with
    | none => Ev.err .keyError :: existsWalkN w u k evs seen
    | some x =>
      if c.2 && !valIn w x seen then k c.1 true ++ existsWalkN w u k evs (seen ++ [x])
      else existsWalkN w u k evs seen
  | e :: evs, seen => e :: existsWalkN w u k evs seen

/-! ### `ForAll` -/

/-- `self.variable._evaluate__(sources)`: the events of obtaining each value of the universal variable, and the
bindings it is handed over with -/
def uvals (w : World) (u : VarId) (env : Env) : List (List Ev × Env) :=
  match env.lookup (.var u) with
  | some _ => [([], env)]
  | none => (enumFrom 0 (w.dom u)).map fun p => ([Ev.pull u p.1], (.var u, p.2) :: env)

/-- `evaluate_condition`: the truth of the first result, `False` when there is none -/
def firstTrue : Option (Env × Bool) → Bool
  | some c => c.2
  | none => false

/-- one later value of the universal variable: every surviving candidate is re-checked by taking the FIRST result of
`stream (merge candidate bindings)`; returns the events performed and the candidates that survive -/
def recheck (stream : Env → List Ev) (envq : Env) : List Env → List Ev × List Env
  | [] => ([], [])
  | sol :: rest =>
    let p := uptoCell (stream (merge sol envq))
    let r := recheck stream envq rest
    let keep := firstTrue p.2
    (p.1 ++ r.1, if keep then sol :: r.2 else r.2)

/-- the later values of the universal variable, while candidates survive -/
def forAllLoopN (stream : Env → List Ev) : List (List Ev × Env) → List Env → List Ev × List Env
  | [], sols => ([], sols)
  | (pre, envq) :: rest, sols =>
    if sols.isEmpty then ([], [])
    else
      let s := recheck stream envq sols
      let r := forAllLoopN stream rest s.2
      (pre ++ s.1 ++ r.1, r.2)

/-- `ForAll._evaluate__`; `stream e` is the child's stream from the bindings `e`, `others` the condition's variable and
literal nodes except the universal variable -/
def traceForAllN (w : World) (u : VarId) (others : List Key) (stream : Env → List Ev) (env : Env)
    (k : Env → Bool → List Ev) : List Ev :=
  match uvals w u env with
  | [] => [Ev.err .typeError]
  | (pre, env1) :: rest =>
    let first := stream env1
    let cands := ((cellsOf first).filter (·.2)).map fun c => restrict c.1 others
    let r := forAllLoopN stream rest cands
    pre ++ dropRows first ++ r.1 ++ r.2.flatMap fun sol => k (merge env sol) true

/-! ### expressions -/

/-- `traceE` with quantifiers anywhere -/
def traceN (w : World) : Expr → Env → (Env → Bool → List Ev) → List Ev
  | .cmp op l r, env, k => traceCmp w l r (applyCmp w op) env k
  | .contains c i, env, k => traceCmp w c i (applyContains w) env k
  | .truth t, env, k => traceTerm w true t env fun e _ tr => k e tr
  | .hasType t c, env, k => traceTerm w false t env fun e x _ => k e (isInstance w x c)
  | .and l r, env, k => traceN w l env fun e1 t => if t then traceN w r e1 k else k e1 false
  | .elseIf l r, env, k => traceN w l env fun e1 t => if t then k e1 true else traceN w r e1 k
  | .union l r, env, k =>
    (traceN w l env fun e1 t => if t then k e1 true else traceN w r e1 k) ++ traceN w r env k
  | .not e, env, k => traceN w e env fun e1 t => k e1 (!t)
  | .exists_ u c, env, k => existsWalkN w u k (traceN w c env cell) []
  | .forAll u c, env, k =>
    traceForAllN w u (c.nodes.filter (· != .var u)) (fun e => traceN w c e cell) env k

/-- the expression's own stream: its events with its results in place -/
def streamN (w : World) (e : Expr) (env : Env) : List Ev := traceN w e env cell

def traceQueryN (w : World) (q : Query) : List Ev :=
  match q.cond with
  | some c => traceN w c [] fun env t => if t then traceSel w env q.sel [] else []
  | none => traceSel w [] q.sel []

/-- quantifiers somewhere below the root of the condition (the queries `traceQueryQ` does not cover) -/
def Expr.hasQ : Expr → Bool
  | .and l r | .elseIf l r | .union l r => l.hasQ || r.hasQ
  | .not e => e.hasQ
  | .exists_ _ _ | .forAll _ _ => true
  | _ => false

end KrroodVerif.Eql
