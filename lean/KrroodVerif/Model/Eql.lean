/-!
M-EQL — executable model of the EQL evaluation engine (`symbolic.py`, `entity.py`, `hashed_data.py`).
Core Lean only.

Transcribed (see DESIGN.md §5/C01 for the exact reading of the Python):

* results are `(bindings, is_false)`; here `(Env × Bool)` with the Bool = **is_true**;
* `Variable._evaluate__`: bound → one result, whose truth is the truthiness of the bound value where the variable
  itself is a condition (parent is a logical operator / conditions root) and TRUE where it is an operand (`boundFlag`;
  before fix commit `78cb732` it was the truthiness everywhere: F-C01-3 / F-C02-1);
  unbound → one result per domain element, true;
* `Literal` is a `Variable` node with its own id and a one-element domain: its binding travels in the
  environment (so a literal can be met *bound*, e.g. under `for_all`);
* `Attribute` (a `DomainMapping`): maps every child result; its truth flag is only refreshed when the node
  is used as a condition (parent is a logical operator or it is the conditions root);
* `Comparator`: evaluates first the operand that already has a bound variable/literal (the right one, if the
  environment is non-empty and one of its variables is bound), **filters operand results by `is_true`**,
  applies the operation (`==`/`!=` on two iterables compares them as sets);
* `AND`, `ElseIf`, `Union` (= left-with-fall-through ++ right alone), `Not`;
* `Exists`: looks up its variable in **every** condition result (`KeyError` if unbound), keeps true ones,
  de-duplicates on the variable's value with `==`; yields only true results;
* `ForAll`: candidates = true condition results under the first universal value restricted to the condition's
  other variables and literal nodes; filtered by the first condition result under each further value; no case
  for an empty universal domain (`TypeError`); yields only true results;
* `not_` is a construction-time rewrite (`_invert_`: quantifiers dualise, everything else is wrapped in `Not`);
  `or_` builds `ElseIf` iff both sides have the same non-literal variables, else `Union`;
* `QueryObjectDescriptor`: keeps true condition results, evaluates each selected expression **independently**
  from the row's bindings and yields the product.

Grammar restriction (DESIGN §4): every attribute/comparator node occurs once (tree-shaped queries).
-/
namespace KrroodVerif.Eql

abbrev VarId := Nat

inductive Val where
  | int (n : Int)
  | bool (b : Bool)
  | list (xs : List Int)     -- a list of numbers
  | obj (i : Nat)            -- a user object (index into `World.objs`), compared by identity unless its class says otherwise
  | objs (is : List Nat)     -- a list of user objects
  | none                     -- Python `None`
  | set (xs : List Int)      -- a `frozenset` of numbers: ordered by inclusion, a PARTIAL order
  deriving DecidableEq, Repr, Inhabited

/-- user objects: class id, attribute table (a zero-argument method `m` is the attribute `m()` holding its result);
`veq` = the class defines value equality (`@dataclass` with `eq=True`) -/
structure Obj where
  cls : Nat
  fields : List (String × Val)
  veq : Bool
  deriving DecidableEq, Repr, Inhabited

structure World where
  objs : List Obj
  doms : List (VarId × List Val)
  /-- `(c, d)`: class `c` is a (transitive, strict) subclass of `d` -/
  subclass : List (Nat × Nat) := []
  deriving Repr

def World.dom (w : World) (v : VarId) : List Val := (w.doms.lookup v).getD []

abbrev AttrName := String

inductive Err where
  | keyError     -- Exists: a condition result does not bind the quantified variable
  | typeError    -- ForAll over an empty universal domain (`for sol in None`)
  | attrError    -- attribute of a non-object / unknown attribute (`AttributeError`)
  | indexError   -- list index out of range (`IndexError`)
  | badOperand   -- comparison / membership / iteration on operand types Python rejects (`TypeError`)
  deriving DecidableEq, Repr

inductive Term where
  | var (v : VarId)
  | lit (id : VarId) (val : Val)
  | attr (t : Term) (name : AttrName)     -- `Attribute`; also `Call` of a zero-argument method (name `m()`)
  | index (t : Term) (i : Nat)            -- `Index` with a non-negative integer key
  | flatten (t : Term)                    -- `Flatten`: one result per element of an iterable value
  deriving DecidableEq, Repr

inductive CmpOp where | eq | ne | lt | le | gt | ge
  deriving DecidableEq, Repr

/-- expressions as the engine evaluates them (after construction) -/
inductive Expr where
  | cmp (op : CmpOp) (l r : Term)
  | contains (container item : Term)      -- `Comparator(container, item, operator.contains)`
  | truth (t : Term)                      -- an attribute chain used as a condition
  | hasType (t : Term) (cls : Nat)        -- the predicate `HasType(t, cls)` (one symbolic argument)
  | and (l r : Expr)
  | elseIf (l r : Expr)
  | union (l r : Expr)
  | not (e : Expr)
  | exists_ (v : VarId) (e : Expr)
  | forAll (v : VarId) (e : Expr)
  deriving DecidableEq, Repr

/-- expressions as the user writes them -/
inductive SExpr where
  | cmp (op : CmpOp) (l r : Term)
  | contains (container item : Term)
  | truth (t : Term)
  | hasType (t : Term) (cls : Nat)
  | and (l r : SExpr)
  | or (l r : SExpr)
  | not (e : SExpr)
  | exists_ (v : VarId) (e : SExpr)
  | forAll (v : VarId) (e : SExpr)
  deriving DecidableEq, Repr

/-- keys of the bindings dictionary: variable nodes and literal nodes (both are `Variable`s with an `_id_` in the
engine; kept apart here so that literal bindings can never be confused with variable bindings) -/
inductive Key where
  | var (v : VarId)
  | lit (id : Nat)
  deriving DecidableEq, Repr

abbrev Env := List (Key × Val)

def truthy : Val → Bool
  | .int n => n != 0
  | .bool b => b
  | .list xs => !xs.isEmpty
  | .obj _ => true
  | .objs xs => !xs.isEmpty
  | .none => false
  | .set xs => !xs.isEmpty

/-! ### variables of terms and expressions -/

/-- variable *and literal* nodes (a `Literal` is a `Variable` in the engine) -/
def Term.nodes : Term → List Key
  | .var v => [.var v]
  | .lit id _ => [.lit id]
  | .attr t _ | .index t _ | .flatten t => t.nodes

/-- non-literal variables -/
def Term.vars : Term → List VarId
  | .var v => [v]
  | .lit _ _ => []
  | .attr t _ | .index t _ | .flatten t => t.vars

def Expr.nodes : Expr → List Key
  | .cmp _ l r => l.nodes ++ r.nodes
  | .contains c i => c.nodes ++ i.nodes
  | .truth t | .hasType t _ => t.nodes
  | .and l r | .elseIf l r | .union l r => l.nodes ++ r.nodes
  | .not e => e.nodes
  | .exists_ v e | .forAll v e => .var v :: e.nodes

def Expr.vars : Expr → List VarId
  | .cmp _ l r => l.vars ++ r.vars
  | .contains c i => c.vars ++ i.vars
  | .truth t | .hasType t _ => t.vars
  | .and l r | .elseIf l r | .union l r => l.vars ++ r.vars
  | .not e => e.vars
  | .exists_ v e | .forAll v e => v :: e.vars

def sameSet (a b : List VarId) : Bool := a.all (b.contains ·) && b.all (a.contains ·)

/-! ### construction: `not_` and `or_` -/

/-- `operand._invert_()` -/
def invert : Expr → Expr
  | .exists_ v e => .forAll v (invert e)
  | .forAll v e => .exists_ v (invert e)
  | e => .not e

/-- `optimize_or` -/
def mkOr (l r : Expr) : Expr := if sameSet l.vars r.vars then .elseIf l r else .union l r

def build : SExpr → Expr
  | .cmp op l r => .cmp op l r
  | .contains c i => .contains c i
  | .truth t => .truth t
  | .hasType t c => .hasType t c
  | .and l r => .and (build l) (build r)
  | .or l r => mkOr (build l) (build r)
  | .not e => invert (build e)
  | .exists_ v e => .exists_ v (build e)
  | .forAll v e => .forAll v (build e)

/-! ### values -/

def getAttr (w : World) (v : Val) (n : AttrName) : Except Err Val :=
  match v with
  | .obj i =>
    match w.objs[i]? with
    | some o => match o.fields.lookup n with
      | some x => .ok x
      | none => .error .attrError
    | none => .error .attrError
  | _ => .error .attrError

/-- `value[key]` for a non-negative integer key -/
def getIndex (v : Val) (i : Nat) : Except Err Val :=
  match v with
  | .list xs => match xs[i]? with | some x => .ok (.int x) | none => .error .indexError
  | .objs xs => match xs[i]? with | some x => .ok (.obj x) | none => .error .indexError
  | _ => .error .badOperand

/-- `for inner in value` -/
def elements (v : Val) : Except Err (List Val) :=
  match v with
  | .list xs => .ok (xs.map Val.int)
  | .objs xs => .ok (xs.map Val.obj)
  | _ => .error .badOperand

/-- `isinstance(v, cls)` -/
def isInstance (w : World) (v : Val) (cls : Nat) : Bool :=
  match v with
  | .obj i => match w.objs[i]? with
    | some o => o.cls == cls || w.subclass.contains (o.cls, cls)
    | none => false
  | _ => false

/-- `==` on user objects: identity, or same class and equal attribute tables for `eq=True` classes (attribute values
that are themselves objects are compared by identity: the generators only make flat value-equal classes) -/
def objEq (w : World) (i j : Nat) : Bool :=
  i == j || (match w.objs[i]?, w.objs[j]? with
    | some p, some q => p.veq && q.veq && p.cls == q.cls && p.fields == q.fields
    | _, _ => false)

/-- Python `==` on the values of the model (`True == 1`; objects: identity, or field-wise for `eq=True` classes) -/
def valEq (w : World) : Val → Val → Bool
  | .int a, .int b => a == b
  | .bool a, .bool b => a == b
  | .int a, .bool b => a == (if b then 1 else 0)
  | .bool a, .int b => (if a then 1 else 0) == b
  | .list a, .list b => a == b
  | .obj i, .obj j => objEq w i j
  | .objs a, .objs b => a.length == b.length && (a.zip b).all fun p => objEq w p.1 p.2
  | .none, .none => true
  | .set a, .set b => a.all (b.contains ·) && b.all (a.contains ·)
  | _, _ => false

def asNum : Val → Option Int
  | .int n => some n
  | .bool b => some (if b then 1 else 0)
  | _ => none

def setEq (a b : List Int) : Bool := a.all (b.contains ·) && b.all (a.contains ·)

/-- `set(a) == set(b)` on lists of objects (hash = identity for the classes the generators use in such lists) -/
def setEqObjs (a b : List Nat) : Bool := a.all (b.contains ·) && b.all (a.contains ·)

/-- `Comparator.apply_operation` -/
def applyCmp (w : World) (op : CmpOp) (l r : Val) : Except Err Bool :=
  match op with
  | .eq => match l, r with
    | .list a, .list b => .ok (setEq a b)
    | .objs a, .objs b => .ok (setEqObjs a b)
    | _, _ => .ok (valEq w l r)
  | .ne => match l, r with
    | .list a, .list b => .ok (!setEq a b)
    | .objs a, .objs b => .ok (!setEqObjs a b)
    | _, _ => .ok (!valEq w l r)
  | _ => match l, r with
    | .set a, .set b =>
      -- inclusion: `a < b` and `a >= b` are BOTH false for incomparable sets
      let sub := a.all (b.contains ·)
      let sup := b.all (a.contains ·)
      .ok (match op with | .lt => sub && !sup | .le => sub | .gt => sup && !sub | _ => sup)
    | _, _ => match asNum l, asNum r with
      | some a, some b => .ok (match op with
          | .lt => decide (a < b) | .le => decide (a ≤ b) | .gt => decide (a > b) | _ => decide (a ≥ b))
      | _, _ => .error .badOperand

/-- `operator.contains(container, item)`: list membership uses `==` -/
def applyContains (w : World) (container item : Val) : Except Err Bool :=
  match container with
  | .list xs => .ok (xs.any fun x => valEq w (.int x) item)
  | .objs xs => .ok (xs.any fun x => valEq w (.obj x) item)
  | .set xs => .ok (xs.any fun x => valEq w (.int x) item)
  | _ => .error .badOperand

/-! ### evaluation -/

def flatMapM {α β} (xs : List α) (f : α → Except Err (List β)) : Except Err (List β) :=
  match xs with
  | [] => .ok []
  | x :: r => do
    let a ← f x
    let b ← flatMapM r f
    pure (a ++ b)

/-- `Variable._evaluate__` of the quantified variable of `ForAll` (its parent is the `ForAll`, a logical operator, so
a bound value is flagged with its truthiness; `ForAll` and the sub-query model ignore the flag) -/
def evalVar (w : World) (v : VarId) (env : Env) : List (Env × Val × Bool) :=
  match env.lookup (.var v) with
  | some x => [(env, x, truthy x)]
  | none => (w.dom v).map fun x => ((.var v, x) :: env, x, true)

/-- the flag of an already BOUND variable / literal node: its truthiness only where the node itself is a condition
(parent is a logical operator, or it is the conditions root, or — `Model/EqlSub.lean` evaluates a sub-query's condition
with `eval` — the whole condition of a nested query); as an operand (of a comparison, an attribute access, a call) a
falsy value is a value like any other (repair of F-C01-3 / F-C02-1, fix commit `78cb732`) -/
def boundFlag (condPos : Bool) (x : Val) : Bool := if condPos then truthy x else true

/-- `Variable._evaluate__` of a variable node used as an operand (`condPos = false`) or as a condition
(`condPos = true`); same shape as `evalVar` (which is `evalVarAt w true`) -/
def evalVarAt (w : World) (condPos : Bool) (v : VarId) (env : Env) : List (Env × Val × Bool) :=
  match env.lookup (.var v) with
  | some x => [(env, x, boundFlag condPos x)]
  | none => (w.dom v).map fun x => ((.var v, x) :: env, x, true)

/-- a term as an operand (`condPos = false`) or as a condition (`condPos = true`): `(bindings, value, is_true)` -/
def evalTerm (w : World) (condPos : Bool) : Term → Env → Except Err (List (Env × Val × Bool))
  | .var v, env => .ok (evalVarAt w condPos v env)
  | .lit id x, env =>
    match env.lookup (.lit id) with
    | some y => .ok [(env, y, boundFlag condPos y)]
    | none => .ok [((.lit id, x) :: env, x, true)]
  | .attr t n, env => do
    let rs ← evalTerm w false t env
    rs.mapM fun r => do
      let x ← getAttr w r.2.1 n
      pure (r.1, x, if condPos then truthy x else true)
  | .index t i, env => do
    let rs ← evalTerm w false t env
    rs.mapM fun r => do
      let x ← getIndex r.2.1 i
      pure (r.1, x, if condPos then truthy x else true)
  | .flatten t, env => do
    let rs ← evalTerm w false t env
    flatMapM rs fun r => do
      let xs ← elements r.2.1
      pure (xs.map fun x => (r.1, x, if condPos then truthy x else true))

def envHasAny (env : Env) (ids : List Key) : Bool := ids.any fun v => (env.lookup v).isSome

/-- `Comparator._evaluate__` for an arbitrary binary operation on the two operand values -/
def evalCmp (w : World) (l r : Term) (op : Val → Val → Except Err Bool) (env : Env) :
    Except Err (List (Env × Bool)) := do
  let swap := !env.isEmpty && envHasAny env r.nodes
  let first := if swap then r else l
  let second := if swap then l else r
  let r1 ← evalTerm w false first env
  flatMapM (r1.filter (·.2.2)) fun p1 => do
    let r2 ← evalTerm w false second p1.1
    (r2.filter (·.2.2)).mapM fun p2 => do
      let lv := if swap then p2.2.1 else p1.2.1
      let rv := if swap then p1.2.1 else p2.2.1
      let b ← op lv rv
      pure (p2.1, b)

def restrict (env : Env) (ids : List Key) : Env := env.filter fun p => ids.contains p.1

/-- `{**a, **b}` as an association list with first-match lookup: `b`'s bindings win -/
def merge (a b : Env) : Env := b ++ a

def valIn (w : World) (x : Val) (seen : List Val) : Bool := seen.any (valEq w x)

/-- `Exists._evaluate__` over the already computed condition results -/
def existsFilter (w : World) (q : VarId) :
    List (Env × Bool) → List Val → Except Err (List (Env × Bool))
  | [], _ => .ok []
  | (env1, t) :: rest, seen =>
    match env1.lookup (.var q) with
    | none => .error .keyError
    | some x =>
      if t && !valIn w x seen then do
        let r ← existsFilter w q rest (seen ++ [x])
        pure ((env1, true) :: r)
      else existsFilter w q rest seen

def eval (w : World) : Expr → Env → Except Err (List (Env × Bool))
  | .cmp op l r, env => evalCmp w l r (applyCmp w op) env
  | .contains c i, env => evalCmp w c i (applyContains w) env
  | .truth t, env => do
    let rs ← evalTerm w true t env
    pure (rs.map fun r => (r.1, r.2.2))
  | .hasType t c, env => do
    let rs ← evalTerm w false t env
    pure (rs.map fun r => (r.1, isInstance w r.2.1 c))
  | .and l r, env => do
    let ls ← eval w l env
    flatMapM ls fun p => if p.2 then eval w r p.1 else pure [(p.1, false)]
  | .elseIf l r, env => do
    let ls ← eval w l env
    flatMapM ls fun p => if p.2 then pure [(p.1, true)] else eval w r p.1
  | .union l r, env => do
    let ls ← eval w l env
    let a ← flatMapM ls fun p => if p.2 then pure [(p.1, true)] else eval w r p.1
    let b ← eval w r env
    pure (a ++ b)
  | .not e, env => do
    let rs ← eval w e env
    pure (rs.map fun p => (p.1, !p.2))
  | .exists_ q c, env => do
    let rs ← eval w c env
    existsFilter w q rs []
  | .forAll q c, env =>
    let others := c.nodes.filter (· != .var q)
    match evalVar w q env with
    | [] => .error .typeError
    | first :: rest => do
      let c0 ← eval w c first.1
      let cands := (c0.filter (·.2)).map fun p => restrict p.1 others
      let final ← rest.foldlM (fun (sols : List Env) qv =>
          sols.filterM fun sol => do
            let rs ← eval w c (merge sol qv.1)
            pure (match rs with | r :: _ => r.2 | [] => false)) cands
      pure (final.map fun sol => (merge env sol, true))

/-- `QueryObjectDescriptor._evaluate__` + `ResultQuantifier._process_result_`: rows of selected values -/
def product {α} : List (List α) → List (List α)
  | [] => [[]]
  | xs :: rest => xs.flatMap fun x => (product rest).map (x :: ·)

structure Query where
  sel : List Term
  cond : Option Expr

def evalQuery (w : World) (q : Query) : Except Err (List (List Val)) := do
  let rows ← match q.cond with
    | some c => do let rs ← eval w c []; pure ((rs.filter (·.2)).map (·.1))
    | none => pure [[]]
  flatMapM rows fun env => do
    let per ← q.sel.mapM fun s => do
      let rs ← evalTerm w false s env
      pure (rs.map (·.2.1))
    pure (product per)

/-! ### Specification: ordinary first-order reading -/

abbrev Asg := List (VarId × Val)

def tval (w : World) (σ : Asg) : Term → Except Err Val
  | .var v => match σ.lookup v with | some x => .ok x | none => .error .keyError
  | .lit _ x => .ok x
  | .attr t n => do let x ← tval w σ t; getAttr w x n
  | .index t i => do let x ← tval w σ t; getIndex x i
  | .flatten _ => .error .badOperand   -- a flattened term has no single value; see `tvals`

/-- all values of a term under an assignment (`flatten` ranges over the elements) -/
def tvals (w : World) (σ : Asg) : Term → Except Err (List Val)
  | .var v => match σ.lookup v with | some x => .ok [x] | none => .error .keyError
  | .lit _ x => .ok [x]
  | .attr t n => do (← tvals w σ t).mapM fun x => getAttr w x n
  | .index t i => do (← tvals w σ t).mapM fun x => getIndex x i
  | .flatten t => do flatMapM (← tvals w σ t) elements

def allM {α} (xs : List α) (f : α → Except Err Bool) : Except Err Bool :=
  match xs with
  | [] => .ok true
  | x :: r => do let a ← f x; let b ← allM r f; pure (a && b)

def anyM {α} (xs : List α) (f : α → Except Err Bool) : Except Err Bool :=
  match xs with
  | [] => .ok false
  | x :: r => do let a ← f x; let b ← anyM r f; pure (a || b)

def sat (w : World) : SExpr → Asg → Except Err Bool
  | .cmp op l r, σ => do
    -- a comparison over flattened operands holds iff it holds for some pair of elements
    let ls ← tvals w σ l; let rs ← tvals w σ r
    anyM ls fun a => anyM rs fun b => applyCmp w op a b
  | .contains c i, σ => do
    let cs ← tvals w σ c; let is ← tvals w σ i
    anyM cs fun a => anyM is fun b => applyContains w a b
  | .truth t, σ => do pure ((← tvals w σ t).any truthy)
  | .hasType t c, σ => do pure ((← tvals w σ t).any fun x => isInstance w x c)
  | .and l r, σ => do pure ((← sat w l σ) && (← sat w r σ))
  | .or l r, σ => do pure ((← sat w l σ) || (← sat w r σ))
  | .not e, σ => do pure (!(← sat w e σ))
  | .exists_ v e, σ => anyM (w.dom v) fun x => sat w e ((v, x) :: σ)
  | .forAll v e, σ => allM (w.dom v) fun x => sat w e ((v, x) :: σ)

def SExpr.freeVars : SExpr → List VarId
  | .cmp _ l r => l.vars ++ r.vars
  | .contains c i => c.vars ++ i.vars
  | .truth t | .hasType t _ => t.vars
  | .and l r | .or l r => l.freeVars ++ r.freeVars
  | .not e => e.freeVars
  | .exists_ v e | .forAll v e => e.freeVars.filter (· != v)

def dedupNat (xs : List VarId) : List VarId :=
  xs.foldl (fun acc x => if acc.contains x then acc else acc ++ [x]) []

/-- all total assignments of `vs` (first variable = outermost loop) -/
def assignments (w : World) : List VarId → List Asg
  | [] => [[]]
  | v :: rest => (w.dom v).flatMap fun x => (assignments w rest).map ((v, x) :: ·)

structure SQuery where
  sel : List Term
  cond : Option SExpr

def SQuery.vars (q : SQuery) : List VarId :=
  dedupNat (q.sel.flatMap Term.vars ++ (match q.cond with | some c => c.freeVars | none => []))

def SQuery.toQuery (q : SQuery) : Query := { sel := q.sel, cond := q.cond.map build }

/-- the satisfying assignments projected onto the selection, in nested-loop order, with multiplicity -/
def solutions (w : World) (q : SQuery) : Except Err (List (List Val)) := do
  let sols ← (assignments w q.vars).filterM fun σ =>
    match q.cond with | some c => sat w c σ | none => pure true
  sols.mapM fun σ => q.sel.mapM (tval w σ)

end KrroodVerif.Eql
