/-!
M-DAO — object ↔ DAO conversion (`krrood/ormatic/dao.py`) and the relational store the generated ORM layer
writes to (`wrapped_table.py`, `templates/sqlalchemy_model.py.jinja`, SQLAlchemy's unit of work). Core Lean only.

Python → model
* An object graph is an abstract heap `oid ↦ (class, scalars, reference fields)`; a reference field is
  `none | one oid | many [oid…]`. Identity (`id(obj)`, which both memo tables are keyed by) is the index.
  Scalars are opaque text: the model is about *structure* (which node ends up where, sharing, cycles); that a
  float/enum/datetime/UUID/JSON value survives a column is checked on the real code by the correspondence only.
* `DataAccessObject.to_dao` / `DataAccessObject.from_dao` are both *memoised depth-first graph copies with
  registration before the descent* (`state.register(obj, result)` / `allocate_and_memoize`): `copyNode`.
* An alternatively mapped class passes through its mapping (`AlternativeMapping.create_instance` on the way in,
  `create_from_dao` on the way out). The mapping pair is user code, hence a parameter: a node carries the `view`
  `create_instance` shows, `from_dao` gets `unmap`. `from_dao` of such a DAO is two-phase: it allocates and memoises
  the *intermediate mapping instance*, descends, initialises it, and only then replaces the memo entry by
  `create_from_dao()` — so a reference resolved while the DAO is still in progress ends up at the intermediate
  (finding F-C04-1; `Params.quirk`). The fix-ups (`apply_circular_fixes`) re-read the memo after the descent of the
  node that holds the reference, when the entry of an ancestor in progress is still the intermediate, so they change
  nothing in this model.
* DAOs below an alternatively mapped ancestor (`to_dao_if_subclass_of_alternative_mapping`,
  `_build_base_kwargs_for_alternative_parent`): the memo entry is removed and restored around a call that does not
  descend, the columns come through the parent's mapping: kind `sub` — same copy, scalars through `view`/`unmap`.
* Relational store: `flush` writes one row per DAO (one id for all tables of its joined-inheritance chain, the
  discriminator = the DAO class), foreign-key cells for single references and one association row per list element;
  `load` rebuilds the DAO graph from the rows. SQLAlchemy's direction inference is the parameter `dir`.
-/
namespace KrroodVerif.Dao

/-! ### Heaps -/

inductive Ref where
  | none
  | one (t : Nat)
  | many (ts : List Nat)
  deriving Repr, DecidableEq, Inhabited

inductive Kind where
  | plain  -- mapped directly
  | alt    -- alternatively mapped (`AlternativeMapping[T]`): two-phase in `from_dao`
  | sub    -- mapped directly, but below an alternatively mapped ancestor DAO
  deriving Repr, DecidableEq, Inhabited

structure Label where
  cls : String
  scal : String
  deriving Repr, DecidableEq, Inhabited

/-- per reference field, schema facts the store needs -/
structure FieldMeta where
  /-- the declared target lies in the source's own table hierarchy and the generated relationship has no
  `remote_side` (SQLAlchemy then infers ONETOMANY) -/
  selfHier : Bool
  /-- the column (`<DAO>.<field>_id`) or association table the field is stored in -/
  name : String
  deriving Repr, DecidableEq, Inhabited

structure Node where
  lab : Label
  kind : Kind
  /-- objects: what `create_instance` shows (mapping class, DAO columns); unused for plain nodes and for DAOs -/
  view : Label
  /-- DAO tables of the joined-inheritance chain, own table first -/
  tabs : List String
  fields : List FieldMeta
  refs : List Ref
  /-- rows this object contributes beyond its own chain: mapped sub-objects that its `create_instance` builds on the
  fly (they live only inside the mapping's view, opaque to the model) and their association rows -/
  extra : List (String × Nat) := []
  /-- kind `sub` only: how many leading scalar entries / reference fields `from_dao` takes from the object rebuilt
  through the temporary parent DAO (`_build_base_kwargs_for_alternative_parent`) -/
  pf : Nat × Nat := (0, 0)
  /-- kind `sub` only: the object's class lies two or more levels below the alternatively mapped class (its direct
  base DAO is not the DAO of the mapping) -/
  deep : Bool := false
  deriving Repr, DecidableEq, Inhabited

abbrev Heap := List Node

def Node.withRefs (n : Node) (rs : List Ref) : Node := { n with refs := rs }

def Ref.targets : Ref → List Nat
  | .none => []
  | .one t => [t]
  | .many ts => ts

def Node.targets (n : Node) : List Nat := n.refs.flatMap Ref.targets

/-- no dangling references -/
def Heap.WF (h : Heap) : Prop := ∀ n ∈ h, ∀ t ∈ n.targets, t < h.length

def Heap.wf (h : Heap) : Bool := h.all fun n => n.targets.all fun t => decide (t < h.length)

/-! ### The memoised copy (both `to_dao` and `from_dao`) -/

structure Params where
  /-- the converted node (class, scalars, schema facts); its references are overwritten by the copy -/
  conv : Node → Node
  /-- two-phase nodes: the intermediate instance that is allocated and memoised first -/
  inter : Node → Option Node
  /-- today's `from_dao`: while a two-phase node is in progress its memo entry is the intermediate -/
  quirk : Bool

structure St where
  /-- `state.memo`: source identity ↦ result slot (of the final object) -/
  memo : List (Nat × Nat)
  /-- the result heap under construction; allocation = append -/
  out : Heap
  /-- result slots of two-phase nodes that are still in progress (their memo entry is the intermediate, slot-1) -/
  prog : List Nat
  /-- how many references were resolved to a two-phase node in progress (the trigger of F-C04-1) -/
  hits : Nat
  deriving Repr, DecidableEq

def St.empty : St := ⟨[], [], [], 0⟩

abbrev Rec := Nat → St → Option (Nat × St)

/-- `_extract_collection_relationship` / `parse_collection`: element by element, left to right -/
def copyList (rec : Rec) : List Nat → St → Option (List Nat × St)
  | [], st => some ([], st)
  | t :: ts, st =>
    match rec t st with
    | none => none
    | some (d, st1) =>
      match copyList rec ts st1 with
      | none => none
      | some (ds, st2) => some (d :: ds, st2)

/-- `_extract_single_relationship` / `parse_single` (`None` stays `None`) and the collection case -/
def copyRef (rec : Rec) : Ref → St → Option (Ref × St)
  | .none, st => some (.none, st)
  | .one t, st =>
    match rec t st with
    | none => none
    | some (d, st1) => some (.one d, st1)
  | .many ts, st =>
    match copyList rec ts st with
    | none => none
    | some (ds, st1) => some (.many ds, st1)

/-- `get_relationships_from` / `_collect_relationship_kwargs`: the relationships in mapper order -/
def copyRefs (rec : Rec) : List Ref → St → Option (List Ref × St)
  | [], st => some ([], st)
  | r :: rs, st =>
    match copyRef rec r st with
    | none => none
    | some (r', st1) =>
      match copyRefs rec rs st1 with
      | none => none
      | some (rs', st2) => some (r' :: rs', st2)

/-- `DataAccessObject.to_dao(obj, state)` / `DataAccessObject.from_dao(state)`.
`none` = out of fuel or a dangling reference (never happens for a well-formed heap with fuel = size + 1). -/
def copyNode (P : Params) (h : Heap) : Nat → Nat → St → Option (Nat × St)
  | 0, _, _ => none
  | fuel + 1, o, st =>
    match st.memo.lookup o with
    | some f =>
      -- `existing = state.get_existing(obj)` / `if state.has(self): return state.get(self)`
      if st.prog.contains f then
        some (if P.quirk then f - 1 else f, { st with hits := st.hits + 1 })
      else some (f, st)
    | none =>
      match h[o]? with
      | none => none
      | some n =>
        match P.inter n with
        | none =>
          -- `result = cls(); state.register(obj, result)` BEFORE the descent
          let d := st.out.length
          let st1 : St := { st with memo := (o, d) :: st.memo, out := st.out ++ [(P.conv n).withRefs []] }
          match copyRefs (copyNode P h fuel) n.refs st1 with
          | none => none
          | some (rs, st2) => some (d, { st2 with out := st2.out.set d ((P.conv n).withRefs rs) })
        | some m =>
          -- `allocate_and_memoize` the mapping instance (slot d); the object `create_from_dao()` will return is
          -- slot d+1 (allocation order is unobservable); `state.memo[id(self)] = result` after the descent
          let d := st.out.length
          let st1 : St := { st with memo := (o, d + 1) :: st.memo,
                                    out := st.out ++ [m.withRefs [], (P.conv n).withRefs []],
                                    prog := (d + 1) :: st.prog }
          match copyRefs (copyNode P h fuel) n.refs st1 with
          | none => none
          | some (rs, st2) =>
            some (d + 1, { st2 with out := (st2.out.set d (m.withRefs rs)).set (d + 1) ((P.conv n).withRefs rs),
                                    prog := st2.prog.erase (d + 1) })

/-- several roots converted with one shared state (`to_dao(o, state)` for each root) -/
def copyRoots (P : Params) (h : Heap) (roots : List Nat) : Option (List Nat × St) :=
  copyList (copyNode P h (h.length + 1)) roots St.empty

/-! ### `to_dao` and `from_dao` as instances -/

def noView : Label := ⟨"", ""⟩

/-- the DAO of an object: class = the DAO's `original_class()` (the mapping class for alternatively mapped objects),
columns = the object's scalars, or what the mapping shows -/
def daoMk (n : Node) : Node :=
  { n with
    lab := (match n.kind with
      | .plain => n.lab
      | .alt => n.view
      | .sub => ⟨n.lab.cls, n.view.scal⟩),
    view := noView, refs := [] }

def toDaoParams : Params := { conv := daoMk, inter := fun _ => none, quirk := false }

/-- the domain object of a DAO; `unmap` stands for `create_from_dao` (and the base-kwargs detour for `sub`) -/
def objMk (unmap : Label → Option Label) (m : Node) : Node :=
  { m with
    lab := (match m.kind with
      | .plain => m.lab
      | _ => (unmap m.lab).getD m.lab),
    view := noView, refs := [] }

/-- the intermediate of an alternatively mapped DAO: the mapping instance itself -/
def objInter (m : Node) : Option Node :=
  match m.kind with
  | .alt => some { m with view := noView, refs := [] }
  | _ => none

def fromDaoParams (quirk : Bool) (unmap : Label → Option Label) : Params :=
  { conv := objMk unmap, inter := objInter, quirk := quirk }

def toDao (h : Heap) (roots : List Nat) : Option (List Nat × St) := copyRoots toDaoParams h roots

def fromDao (quirk : Bool) (unmap : Label → Option Label) (dh : Heap) (roots : List Nat) : Option (List Nat × St) :=
  copyRoots (fromDaoParams quirk unmap) dh roots

/-- `to_dao(obj).from_dao()` -/
def roundTrip (quirk : Bool) (unmap : Label → Option Label) (h : Heap) (roots : List Nat) : Option (List Nat × St) :=
  match toDao h roots with
  | none => none
  | some (droots, st) => fromDao quirk unmap st.out droots

/-- trigger of F-C04-1 (decidable, defined by the run of today's `from_dao` itself): a reference to an alternatively
mapped DAO is resolved while that DAO is still in progress — on the source graph: an alternatively mapped object has
a depth-first back edge into it, e.g. it is the root and lies on a cycle -/
def trigStale (unmap : Label → Option Label) (h : Heap) (roots : List Nat) : Bool :=
  match roundTrip true unmap h roots with
  | some (_, st) => st.hits != 0
  | none => false

/-! ### F-C04-2: the temporary parent DAO of a `sub` node is memoised by `id()` but not kept alive

`_build_base_kwargs_for_alternative_parent` builds `parent_dao = base()`, converts it with the shared `FromDAOState`
(so `state.memo[id(parent_dao)]` stays behind) and drops it. When a later `sub` node's temporary parent DAO is
allocated at the same address, `state.has(parent_dao)` is true and the object rebuilt for the EARLIER node is used:
the later object gets the earlier one's parent-side scalars and references. Whether addresses collide is decided by
the allocator / garbage collector, i.e. nondeterministic: the model applies an explicit `choice` (later slot ↦ donor
slot) to the result heap. Sound as a post-processing step because in the grammar the harness generates `sub` nodes
do not nest (their parent-side references lead to plain leaves), so they are processed one after the other in
allocation order. -/

def joinScal (xs : List String) : String := ",".intercalate xs

def splitScal (s : String) : List String := if s == "" then [] else s.splitOn ","

/-- slot `j` takes the parent-side data of the (already finished) slot `i` -/
def applyDonor (out : Heap) (j i : Nat) : Heap :=
  match out[j]?, out[i]? with
  | some nj, some ni =>
    out.set j { nj with
      lab := ⟨nj.lab.cls, joinScal ((splitScal ni.lab.scal).take nj.pf.1 ++ (splitScal nj.lab.scal).drop nj.pf.1)⟩,
      refs := ni.refs.take nj.pf.2 ++ nj.refs.drop nj.pf.2 }
  | _, _ => out

/-- collisions are applied in processing order (a donor may itself have been a victim before) -/
def staleParent (out : Heap) (choice : List (Nat × Nat)) : Heap :=
  choice.foldl (fun o c => applyDonor o c.1 c.2) out

/-- `deepToo = false`: today only a DAO whose DIRECT base is the alternatively mapped DAO gets a temporary parent -/
def isSubD (deepToo : Bool) (out : Heap) (j : Nat) : Bool :=
  match out[j]? with
  | some n => n.kind == .sub && (deepToo || !n.deep)
  | none => false

def isSub (out : Heap) (j : Nat) : Bool := isSubD false out j

def subSlotsD (deepToo : Bool) (out : Heap) : List Nat := (List.range out.length).filter (isSubD deepToo out)

def subSlots (out : Heap) : List Nat := subSlotsD false out

/-- below the same alternatively mapped base DAO (the chains above the own table are suffixes of one another) -/
def sameBase (out : Heap) (j i : Nat) : Bool :=
  match out[j]?, out[i]? with
  | some a, some b => (a.tabs.drop 1).isSuffixOf (b.tabs.drop 1) || (b.tabs.drop 1).isSuffixOf (a.tabs.drop 1)
  | _, _ => false

/-- every admissible outcome: each `sub` slot keeps its own parent or takes an earlier one's (in slot order) -/
def staleChoices (out : Heap) : List Nat → List Nat → List (List (Nat × Nat))
  | _, [] => [[]]
  | earlier, j :: rest =>
    (none :: ((earlier.filter (sameBase out j)).map some)).flatMap fun d =>
      (staleChoices out (earlier ++ [j]) rest).map fun c =>
        match d with
        | none => c
        | some i => (j, i) :: c

/-- trigger of F-C04-2: two `sub` objects below the same alternatively mapped base are rebuilt with one state -/
def trigStaleParent (out : Heap) : Bool := (staleChoices out [] (subSlots out)).length > 1

/-! ### F-C04-3: `from_dao` looks for the alternatively mapped parent among the DIRECT bases only

`to_dao` scans the whole MRO for the nearest alternatively mapped DAO ancestor, `_build_base_kwargs_for_alternative_parent`
only inspects `self.__class__.__bases__[0]`. For a class two or more levels below an alternatively mapped class no
parent object is rebuilt, the constructor arguments that only the mapping knows under another name (`pf`) are missing,
`__init__` raises `TypeError`, and the fall-back assigns the remaining attributes one by one: the object comes back
WITHOUT those attributes. Deterministic; applied to the result heap. -/

/-- `k=v` ↦ `k=?` (what the harness prints for an attribute the object does not have) -/
def lostEntry (e : String) : String := (e.splitOn "=").headD "" ++ "=?"

def dropParent (n : Node) : Node :=
  if n.deep && n.pf != (0, 0) then
    { n with
      lab := ⟨n.lab.cls, joinScal (((splitScal n.lab.scal).take n.pf.1).map lostEntry
          ++ (splitScal n.lab.scal).drop n.pf.1
          ++ (if n.pf.2 == 0 then [] else [s!"!missing={n.pf.2}"]))⟩,
      refs := (n.refs.take n.pf.2).map (fun _ => Ref.none) ++ n.refs.drop n.pf.2 }
  else n

def dropDeepParent (out : Heap) : Heap := out.map dropParent

/-- trigger of F-C04-3 -/
def trigDeep (out : Heap) : Bool := out.any fun n => n.deep && n.pf != (0, 0)

/-! ### Specification: isomorphism of rooted graphs -/

/-- position-wise correspondence of two lists -/
def All2 {α β : Type} (R : α → β → Prop) : List α → List β → Prop
  | [], [] => True
  | a :: as, b :: bs => R a b ∧ All2 R as bs
  | _, _ => False

/-- position-wise correspondence of one reference field -/
def RefRel (R : Nat → Nat → Prop) : Ref → Ref → Prop
  | .none, .none => True
  | .one a, .one b => R a b
  | .many as, .many bs => All2 R as bs
  | _, _ => False

/-- `IsoVia conv h rs h' rs'`: a one-to-one correspondence between the nodes reachable from the roots such that the
image of a node is its conversion `conv n` (class, scalars, schema facts) and every reference field corresponds
position-wise — hence order, multiplicity, sharing and cycles are preserved. (`conv = daoMk` for `to_dao`.) -/
def IsoVia (conv : Node → Node) (h : Heap) (rs : List Nat) (h' : Heap) (rs' : List Nat) : Prop :=
  ∃ R : Nat → Nat → Prop,
    All2 R rs rs' ∧
    (∀ a b b', R a b → R a b' → b = b') ∧
    (∀ a a' b, R a b → R a' b → a = a') ∧
    (∀ a b, R a b → ∃ n rs, h[a]? = some n ∧ h'[b]? = some ((conv n).withRefs rs) ∧
        All2 (RefRel R) n.refs rs)

/-- **the property**: rooted-graph isomorphism preserving class, scalars and every reference field position-wise -/
def Iso (h : Heap) (rs : List Nat) (h' : Heap) (rs' : List Nat) : Prop :=
  ∃ R : Nat → Nat → Prop,
    All2 R rs rs' ∧
    (∀ a b b', R a b → R a b' → b = b') ∧
    (∀ a a' b, R a b → R a' b → a = a') ∧
    (∀ a b, R a b → ∃ n m, h[a]? = some n ∧ h'[b]? = some m ∧ m.lab = n.lab ∧
        All2 (RefRel R) n.refs m.refs)

/-! executable counterpart used by the driver: canonical form by depth-first numbering from the roots -/

/-- nodes in the order of first visit (explicit stack; fuel bounds the number of pops) -/
def dfsOrder (h : Heap) : Nat → List Nat → List Nat → List Nat
  | 0, _, acc => acc
  | _, [], acc => acc
  | fuel + 1, x :: work, acc =>
    if acc.contains x then dfsOrder h fuel work acc
    else dfsOrder h fuel ((match h[x]? with | some n => n.targets | none => []) ++ work) (acc ++ [x])

/-- a constant bound on the number of stack pops, far above anything the harness generates; being the same on both
sides of a comparison, equality of canonical forms of isomorphic graphs (`Iso_canon_eq`) holds whatever its value -/
def canonFuel : Nat := 1000000

def reachable (h : Heap) (roots : List Nat) : List Nat := dfsOrder h canonFuel roots []

def numOf (order : List Nat) (x : Nat) : String :=
  let i := order.findIdx (· == x)
  if i < order.length then s!"#{i}" else "?"

def showRef (order : List Nat) : Ref → String
  | .none => "-"
  | .one t => numOf order t
  | .many ts => "(" ++ " ".intercalate (ts.map (numOf order)) ++ ")"

def showNode (order : List Nat) (n : Node) : String :=
  n.lab.cls ++ "{" ++ n.lab.scal ++ "}[" ++ "|".intercalate (n.refs.map (showRef order)) ++ "]"

/-- equal strings ⇔ isomorphic rooted graphs (classes, scalars, reference structure with order and sharing) -/
def canon (h : Heap) (roots : List Nat) : String :=
  let order := reachable h roots
  "r=" ++ ",".intercalate (roots.map (numOf order)) ++ " " ++
    ";".intercalate (order.map fun x => match h[x]? with | some n => showNode order n | none => "?")

/-! ### Structured canonical form and the DECIDED isomorphism test (`canonEq`)

`canon` above is text: good for comparing with what the harness prints for the REAL objects, but text equality is only
a proxy of `Iso` (printing is not injective for arbitrary class / scalar strings, and `canonFuel` is a constant).
`canonEq` is the same depth-first numbering kept as data, with a fuel that provably suffices for every heap, and with
the closedness check built in. `Props/C04Canon.lean` proves `canonEq h r h' r' = true ↔ Iso h r h' r'` for ALL heaps and
root lists with no side condition: dangling references below a root make both sides false; addresses are list positions,
so there are no duplicate addresses by construction (the driver's parser rejects case lines whose oids are not 0,1,2,…). -/

/-- the successors of address `x` (none for an address outside the heap) -/
def tg (h : Heap) (x : Nat) : List Nat := match h[x]? with | some n => n.targets | none => []

/-- a number of stack pops that always suffices: every root is popped once, every reference cell is pushed at most
once because a node is expanded at most once (`Props/C04Canon.lean: dfs_closed`, `dfs_fuel_stable`) -/
def dfsFuel (h : Heap) (roots : List Nat) : Nat :=
  roots.length + ((List.range h.length).map fun x => (tg h x).length).sum

/-- nodes reachable from the roots in order of first visit — complete for every heap -/
def reach (h : Heap) (roots : List Nat) : List Nat := dfsOrder h (dfsFuel h roots) roots []

/-- depth-first number of `x` (`order.length` if it was not visited) -/
def idxOf (order : List Nat) (x : Nat) : Nat := order.findIdx (· == x)

def Ref.renum (order : List Nat) : Ref → Ref
  | .none => .none
  | .one t => .one (idxOf order t)
  | .many ts => .many (ts.map (idxOf order))

/-- what the property observes of one node: class and scalars, reference fields with depth-first numbers -/
def cnode (h : Heap) (order : List Nat) (x : Nat) : Option (Label × List Ref) :=
  (h[x]?).map fun n => (n.lab, n.refs.map (Ref.renum order))

/-- canonical form as data: numbers of the roots, observed nodes in depth-first order -/
def canonForm (h : Heap) (roots : List Nat) : List Nat × List (Option (Label × List Ref)) :=
  let order := reach h roots
  (roots.map (idxOf order), order.map (cnode h order))

/-- every reachable address holds a node (no dangling reference below a root, no dangling root) -/
def closedFrom (h : Heap) (roots : List Nat) : Bool := (reach h roots).all fun x => (h[x]?).isSome

/-- **the decided property relation**: rooted-graph isomorphism preserving classes, scalars, field order, aliasing
and cycles. (Closedness of the right-hand side follows from equal forms, so it is tested on the left only.) -/
def canonEq (h : Heap) (roots : List Nat) (h' : Heap) (roots' : List Nat) : Bool :=
  decide (canonForm h roots = canonForm h' roots') && closedFrom h roots

/-- what the driver prints as `model=`: the text of the result graph, made to agree with the DECIDED relation — it
equals the `spec=` text exactly when `canonEq` holds (`C04_verdict`). The middle branch (equal text, not isomorphic)
can only be a printing collision; it is reported as such instead of being passed as agreement. -/
def verdictText (h : Heap) (roots : List Nat) (out : Heap) (roots' : List Nat) : String :=
  if canonEq h roots out roots' then canon h roots
  else if canon out roots' == canon h roots then "error:canon-text-collision"
  else canon out roots'

/-! ### Scalar columns: the part of the column conversion that is logic

`get_columns_from` copies every data column with `setattr(dao, name, getattr(obj, name))`, `_collect_scalar_kwargs`
copies it back: in memory (C04) every column kind is the identity. Under persistence (C05) the column TYPE converts:
an enumeration is stored by member name and looked up again, a `type`-valued field is stored as `module.Class` by
`TypeType.process_bind_param` and resolved by `process_result_value` (which guards with `is None`). What can go wrong
in such code is logic, not arithmetic: a guard that tests truthiness instead of `is None` turns `0`, `0.0`, `""`,
`False`, an `IntEnum` member with value 0 and `[]` into `None`; a lookup by value merges aliased members; a class stored
by simple name resolves to a same-named class of another module. The conversion table is a PARAMETER (`Table`);
`Props/C04Canon.lean: C04_scalars_preserved` is stated for any table that is lossless on the admissible values, and the
instances below are the tables of today's code (lossless, proved) and of the traps (counter-examples, proved). -/

inductive SVal where
  | none
  | bool (b : Bool)
  | int (i : Int)
  /-- a float by its `repr` -/
  | float (repr : String)
  | str (s : String)
  /-- member of an enumeration: class, member name, value; `isInt`: an `IntEnum` (falsy when its value is 0) -/
  | enum (cls name : String) (value : Int) (isInt : Bool)
  /-- a class object -/
  | type (module cls : String)
  /-- the string `module.cls` (class names contain no dot, so `rsplit('.', 1)` inverts the concatenation) -/
  | qual (module cls : String)
  | strs (xs : List String)
  /-- anything else (datetime, UUID, JSON values …): opaque text, converted by library code the model does not cover -/
  | opaque (text : String)
  deriving Repr, DecidableEq, Inhabited

/-- Python's `bool(v)` -/
def SVal.truthy : SVal → Bool
  | .none => false
  | .bool b => b
  | .int i => i != 0
  | .float r => !(r == "0.0" || r == "-0.0")
  | .str s => s != ""
  | .enum _ _ v isInt => !isInt || v != 0
  | .type _ _ => true
  | .qual _ _ => true
  | .strs xs => !xs.isEmpty
  | .opaque _ => true

/-- what a column is declared as -/
inductive ColKind where
  | plain
  | enumOf (cls : String)
  | typeCol
  deriving Repr, DecidableEq, Inhabited

structure ColConv where
  /-- object attribute ↦ what is stored (`get_columns_from`, then the column type's bind processor) -/
  toCol : SVal → SVal
  /-- what is stored ↦ constructor argument (result processor, then `_collect_scalar_kwargs`) -/
  fromCol : SVal → SVal

def ColConv.roundTrip (c : ColConv) (v : SVal) : SVal := c.fromCol (c.toCol v)

abbrev Table := ColKind → ColConv

/-- the scalars of one object through the table, column by column -/
def convRecord (T : Table) (cols : List (ColKind × SVal)) : List (ColKind × SVal) :=
  cols.map fun p => (p.1, (T p.1).roundTrip p.2)

inductive Guard where
  /-- `if value is None: return None` -/
  | isNone
  /-- `if not value: return None` — the trap -/
  | truthy
  deriving Repr, DecidableEq, Inhabited

def guarded (g : Guard) (f : SVal → SVal) (v : SVal) : SVal :=
  match g with
  | .isNone => if v = .none then .none else f v
  | .truthy => if v.truthy then f v else .none

/-- members of the enumerations, in definition order: class ↦ [(name, value)]; `isInt` per class -/
structure EnumEnv where
  members : String → List (String × Int)
  isInt : String → Bool

def idConv : ColConv := ⟨id, id⟩

/-- C04, today: no conversion, no guard, for every column kind -/
def tableMem : Table := fun _ => idConv

/-- the trap in memory: copying "only when there is a value" -/
def tableMemTruthy : Table := fun _ => ⟨guarded .truthy id, id⟩

def enumToName : SVal → SVal
  | .enum _ n _ _ => .str n
  | v => v

def enumToValue : SVal → SVal
  | .enum _ _ v _ => .int v
  | v => v

/-- `Cls[name]` -/
def enumFromName (E : EnumEnv) (cls : String) : SVal → SVal
  | .str n => match (E.members cls).lookup n with
    | some v => .enum cls n v (E.isInt cls)
    | none => .opaque "exc:KeyError"
  | v => v

/-- `Cls(value)`: the FIRST member with that value (later ones are aliases of it) -/
def enumFromValue (E : EnumEnv) (cls : String) : SVal → SVal
  | .int v => match (E.members cls).find? (·.2 == v) with
    | some p => .enum cls p.1 v (E.isInt cls)
    | none => .opaque "exc:ValueError"
  | v => v

/-- `module_and_class_name` / `TypeType.process_result_value`; `resolves m c`: importing `m` and `getattr(m, c)` gives
the class back -/
def typeToQual : SVal → SVal
  | .type m c => .qual m c
  | v => v

def typeFromQual (resolves : String → String → Bool) : SVal → SVal
  | .qual m c => if resolves m c then .type m c else .opaque "exc:AttributeError"
  | v => v

/-- C05, today: enumerations by member name, classes by qualified name; both guard with `is None` -/
def tableSql (E : EnumEnv) (resolves : String → String → Bool) : Table
  | .plain => idConv
  | .enumOf cls => ⟨guarded .isNone enumToName, guarded .isNone (enumFromName E cls)⟩
  | .typeCol => ⟨typeToQual, guarded .isNone (typeFromQual resolves)⟩

/-- the same with enumerations stored by value -/
def tableSqlByValue (E : EnumEnv) (resolves : String → String → Bool) : Table
  | .enumOf cls => ⟨guarded .isNone enumToValue, guarded .isNone (enumFromValue E cls)⟩
  | k => tableSql E resolves k

/-- the same with truthiness guards -/
def tableSqlTruthy (E : EnumEnv) (resolves : String → String → Bool) : Table
  | .plain => ⟨guarded .truthy id, id⟩
  | .enumOf cls => ⟨guarded .truthy enumToName, guarded .truthy (enumFromName E cls)⟩
  | .typeCol => ⟨typeToQual, guarded .truthy (typeFromQual resolves)⟩

/-- the value fits the declared column -/
def Admissible (E : EnumEnv) (resolves : String → String → Bool) : ColKind → SVal → Prop
  | .plain, v => (∀ c n x i, v ≠ .enum c n x i) ∧ (∀ m c, v ≠ .type m c)
  | .enumOf cls, v => v = .none ∨ ∃ n x, v = .enum cls n x (E.isInt cls) ∧ (E.members cls).lookup n = some x
  | .typeCol, v => ∃ m c, v = .type m c ∧ resolves m c = true

/-! scalar text of a case line ↔ `SVal` (what the driver needs to push the generated values through a table) -/

/-- the enumerations the harness generates: the dataset's `Element` and the auxiliary `AuxMode(IntEnum)` -/
def driverEnums : EnumEnv :=
  { members := fun c => if c == "Element" then [("C", 1), ("H", 2)]
                        else if c == "AuxMode" then [("OFF", 0), ("ON", 1), ("AUTO", 2)] else [],
    isInt := fun c => c == "AuxMode" }

/-- one encoded value (`harness/props/dao_common.py: enc`) with the kind of column it sits in -/
def parseTok (E : EnumEnv) (tok : String) : ColKind × SVal :=
  let body := (tok.drop 1).toString
  if tok == "N" then (.plain, .none)
  else if tok == "bT" then (.plain, .bool true)
  else if tok == "bF" then (.plain, .bool false)
  else if tok.startsWith "i" then
    match body.toInt? with
    | some i => (.plain, .int i)
    | none => (.plain, .opaque tok)
  else if tok.startsWith "f" then (.plain, .float body)
  else if tok.startsWith "s" then (.plain, .str body)
  else if tok.startsWith "e" then
    match body.splitOn "." with
    | [c, n] => match (E.members c).lookup n with
      | some v => (.enumOf c, .enum c n v (E.isInt c))
      | none => (.plain, .opaque tok)
    | _ => (.plain, .opaque tok)
  else if tok.startsWith "T" then (.typeCol, .type "" body)
  else if tok == "[]" then (.plain, .strs [])
  else (.plain, .opaque tok)

/-- the values of `name=tok,name=tok…` (tokens never contain commas) -/
def parseScal (E : EnumEnv) (text : String) : List (ColKind × SVal) :=
  (splitScal text).map fun part => parseTok E ((part.splitOn "=").drop 1 |> "=".intercalate)

/-- does the table return every scalar of this object unchanged? -/
def scalarsKept (T : Table) (E : EnumEnv) (text : String) : Bool :=
  let cols := parseScal E text
  decide (convRecord T cols = cols)

/-! ### The relational store -/

inductive Dir where
  | manyToOne
  | oneToMany
  deriving Repr, DecidableEq, Inhabited

/-- what SQLAlchemy infers for the generated `relationship(..., uselist=False, foreign_keys=[fk])` today -/
def dirToday (fm : FieldMeta) : Dir := if fm.selfHier then .oneToMany else .manyToOne

/-- with `remote_side` generated -/
def dirFixed (_ : FieldMeta) : Dir := .manyToOne

inductive Cell where
  | fk (v : Option Nat)
  | coll
  deriving Repr, DecidableEq, Inhabited

structure Row where
  id : Nat
  /-- `polymorphic_type`: the DAO class that wrote the row -/
  disc : String
  /-- the DAO's columns and schema facts (no references) -/
  node : Node
  /-- per reference field: the foreign-key column, or a marker for a collection (stored in `assoc`) -/
  cells : List Cell
  deriving Repr, DecidableEq, Inhabited

structure Assoc where
  table : String
  left : Nat
  fld : Nat
  right : Nat
  deriving Repr, DecidableEq, Inhabited

structure DB where
  rows : List Row
  assoc : List Assoc
  deriving Repr, DecidableEq, Inhabited

/-- autoincrement primary key shared by all tables of the chain; unobservable up to isomorphism -/
def rowId (i : Nat) : Nat := i + 1

def fieldOf (n : Node) (k : Nat) : FieldMeta := n.fields.getD k ⟨false, ""⟩

def cellOf (dir : FieldMeta → Dir) (fm : FieldMeta) : Ref → Cell
  | .many _ => .coll
  | .none => .fk none
  | .one t => if dir fm = .manyToOne then .fk (some (rowId t)) else .fk none

def rowOf (dir : FieldMeta → Dir) (i : Nat) (n : Node) : Row :=
  { id := rowId i, disc := n.lab.cls, node := n.withRefs [],
    cells := n.refs.mapIdx fun k r => cellOf dir (fieldOf n k) r }

/-- ONETOMANY with `uselist=False`: the foreign key column of the *target* row is set to the source's id -/
def o2mWrites (dir : FieldMeta → Dir) (dh : Heap) (s : Nat) : List (Nat × Nat × Nat) :=
  match dh[s]? with
  | none => []
  | some n => (n.refs.mapIdx fun k r =>
      match r with
      | .one t => if dir (fieldOf n k) = .oneToMany then [(t, k, rowId s)] else []
      | _ => []).flatten

def applyWrite (rows : List Row) (w : Nat × Nat × Nat) : List Row :=
  rows.modify w.1 fun row => { row with cells := row.cells.set w.2.1 (.fk (some w.2.2)) }

def assocOf (i : Nat) (n : Node) : List Assoc :=
  (n.refs.mapIdx fun k r =>
    match r with
    | .many ts => ts.map fun t => { table := (fieldOf n k).name, left := rowId i, fld := k, right := rowId t }
    | _ => []).flatten

/-- session A: `add_all(daos); commit()`. `order` is the order in which the unit of work processes the sources of
ONETOMANY references (it iterates a *set* of states, so the order is unspecified: a parameter; last writer wins). -/
def flush (dir : FieldMeta → Dir) (order : List Nat) (dh : Heap) : DB :=
  { rows := (order.flatMap (o2mWrites dir dh)).foldl applyWrite (dh.mapIdx (rowOf dir)),
    assoc := (dh.mapIdx assocOf).flatten }

/-- `SELECT … WHERE database_id = ?` -/
def posOf (rows : List Row) (id : Nat) : Option Nat :=
  let i := rows.findIdx (·.id == id)
  if i < rows.length then some i else none

def dedupNat (xs : List Nat) : List Nat :=
  xs.foldl (fun acc x => if acc.contains x then acc else acc ++ [x]) []

def loadRef (dir : FieldMeta → Dir) (dedup : Bool) (db : DB) (row : Row) (k : Nat) : Cell → Ref
  | .coll =>
    let ts := (db.assoc.filter fun a => a.left == row.id && a.fld == k).filterMap fun a => posOf db.rows a.right
    .many (if dedup then dedupNat ts else ts)
  | .fk v =>
    if dir (fieldOf row.node k) = .manyToOne then
      match v with
      | none => .none
      | some id => match posOf db.rows id with | some p => .one p | none => .none
    else
      -- the row of the target class whose foreign key column holds this row's id
      match db.rows.findIdx? (fun t => decide (dir (fieldOf t.node k) = .oneToMany)
                                        && (fieldOf t.node k).name == (fieldOf row.node k).name
                                        && t.cells[k]? == some (.fk (some row.id))) with
      | some p => .one p
      | none => .none

/-- session B (fresh identity map): one DAO per row, class from the discriminator (polymorphic load), references
from foreign keys and association rows. `dedup`: the ORM's relationship loader returns each related row once. -/
def load (dir : FieldMeta → Dir) (dedup : Bool) (db : DB) : Heap :=
  db.rows.map fun row =>
    { row.node with lab := ⟨row.disc, row.node.lab.scal⟩, refs := row.cells.mapIdx (loadRef dir dedup db row) }

/-- `select(Via).where(Via.database_id == id)`: found iff the row has a part in table `via` -/
def loadRoot (db : DB) (via : String) (id : Nat) : Option Nat :=
  match posOf db.rows id with
  | none => none
  | some p => match db.rows[p]? with
    | some row => if row.node.tabs.contains via then some p else none
    | none => none

def dedupStr (xs : List String) : List String :=
  xs.foldl (fun acc x => if acc.contains x then acc else acc ++ [x]) []

/-- number of rows per table (every table of a row's chain holds one part of it) -/
def extraCount (ns : List Node) (t : String) : Nat :=
  ((ns.flatMap (·.extra)).filter (·.1 == t)).map (·.2) |>.sum

def tableCounts (db : DB) : List (String × Nat) :=
  let ns := db.rows.map (·.node)
  let tabs := dedupStr (db.rows.flatMap (·.node.tabs) ++ db.assoc.map (·.table) ++ (ns.flatMap (·.extra)).map (·.1))
  (tabs.map fun t => (t, (db.rows.filter fun r => r.node.tabs.contains t).length
                        + (db.assoc.filter fun a => a.table == t).length + extraCount ns t)).filter (·.2 != 0)

structure StoreQuirks where
  /-- F-C05-1: direction inferred ONETOMANY for a reference into the own table hierarchy -/
  selfRef : Bool
  /-- F-C05-3: a collection that holds an object several times is reloaded with it once -/
  dedup : Bool
  /-- F-C05-2 = F-C04-1 under persistence -/
  stale : Bool
  deriving Repr, DecidableEq

def StoreQuirks.dir (q : StoreQuirks) : FieldMeta → Dir := if q.selfRef then dirToday else dirFixed

/-- the code as it is: `remote_side` is generated for references into the own table hierarchy (fix 492980c: F-C05-1
repaired, every single reference is MANYTOONE), `from_dao` is repaired (F-C05-2/4); the uniquing relationship loader
(F-C05-3) is open -/
def StoreQuirks.asIs : StoreQuirks := ⟨false, true, false⟩

/-- session B loads every root by primary key through the `via`-th DAO class of its chain (own class first; the
last one if the chain is shorter) -/
def loadRoots (db : DB) (dh : Heap) (via : Nat) (droots : List Nat) : List Nat :=
  droots.filterMap fun d =>
    match dh[d]? with
    | some n => loadRoot db (n.tabs.getD (min via (n.tabs.length - 1)) "") (rowId d)
    | none => none

/-- `to_dao` → add/commit → fresh session, load the roots through `via k` → `from_dao` (one shared state each way).
Result: roots and heap of the reloaded objects, and the database. -/
def persistReload (q : StoreQuirks) (order : List Nat) (unmap : Label → Option Label) (via : Nat)
    (h : Heap) (roots : List Nat) : Option (List Nat × Heap × DB) :=
  match toDao h roots with
  | none => none
  | some (droots, st) =>
    let db := flush q.dir order st.out
    let lroots := loadRoots db st.out via droots
    if lroots.length != droots.length then none
    else match fromDao q.stale unmap (load q.dir q.dedup db) lroots with
      | none => none
      | some (oroots, st2) => some (oroots, st2.out, db)

/-- trigger of F-C05-1: a DAO is the target of ONETOMANY-inferred references from two different sources -/
def trigSelfRef (dh : Heap) : Bool :=
  let ws := (List.range dh.length).flatMap (o2mWrites dirToday dh)
  ws.any fun w => ws.any fun w' => w.1 == w'.1 && w.2.1 == w'.2.1 && w.2.2 != w'.2.2

/-- trigger of F-C05-3: some collection holds the same object twice -/
def trigDup (dh : Heap) : Bool :=
  dh.any fun n => n.refs.any fun r => match r with | .many ts => dedupNat ts != ts | _ => false

/-- what the property demands of the database: one row per distinct reachable object in every table of its chain,
one association row per list element -/
def specCounts (h : Heap) (roots : List Nat) : List (String × Nat) :=
  let ns := (reachable h roots).filterMap fun x => h[x]?
  let assocs := ns.flatMap fun n => (n.refs.mapIdx fun k r =>
    match r with
    | .many ts => ts.map fun _ => (fieldOf n k).name
    | _ => []).flatten
  let tabs := dedupStr (ns.flatMap (·.tabs) ++ assocs ++ (ns.flatMap (·.extra)).map (·.1))
  (tabs.map fun t => (t, (ns.filter fun n => n.tabs.contains t).length + (assocs.filter (· == t)).length
                        + extraCount ns t)).filter (·.2 != 0)

end KrroodVerif.Dao
