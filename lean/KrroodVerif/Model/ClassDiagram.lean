/-!
M-CD — class diagrams (`krrood/class_diagrams/{wrapped_field.py, class_diagram.py, attribute_introspector.py}`).
Core Lean only.

Three layers, each with the transcription of the code (parameterised by `Quirks`) and the specification
(what property C17 demands, written directly on the annotation grammar):

1. **annotations** — `Ann` is the grammar of field annotations; `resolve` models `typing.get_type_hints`
   (string / forward references evaluate to the type they name); `getOrigin` / `getArgs` model
   `typing.get_origin` / `typing.get_args` on the resolved object; the `WrappedField` predicates are
   transcribed on top of those two, exactly as `wrapped_field.py` writes them.
2. **relation discovery** — `build` transcribes `ClassDiagram.__post_init__`
   (`add_node`, `_create_inheritance_relations`, `_create_association_relations`) into a graph whose edge list
   keeps rustworkx' insertion order (needed by 3).
3. **derived views** — a store of graphs and of diagrams *referring* to graphs; `copy(self)` shares the reference
   (quirk `shallowCopy`), `to_subdiagram_without_inherited_associations` is transcribed including rustworkx'
   choice among parallel edges (`get_edge_data` / `remove_edge` take the most recently added one).

Quirks (every one a reproduced deviation of the unchanged tree, see findings.d/C17.json):
* `shallowCopy`      F-C17-1  the sub-diagram is derived on `copy(self)`, which shares `_dependency_graph`
* `singleUnwrap`     F-C17-2  `type_endpoint` removes one wrapper only (`Optional[List[B]]` ends at `List[B]`)
* `pipeNotOptional`  F-C17-3  only `typing.Union` counts as optional (`X | None`, a `types.UnionType`, is not optional)
* `argZero`          F-C17-3  the contained type of an optional is `get_args(..)[0]` (`Union[None, X]` ends at `NoneType`)
-/
namespace KrroodVerif.CD

/-! ## 1. Annotations -/

/-- the classes `is_builtin_type` lists (`NoneType` is represented by `Arg.noneType`) -/
inductive Builtin where | int | float | str | bool | datetime
  deriving DecidableEq, Repr

/-- container spellings; `blist` = `list[X]`, `list` = `typing.List[X]`, `tuple` = `Tuple[X, ...]` -/
inductive Kind where | list | set | tuple | sequence | blist | bset | btuple
  deriving DecidableEq, Repr

/-- the ways of writing "X or None": `Optional[X]`, `Union[X, None]`, `Union[None, X]`, `X | None` -/
inductive OptStyle where | typing | unionNone | noneFirst | pipe
  deriving DecidableEq, Repr

/-- the kinds of endpoint classes that are neither one of the listed builtin scalars, nor a dataclass of the world, nor
a plain `enum.Enum`: a field of such a type is NOT builtin-valued (`is_builtin_type` is exact membership in
`[int, float, str, bool, datetime, NoneType]`, not `issubclass`), and it is an enum iff the class is an `Enum` -/
inductive ClassKind where
  | sub (b : Builtin)       -- `class S<b><i>(<b>)`: a proper subclass of a builtin scalar (`class Meters(float)`)
  | mixEnum (b : Builtin)   -- `class M<b><i>(<b>, Enum)` / `IntEnum` / `StrEnum`: an enum with a scalar mix-in
  | plain                   -- `class P<i>`: any other class that is not a node of the diagram
  deriving DecidableEq, Repr

inductive Ann where
  | builtin (b : Builtin)
  | cls (i : Nat)                       -- a dataclass of the world (`C<i>`)
  | enum (i : Nat)                      -- an `enum.Enum` subclass of the world (`E<i>`)
  | optional (st : OptStyle) (a : Ann)
  | container (k : Kind) (a : Ann)
  | typeOf (a : Ann)                    -- `Type[a]`
  | fwd (a : Ann)                       -- `a` written as a string literal / forward reference
  | union (a b : Ann) (withNone : Bool)  -- `Union[a, b]` / `Union[a, b, None]`, a ≠ b, neither is None
  | ext (k : ClassKind) (i : Nat)       -- a class of kind `k` (see `ClassKind`)
  deriving DecidableEq, Repr

/-- `typing.get_type_hints`: forward references evaluate to what they name -/
def resolve : Ann → Ann
  | .fwd a => resolve a
  | .optional st a => .optional st (resolve a)
  | .container k a => .container k (resolve a)
  | .typeOf a => .typeOf (resolve a)
  | .union a b n => .union (resolve a) (resolve b) n
  | .builtin b => .builtin b
  | .cls i => .cls i
  | .enum i => .enum i
  | .ext k i => .ext k i

/-- a runtime type object: `NoneType` or (the object denoted by) a resolved annotation -/
inductive Arg where
  | noneType
  | ann (a : Ann)
  deriving DecidableEq, Repr

inductive Origin where | none | union | unionType | list | set | tuple | sequence | type
  deriving DecidableEq, Repr

def Kind.origin : Kind → Origin
  | .list | .blist => .list
  | .set | .bset => .set
  | .tuple | .btuple => .tuple
  | .sequence => .sequence

/-- `typing.get_origin` (assumed behaviour of CPython 3.12 `typing`, validated by the correspondence) -/
def getOrigin : Ann → Origin
  | .optional .pipe _ => .unionType          -- `X | None` is a `types.UnionType`
  | .optional _ _ => .union
  | .union _ _ _ => .union
  | .container k _ => k.origin
  | .typeOf _ => .type
  | _ => .none

/-- `typing.get_args` -/
def getArgs : Ann → List Arg
  | .optional .noneFirst a => [.noneType, .ann a]
  | .optional _ a => [.ann a, .noneType]
  | .union a b false => [.ann a, .ann b]
  | .union a b true => [.ann a, .ann b, .noneType]
  | .container _ a => [.ann a]               -- `Tuple[X, ...]`: only element 0 is ever used
  | .typeOf a => [.ann a]
  | _ => []

structure Quirks where
  shallowCopy : Bool
  singleUnwrap : Bool
  pipeNotOptional : Bool
  argZero : Bool
  deriving DecidableEq, Repr

/-- the tree as it was found (every recorded deviation present) -/
def Quirks.today : Quirks := ⟨true, true, true, true⟩
/-- the tree as it is now: F-C17-1 (fix 8b5fe57) and F-C17-3 (optional spellings) repaired, F-C17-2 open -/
def Quirks.current : Quirks := ⟨false, true, false, false⟩
/-- every recorded deviation repaired -/
def Quirks.none : Quirks := ⟨false, false, false, false⟩

/-- `WrappedField.container_types = [list, set, tuple, type, Sequence]` -/
def containerOrigins : List Origin := [.list, .set, .tuple, .type, .sequence]

/-- `is_container`: `get_origin(self.resolved_type) in self.container_types` -/
def isContainer (t : Ann) : Bool := containerOrigins.contains (getOrigin t)

def twoWithNone (t : Ann) : Bool := (getArgs t).length == 2 && (getArgs t).contains .noneType

/-- `is_optional`: origin must be `Union`; then `len(args) == 2 and NoneType in args`.
Repaired (`pipeNotOptional` off): `types.UnionType` is accepted as well. -/
def isOptional (q : Quirks) (t : Ann) : Bool :=
  match getOrigin t with
  | .union => twoWithNone t
  | .unionType => !q.pipeNotOptional && twoWithNone t
  | _ => false

/-- `contained_type`; `none` = the `ValueError("Field is not a container")` / bare container cases.
Repaired (`argZero` off): the first argument that is not `NoneType`. -/
def containedType (q : Quirks) (t : Ann) : Option Arg :=
  if !isContainer t && !isOptional q t then none
  else if isOptional q t then
    (if q.argZero then (getArgs t)[0]? else (getArgs t).find? (fun a => a != .noneType))
  else (getArgs t)[0]?

/-- `type_endpoint` as written: one wrapper is removed -/
def typeEndpoint1 (q : Quirks) (t : Ann) : Arg :=
  if isContainer t || isOptional q t then (containedType q t).getD (.ann t) else .ann t

def Arg.step (q : Quirks) : Arg → Arg
  | .noneType => .noneType
  | .ann t => typeEndpoint1 q t

def stepN (q : Quirks) : Nat → Arg → Arg
  | 0, x => x
  | n + 1, x => stepN q n (x.step q)

/-- number of constructors: an upper bound on the number of wrappers -/
def Ann.size : Ann → Nat
  | .optional _ a => a.size + 1
  | .container _ a => a.size + 1
  | .typeOf a => a.size + 1
  | .fwd a => a.size + 1
  | .union a b _ => a.size + b.size + 1
  | _ => 1

/-- `type_endpoint`; repaired (`singleUnwrap` off): unwrap until nothing is left to unwrap -/
def typeEndpoint (q : Quirks) (t : Ann) : Arg :=
  if q.singleUnwrap then typeEndpoint1 q t else stepN q t.size (.ann t)

/-- what an endpoint is, as far as the property can see it -/
inductive Leaf where
  | builtin (b : Builtin)
  | noneType
  | cls (i : Nat)
  | enum (i : Nat)
  | ext (k : ClassKind) (i : Nat)          -- subclass of a builtin scalar / mix-in enum / other class
  | other                                  -- a typing construct, not a class
  deriving DecidableEq, Repr

def Arg.leaf : Arg → Leaf
  | .noneType => .noneType
  | .ann (.builtin b) => .builtin b
  | .ann (.cls i) => .cls i
  | .ann (.enum i) => .enum i
  | .ann (.ext k i) => .ext k i
  | .ann _ => .other

/-- `x in [int, float, str, bool, datetime, NoneType]`: exact membership — a proper subclass of a builtin scalar
(`Leaf.ext (.sub b) _`, `Leaf.ext (.mixEnum b) _`) is not in the list -/
def Leaf.isBuiltin : Leaf → Bool
  | .builtin _ => true
  | .noneType => true
  | _ => false

def Leaf.isEnum : Leaf → Bool
  | .enum _ => true
  | .ext (.mixEnum _) _ => true
  | _ => false

inductive Tri where | t | f | err
  deriving DecidableEq, Repr

def Tri.ofBool : Bool → Tri | true => .t | false => .f

/-- `issubclass(x, enum.Enum)`: `TypeError` when `x` is not a class -/
def issubclassEnum (x : Arg) : Tri :=
  match x.leaf with
  | .enum _ => .t
  | .ext (.mixEnum _) _ => .t
  | .other => .err
  | _ => .f

/-- `is_builtin_type` -/
def isBuiltinType (q : Quirks) (t : Ann) : Bool := (typeEndpoint q t).leaf.isBuiltin

/-- `is_type_type` -/
def isTypeType (t : Ann) : Bool := getOrigin t == .type

/-- `is_enum` -/
def isEnum (q : Quirks) (t : Ann) : Tri :=
  if isContainer t then .f
  else if isOptional q t then
    (match containedType q t with | some c => issubclassEnum c | none => .err)
  else issubclassEnum (.ann t)

/-- `is_one_to_one_relationship` -/
def isOneToOne (q : Quirks) (t : Ann) : Bool := !isContainer t && !isBuiltinType q t

/-- `is_one_to_many_relationship` -/
def isOneToMany (q : Quirks) (t : Ann) : Bool := isContainer t && !isBuiltinType q t && !isOptional q t

/-- `container_type`: `None` unless `is_container`, then the origin -/
def containerType (t : Ann) : Option Origin := if isContainer t then some (getOrigin t) else none

/-- `is_iterable`: `is_one_to_many_relationship and hasattr(self.container_type, "__iter__")` — of the container
classes (`container_types`) only `type` has no `__iter__` -/
def isIterable (q : Quirks) (t : Ann) : Bool := isOneToMany q t && getOrigin t != .type

/-- the seven classifications the property names -/
structure Flags where
  builtin : Bool
  optional : Bool
  enum : Tri
  container : Bool
  oneToOne : Bool
  oneToMany : Bool
  typeValued : Bool
  deriving DecidableEq, Repr

/-- the `WrappedField` predicates on a resolved type -/
def flagsOf (q : Quirks) (t : Ann) : Flags :=
  { builtin := isBuiltinType q t, optional := isOptional q t, enum := isEnum q t, container := isContainer t,
    oneToOne := isOneToOne q t, oneToMany := isOneToMany q t, typeValued := isTypeType t }

/-- the `WrappedField` predicates of a field annotated `a` -/
def flags (q : Quirks) (a : Ann) : Flags := flagsOf q (resolve a)

/-- the endpoint of a field annotated `a` -/
def endpoint (q : Quirks) (a : Ann) : Leaf := (typeEndpoint q (resolve a)).leaf

/-! ### Specification on the grammar -/

/-- the declared type "seen through Optional and container wrappers, including forward references" -/
def specEndpoint : Ann → Leaf
  | .builtin b => .builtin b
  | .cls i => .cls i
  | .enum i => .enum i
  | .ext k i => .ext k i
  | .optional _ a => specEndpoint a
  | .container _ a => specEndpoint a
  | .typeOf a => specEndpoint a
  | .fwd a => specEndpoint a
  | .union _ _ _ => .other

/-- the outermost form of an annotation (quotes are transparent) -/
inductive Shape where | scalar | optional | container | typeOf
  deriving DecidableEq, Repr

def shape : Ann → Shape
  | .fwd a => shape a
  | .optional _ _ => .optional
  | .container _ _ => .container
  | .typeOf _ => .typeOf
  | _ => .scalar

/-- The specification table: outermost form x endpoint. `Type[X]` is one of the container types of the parser
(`container_types`), so it is a container whose elements are classes; an enum is a non-builtin scalar. -/
def specRow (s : Shape) (ep : Leaf) : Flags :=
  let b := ep.isBuiltin
  let e := ep.isEnum
  match s with
  | .optional =>
    { builtin := b, optional := true, enum := .ofBool e, container := false, oneToOne := !b, oneToMany := false,
      typeValued := false }
  | .container =>
    { builtin := b, optional := false, enum := .f, container := true, oneToOne := false, oneToMany := !b,
      typeValued := false }
  | .typeOf =>
    { builtin := b, optional := false, enum := .f, container := true, oneToOne := false, oneToMany := !b,
      typeValued := true }
  | .scalar =>
    { builtin := b, optional := false, enum := .ofBool e, container := false, oneToOne := !b, oneToMany := false,
      typeValued := false }

/-- what the property demands of the classification of a field annotated `a` -/
def specFlags (a : Ann) : Flags := specRow (shape a) (specEndpoint a)

/-- number of nested wrappers -/
def wrapDepth : Ann → Nat
  | .optional _ a => wrapDepth a + 1
  | .container _ a => wrapDepth a + 1
  | .typeOf a => wrapDepth a + 1
  | .fwd a => wrapDepth a
  | _ => 0

def hasUnion : Ann → Bool
  | .union _ _ _ => true
  | .optional _ a => hasUnion a
  | .container _ a => hasUnion a
  | .typeOf a => hasUnion a
  | .fwd a => hasUnion a
  | _ => false

/-- the fragment on which all seven classifications are compared: at most one wrapper, no general `Union`
(`class_diagram.ParseError` documents `Union` types as not parseable; deeper nestings are compared on
`optional` and on the association edge only, because the property text fixes only those for them) -/
def plain (a : Ann) : Bool := wrapDepth a ≤ 1 && !hasUnion a

/-- trigger of F-C17-2: more than one wrapper -/
def nested (a : Ann) : Bool := wrapDepth a ≥ 2

/-- trigger of F-C17-3: an optional written `X | None` or `Union[None, X]` somewhere in the annotation -/
def oddOptional : Ann → Bool
  | .optional .pipe _ => true
  | .optional .noneFirst _ => true
  | .optional _ a => oddOptional a
  | .container _ a => oddOptional a
  | .typeOf a => oddOptional a
  | .fwd a => oddOptional a
  | .union a b _ => oddOptional a || oddOptional b
  | _ => false

/-! ## 2. Relation discovery -/

/-- field name `f<idx>` / `_f<idx>` -/
structure FName where
  priv : Bool
  idx : Nat
  deriving DecidableEq, Repr

structure Field where
  name : FName
  ann : Ann
  deriving DecidableEq, Repr

/-- one `@dataclass class C<id>(<bases>)` with the fields it declares itself -/
structure ClassDef where
  id : Nat
  bases : List Nat
  own : List Field
  deriving DecidableEq, Repr

/-- the Python module(s): class definitions in definition order (bases before subclasses) -/
structure World where
  defs : List ClassDef
  deriving DecidableEq, Repr

def lookupFields (tbl : List (Nat × List Field)) (c : Nat) : List Field :=
  match tbl.find? (fun p => p.1 == c) with
  | some p => p.2
  | none => []

/-- `fields[f.name] = f` on an insertion-ordered dict: an existing name keeps its position and takes the new field.
This is field OVERRIDING: a class that declares a name of one of its bases again (`engine: ElectricEngine` over
`engine: Engine`, `parts: List[Battery]` over `List[Part]`, `seats: Optional[int]` over `int`) has ONE field of that name,
at the position where the name was first introduced (`dataclasses.fields` order), with the annotation of the most derived
declaration (what `typing.get_type_hints(cls)[name]` reports: it walks `reversed(cls.__mro__)` and lets later classes
overwrite earlier ones). Theorems: Props/C17Override.lean. -/
def upsert (fs : List Field) (f : Field) : List Field :=
  if fs.any (fun g => g.name == f.name) then fs.map (fun g => if g.name == f.name then f else g) else fs ++ [f]

/-- `dataclasses.fields(cls)` for every class (assumed behaviour of `dataclasses`: the fields of the bases in
reverse MRO order — for hierarchies without diamonds: bases right to left — then the own ones; a name declared more
than once along the way — by two bases, or by a base and the class itself — is ONE field, see `upsert`: of two bases
the one listed first wins, the class' own declaration wins over every base). The `ann` of an entry is what
`WrappedField.resolved_type` must analyse for that class: `get_type_hints(cls)[name]`, not the annotation of the class
that first introduced the name. -/
def fieldTable (defs : List ClassDef) : List (Nat × List Field) :=
  defs.foldl (fun tbl c =>
    tbl ++ [(c.id, ((c.bases.reverse.flatMap (lookupFields tbl)) ++ c.own).foldl upsert [])]) []

def World.fieldsOf (w : World) (c : Nat) : List Field := lookupFields (fieldTable w.defs) c

/-- `cls.__bases__` restricted to the classes of the world -/
def World.basesOf (w : World) (c : Nat) : List Nat :=
  match w.defs.find? (fun d => d.id == c) with
  | some d => d.bases
  | none => []

/-- `DataclassOnlyIntrospector.discover`: `not f.name.startswith("_")` -/
def World.publicFields (w : World) (c : Nat) : List Field := (w.fieldsOf c).filter (fun f => !f.name.priv)

inductive EKind where
  | inh
  | assoc (f : FName)
  deriving DecidableEq, Repr

/-- `Inheritance(source = superclass, target = subclass)`, `Association(source = owner, target = endpoint, field)` -/
structure Edge where
  src : Nat
  dst : Nat
  kind : EKind
  deriving DecidableEq, Repr

/-- `_dependency_graph`: nodes in index order, edges in insertion order -/
structure Graph where
  nodes : List Nat
  edges : List Edge
  deriving DecidableEq, Repr

/-- `__post_init__`: `for clazz in classes: self.add_node(WrappedClass(clazz=clazz))` — one node per list entry
(a fresh `WrappedClass` has no index, so nothing is skipped; the property speaks of a *set* of classes, i.e. a
list without repetition, and the theorems assume `order.Nodup`) -/
def nodesOf (order : List Nat) : List Nat := order

/-- `_create_inheritance_relations` -/
def inhEdges (w : World) (nodes : List Nat) : List Edge :=
  nodes.flatMap fun c => (w.basesOf c).filterMap fun b =>
    if nodes.contains b then some ⟨b, c, .inh⟩ else none

/-- the target of a field's association, if its endpoint is mapped in the diagram -/
def assocOf (ep : Ann → Leaf) (nodes : List Nat) (c : Nat) (f : Field) : Option Edge :=
  match ep f.ann with
  | .cls t => if nodes.contains t then some ⟨c, t, .assoc f.name⟩ else none
  | _ => none

/-- `_create_association_relations` (no `Role` classes in the grammar, so every relation is an `Association`) -/
def assocEdges (ep : Ann → Leaf) (w : World) (nodes : List Nat) : List Edge :=
  nodes.flatMap fun c => (w.publicFields c).filterMap (assocOf ep nodes c)

/-- `ClassDiagram(classes)`; parameterised by the endpoint function so that the theorems can speak about it -/
def buildWith (ep : Ann → Leaf) (w : World) (order : List Nat) : Graph :=
  let nodes := nodesOf order
  ⟨nodes, inhEdges w nodes ++ assocEdges ep w nodes⟩

def build (q : Quirks) (w : World) (order : List Nat) : Graph := buildWith (endpoint q) w order

/-- the diagram the property demands -/
def specBuild (w : World) (order : List Nat) : Graph := buildWith specEndpoint w order

/-! ## 3. Derived views -/

/-- rustworkx `get_edge_data(u, v)` / `find_edge`: the most recently added edge u → v -/
def getEdgeData (g : Graph) (u v : Nat) : Option Edge :=
  (g.edges.filter (fun e => e.src == u && e.dst == v)).getLast?

def edgeList (g : Graph) : List (Nat × Nat) := g.edges.map (fun e => (e.src, e.dst))

def isInh : Option Edge → Bool
  | some ⟨_, _, .inh⟩ => true
  | _ => false

/-- `parent_map.get(v)`: note that the edge *data* is looked up again by end points -/
def parents (g : Graph) (v : Nat) : List Nat :=
  (edgeList g).filterMap fun p => if p.2 == v && isInh (getEdgeData g p.1 p.2) then some p.1 else none

def addAll (acc xs : List Nat) : List Nat := xs.foldl (fun acc x => if acc.contains x then acc else acc ++ [x]) acc

def expand (g : Graph) (seen : List Nat) : List Nat := seen.foldl (fun acc x => addAll acc (parents g x)) seen

def iter {α} (f : α → α) : Nat → α → α
  | 0, x => x
  | n + 1, x => iter f n (f x)

/-- `all_ancestors(node_idx)` (the DFS closure, as a duplicate-free list) -/
def allAncestors (g : Graph) (v : Nat) : List Nat := iter (expand g) g.nodes.length (addAll [] (parents g v))

/-- `Association.get_key(include_field_name)` without the constant class component -/
def assocKey (withField : Bool) (e : Edge) : Option (Nat × Option FName) :=
  match e.kind with
  | .assoc f => some (e.dst, if withField then some f else none)
  | .inh => none

/-- `get_assoc_keys_by_source` as a list of (source, key) -/
def assocKeysBySource (g : Graph) (withField : Bool) : List (Nat × (Nat × Option FName)) :=
  (edgeList g).filterMap fun p =>
    match getEdgeData g p.1 p.2 with
    | some e => (assocKey withField e).map (fun k => (p.1, k))
    | none => none

/-- the `edges_to_remove` list of `to_subdiagram_without_inherited_associations` -/
def edgesToRemove (g : Graph) (withField : Bool) : List (Nat × Nat) :=
  let keys := assocKeysBySource g withField
  (edgeList g).filter fun p =>
    match getEdgeData g p.1 p.2 with
    | some e =>
      (match assocKey withField e with
       | some k => (allAncestors g p.1).any (fun anc => keys.contains (anc, k))
       | none => false)
    | none => false

/-- rustworkx `remove_edge(u, v)`: removes the most recently added edge u → v; `NoEdgeBetweenNodes` is swallowed -/
def removeEdge (g : Graph) (p : Nat × Nat) : Graph :=
  { g with edges := (g.edges.reverse.eraseP (fun e => e.src == p.1 && e.dst == p.2)).reverse }

/-- the graph of the derived diagram -/
def derive (g : Graph) (withField : Bool) : Graph := (edgesToRemove g withField).foldl removeEdge g

/-- objects: graphs, and diagrams that *refer* to a graph -/
structure Store where
  graphs : List Graph
  diagrams : List Nat
  deriving DecidableEq, Repr

inductive Op where
  | query (d : Nat) (k : Nat)            -- any of the read-only accessors, for every class of the diagram
  | access (d : Nat) (c : Nat) (k : Nat)  -- one read-only accessor for one class (`get_out_edges(C<c>)`, …)
  | read (d : Nat)                        -- read EVERY public read accessor of diagram `d` (properties and query methods)
  | render (d : Nat) (withAssoc : Bool)  -- `_build_rxnode_tree` / `visualize`
  | copy (d : Nat)                        -- `copy.copy(diagram)`
  | sub (d : Nat) (withField : Bool)      -- `to_subdiagram_without_inherited_associations(include_field_name)`
  deriving DecidableEq, Repr

def Store.graphOf (s : Store) (d : Nat) : Option Graph :=
  match s.diagrams[d]? with
  | some gid => s.graphs[gid]?
  | none => none

/-- one operation. `sub`: `result = copy(self)` shares the graph reference (quirk `shallowCopy`); the repaired code
gives the result its own copy of the graph. The second component says whether edges were removed from a graph
that existed before. -/
def stepOp (q : Quirks) (s : Store) : Op → Store × Bool
  | .query _ _ => (s, false)
  | .access _ _ _ => (s, false)
  | .read _ => (s, false)
  | .render _ _ => (s, false)
  | .copy d =>
    (match s.diagrams[d]? with
     | some gid => ({ s with diagrams := s.diagrams ++ [gid] }, false)
     | none => (s, false))
  | .sub d withField =>
    (match s.diagrams[d]? with
     | none => (s, false)
     | some gid =>
       match s.graphs[gid]? with
       | none => (s, false)
       | some g =>
         if q.shallowCopy then
           ({ graphs := s.graphs.set gid (derive g withField), diagrams := s.diagrams ++ [gid] },
            !(edgesToRemove g withField).isEmpty)
         else
           ({ graphs := s.graphs ++ [derive g withField], diagrams := s.diagrams ++ [s.graphs.length] }, false))

def runOps (q : Quirks) (s : Store) : List Op → Store
  | [] => s
  | op :: ops => runOps q (stepOp q s op).1 ops

/-- did any step remove edges from a shared graph (trigger of F-C17-1) -/
def touched (q : Quirks) (s : Store) : List Op → Bool
  | [] => false
  | op :: ops => (stepOp q s op).2 || touched q (stepOp q s op).1 ops

/-- observation of a run: after each operation, the diagrams that existed before it and now look different -/
def changes (q : Quirks) (s : Store) : List Op → List (List (Nat × Option Graph))
  | [] => []
  | op :: ops =>
    let s' := (stepOp q s op).1
    ((List.range s.diagrams.length).filterMap fun d =>
        if s'.graphOf d == s.graphOf d then none else some (d, s'.graphOf d))
      :: changes q s' ops

/-- what the property demands of any run: nothing that existed changes -/
def specChanges (ops : List Op) : List (List (Nat × Option Graph)) := ops.map (fun _ => [])

def Store.init (g : Graph) : Store := ⟨[g], [0]⟩

/-! ### What the accessors report

`get_out_edges(c)` / `get_outgoing_relations(c)` are `_dependency_graph.out_edges(index of c)` of the diagram they are
called on (`get_associations_with_condition`, `get_outgoing/incoming_neighbors_with_relation_type` are filters of the
same data). Whatever caching the implementation uses, the property demands that every diagram keeps reporting its
own graph, no matter which other diagram (source or derived view) was read before. -/

/-- `get_out_edges(c)` on a diagram whose graph is `g` -/
def outEdges (g : Graph) (c : Nat) : List Edge := g.edges.filter (fun e => e.src == c)

/-- everything the per-class accessors of a diagram report, class by class -/
def reported (g : Graph) : List Edge := g.nodes.flatMap (outEdges g)

/-- every edge starts and ends at a node of the graph -/
def Graph.Closed (g : Graph) : Prop := ∀ e ∈ g.edges, e.src ∈ g.nodes ∧ e.dst ∈ g.nodes

/-! ### The accessor read-out

Every public read accessor of `ClassDiagram` (`parent_map`, `all_ancestors`, `get_assoc_keys_by_source`,
`get_out_edges`, `wrapped_classes`, …: whatever introspection finds) is, in the model, a function of the diagram's
graph — its classes and edges — and of nothing else: no accessor has state of its own. `readTrace` is what a sequence
of `read d` operations interleaved with any other operations observes for one such accessor: at each `read d` the
value is compared with the value the previous `read d` returned. -/

/-- `parent_map` as (child, parents) pairs for the nodes that have parents -/
def parentMap (g : Graph) : List (Nat × List Nat) :=
  g.nodes.filterMap fun v => if (parents g v).isEmpty then none else some (v, addAll [] (parents g v))

/-- the accessors the model spells out (the theorem is about *any* function of the graph) -/
structure Readout where
  nodes : List Nat
  parentMap : List (Nat × List Nat)
  ancestors : List (Nat × List Nat)
  keys : List (Nat × (Nat × Option FName))
  keysWithField : List (Nat × (Nat × Option FName))
  outEdges : List (Nat × List Edge)
  deriving DecidableEq, Repr

def readout (g : Graph) : Readout :=
  { nodes := g.nodes, parentMap := parentMap g, ancestors := g.nodes.map (fun v => (v, allAncestors g v)),
    keys := assocKeysBySource g false, keysWithField := assocKeysBySource g true,
    outEdges := g.nodes.map (fun v => (v, outEdges g v)) }

/-- for each operation: did a `read d` see a value different from the one the previous `read d` saw?
`memo` = the values seen so far (newest first). -/
def readTrace {α} [DecidableEq α] (acc : Graph → α) (q : Quirks) (s : Store) (memo : List (Nat × α)) :
    List Op → List Bool
  | [] => []
  | op :: ops =>
    let s' := (stepOp q s op).1
    match op with
    | .read d =>
      (match s'.graphOf d with
       | none => false :: readTrace acc q s' memo ops
       | some g =>
         (match memo.find? (fun p => p.1 == d) with
          | some p => decide (p.2 ≠ acc g)
          | none => false) :: readTrace acc q s' ((d, acc g) :: memo) ops)
    | _ => false :: readTrace acc q s' memo ops

/-- observation after a run: the diagrams whose accessor reports differ (as a set of edges) from their graph -/
def misreported (s : Store) : List (Nat × List Edge) :=
  (List.range s.diagrams.length).filterMap fun d =>
    match s.graphOf d with
    | some g => if (reported g).all (g.edges.contains ·) && g.edges.all ((reported g).contains ·) then none
                else some (d, reported g)
    | none => none

end KrroodVerif.CD
