/-!
M-PD — property descriptors (`ontomatic/property_descriptor/*.py`, `SymbolGraph.add_relation`). Core Lean only.

Python → model
* a relation edge `PropertyDescriptorRelation(source, target, wrapped_field)` is a `Fact = (field, source, target)`;
  `SymbolGraph.relation_exists` (keyed by wrapped field + node indices) is list membership.
* `PropertyDescriptorRelation.add_to_graph` is `addFact` (graph only) / `addCore` (graph + backing fields):
  if present stop; insert; (`update_source_wrapped_field_value` when inferred); `infer_super_relations`
  (direct, then role taker); `infer_inverse_relation`; `infer_transitive_relations` (outgoing from a *snapshot* of the
  target's out-edges, then incoming from a *snapshot* of the source's in-edges); every inferred relation recursively.
  Python's recursion is bounded by the finite number of possible edges; the model takes that bound as fuel.
* the declared semantics are a `Schema` (fields with class / descriptor class / kind, strict super-properties,
  inverse, transitive descriptor classes) and a `World` (class and role taker of every object); `uRule` transcribes
  `super_relations`, `role_taker_super_relations`, `inverse_domain_and_field`.
* `PropertyDescriptor.update_value` is `updateValue`; `__set__` on a single-valued field is `Op.set1`, on a
  container field `Op.assign` (clear, then `_add_item` of every element of `make_set(value)`); `MonitoredList.append`
  / `MonitoredSet.add` is `Op.add`.
* for C16 the monitored container itself is `CState` (contents + log of `_on_add` hook calls); every write path of
  `MonitoredList` / `MonitoredSet`, overridden or inherited, is a `COp`; the assigned value may BE the live
  container (`Assigned.same`).

Fragment (stated once, validated by the correspondence): domain classes do not inherit managed fields from each
other (so the wrapped field of a relation is the descriptor's own wrapped field); a transitive descriptor class is
attached to one field; the schema is well-formed (an inverse always finds its field, so `ValueError` is never raised).
-/
namespace KrroodVerif.PD

abbrev Fact := Nat × Nat × Nat   -- (field, source, target)

/-- the declared inference rules in the abstract: unary consequences of a fact and the transitive fields -/
structure Rules where
  u  : Fact → List Fact
  tr : Nat → Bool

/-- fuelled transcription of `PropertyDescriptorRelation.add_to_graph` (graph part) -/
def addFact (R : Rules) : Nat → List Fact → Fact → List Fact
  | 0, g, _ => g
  | n+1, g, r =>
    if r ∈ g then g else
    let g1 := r :: g
    let g2 := (R.u r).foldl (fun h q => addFact R n h q) g1
    if R.tr r.1 then
      let outs := g2.filter (fun q => q.1 == r.1 && q.2.1 == r.2.2)
      let g3 := (outs.map fun q => (r.1, r.2.1, q.2.2)).foldl (fun h t => addFact R n h t) g2
      let ins := g3.filter (fun q => q.1 == r.1 && q.2.2 == r.2.1)
      (ins.map fun q => (r.1, q.2.1, r.2.2)).foldl (fun h t => addFact R n h t) g3
    else g2

/-- assert a whole history of facts, in the order given -/
def run (R : Rules) (fuel : Nat) (hist : List Fact) : List Fact :=
  hist.foldl (fun g r => addFact R fuel g r) []

/-- **Spec.** the least set closed under the declared rules that contains the asserted facts -/
inductive Derivable (R : Rules) (A : Fact → Prop) : Fact → Prop
  | base {f} : A f → Derivable R A f
  | unary {p q} : Derivable R A p → q ∈ R.u p → Derivable R A q
  | trans {f a b c} : R.tr f = true → Derivable R A (f, a, b) → Derivable R A (f, b, c) → Derivable R A (f, a, c)

/-! ### Executable specification: naive saturation (independent of `addFact`) -/

def addNew (g : List Fact) (xs : List Fact) : List Fact :=
  xs.foldl (fun h x => if x ∈ h then h else x :: h) g

/-- all one-step consequences of the facts in `g` -/
def consequences (R : Rules) (g : List Fact) : List Fact :=
  (g.flatMap R.u) ++
  (g.flatMap fun p => if R.tr p.1 then
      (g.filter fun q => q.1 == p.1 && q.2.1 == p.2.2).map (fun q => (p.1, p.2.1, q.2.2)) else [])

/-- saturate until a round adds nothing; `(result, converged)` -/
def saturate (R : Rules) : Nat → List Fact → List Fact × Bool
  | 0, g => (g, false)
  | n+1, g =>
    let c := consequences R g
    if c.all (fun x => decide (x ∈ g)) then (g, true) else saturate R n (addNew g c)

def closure (R : Rules) (fuel : Nat) (asserted : List Fact) : List Fact × Bool :=
  saturate R fuel (addNew [] asserted)

/-! ### The schema: what the descriptor classes declare -/

inductive Kind where | single | list | set
  deriving Repr, DecidableEq

structure FieldDecl where
  cls : Nat      -- the domain class the descriptor instance is attached to
  prop : Nat     -- the descriptor class
  kind : Kind
  also : List Nat := []   -- further, unrelated domain classes the SAME descriptor class is attached to
  deriving Repr, DecidableEq

structure Schema where
  fields : List FieldDecl          -- field id = position
  supers : List (Nat × List Nat)   -- descriptor class ↦ its strict super classes (`issubclass`, not itself)
  inverse : List (Nat × Nat)       -- descriptor class ↦ `get_inverse()`
  transProps : List Nat            -- descriptor classes that are `TransitiveProperty`
  parents : List (Nat × List Nat) := []   -- domain class ↦ its strict super classes (managed fields are inherited)
  deriving Repr

structure World where
  cls : List Nat                   -- class of object i
  rt : List (Option Nat)           -- role taker of object i (value of its `HasRoleTaker` field), if its class has one
  deriving Repr

def Schema.decl (S : Schema) (f : Nat) : FieldDecl := S.fields.getD f { cls := 0, prop := 0, kind := .list }
def Schema.propOf (S : Schema) (f : Nat) : Nat := (S.decl f).prop
def Schema.kindOf (S : Schema) (f : Nat) : Kind := (S.decl f).kind
def Schema.supersOf (S : Schema) (p : Nat) : List Nat :=
  match S.supers.find? (fun e => e.1 == p) with | some e => e.2 | none => []
def Schema.inverseOf (S : Schema) (p : Nat) : Option Nat := (S.inverse.find? (fun e => e.1 == p)).map (·.2)
def World.clsOf (W : World) (o : Nat) : Nat := W.cls.getD o 0
def World.rtOf (W : World) (o : Nat) : Option Nat := (W.rt.getD o none)

/-- `c` is `d` or a subclass of it -/
def Schema.isa (S : Schema) (c d : Nat) : Bool :=
  c == d || (match S.parents.find? (fun e => e.1 == c) with | some e => e.2.contains d | none => false)

/-- instances of class `c` have the field: `c` is (a subclass of) one of its domain classes -/
def Schema.applies (S : Schema) (f c : Nat) : Bool :=
  S.isa c (S.decl f).cls || (S.decl f).also.any (S.isa c)

/-- the managed fields of class `c` (associations of the class in the class diagram, inherited ones included).
A relation is identified by (descriptor, source, target): the implementation additionally tells apart the owner
class recorded in the wrapped field (`Place.located_in` / `City.located_in` for a `City(Place)` instance, or the
same descriptor class attached to two classes); the model works on the quotient, which is what the property
observes. -/
def Schema.fieldsOf (S : Schema) (c : Nat) : List Nat :=
  (List.range S.fields.length).filter fun f => S.applies f c

/-- `get_fields_of_superproperties(domain_type)`: fields of `c` whose descriptor class is a strict super class of `p` -/
def Schema.superFields (S : Schema) (c p : Nat) : List Nat :=
  (S.fieldsOf c).filter fun g => (S.supersOf p).contains (S.propOf g)

/-- `get_associated_field_of_domain_type(domain_type)`: first field of `c` whose descriptor class is exactly `q` -/
def Schema.exactField (S : Schema) (c q : Nat) : Option Nat :=
  (S.fieldsOf c).find? fun g => S.propOf g == q

/-- unary consequences of a new relation: `infer_super_relations` (direct, role taker) then `infer_inverse_relation` -/
def uRule (S : Schema) (W : World) (r : Fact) : List Fact :=
  let p := S.propOf r.1
  let s := r.2.1
  let t := r.2.2
  let direct := (S.superFields (W.clsOf s) p).map fun g => (g, s, t)
  let role := match W.rtOf s with
    | some x => (S.superFields (W.clsOf x) p).map fun g => (g, x, t)
    | none => []
  let inv := match S.inverseOf p with
    | none => []
    | some q =>
      match S.exactField (W.clsOf t) q with
      | some g => [(g, t, s)]
      | none =>
        match W.rtOf t with
        | some x => (match S.exactField (W.clsOf x) q with | some g => [(g, x, s)] | none => [])
        | none => []
  direct ++ role ++ inv

def schemaRules (S : Schema) (W : World) : Rules :=
  { u := uRule S W, tr := fun f => S.transProps.contains (S.propOf f) }

/-- the finite allFacts of facts over `nF` fields and `nO` objects -/
def allFacts (nF nO : Nat) : List Fact :=
  (List.range nF).flatMap fun f => (List.range nO).flatMap fun s => (List.range nO).map fun t => (f, s, t)

def World.size (W : World) : Nat := W.cls.length
/-- fuel that suffices for any history over the schema and world (number of possible facts + 1) -/
def fuelFor (S : Schema) (W : World) : Nat := (allFacts S.fields.length W.size).length + 1

/-! ### Graph + backing fields (C15 `fields_agree`) -/

/-- the hidden backing fields: `store f o` = contents of field `f` of object `o`
(a single-valued field is `[]` for `None` or `[v]`); newest cell first -/
structure Store where
  cells : List ((Nat × Nat) × List Nat)

def Store.get (st : Store) (f o : Nat) : List Nat :=
  match st.cells.find? (fun c => c.1.1 == f && c.1.2 == o) with
  | some c => c.2
  | none => []

instance : CoeFun Store (fun _ => Nat → Nat → List Nat) := ⟨Store.get⟩

def Store.set (st : Store) (f o : Nat) (v : List Nat) : Store := ⟨((f, o), v) :: st.cells⟩

structure State where
  g : List Fact
  st : Store
  clob : Bool     -- some container assignment found an earlier ASSERTED element in its field (trigger of F-C15-3)
  inf : List Fact := []   -- `_inferred_items`: the elements put into container fields by inference, in that order

/-- `PropertyDescriptor.update_value(source, target)`: containers `_update` (add only when absent),
single-valued fields are overwritten when different -/
def updateValue (K : Nat → Kind) (st : Store) (r : Fact) : Store :=
  match K r.1 with
  | .single => if st r.1 r.2.1 = [r.2.2] then st else st.set r.1 r.2.1 [r.2.2]
  | _ => if r.2.2 ∈ st r.1 r.2.1 then st else st.set r.1 r.2.1 (st r.1 r.2.1 ++ [r.2.2])

/-- `MonitoredContainer._update` remembers what inference put into the container (only when it really added it) -/
def markInf (K : Nat → Kind) (σ : State) (r : Fact) : List Fact :=
  match K r.1 with
  | .single => σ.inf
  | _ => if r.2.2 ∈ σ.st r.1 r.2.1 || σ.inf.contains r then σ.inf else σ.inf ++ [r]

/-- `add_to_graph` with the write-back of inferred relations; `inferred` is the relation's flag -/
def addCore (R : Rules) (K : Nat → Kind) : Nat → State → Fact → Bool → State
  | 0, σ, _, _ => σ
  | n+1, σ, r, inferred =>
    if r ∈ σ.g then σ else
    let σ1 : State := { σ with g := r :: σ.g, st := if inferred then updateValue K σ.st r else σ.st,
                               inf := if inferred then markInf K σ r else σ.inf }
    let σ2 := (R.u r).foldl (fun h q => addCore R K n h q true) σ1
    if R.tr r.1 then
      let outs := σ2.g.filter (fun q => q.1 == r.1 && q.2.1 == r.2.2)
      let σ3 := (outs.map fun q => (r.1, r.2.1, q.2.2)).foldl (fun h t => addCore R K n h t true) σ2
      let ins := σ3.g.filter (fun q => q.1 == r.1 && q.2.2 == r.2.1)
      (ins.map fun q => (r.1, q.2.1, r.2.2)).foldl (fun h t => addCore R K n h t true) σ3
    else σ2

/-- insertion into a sorted list without repetition -/
def insertSorted (x : Nat) : List Nat → List Nat
  | [] => [x]
  | y :: ys => if x < y then x :: y :: ys else if x = y then y :: ys else y :: insertSorted x ys

/-- `make_set(value)` iterated: the elements without repetition in hash order. The harness classes hash to their
index, so CPython iterates a set of them in ascending index order (assumption, validated by the correspondence). -/
def hashOrder (xs : List Nat) : List Nat := xs.foldr insertSorted []

/-- the assertions of a history -/
inductive Op where
  | set1 (f s t : Nat)              -- `s.f = t` on a single-valued field
  | add (f s t : Nat)               -- `s.f.append(t)` / `s.f.add(t)`
  | assign (f s : Nat) (xs : List Nat)   -- `s.f = [..]` / `s.f = {..}` (a fresh collection) on a container field
  -- an event outside the descriptors: an instance without relations dies, a new instance is created (possibly at
  -- the same address), dead nodes are swept from the symbol graph — nothing among the live instances changes
  | churn
  -- F-C15-2: `add_relation_to_the_graph` tests `if domain_value and range_value` (truthiness): a write in which the
  -- owner or the written element is falsy at that moment (`__len__() == 0` / `__bool__() == False`) is stored in
  -- the field and NOT asserted. `storeOnly`: such a `s.f = t` / append / add; `assignQ f s xs muted`: a collection
  -- assignment whose elements in `muted` are stored only (all of them when the owner is falsy).
  | storeOnly (f s t : Nat)
  | assignQ (f s : Nat) (xs muted : List Nat)
  deriving Repr, DecidableEq

/-- `list.append` / `set.add` on the raw contents -/
def storeAdd (k : Kind) (c : List Nat) (t : Nat) : List Nat :=
  match k with | .set => if t ∈ c then c else c ++ [t] | _ => c ++ [t]

/-- `MonitoredList._add_item` / `MonitoredSet._add_item` with the owner bound: `_on_add` (assert the relation,
with all inference), then store the element -/
def addItem (R : Rules) (K : Nat → Kind) (n : Nat) (σ : State) (f s t : Nat) : State :=
  let σ' := addCore R K n σ (f, s, t) false
  { σ' with st := σ'.st.set f s (storeAdd (K f) (σ'.st f s) t) }

/-- the elements inference put into field `f` of `s` -/
def inferredOf (σ : State) (f s : Nat) : List Nat :=
  (σ.inf.filter fun r => r.1 == f && r.2.1 == s).map (·.2.2)

/-- `for v in list(attr._inferred_items): attr._update(v)`: the inferred elements that are missing come back -/
def reAdd (σ : State) (f s : Nat) : State :=
  { σ with st := σ.st.set f s ((inferredOf σ f s).foldl (fun c t => if t ∈ c then c else c ++ [t]) (σ.st f s)) }

def step (R : Rules) (K : Nat → Kind) (n : Nat) (σ : State) : Op → State
  | .set1 f s t =>
    -- `__set__`, non-container branch: `setattr` first, then `add_relation_to_the_graph`
    addCore R K n { σ with st := σ.st.set f s [t] } (f, s, t) false
  | .add f s t => addItem R K n σ f s t
  | .assign f s xs =>
    -- `__set__`, container branch: `attr._clear()`, `_add_item` for every assigned element IN THE ORDER GIVEN,
    -- repetitions included (the order decides which elements arrive by assertion and which by inference), then the elements that
    -- inference had put there are added again (their relations are still in the graph). What is lost are earlier
    -- ASSERTED elements: their relations stay although they left the field (no retraction, F-C15-3).
    let σ0 : State := { σ with st := σ.st.set f s [],
                               clob := σ.clob || (σ.st f s).any (fun t => !σ.inf.contains (f, s, t)) }
    reAdd (xs.foldl (fun h t => addItem R K n h f s t) σ0) f s
  | .churn => σ
  | .storeOnly f s t =>
    { σ with st := σ.st.set f s (match K f with | .single => [t] | k => storeAdd k (σ.st f s) t) }
  | .assignQ f s xs muted =>
    let σ0 : State := { σ with st := σ.st.set f s [], clob := σ.clob || !(σ.st f s).isEmpty }
    xs.foldl (fun h t =>
      if muted.contains t then { h with st := h.st.set f s (storeAdd (K f) (h.st f s) t) }
      else addItem R K n h f s t) σ0

def State.init : State := { g := [], st := ⟨[]⟩, clob := false, inf := [] }

def runOps (R : Rules) (K : Nat → Kind) (n : Nat) (ops : List Op) : State :=
  ops.foldl (step R K n) State.init

/-- the facts a history asserts -/
def Op.facts : Op → List Fact
  | .set1 f s t => [(f, s, t)]
  | .add f s t => [(f, s, t)]
  | .assign f s xs => xs.map fun t => (f, s, t)
  | .churn => []
  | .storeOnly _ _ _ => []
  | .assignQ f s xs muted => (xs.filter fun t => !muted.contains t).map fun t => (f, s, t)

def asserted (ops : List Op) : List Fact := ops.flatMap Op.facts

/-- each operation is used on a field of the matching kind -/
def Op.wellKinded (K : Nat → Kind) : Op → Bool
  | .set1 f _ _ => K f == .single
  | .add f _ _ => K f != .single
  | .assign f _ _ => K f != .single
  | .churn => true
  | .storeOnly _ _ _ => false   -- a store without its relation: outside `C15_fields_agree` (trigger of F-C15-2)
  | .assignQ _ _ _ _ => false

/-- the model of the code on a history: graph, backing fields, clobber flag -/
def runModel (S : Schema) (W : World) (ops : List Op) : State :=
  runOps (schemaRules S W) S.kindOf (fuelFor S W) ops

/-! ### C16: one monitored container and every way of writing it

The container of field `f` of object `a` is its contents plus the log of `_on_add` hook calls made with the owner
bound (each call is `add_relation_to_the_graph(owner, x)`, i.e. the assertion of `(f, a, x)` with all its
inference — the C15 model). The hook never changes the contents of the container it is called from (the fields
used for C16 are not transitive; validated by the correspondence). -/

/-- documented deviations of the code as it is (DESIGN §2.4); all `false` = repaired -/
structure Quirks where
  setterClearsAlias : Bool   -- F-C16-1 / F-C16-2: `__set__` clears the live container before reading the value
  setterHashOrder : Bool     -- F-C16-3: `__set__` copies through `make_set` (no repetitions, hash order)
  inplaceBypass : Bool       -- F-C16-4: inherited `list.__iadd__` / `set.__ior__` add without the hook
  sliceBatchHook : Bool      -- F-C16-7 / F-C16-8: `l[i:j] = value` hands the whole value to the hook BEFORE storing it
  -- F-C16-9: `add_relation_to_the_graph` tests `if domain_value and range_value` — TRUTHINESS. At this step the
  -- hook records nothing for the elements in `muted` (instances that are falsy right now: `__len__() == 0` /
  -- `__bool__() == False`) and nothing at all when `muteAll` (the owner is falsy). Repaired = `[]`, `false`.
  muted : List Nat
  muteAll : Bool
  deriving Repr, DecidableEq

def Quirks.asIs : Quirks := ⟨true, true, true, true, [], false⟩
def Quirks.none : Quirks := ⟨false, false, false, false, [], false⟩
/-- what the hook actually records of the elements handed to it -/
def Quirks.recorded (Q : Quirks) (xs : List Nat) : List Nat :=
  xs.filter fun x => !Q.muteAll && !Q.muted.contains x
/-- the code as it is now (F-C16-1..4 repaired, slice assignment not) -/
def Quirks.now : Quirks := ⟨false, false, false, true, [], false⟩

/-- `super().append(x)` / `super().add(x)`. `key o` is the value object `o` compares by (`==` / `hash`): a list
stores by position and identity, a set keeps the FIRST of several elements that compare equal (Python set
semantics); with `key = id` all objects are pairwise unequal -/
def rawAdd (key : Nat → Nat) (isSet : Bool) (c : List Nat) (x : Nat) : List Nat :=
  if isSet then (if c.any (fun y => key y == key x) then c else c ++ [x]) else c ++ [x]

/-- an iterable computed from the live container, usually lazily: it reads the container when it is consumed -/
inductive View where
  | filt (keep : List Nat)   -- `(x for x in a.f if pred(x))` / `filter(pred, a.f)`; `keep` = the elements satisfying pred
  | rev                      -- `reversed(a.f)` (lists only)
  | iter                     -- `iter(a.f)`
  | chain (xs : List Nat)    -- `itertools.chain(a.f, xs)`
  | keys                     -- `dict.fromkeys(a.f)` (eager: first occurrences, in order)
  deriving Repr, DecidableEq

/-- what the iterable yields when it is consumed while the container holds `c` -/
def View.eval (key : Nat → Nat) : View → List Nat → List Nat
  | .filt keep, c => c.filter (fun x => keep.contains x)
  | .rev, c => c.reverse
  | .iter, c => c
  | .chain xs, c => c ++ xs
  | .keys, c => c.foldl (rawAdd key true) []

/-- the value handed to `__set__`: the live container itself, another collection, or an iterable over the live
container -/
inductive Assigned where
  | same
  | other (xs : List Nat)
  | lazyOf (v : View)
  deriving Repr, DecidableEq

/-- no two elements compare equal (what a Python set guarantees of its elements) -/
def KeyDistinct (key : Nat → Nat) (c : List Nat) : Prop := c.Pairwise (fun a b => key a ≠ key b)

structure CState where
  c : List Nat       -- contents (a set keeps insertion order here and is observed sorted)
  calls : List Nat   -- `_on_add` calls with the owner bound, in order
  deriving Repr, DecidableEq

inductive COp where
  | append (x : Nat)                 -- `append` / `add`
  | extend (xs : List Nat)           -- `extend` / `update`
  | insert (i : Int) (x : Nat)
  | setitem (i : Int) (x : Nat)
  -- `a.f[i:j] = value` (no step); `oneShot`: the value is a generator / iterator, not a list or tuple
  | setslice (i j : Option Int) (oneShot : Bool) (xs : List Nat)
  | assign (xs : List Nat)           -- `a.f = <fresh list / set>`
  | assignSelf                       -- `a.f = a.f`
  | assignView (v : View)            -- `a.f = <iterable over a.f>`, e.g. `a.f = filter(pred, a.f)`
  | iadd (xs : List Nat)             -- `a.f += xs` / `a.f |= xs`
  | iaddAlias (xs : List Nat)        -- `c = a.f; c += xs` / `c |= xs` (the operator without re-assignment)
  -- mutators OUTSIDE the property's list that only REMOVE elements (inherited from `list` / `set`, no hook): the
  -- property still implies that the contents follow Python and that nothing needs recording (no element enters)
  | remove (x : Nat)                 -- `a.f.remove(x)`: the first element equal to `x` (list) / the element equal to `x` (set)
  | discard (x : Nat)                -- `a.f.discard(x)` (sets): like `remove`, silent when absent
  | pop (i : Option Int)             -- `a.f.pop()` / `a.f.pop(i)` (lists; `set.pop` takes an arbitrary element: not modelled)
  | delitem (i : Int)                -- `del a.f[i]`
  | delslice (i j : Option Int)      -- `del a.f[i:j]` (no step)
  | clear                            -- `a.f.clear()`
  deriving Repr, DecidableEq

/-- where `list.insert(i, _)` puts the element in a list of length `n` (negative indices count from the end,
everything is clamped) -/
def pyInsertPos (n : Nat) (i : Int) : Nat :=
  if i < 0 then (if (n : Int) + i < 0 then 0 else ((n : Int) + i).toNat) else (if i > (n : Int) then n else i.toNat)

/-- Python `list.insert(i, x)` -/
def pyInsert (c : List Nat) (i : Int) (x : Nat) : List Nat :=
  c.take (pyInsertPos c.length i) ++ [x] ++ c.drop (pyInsertPos c.length i)

/-- Python index normalisation for `c[i] = x` -/
def pyIndex (n : Nat) (i : Int) : Option Nat :=
  if 0 ≤ i ∧ i < (n : Int) then some i.toNat
  else if i < 0 ∧ -(n : Int) ≤ i then some ((n : Int) + i).toNat else none

def pySetItem (c : List Nat) (i : Int) (x : Nat) : List Nat :=
  match pyIndex c.length i with | some k => c.set k x | none => c

/-- Python `c[i:j] = xs` (no step): bounds clamped like `slice.indices`, an inverted window is empty at `start` -/
def pySetSlice (c : List Nat) (i j : Option Int) (xs : List Nat) : List Nat :=
  let start := match i with | some i => pyInsertPos c.length i | none => 0
  let stop := match j with | some j => pyInsertPos c.length j | none => c.length
  c.take start ++ xs ++ c.drop (if stop < start then start else stop)

/-- Python `list.remove(x)` / `set.remove(x)` / `set.discard(x)`: the first element that compares equal to `x` leaves
(identity implies equality, so `x` itself counts); nothing happens when there is none (`remove` raises then: the
driver rejects such cases) -/
def pyRemove (key : Nat → Nat) (c : List Nat) (x : Nat) : List Nat := c.eraseP (fun y => key y == key x)

/-- Python `del c[i]` (index normalised like item assignment; out of range raises: rejected by the driver) -/
def pyDelItem (c : List Nat) (i : Int) : List Nat :=
  match pyIndex c.length i with | some k => c.eraseIdx k | none => c

/-- Python `c.pop()` / `c.pop(i)` as far as the contents go -/
def pyPop (c : List Nat) (i : Option Int) : List Nat := pyDelItem c (i.getD (-1))

/-- no two DISTINCT elements compare equal -/
def noEqualTwins (key : Nat → Nat) (xs : List Nat) : Bool :=
  xs.all fun x => xs.all fun y => key x != key y || x == y

/-- `_add_item(x)`: `_on_add` (hook), then the raw add -/
def addItemC (key : Nat → Nat) (Q : Quirks) (isSet : Bool) (σ : CState) (x : Nat) : CState :=
  ⟨rawAdd key isSet σ.c x, σ.calls ++ Q.recorded [x]⟩

/-- the order in which `__set__` walks the assigned value -/
def walkOrder (Q : Quirks) (xs : List Nat) : List Nat :=
  if Q.setterHashOrder then hashOrder xs else xs

/-- `PropertyDescriptor.__set__(obj, value)` on a field that already holds its monitored container -/
def setterC (key : Nat → Nat) (Q : Quirks) (isSet : Bool) (σ : CState) (v : Assigned) : CState :=
  let items := match v with
    | .same => if Q.setterClearsAlias then [] else walkOrder Q σ.c   -- as is: read after `attr._clear()`
    | .other xs => walkOrder Q xs
    -- repaired: `list(value)` is taken before `_clear()`; with the quirk the iterable is consumed after it
    | .lazyOf v => walkOrder Q (v.eval key (if Q.setterClearsAlias then [] else σ.c))
  items.foldl (addItemC key Q isSet) ⟨[], σ.calls⟩

/-- `list.__iadd__` / `set.__ior__` -/
def inplaceC (key : Nat → Nat) (Q : Quirks) (isSet : Bool) (σ : CState) (xs : List Nat) : CState :=
  if Q.inplaceBypass then ⟨xs.foldl (rawAdd key isSet) σ.c, σ.calls⟩ else xs.foldl (addItemC key Q isSet) σ

def stepC (key : Nat → Nat) (Q : Quirks) (isSet : Bool) (σ : CState) : COp → CState
  | .append x => addItemC key Q isSet σ x
  | .extend xs => xs.foldl (addItemC key Q isSet) σ
  | .insert i x => ⟨pyInsert σ.c i x, σ.calls ++ Q.recorded [x]⟩       -- `_on_add`, then `list.insert`
  | .setitem i x => ⟨pySetItem σ.c i x, σ.calls ++ Q.recorded [x]⟩     -- `_on_add`, then `list.__setitem__`
  | .setslice i j oneShot xs =>
    if Q.sliceBatchHook then
      -- `value = self._on_add(value)`: `add_relation_to_the_graph(owner, value)` walks `make_set(value)` — one
      -- relation per VALUE (the first of equal elements), and a one-shot iterable is used up — then the store
      ⟨pySetSlice σ.c i j (if oneShot then [] else xs), σ.calls ++ Q.recorded (xs.foldl (rawAdd key true) [])⟩
    else ⟨pySetSlice σ.c i j xs, σ.calls ++ Q.recorded xs⟩
  | .assign xs => setterC key Q isSet σ (.other xs)
  | .assignSelf => setterC key Q isSet σ .same
  | .assignView v => setterC key Q isSet σ (.lazyOf v)
  | .iadd xs => setterC key Q isSet (inplaceC key Q isSet σ xs) .same   -- `t = a.f.__iadd__(xs); a.f = t`
  | .iaddAlias xs => inplaceC key Q isSet σ xs
  -- inherited `list` / `set` methods, never overridden: the contents change, the hook is not involved
  | .remove x => ⟨pyRemove key σ.c x, σ.calls⟩
  | .discard x => ⟨pyRemove key σ.c x, σ.calls⟩
  | .pop i => ⟨pyPop σ.c i, σ.calls⟩
  | .delitem i => ⟨pyDelItem σ.c i, σ.calls⟩
  | .delslice i j => ⟨pySetSlice σ.c i j [], σ.calls⟩
  | .clear => ⟨[], σ.calls⟩

/-- a run in which every step has its own quirk record: the truthiness gate (`muted`, `muteAll`) depends on which
instances are falsy at that step -/
def runG (key : Nat → Nat) (isSet : Bool) (σ : CState) (steps : List (Quirks × COp)) : CState :=
  steps.foldl (fun τ qo => stepC key qo.1 isSet τ qo.2) σ

def Quirks.ungated (Q : Quirks) : Bool := Q.muted.isEmpty && !Q.muteAll

def runC (key : Nat → Nat) (Q : Quirks) (isSet : Bool) (σ : CState) (ops : List COp) : CState := ops.foldl (stepC key Q isSet) σ

/-- **Spec.** Python list / set semantics for the contents; every element that becomes part of the field enters
the log (is asserted, "as if appended individually") -/
def specStepC (key : Nat → Nat) (isSet : Bool) (σ : CState) : COp → CState
  | .append x => ⟨rawAdd key isSet σ.c x, σ.calls ++ [x]⟩
  | .extend xs => ⟨xs.foldl (rawAdd key isSet) σ.c, σ.calls ++ xs⟩
  | .insert i x => ⟨pyInsert σ.c i x, σ.calls ++ [x]⟩
  | .setitem i x => ⟨pySetItem σ.c i x, σ.calls ++ [x]⟩
  | .setslice i j _ xs => ⟨pySetSlice σ.c i j xs, σ.calls ++ xs⟩
  | .assign xs => ⟨xs.foldl (rawAdd key isSet) [], σ.calls ++ xs⟩
  | .assignSelf => σ
  | .assignView v => ⟨(v.eval key σ.c).foldl (rawAdd key isSet) [], σ.calls ++ v.eval key σ.c⟩   -- evaluated BEFORE the assignment
  | .iadd xs => ⟨xs.foldl (rawAdd key isSet) σ.c, σ.calls ++ xs⟩
  | .iaddAlias xs => ⟨xs.foldl (rawAdd key isSet) σ.c, σ.calls ++ xs⟩
  -- removals: Python semantics for the contents; no element enters, so nothing is asserted (and nothing retracted)
  | .remove x => ⟨pyRemove key σ.c x, σ.calls⟩
  | .discard x => ⟨pyRemove key σ.c x, σ.calls⟩
  | .pop i => ⟨pyPop σ.c i, σ.calls⟩
  | .delitem i => ⟨pyDelItem σ.c i, σ.calls⟩
  | .delslice i j => ⟨pySetSlice σ.c i j [], σ.calls⟩
  | .clear => ⟨[], σ.calls⟩

def specC (key : Nat → Nat) (isSet : Bool) (σ : CState) (ops : List COp) : CState := ops.foldl (specStepC key isSet) σ

/-- operations outside the triggers of the quirks that are switched on -/
def COp.okFor (key : Nat → Nat) (Q : Quirks) : COp → Bool
  | .setslice _ _ oneShot xs => !Q.sliceBatchHook || (!oneShot && noEqualTwins key xs)
  | .assign xs => !Q.setterHashOrder || hashOrder xs == xs
  | .assignSelf => !Q.setterClearsAlias && !Q.setterHashOrder
  | .assignView _ => !Q.setterClearsAlias && !Q.setterHashOrder
  | .iadd _ => !Q.setterClearsAlias && !Q.setterHashOrder
  | .iaddAlias _ => !Q.inplaceBypass
  | _ => true

/-- applicable to the kind of field; indices of item assignment in range is checked by the driver on the run -/
def COp.applicable (isSet : Bool) : COp → Bool
  | .insert _ _ => !isSet
  | .setitem _ _ => !isSet
  | .setslice _ _ _ _ => !isSet
  | .assignView .rev => !isSet
  | .discard _ => isSet
  | .pop _ => !isSet
  | .delitem _ => !isSet
  | .delslice _ _ => !isSet
  | _ => true

/-- the operation does not raise on contents `c` (Python semantics): `remove` needs an equal element, `pop` /
`del c[i]` / `c[i] = x` an index in range. Checked by the driver along the specification run. -/
def COp.defined (key : Nat → Nat) (c : List Nat) : COp → Bool
  | .remove x => c.any (fun y => key y == key x)
  | .pop i => (pyIndex c.length (i.getD (-1))).isSome
  | .delitem i => (pyIndex c.length i).isSome
  | .setitem i _ => (pyIndex c.length i).isSome
  | _ => true

/-- triggers of the four findings (decidable on the input) -/
def trigSelfAssign (ops : List COp) : Bool :=
  ops.any fun o => match o with | .assignSelf => true | .assignView _ => true | _ => false
def trigIadd (ops : List COp) : Bool := ops.any fun o => match o with | .iadd _ => true | _ => false
def trigListOrder (ops : List COp) : Bool :=
  ops.any fun o => match o with | .assign xs => hashOrder xs != xs | _ => false
/-- F-C16-7: a slice is assigned a value holding two distinct elements that compare equal -/
def trigSliceTwins (key : Nat → Nat) (ops : List COp) : Bool :=
  ops.any fun o => match o with | .setslice _ _ _ xs => !noEqualTwins key xs | _ => false
/-- F-C16-8: a slice is assigned a one-shot iterable -/
def trigSliceOneShot (ops : List COp) : Bool :=
  ops.any fun o => match o with | .setslice _ _ oneShot _ => oneShot | _ => false
def trigBypass (ops : List COp) : Bool := ops.any fun o => match o with | .iaddAlias _ => true | _ => false

/-! ### C16, two owners: a field whose FIRST assignment receives the live container of another instance

`b = Cls(f = a.f)` (also `dataclasses.replace`, `b.f = a.f` on an uninitialised field): `_ensure_monitored_type`
adopts the monitored container as it is, so both fields hold ONE container whose owner is re-bound on every
attribute access. -/

inductive Who where | A | B
  deriving Repr, DecidableEq

inductive TOp where
  | on (w : Who) (op : COp)   -- a write through `a.f` / `b.f`
  | adopt                     -- `b = Cls(f = a.f)`
  deriving Repr, DecidableEq

structure TQuirks where
  adoptShares : Bool   -- F-C16-5: the first assignment adopts the other instance's container (the fields alias)
  ctorBreaks : Bool    -- F-C16-6: constructor-time inference writes into a backing field `__init__` has not set yet
  deriving Repr, DecidableEq

def TQuirks.asIs : TQuirks := ⟨true, true⟩
def TQuirks.none : TQuirks := ⟨false, false⟩

structure TState where
  a : CState
  b : CState
  shared : Bool   -- both fields are one container
  owner : Who     -- whom that one container is bound to (`_owner_ref`), re-bound by every `__get__`
  broke : Bool    -- the constructor raised AttributeError
  deriving Repr, DecidableEq

/-- `later` = the written field has a super-property field on the same class that is declared after it -/
def stepT (key : Nat → Nat) (Q : Quirks) (T : TQuirks) (later isSet : Bool) (σ : TState) (op : TOp) : TState :=
  if σ.broke then σ else
  match op with
  | .adopt =>
    let items := walkOrder Q σ.a.c       -- `values = list(value)`, then clear and re-add with owner `b`
    if T.ctorBreaks && later && !items.isEmpty then { σ with broke := true }
    else
      let c' := items.foldl (rawAdd key isSet) []
      if T.adoptShares then
        { σ with a := ⟨c', σ.a.calls⟩, b := ⟨c', σ.b.calls ++ items⟩, shared := true, owner := .B }
      else { σ with b := ⟨c', σ.b.calls ++ items⟩ }
  | .on w op =>
    if σ.shared then
      -- every operation reads the field first (`__get__` re-binds the owner to the accessing instance) except the
      -- assignment of a fresh collection: `__set__` does not re-bind, the hook reports to the last accessor
      let tgt := match op with | .assign _ => σ.owner | _ => w
      match tgt with
      | .A => let a' := stepC key Q isSet σ.a op; { σ with a := a', b := ⟨a'.c, σ.b.calls⟩, owner := .A }
      | .B => let b' := stepC key Q isSet σ.b op; { σ with b := b', a := ⟨b'.c, σ.a.calls⟩, owner := .B }
    else
      match w with
      | .A => { σ with a := stepC key Q isSet σ.a op }
      | .B => { σ with b := stepC key Q isSet σ.b op }

def runT (key : Nat → Nat) (Q : Quirks) (T : TQuirks) (later isSet : Bool) (σ : TState) (ops : List TOp) : TState :=
  ops.foldl (stepT key Q T later isSet) σ

/-- **Spec.** every managed field owns its contents: the new instance gets the elements (each asserted for IT), and
later writes through one field neither show up in the other nor are recorded for the other owner -/
def specStepT (key : Nat → Nat) (isSet : Bool) (σ : TState) : TOp → TState
  | .adopt => { σ with b := ⟨σ.a.c.foldl (rawAdd key isSet) [], σ.b.calls ++ σ.a.c⟩ }
  | .on .A op => { σ with a := specStepC key isSet σ.a op }
  | .on .B op => { σ with b := specStepC key isSet σ.b op }

def specT (key : Nat → Nat) (isSet : Bool) (σ : TState) (ops : List TOp) : TState := ops.foldl (specStepT key isSet) σ

def TOp.applicable (isSet : Bool) : TOp → Bool
  | .on _ op => op.applicable isSet
  | .adopt => true

/-- well-formed two-owner sequence: at most one `adopt`, writes through `b` only after it -/
def twoOk : Bool → List TOp → Bool
  | _, [] => true
  | false, .adopt :: r => twoOk true r
  | true, .adopt :: _ => false
  | seen, .on .A _ :: r => twoOk seen r
  | seen, .on .B _ :: r => seen && twoOk seen r

/-- trigger of F-C16-5: something is written after the adoption -/
def trigAdoptShares : List TOp → Bool
  | [] => false
  | .adopt :: r => !r.isEmpty
  | _ :: r => trigAdoptShares r

end KrroodVerif.PD
