import KrroodVerif.Model.Dom
import KrroodVerif.Model.DomIdx
/-!
M-DOM by translation: a first-order description `IterShape` of `hashed_data.py: HashedIterable.__iter__` /
`__bool__`, regenerated from the CURRENT Python AST on every run by `harness/translate/c03_translate.py`, and its
interpreter `stepS : IterShape → cursor machine`. Core Lean only.

What a shape says (one field per decision the generator body takes):

* `phase1`     how the cached values are replayed: over the LIVE dict view (`yield from self.values.values()`; CPython
               raises RuntimeError when the dict grew since the view iterator was created), over a SNAPSHOT list
               (`yield from list(self.values.values())`), or by INDEX (`position` into the cache, looked up again at every
               resumption: the re-entrant `__iter__` of `fixes/C03_index_cursor.diff`);
* `cachedOnly` `if self.values: <phase 1>; return` — the source is not consulted when something is cached;
* `cacheWhen`  a pulled value is written to `self.values` BEFORE the `yield`, AFTER it (lost when the iterator is closed
               at the yield), at the END of the source (one `update`), or NEVER;
* `source`     the pull loop reads `self.iterable` itself (SHARED by all iterators) or TAKES it OVER
               (`source, self.iterable = self.iterable, iter(())`: the rest dies with an abandoned iterator);
* `atEnd`      after the source is exhausted `self.iterable` is KEPT or RELEASEd (`self.iterable = []`, a falsy value);
* `truth`      what `__bool__` consults (`Variable._evaluate__` raises ValueError for a falsy domain).

`Dom.shape` is today's code, `Dom.shapeIdx` the repaired one, `Dom.shapeSnap` the snapshot variant.
`Props/C03Shape.lean`: `stepS shape = step` and `stepS shapeIdx = stepIdx` (all states, hence all schedules), and the
generic theorems `IterOk s → every non-overlapping schedule meets the specification`, `IterFullOk s → every schedule`.
-/
namespace KrroodVerif.Dom

inductive Phase1 where
  | liveView | snapshot | index
  deriving DecidableEq, Repr

inductive CacheWhen where
  | beforeYield | afterYield | atEnd | never
  deriving DecidableEq, Repr

inductive SourceUse where
  | shared | takeOver
  deriving DecidableEq, Repr

inductive EndAction where
  | keep | release
  deriving DecidableEq, Repr

inductive Truth where
  | valuesOrSource | valuesOnly | sourceOnly
  deriving DecidableEq, Repr

structure IterShape where
  phase1 : Phase1
  cachedOnly : Bool
  cacheWhen : CacheWhen
  source : SourceUse
  atEnd : EndAction
  truth : Truth
  deriving DecidableEq, Repr

/-- `HashedIterable.__iter__` / `__bool__` as they are in /repo today (hand-written twin: `Dom.step`) -/
def shape : IterShape :=
  { phase1 := .liveView, cachedOnly := false, cacheWhen := .beforeYield, source := .shared, atEnd := .keep,
    truth := .valuesOrSource }

/-- the repaired `__iter__` (`fixes/C03_index_cursor.diff`; hand-written twin: `Dom.stepIdx`) -/
def shapeIdx : IterShape := { shape with phase1 := .index }

/-- phase 1 over a snapshot list -/
def shapeSnap : IterShape := { shape with phase1 := .snapshot }

/-- the shared domain: `values` (cache), what `iterable` has not produced yet (rest), and whether `iterable` has been
replaced by an empty, falsy container -/
structure SDom where
  cache : List Nat
  rest : List Nat
  released : Bool
  deriving DecidableEq, Repr

/-- a suspended `__iter__` generator. `drain own held`: inside the pull loop; `own` = the source this iterator took
over (if it did), `held` = values it pulled that are not in the cache yet -/
inductive SCursor where
  | fresh
  | replay (i : Nat) (size : Nat)
  | drain (own : Option (List Nat)) (held : List Nat)
  | done
  deriving DecidableEq, Repr

/-- `HashedIterable.__bool__` -/
def truthy (s : IterShape) (d : SDom) : Bool :=
  match s.truth with
  | .valuesOrSource => !d.cache.isEmpty || !d.released
  | .valuesOnly => !d.cache.isEmpty
  | .sourceOnly => !d.released

/-- the statements after the pull loop (the source is exhausted) -/
def finish (s : IterShape) (d : SDom) (held : List Nat) : SDom :=
  { cache := if s.cacheWhen == .atEnd then d.cache ++ held else d.cache,
    rest := d.rest,
    released := d.released || s.atEnd == .release }

/-- the loop body for a pulled value `x`, up to and including its `yield` -/
def emit (s : IterShape) (d : SDom) (own : Option (List Nat)) (held : List Nat) (x : Nat) : SDom × SCursor × Out :=
  match s.cacheWhen with
  | .beforeYield => ({ d with cache := d.cache ++ [x] }, .drain own held, .val x)
  | .afterYield => (d, .drain own [x], .val x)
  | .atEnd => (d, .drain own (held ++ [x]), .val x)
  | .never => (d, .drain own held, .val x)

/-- one resumption inside the pull loop: the statements after the previous `yield`, then the next value of the
source (or the end of the loop) -/
def pullStep (s : IterShape) (d : SDom) (own : Option (List Nat)) (held : List Nat) : SDom × SCursor × Out :=
  let d1 : SDom := if s.cacheWhen == .afterYield then { d with cache := d.cache ++ held } else d
  let held1 : List Nat := if s.cacheWhen == .afterYield then [] else held
  match own with
  | none =>
    match d1.rest with
    | x :: r => emit s { d1 with rest := r } none held1 x
    | [] => (finish s d1 held1, .done, .stop)
  | some (x :: r) => emit s d1 (some r) held1 x
  | some [] => (finish s d1 held1, .done, .stop)

/-- entering the pull loop -/
def enterPull (s : IterShape) (d : SDom) : SDom × SCursor × Out :=
  match s.source with
  | .shared => pullStep s d none []
  | .takeOver => pullStep s { d with rest := [] } (some d.rest) []

/-- index cursors: pull ONE value, cache it, stay an index; an exhausted source leaves the cursor where it is (asking
again gives `stop` again — nothing refills the source) -/
def idxPull (s : IterShape) (d : SDom) (c : SCursor) (i : Nat) : SDom × SCursor × Out :=
  match d.rest with
  | x :: r => ({ d with cache := d.cache ++ [x], rest := r }, .replay (i + 1) 0, .val x)
  | [] => (finish s d [], c, .stop)

/-- the cached values are handed out (`fromCache`: there were some when this iterator started) -/
def afterReplay (s : IterShape) (d : SDom) (c : SCursor) (i : Nat) (fromCache : Bool) : SDom × SCursor × Out :=
  if s.cachedOnly && fromCache then (d, .done, .stop)
  else if s.phase1 == .index && s.cacheWhen == .beforeYield && s.source == .shared then idxPull s d c i
  else enterPull s d

/-- **the interpreter**: one `next()` on an iterator over the domain, for the `__iter__`/`__bool__` described by `s` -/
def stepS (s : IterShape) (d : SDom) : SCursor → SDom × SCursor × Out
  | .fresh =>
    -- `Variable._evaluate__`: `elif self._domain_:` … `else: raise ValueError`
    if !truthy s d then (d, .done, .valueError)
    else
      match d.cache with
      | x :: _ => (d, .replay 1 (if s.phase1 == .index then 0 else d.cache.length), .val x)
      | [] => afterReplay s d .fresh 0 false
  | .replay i size =>
    if s.phase1 == .liveView && d.cache.length != size then (d, .done, .runtimeError)
    else
      match (if i < (if s.phase1 == .index then d.cache.length else size) then d.cache[i]? else none) with
      | some x => (d, .replay (i + 1) size, .val x)
      | none => afterReplay s d (.replay i size) i true
  | .drain own held => pullStep s d own held
  | .done => (d, .done, .stop)

structure SQIter where
  cur : SCursor
  sat : List Nat
  deriving DecidableEq, Repr

/-- `qnext` over `stepS` (running out of fuel — which never happens — ends a generator, leaves an index where it is) -/
def qnextS (s : IterShape) (d : SDom) (q : SQIter) : Nat → SDom × SQIter × Out
  | 0 => (d, { q with cur := if s.phase1 == .index then q.cur else .done }, .stop)
  | fuel + 1 =>
    match stepS s d q.cur with
    | (d', c', .val x) =>
      if q.sat.contains x then (d', { q with cur := c' }, .val x) else qnextS s d' { q with cur := c' } fuel
    | (d', c', o) => (d', { q with cur := c' }, o)

structure SState where
  dom : SDom
  its : List (Nat × SQIter)
  deriving Repr

def SCursor.ownLen : SCursor → Nat
  | .drain (some l) _ => l.length
  | _ => 0

/-- `run1` over `stepS`; closing / dropping an iterator drops what only its frame holds (`own`, `held`) -/
def run1S (s : IterShape) (sats : Nat → List Nat) (st : SState) : Op → SState × Option Out
  | .start i => ({ st with its := (i, { cur := .fresh, sat := sats i }) :: st.its.filter (·.1 != i) }, none)
  | .abandon i => ({ st with its := st.its.filter (·.1 != i) }, none)
  | .next i =>
    match st.its.lookup i with
    | none => (st, some .stop)
    | some q =>
      let r := qnextS s st.dom q (st.dom.cache.length + st.dom.rest.length + q.cur.ownLen + 2)
      ({ dom := r.1, its := (i, r.2.1) :: st.its.filter (·.1 != i) }, some r.2.2)

def runS (s : IterShape) (sats : Nat → List Nat) : SState → List Op → List (Option Out)
  | _, [] => []
  | st, op :: ops => let r := run1S s sats st op; r.2 :: runS s sats r.1 ops

def initS (n : Nat) : SState := { dom := { cache := [], rest := List.range n, released := false }, its := [] }

/-! ### which shapes carry the theorems (decidable; checked by `decide` on the regenerated shape every run) -/

/-- everything but phase 1 is as the property needs it: the source is always consulted, a pulled value is cached before
it is handed out, the one-shot source stays with the domain, is never replaced by a falsy value, and `__bool__`
consults both the cache and the source -/
def IterShape.coreOk (s : IterShape) : Bool :=
  !s.cachedOnly && s.cacheWhen == .beforeYield && s.source == .shared && s.atEnd == .keep && s.truth == .valuesOrSource

/-- `IterOk`: every NON-OVERLAPPING schedule meets the specification (`C03_shape_nonoverlap`) -/
def IterShape.ok (s : IterShape) : Bool := s.coreOk

/-- `IterFullOk`: EVERY schedule meets the specification (`C03_shape_full`) -/
def IterShape.fullOk (s : IterShape) : Bool := s.phase1 == .index && s.coreOk

/-! ### embeddings of the two hand-written machines -/

def embD (d : Dom) : SDom := { cache := d.cache, rest := d.rest, released := false }

def embC : Cursor → SCursor
  | .fresh => .fresh
  | .replay i size => .replay i size
  | .drain => .drain none []
  | .done => .done

def embQ (q : QIter) : SQIter := { cur := embC q.cur, sat := q.sat }

def embS (st : State) : SState := { dom := embD st.dom, its := st.its.map fun p => (p.1, embQ p.2) }

/-- an index cursor: not advanced yet = a fresh generator -/
def embI (i : Nat) : SCursor := if i = 0 then .fresh else .replay i 0

def embQI (q : QIterIdx) : SQIter := { cur := embI q.idx, sat := q.sat }

def embSI (st : StateIdx) : SState := { dom := embD st.dom, its := st.its.map fun p => (p.1, embQI p.2) }

end KrroodVerif.Dom
