/-!
M-DOM — `hashed_data.py: HashedIterable` as shared by every evaluation that ranges over one variable, and
single-variable query iterators on top of it. Core Lean only.

Python → model
* `HashedIterable.values` (dict, insertion ordered) = `cache`; `HashedIterable.iterable` (a one-shot generator over
  the user's domain) = `rest` (what it has not produced yet).
* `__iter__`: `yield from self.values.values()` — a dict-view iterator that snapshots the dict size when it is
  created (at the first `next`) and raises `RuntimeError` when the size differs at a later `next`; then
  `for v in self.iterable: self.values[v.id_] = v; yield v` — pulls the *shared* generator.
* a single-variable query `an(entity(x, cond(x)))` advances such a cursor until an element satisfies `cond`.

Elements are abstract indices `0..n-1` into the user's domain (distinct objects).
-/
namespace KrroodVerif.Dom

structure Dom where
  cache : List Nat
  rest : List Nat
  deriving DecidableEq, Repr

inductive Cursor where
  | fresh                            -- iterator created, `__iter__` body not started
  | replay (i : Nat) (size : Nat)    -- inside `yield from values.values()`: position, dict size at creation
  | drain                            -- inside `for v in self.iterable`
  | done                             -- exhausted, failed or closed
  deriving DecidableEq, Repr

inductive Out where
  | val (x : Nat)
  | stop
  | runtimeError
  | valueError      -- `Variable._evaluate__`: "Cannot evaluate variable." (the domain is falsy); never produced by `step`,
                    -- only by shapes of `__iter__`/`__bool__` other than today's (`Model/DomShape.lean`)
  deriving DecidableEq, Repr

/-- one `next()` on a domain cursor -/
def step (d : Dom) : Cursor → Dom × Cursor × Out
  | .fresh =>
    -- the dict-view iterator is created now
    match d.cache with
    | x :: _ => (d, .replay 1 d.cache.length, .val x)
    | [] =>
      match d.rest with
      | x :: r => ({ cache := d.cache ++ [x], rest := r }, .drain, .val x)
      | [] => (d, .done, .stop)
  | .replay i size =>
    if d.cache.length != size then (d, .done, .runtimeError)
    else
      match d.cache[i]? with
      | some x => (d, .replay (i + 1) size, .val x)
      | none =>
        match d.rest with
        | x :: r => ({ cache := d.cache ++ [x], rest := r }, .drain, .val x)
        | [] => (d, .done, .stop)
  | .drain =>
    match d.rest with
    | x :: r => ({ cache := d.cache ++ [x], rest := r }, .drain, .val x)
    | [] => (d, .done, .stop)
  | .done => (d, .done, .stop)

/-- the repaired cursor (`C03_full`): an index into `cache ++ rest`, pulling the shared generator only when the
index runs past the cache -/
def stepIdx (d : Dom) (i : Nat) : Dom × Nat × Out :=
  match d.cache[i]? with
  | some x => (d, i + 1, .val x)
  | none =>
    match d.rest with
    | x :: r => ({ cache := d.cache ++ [x], rest := r }, i + 1, .val x)
    | [] => (d, i, .stop)

/-- a single-variable query iterator: a domain cursor plus the set of elements satisfying its condition -/
structure QIter where
  cur : Cursor
  sat : List Nat
  deriving DecidableEq, Repr

/-- one `next()` on a query iterator: advance the cursor until a satisfying element, the end, or an error;
`fuel` bounds the number of domain steps (the domain is finite: `cache.length + rest.length + 2` suffices) -/
def qnext (d : Dom) (q : QIter) : Nat → Dom × QIter × Out
  | 0 => (d, { q with cur := .done }, .stop)
  | fuel + 1 =>
    match step d q.cur with
    | (d', c', .val x) =>
      if q.sat.contains x then (d', { q with cur := c' }, .val x) else qnext d' { q with cur := c' } fuel
    | (d', c', o) => (d', { q with cur := c' }, o)

inductive Op where
  | start (i : Nat)     -- `it_i = iter(q_i.evaluate())`
  | next (i : Nat)      -- `next(it_i)`
  | abandon (i : Nat)   -- drop `it_i`
  deriving DecidableEq, Repr

structure State where
  dom : Dom
  its : List (Nat × QIter)     -- live iterators by id
  deriving Repr

def State.get (s : State) (i : Nat) : Option QIter := s.its.lookup i
def State.set (s : State) (i : Nat) (q : QIter) : State :=
  { s with its := (i, q) :: s.its.filter (·.1 != i) }

/-- `sats i` = satisfying elements of query `i`; output of an op: `none` for start/abandon -/
def run1 (sats : Nat → List Nat) (s : State) : Op → State × Option Out
  | .start i => (s.set i { cur := .fresh, sat := sats i }, none)
  | .abandon i => ({ s with its := s.its.filter (·.1 != i) }, none)
  | .next i =>
    match s.get i with
    | none => (s, some .stop)
    | some q =>
      let r := qnext s.dom q (s.dom.cache.length + s.dom.rest.length + 2)
      ({ dom := r.1, its := (i, r.2.1) :: s.its.filter (·.1 != i) }, some r.2.2)

def run (sats : Nat → List Nat) : State → List Op → List (Option Out)
  | _, [] => []
  | s, op :: ops => let r := run1 sats s op; r.2 :: run sats r.1 ops

/-! ### specification: every iterator behaves as if it ran alone on a fresh query -/

/-- the isolated result sequence of query `i` over the domain `[0..n)` -/
def isolated (n : Nat) (sat : List Nat) : List Nat := (List.range n).filter (sat.contains ·)

/-- spec state: per iterator, how many results it has already handed out -/
def specRun (n : Nat) (sats : Nat → List Nat) : List (Nat × Nat) → List Op → List (Option Out)
  | _, [] => []
  | st, .start i :: ops => none :: specRun n sats ((i, 0) :: st.filter (·.1 != i)) ops
  | st, .abandon i :: ops => none :: specRun n sats (st.filter (·.1 != i)) ops
  | st, .next i :: ops =>
    match st.lookup i with
    | none => some .stop :: specRun n sats st ops
    | some k =>
      match (isolated n (sats i))[k]? with
      | some x => some (.val x) :: specRun n sats ((i, k + 1) :: st.filter (·.1 != i)) ops
      | none => some .stop :: specRun n sats st ops

def init (n : Nat) : State := { dom := { cache := [], rest := List.range n }, its := [] }

/-- schedules in which evaluations do not overlap: once another iterator has been started or advanced, an earlier
one is never advanced again (it may have been abandoned at any point) -/
def sequentialAux : Option Nat → List Nat → List Op → Bool
  | _, _, [] => true
  | cur, dead, .start i :: ops => sequentialAux (some i) (match cur with | some c => if c != i then c :: dead else dead | none => dead) ops
  | cur, dead, .abandon i :: ops => sequentialAux (if cur == some i then none else cur) (i :: dead) ops
  | cur, dead, .next i :: ops =>
    if cur == some i then sequentialAux cur dead ops
    else false

def sequential (ops : List Op) : Bool := sequentialAux none [] ops

end KrroodVerif.Dom
