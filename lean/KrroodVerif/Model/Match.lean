import KrroodVerif.Model.Eql
/-!
M-MATCH — executable model of `match.py` (pattern matching as an abbreviation of an EQL query) on top of the value
level of M-EQL (`Model/Eql.lean`: `Val`, `Obj`, `World`, `getAttr`, `isInstance`, `valEq`/`objEq`, `truthy`,
`product`). Core Lean only. `Eql.eval` itself is not called (see below); on the tree-shaped fragment the driver
cross-checks this evaluator against `Eql.evalQuery` on every case.

Why a separate small evaluator and not `Eql.eval`: the queries `Match._resolve` builds are **not tree shaped**.
`AttributeAssignment.attr` is a cached property, so the very same `Attribute` node is the operand of the inferred
comparator, the quantified "variable" of `exists(self.attr, …)`, a selected variable, and (wrapped in one shared
`Flatten` node) the variable of the nested match from which all nested attributes hang. In the engine every
`DomainMapping` binds its own `_id_` in the bindings and starts with `if self._id_ in sources: yield sources`
(`symbolic.py` `DomainMapping._evaluate__`); that is what makes `drawers=match(Drawer)(size=1, handle=…)` speak about
ONE drawer. M-EQL (validated for tree-shaped queries) has no bindings for attribute nodes, so this file adds exactly that:

* `MTerm` — the nodes a match can create (`root` variable, `Attribute`, `Flatten`); in a match-built query a node is
  identified by its path (kwargs are a dict: one `AttributeAssignment` per (match, attribute name)), so the path is
  used as the key of the bindings;
* `evalT` — `Variable._evaluate__` / `DomainMapping._evaluate__` with the bound-node short cut;
* `Cond`/`evalCond` — the conditions `infer_condition_between_attribute_and_assigned_value` and
  `AttributeAssignment.resolve` can produce: `attr == Literal` (two iterables are compared as sets),
  `contains(attr, lit)`, `in_(attr, lit)` / `contains(lit, flatten(attr))`, `HasType(node, T)` as a two-argument
  predicate variable (both children evaluated from the incoming bindings, results merged), `exists(attr, cond)` whose
  "variable" is an attribute expression, and the left-nested `AND` chain of `chained_logic`;
* `evalQuery` — `QueryObjectDescriptor._evaluate__` (true rows; selected nodes evaluated independently from the row).

Truth flags: a `DomainMapping` only refreshes `_is_false_` when its evaluation parent is a `LogicalOperator` or it is
the conditions root; in a match-built query attributes are always evaluated by a comparator, a `Flatten`, a predicate
variable or the descriptor, so operand results are always "true" and only comparator / predicate results carry a
truth value. Literal nodes are evaluated exactly once per chain (never met bound), so their bindings are not modelled.

`desugar` transcribes `Match._resolve`, `Match._update_fields/_update_selected_variables`, `Match.expression`,
`AttributeAssignment.resolve`, `.is_type_filter_needed`, `.is_iterable_value` and
`.infer_condition_between_attribute_and_assigned_value`.

The specification (`matchesPat`, `rowsPat`, `specRows`) is schema free: it looks at the run-time values only.
-/
namespace KrroodVerif.Match
open KrroodVerif.Eql

/-! ### schema: what the class diagram says about a dataclass field (`WrappedField`) -/

structure FieldInfo where
  /-- `WrappedField.is_iterable`: a one-to-many *relationship* (container whose element type is not a builtin) -/
  rel : Bool
  /-- the annotation is a container (`List[…]`), whatever the element type -/
  coll : Bool
  /-- `type_endpoint` when it is a class of the diagram; `none` for builtins -/
  type : Option Nat
  deriving DecidableEq, Repr, Inhabited

/-- `(class, attribute) ↦ field` with inherited fields listed for every class (`_wrapped_field_name_map_`) -/
abbrev Schema := List ((Nat × AttrName) × FieldInfo)

/-- `Attribute._wrapped_field_` for an attribute accessed on an expression whose static `_type_` is `owner`;
`none` = `NoneWrappedFieldError` -/
def fieldOf (s : Schema) (owner : Option Nat) (n : AttrName) : Option FieldInfo :=
  match owner with
  | some o => s.lookup (o, n)
  | none => none

/-! ### patterns -/

mutual
/-- `match(T)(**kwargs)` / `select(T)(**kwargs)`; `cls = none` is `match()(…)` -/
inductive Pat where
  | mk (cls : Option Nat) (sel : Bool) (as : Assigns)
/-- the kwargs, in dict order -/
inductive Assigns where
  | nil
  | cons (n : AttrName) (v : AVal) (rest : Assigns)
/-- an assigned value -/
inductive AVal where
  /-- a plain Python value -/
  | lit (v : Val)
  /-- `match(v)`, `match_any(v)`, `match_all(v)`, `select(v)`, `select_any(v)`, `select_all(v)` for a non-type value:
  a resolved match whose variable is `Literal(v)` -/
  | coll (v : Val) (ex un sel : Bool)
  /-- an unresolved match on a type -/
  | nested (p : Pat)
end

def Assigns.isNil : Assigns → Bool
  | .nil => true
  | .cons .. => false

def Assigns.names : Assigns → List AttrName
  | .nil => []
  | .cons n _ rest => n :: rest.names

/-! ### query nodes and conditions -/

inductive MTerm where
  | root
  | attr (t : MTerm) (n : AttrName)
  | flat (t : MTerm)
  deriving DecidableEq, Repr, Inhabited

inductive Cond where
  /-- `a == Literal(l)` -/
  | eq (a : MTerm) (l : Val)
  /-- `contains(a, l)`: the literal is an element of the value of `a` -/
  | litIn (a : MTerm) (l : Val)
  /-- `in_(a, l)`, and `contains(l, flatten(a'))` for `a = flat a'`: the value of `a` is an element of the literal -/
  | inLit (a : MTerm) (l : Val)
  /-- `HasType(a, c)` -/
  | hasType (a : MTerm) (c : Nat)
  /-- `exists(q, c)` with an attribute expression as the quantified "variable" -/
  | ex (q : MTerm) (c : Cond)
  | and (l r : Cond)
  deriving DecidableEq, Repr, Inhabited

structure MQuery where
  /-- `let(T, domain)` keeps the instances of `T` -/
  cls : Nat
  sel : List MTerm
  cond : Option Cond
  deriving Repr

/-- one Bool per documented deviation; `today` is the code as it is -/
structure Quirks where
  /-- F-C11-1: `Exists` de-duplicates on the VALUE of its variable across all outer bindings -/
  existsByValue : Bool
  /-- F-C11-2: selected expressions are evaluated independently of each other -/
  selIndependent : Bool
  /-- F-C11-3: only one-to-many relationships count as iterable attributes (`List[int]` does not) -/
  relOnlyIterable : Bool
  /-- F-C11-4: nested attributes are resolved against the DECLARED type of the attribute, not the matched subclass -/
  declaredOwner : Bool
  /-- F-C11-5: a nested match without kwargs and without type filter on a collection attribute is not flattened -/
  lazyFlatten : Bool
  /-- F-C11-6: `match_any(v)` / `match_all(v)` / … with a FALSY value (an empty list) is taken for a match without
  type (`entity_matching`: `elif type_ and not isinstance(type_, type)`), i.e. an unconstrained nested match -/
  falsyValueIsNoType : Bool
  deriving DecidableEq, Repr

def Quirks.today : Quirks := ⟨true, true, true, true, true, true⟩
def Quirks.fixed : Quirks := ⟨false, false, false, false, false, false⟩
/-- the code after the fix commits for F-C11-3, F-C11-4, F-C11-5 and F-C11-6 (F-C11-1 and F-C11-2 are still open):
this is the setting the correspondence ties to the code (`model=`) -/
def Quirks.now : Quirks :=
  { existsByValue := true, selIndependent := true, relOnlyIterable := false, declaredOwner := false,
    lazyFlatten := false, falsyValueIsNoType := false }

/-! ### `desugar` -/

def isColl : Val → Bool
  | .list _ => true
  | .objs _ => true
  | _ => false

/-- `Attribute._is_iterable_` -/
def FieldInfo.iter (Q : Quirks) (fi : FieldInfo) : Bool := if Q.relOnlyIterable then fi.rel else fi.coll

/-- `AttributeAssignment.infer_condition_between_attribute_and_assigned_value`; `iterVal` = `is_iterable_value`
(`is_iterable(v)` for a plain value, always `True` for a match on a `Literal`: `Variable._is_iterable_` is
`bool(self._domain_)`), `un`/`ex` = the match is universal / existential -/
def inferCond (Q : Quirks) (fi : FieldInfo) (a : MTerm) (l : Val) (iterVal un ex : Bool) : Cond :=
  let c :=
    if fi.iter Q && !iterVal then Cond.litIn a l
    else if !fi.iter Q && iterVal then Cond.inLit a l
    else if fi.iter Q && iterVal && !un then Cond.inLit (.flat a) l
    else Cond.eq a l
  if ex then .ex a c else c

/-- `AttributeAssignment.is_type_filter_needed` (`declared = none`: a builtin, never a superclass of a matched class) -/
def typeFilterNeeded (sub : List (Nat × Nat)) (declared cls : Option Nat) : Bool :=
  match declared, cls with
  | some d, some c => c != d && sub.contains (c, d)
  | _, _ => false

/-- the variable of a nested match on attribute node `a`: `flatten(a)` when the attribute is iterable and the match has
kwargs or needs a type filter (`AttributeAssignment.resolve`), else `a` itself -/
def nestedNode (Q : Quirks) (sub : List (Nat × Nat)) (fi : FieldInfo) (a : MTerm) (cls : Option Nat)
    (as : Assigns) : MTerm :=
  if fi.iter Q && (!Q.lazyFlatten || !as.isNil || typeFilterNeeded sub fi.type cls) then MTerm.flat a else a

mutual
/-- the loop of `Match._resolve` over the kwargs of a match whose variable is `t` (static type `owner`):
`(conditions, selected variables)`; `none` = `NoneWrappedFieldError` -/
def resolveAssigns (Q : Quirks) (s : Schema) (sub : List (Nat × Nat)) (owner : Option Nat) (t : MTerm) :
    Assigns → Option (List Cond × List MTerm)
  | .nil => some ([], [])
  | .cons n av rest =>
    match fieldOf s owner n with
    | none => none
    | some fi =>
      match resolveVal Q s sub fi (.attr t n) av, resolveAssigns Q s sub owner t rest with
      | some (c1, s1), some (c2, s2) => some (c1 ++ c2, s1 ++ s2)
      | _, _ => none
/-- one `AttributeAssignment` (`a` is its `attr`): `resolve` for an unresolved match, else the inferred condition -/
def resolveVal (Q : Quirks) (s : Schema) (sub : List (Nat × Nat)) (fi : FieldInfo) (a : MTerm) :
    AVal → Option (List Cond × List MTerm)
  | .lit l => some ([inferCond Q fi a l (isColl l) false false], [])
  | .coll l ex un sel =>
    if Q.falsyValueIsNoType && !truthy l then
      -- an unresolved `Match(type_=l)` without kwargs: no type filter (`type_` is falsy), flags ignored
      let t' := if fi.iter Q && !Q.lazyFlatten then MTerm.flat a else a
      some ([], if sel then (if t' == a then [a] else [a, t']) else [])
    else some ([inferCond Q fi a l true un ex], if sel then [a] else [])
  | .nested (.mk cls sel as) =>
    let need := typeFilterNeeded sub fi.type cls
    let t' := nestedNode Q sub fi a cls as
    let owner := if !Q.declaredOwner && need then cls else fi.type
    match resolveAssigns Q s sub owner t' as with
    | none => none
    | some (cs, ss) =>
      let filt : List Cond :=
        match need, cls with
        | true, some c => [Cond.hasType t' c]
        | _, _ =>
          -- quirk off (`AttributeAssignment.resolve` after the fix): when nothing else constrains the element of a
          -- collection its type is checked (matched type, else declared type), so that the element has to exist
          if !Q.lazyFlatten && fi.iter Q && cs.isEmpty then
            (match cls.orElse (fun _ => fi.type) with | some c => [Cond.hasType t' c] | none => [])
          else []
      some (filt ++ cs,
            (if sel then (if t' == a then [a] else [a, t']) else []) ++ ss)
end

/-- `chained_logic(AND, *conditions)` -/
def andChain : List Cond → Option Cond
  | [] => none
  | c :: cs => some (cs.foldl Cond.and c)

/-- `entity_matching(T, domain)(**kwargs).expression` (root `sel = true`: `entity_selection`) -/
def desugar (Q : Quirks) (s : Schema) (sub : List (Nat × Nat)) : Pat → Option MQuery
  | .mk (some T) rootSel as =>
    match resolveAssigns Q s sub (some T) .root as with
    | none => none
    | some (cs, ss) =>
      let sels := (if rootSel then [MTerm.root] else []) ++ ss
      some { cls := T, sel := if sels.isEmpty then [.root] else sels, cond := andChain cs }
  | .mk none _ _ => none

/-! ### evaluation

The evaluator is total: the only exceptions a match-built query can raise come from ill-typed input (`in` on a
non-container for `match_any(5)`, a missing attribute), which the correspondence does not generate; such operations
yield "no element" / `None` / `False` here. `NoneWrappedFieldError` at construction is `desugar = none`. -/

abbrev Env := List (MTerm × Val)

/-- `getattr(v, n)` -/
def attrOf (w : World) (v : Val) (n : AttrName) : Val :=
  match getAttr w v n with
  | .ok x => x
  | .error _ => Val.none

/-- `for e in v` -/
def elems : Val → List Val
  | .list xs => xs.map Val.int
  | .objs xs => xs.map Val.obj
  | _ => []

/-- `Variable._evaluate__` (root) and `DomainMapping._evaluate__` (`Attribute`, `Flatten`): a node already bound in
the incoming bindings yields them unchanged; otherwise the child is evaluated, mapped, and the node is bound -/
def evalT (w : World) (dom : List Val) : MTerm → Env → List (Env × Val)
  | .root, env =>
    match env.lookup .root with
    | some v => [(env, v)]
    | none => dom.map fun x => ((MTerm.root, x) :: env, x)
  | .attr c n, env =>
    match env.lookup (.attr c n) with
    | some v => [(env, v)]
    | none => (evalT w dom c env).map fun r => ((MTerm.attr c n, attrOf w r.2 n) :: r.1, attrOf w r.2 n)
  | .flat c, env =>
    match env.lookup (.flat c) with
    | some v => [(env, v)]
    | none => (evalT w dom c env).flatMap fun r => (elems r.2).map fun x => ((MTerm.flat c, x) :: r.1, x)

/-- `item in collection` (Python list membership: identity or `==`) -/
def member (w : World) (item c : Val) : Bool := (elems c).any fun e => valEq w e item

/-- `set(a) == set(b)` for hashable elements whose hash agrees with `==` -/
def sameElems (w : World) (a b : Val) : Bool :=
  (elems a).all (fun e => member w e b) && (elems b).all (fun e => member w e a)

/-- `Comparator.apply_operation` for `operator.eq`: two iterables are compared as sets -/
def applyEq (w : World) (l r : Val) : Bool :=
  if isColl l && isColl r then sameElems w l r else valEq w l r

/-- proper ancestors of a node, outermost first -/
def ancestors : MTerm → List MTerm
  | .root => []
  | .attr c _ => ancestors c ++ [c]
  | .flat c => ancestors c ++ [c]

/-- `Exists._evaluate__` over the condition results: the quantified node is looked up in every result, true results
are kept unless the VALUE of the node was seen before (`not in seen_var_values`, i.e. `==`).
With the quirk off the results are keyed on the bindings of the node's ancestors (the matched element) as well. -/
def existsFilter (w : World) (Q : Quirks) (q : MTerm) :
    List (Env × Bool) → List (Val × List (Option Val)) → List (Env × Bool)
  | [], _ => []
  | (e, t) :: rest, seen =>
    let x := (e.lookup q).getD Val.none
    let anc := if Q.existsByValue then [] else (ancestors q).map fun k => e.lookup k
    if t && !(seen.any fun k => valEq w x k.1 && k.2 == anc) then
      (e, true) :: existsFilter w Q q rest (seen ++ [(x, anc)])
    else existsFilter w Q q rest seen

/-- `_evaluate__` of the condition nodes; results are `(bindings, is_true)` -/
def evalCond (w : World) (Q : Quirks) (dom : List Val) : Cond → Env → List (Env × Bool)
  | .eq a l, env => (evalT w dom a env).map fun r => (r.1, applyEq w r.2 l)
  | .litIn a l, env => (evalT w dom a env).map fun r => (r.1, member w l r.2)
  | .inLit a l, env => (evalT w dom a env).map fun r => (r.1, member w r.2 l)
  | .hasType a c, env => (evalT w dom a env).map fun r => (r.1, isInstance w r.2 c)
  | .ex q c, env => existsFilter w Q q (evalCond w Q dom c env) []
  | .and l r, env =>
    (evalCond w Q dom l env).flatMap fun p => if p.2 then evalCond w Q dom r p.1 else [(p.1, false)]

/-- selected nodes evaluated one after the other through the row's bindings (quirk `selIndependent` off) -/
def evalSelThreaded (w : World) (dom : List Val) : List MTerm → Env → List (List Val)
  | [], _ => [[]]
  | t :: ts, env => (evalT w dom t env).flatMap fun r => (evalSelThreaded w dom ts r.1).map (r.2 :: ·)

/-- `QueryObjectDescriptor._evaluate__` + `ResultQuantifier._process_result_`: the true rows of the condition, then
every selected node evaluated from the row's bindings, independently of the others, and the product -/
def evalQuery (w : World) (Q : Quirks) (dom : List Val) (q : MQuery) : List (List Val) :=
  let d := dom.filter fun x => isInstance w x q.cls
  let rows : List Env := match q.cond with
    | some c => ((evalCond w Q d c []).filter (·.2)).map (·.1)
    | none => [[]]
  rows.flatMap fun env =>
    if Q.selIndependent then product (q.sel.map fun t => (evalT w d t env).map (·.2))
    else evalSelThreaded w d q.sel env

/-- the model of `an(entity_matching(T, dom)(…)).evaluate()`: `none` = `NoneWrappedFieldError` at construction -/
def run (w : World) (Q : Quirks) (s : Schema) (dom : List Val) (p : Pat) : Option (List (List Val)) :=
  (desugar Q s w.subclass p).map (evalQuery w Q dom)

/-! ### specification (looks at run-time values only) -/

/-- some element of `a` is an element of `b` -/
def common (w : World) (a b : Val) : Bool := (elems a).any fun e => member w e b

/-- a plain value: equality; membership when exactly one side is a collection; a common element when both are -/
def matchLit (w : World) (x l : Val) : Bool :=
  if isColl x then (if isColl l then common w x l else member w l x)
  else (if isColl l then member w x l else valEq w x l)

/-- `match_any(l)` / `match(l)`: a common element; `match_all(l)`: the same set of elements; a non-collection
attribute: the value is one of `l` -/
def matchColl (w : World) (x l : Val) (un : Bool) : Bool :=
  if isColl x then (if un then sameElems w x l else common w x l) else member w x l

def typeOk (w : World) (cls : Option Nat) (v : Val) : Bool :=
  match cls with
  | some c => isInstance w v c
  | none => true

mutual
/-- the value `v` satisfies the pattern: type and every attribute constraint -/
def matchesPat (w : World) : Pat → Val → Bool
  | .mk cls _ as, v => typeOk w cls v && matchesAssigns w as v
def matchesAssigns (w : World) : Assigns → Val → Bool
  | .nil, _ => true
  | .cons n av rest, v =>
    (match getAttr w v n with
     | .ok x => matchesVal w av x
     | .error _ => false) && matchesAssigns w rest v
/-- the attribute value `x` satisfies the assigned value; a nested pattern on a collection: some element does -/
def matchesVal (w : World) : AVal → Val → Bool
  | .lit l, x => matchLit w x l
  | .coll l _ un _, x => matchColl w x l un
  | .nested p, x => if isColl x then (elems x).any (matchesPat w p) else matchesPat w p x
end

def cross (a b : List (List Val)) : List (List Val) := a.flatMap fun r1 => b.map fun r2 => r1 ++ r2

mutual
/-- all consistent tuples of selected inner parts for a value that matches (no tuple iff it does not match);
a selected nested pattern on a collection reports the collection and the matched element -/
def rowsPat (w : World) : Pat → Val → List (List Val)
  | .mk cls _ as, v => if typeOk w cls v then rowsAssigns w as v else []
def rowsAssigns (w : World) : Assigns → Val → List (List Val)
  | .nil, _ => [[]]
  | .cons n av rest, v =>
    match getAttr w v n with
    | .ok x => cross (rowsVal w av x) (rowsAssigns w rest v)
    | .error _ => []
def rowsVal (w : World) : AVal → Val → List (List Val)
  | .lit l, x => if matchLit w x l then [[]] else []
  | .coll l _ un sel, x => if matchColl w x l un then [if sel then [x] else []] else []
  | .nested (.mk cls sel as), x =>
    if isColl x then
      (elems x).flatMap fun e => (rowsPat w (.mk cls sel as) e).map fun r => (if sel then [x, e] else []) ++ r
    else (rowsPat w (.mk cls sel as) x).map fun r => (if sel then [x] else []) ++ r
end

mutual
def Pat.nSel : Pat → Nat
  | .mk _ _ as => as.nSel
def Assigns.nSel : Assigns → Nat
  | .nil => 0
  | .cons _ av rest => av.nSel + rest.nSel
def AVal.nSel : AVal → Nat
  | .lit _ => 0
  | .coll _ _ _ sel => if sel then 1 else 0
  | .nested (.mk _ sel as) => (if sel then 1 else 0) + as.nSel
end

/-- what the property demands of `entity_matching(T, dom)(…)`: each domain element of type `T` that matches, once per
consistent choice of the selected inner parts; the element itself is reported iff it is selected or nothing else is -/
def specRows (w : World) (dom : List Val) : Pat → List (List Val)
  | .mk cls rootSel as =>
    (dom.filter fun x => typeOk w cls x).flatMap fun x =>
      (rowsAssigns w as x).map fun r => (if rootSel || as.nSel == 0 then [x] else []) ++ r

/-! ### triggers of the recorded findings (decidable predicates over the case)

The recursive ones follow the recursion of `resolveAssigns` / `resolveVal` (same owner, same node). -/

def firstIsEx : List Cond → Bool
  | .ex _ _ :: _ => true
  | _ => false

/-- the conditions one assigned value contributes today -/
def condsOfVal (s : Schema) (sub : List (Nat × Nat)) (fi : FieldInfo) (a : MTerm) (av : AVal) : List Cond :=
  match resolveVal Quirks.today s sub fi a av with
  | some (cs, _) => cs
  | none => []

def condsOfAssigns (s : Schema) (sub : List (Nat × Nat)) (owner : Option Nat) (t : MTerm) (as : Assigns) :
    List Cond :=
  match resolveAssigns Quirks.today s sub owner t as with
  | some (cs, _) => cs
  | none => []

mutual
/-- F-C11-1 below the root: the chain of a nested match on a relationship collection starts with an `exists`.
That `exists` is reached while the `Flatten` node of the nested match is still unbound, so its condition enumerates
all elements of the collection and the `seen` list (VALUES of the quantified attribute) spans all of them. -/
def Assigns.trigExFirst (s : Schema) (sub : List (Nat × Nat)) (owner : Option Nat) (t : MTerm) : Assigns → Bool
  | .nil => false
  | .cons n av rest =>
    (match fieldOf s owner n with
     | some fi => av.trigExFirst s sub fi (.attr t n)
     | none => false) || rest.trigExFirst s sub owner t
def AVal.trigExFirst (s : Schema) (sub : List (Nat × Nat)) (fi : FieldInfo) (a : MTerm) : AVal → Bool
  | .nested (.mk cls sel as) =>
    (fi.rel && firstIsEx (condsOfVal s sub fi a (.nested (.mk cls sel as)))) ||
      as.trigExFirst s sub fi.type (nestedNode Quirks.today sub fi a cls as)
  | _ => false
end

/-- F-C11-1: the whole chain starts with an `exists` (reached with the root variable unbound: the `seen` list spans
all domain elements), or the chain of a nested match on a collection does -/
def Pat.trigExFirst (s : Schema) (sub : List (Nat × Nat)) : Pat → Bool
  | .mk cls _ as => firstIsEx (condsOfAssigns s sub cls .root as) || as.trigExFirst s sub cls .root

/-- F-C11-2: no condition at all and at least two selected expressions -/
def trigCrossProduct (q : Option MQuery) : Bool :=
  match q with
  | some { cond := none, sel := _ :: _ :: _, .. } => true
  | _ => false

mutual
/-- F-C11-3: a value is assigned to a collection attribute that is not a relationship (`List[int]`) -/
def Assigns.trigBuiltinColl (s : Schema) (owner : Option Nat) : Assigns → Bool
  | .nil => false
  | .cons n av rest =>
    (match fieldOf s owner n with
     | some fi => (fi.coll && !fi.rel) || av.trigBuiltinColl s fi
     | none => false) || rest.trigBuiltinColl s owner
def AVal.trigBuiltinColl (s : Schema) (fi : FieldInfo) : AVal → Bool
  | .nested (.mk cls _ as) =>
    as.trigBuiltinColl s fi.type || (match cls with | some c => as.trigBuiltinColl s (some c) | none => false)
  | _ => false
end

def Pat.trigBuiltinColl (s : Schema) : Pat → Bool
  | .mk cls _ as => as.trigBuiltinColl s cls

/-- F-C11-4: construction fails today but succeeds when nested attributes are resolved against the matched subclass -/
def trigSubclassAttr (s : Schema) (sub : List (Nat × Nat)) (p : Pat) : Bool :=
  (desugar Quirks.today s sub p).isNone && (desugar { Quirks.today with declaredOwner := false } s sub p).isSome

mutual
/-- F-C11-5: a nested match on a relationship collection that contributes no condition (no kwargs and no type filter:
the attribute is not even flattened; or only unconstrained nested matches inside: the `Flatten` node is created but
no condition mentions it), so the collection is not required to have an element -/
def Assigns.trigLazyFlatten (s : Schema) (sub : List (Nat × Nat)) (owner : Option Nat) (t : MTerm) : Assigns → Bool
  | .nil => false
  | .cons n av rest =>
    (match fieldOf s owner n with
     | some fi => av.trigLazyFlatten s sub fi (.attr t n)
     | none => false) || rest.trigLazyFlatten s sub owner t
def AVal.trigLazyFlatten (s : Schema) (sub : List (Nat × Nat)) (fi : FieldInfo) (a : MTerm) : AVal → Bool
  | .nested (.mk cls sel as) =>
    (fi.rel && (condsOfVal s sub fi a (.nested (.mk cls sel as))).isEmpty) ||
      as.trigLazyFlatten s sub fi.type (nestedNode Quirks.today sub fi a cls as)
  | _ => false
end

def Pat.trigLazyFlatten (s : Schema) (sub : List (Nat × Nat)) : Pat → Bool
  | .mk cls _ as => as.trigLazyFlatten s sub cls .root

mutual
/-- F-C11-6: `match…(v)` / `select…(v)` on a falsy value (an empty list) -/
def Assigns.trigFalsyValue : Assigns → Bool
  | .nil => false
  | .cons _ av rest => av.trigFalsyValue || rest.trigFalsyValue
def AVal.trigFalsyValue : AVal → Bool
  | .lit _ => false
  | .coll l _ _ _ => !truthy l
  | .nested (.mk _ _ as) => as.trigFalsyValue
end

def Pat.trigFalsyValue : Pat → Bool
  | .mk _ _ as => as.trigFalsyValue

/-! #### the triggers of the findings that are still open, for an arbitrary quirk setting of `desugar`

(`trigExFirst` above follows `desugar Quirks.today`; after the fix commits the conditions are those of
`desugar Quirks.now`: every nested match on a collection is flattened and `match_any([])` is a condition.) -/

def condsOfValQ (Q : Quirks) (s : Schema) (sub : List (Nat × Nat)) (fi : FieldInfo) (a : MTerm) (av : AVal) :
    List Cond :=
  match resolveVal Q s sub fi a av with
  | some (cs, _) => cs
  | none => []

mutual
def Assigns.trigExFirstQ (Q : Quirks) (s : Schema) (sub : List (Nat × Nat)) (owner : Option Nat) (t : MTerm) :
    Assigns → Bool
  | .nil => false
  | .cons n av rest =>
    (match fieldOf s owner n with
     | some fi => av.trigExFirstQ Q s sub fi (.attr t n)
     | none => false) || rest.trigExFirstQ Q s sub owner t
def AVal.trigExFirstQ (Q : Quirks) (s : Schema) (sub : List (Nat × Nat)) (fi : FieldInfo) (a : MTerm) : AVal → Bool
  | .nested (.mk cls sel as) =>
    (fi.iter Q && firstIsEx (condsOfValQ Q s sub fi a (.nested (.mk cls sel as)))) ||
      as.trigExFirstQ Q s sub
        (if !Q.declaredOwner && typeFilterNeeded sub fi.type cls then cls else fi.type)
        (nestedNode Q sub fi a cls as)
  | _ => false
end

/-- F-C11-1 for the conditions `desugar Q` builds -/
def Pat.trigExFirstQ (Q : Quirks) (s : Schema) (sub : List (Nat × Nat)) : Pat → Bool
  | .mk cls _ as =>
    firstIsEx (match resolveAssigns Q s sub cls .root as with | some (cs, _) => cs | none => []) ||
      as.trigExFirstQ Q s sub cls .root

/-- the findings that are still open (F-C11-1, F-C11-2), for the code as it is now -/
def openTriggers (w : World) (s : Schema) (p : Pat) : List String :=
  (if p.trigExFirstQ Quirks.now s w.subclass then ["F-C11-1"] else []) ++
  (if trigCrossProduct (desugar Quirks.now s w.subclass p) then ["F-C11-2"] else [])

/-- the six shapes the theorems exclude (the triggers of all findings ever recorded, as of the code before the fixes) -/
def triggers (w : World) (s : Schema) (p : Pat) : List String :=
  (if p.trigExFirst s w.subclass then ["F-C11-1"] else []) ++
  (if trigCrossProduct (desugar Quirks.today s w.subclass p) then ["F-C11-2"] else []) ++
  (if p.trigBuiltinColl s then ["F-C11-3"] else []) ++
  (if trigSubclassAttr s w.subclass p then ["F-C11-4"] else []) ++
  (if p.trigLazyFlatten s w.subclass then ["F-C11-5"] else []) ++
  (if p.trigFalsyValue then ["F-C11-6"] else [])

/-! ### static well-formedness of a pattern and conformance of a world (hypotheses of the theorems; both decidable) -/

/-- the matched type is the declared type of the attribute, a subclass of it, or absent -/
def clsCompat (sub : List (Nat × Nat)) (declared cls : Option Nat) : Bool :=
  match cls, declared with
  | none, _ => true
  | some c, some d => c == d || sub.contains (c, d)
  | some _, none => false

mutual
/-- kwargs name distinct attributes (a dict) known to the class diagram; `match_any`/`match_all`/… values are lists;
nested matches sit on class-typed attributes with a compatible type -/
def Assigns.wf (s : Schema) (sub : List (Nat × Nat)) (owner : Option Nat) : Assigns → Bool
  | .nil => true
  | .cons n av rest =>
    !rest.names.contains n &&
    (match fieldOf s owner n with
     | some fi => (!fi.rel || fi.coll) && av.wf s sub fi
     | none => false) && rest.wf s sub owner
def AVal.wf (s : Schema) (sub : List (Nat × Nat)) (fi : FieldInfo) : AVal → Bool
  | .lit _ => true
  | .coll l ex un _ => isColl l && !(ex && un)
  | .nested (.mk cls _ as) => fi.type.isSome && clsCompat sub fi.type cls && as.wf s sub fi.type
end

def Pat.wf (s : Schema) (sub : List (Nat × Nat)) : Pat → Bool
  | .mk cls _ as => cls.isSome && as.wf s sub cls

/-- an attribute value conforms to its field: a relationship collection holds objects of the element type, a builtin
collection holds numbers, a reference is an object of the declared type, a scalar is a number or a Boolean -/
def conformsVal (w : World) (fi : FieldInfo) (x : Val) : Bool :=
  if fi.coll then
    (if fi.rel then
      (match x with
       | .objs is => is.all fun i => typeOk w fi.type (.obj i)
       | _ => false)
     else (match x with
       | .list _ => true
       | _ => false))
  else
    (match fi.type with
     | some d => (match x with
       | .obj i => isInstance w (.obj i) d
       | _ => false)
     | none => (match x with
       | .int _ => true
       | .bool _ => true
       | _ => false))

/-- every object has, for every field the schema lists for one of its classes, a conforming value -/
def conformsB (w : World) (s : Schema) : Bool :=
  (List.range w.objs.length).all fun i =>
    s.all fun e =>
      !isInstance w (.obj i) e.1.1 ||
        (match getAttr w (.obj i) e.1.2 with
         | .ok x => conformsVal w e.2 x
         | .error _ => false)

/-! ### the same query object evaluated again over changing data

A query object is built once and evaluated several times; between two evaluations the data is edited (attribute
assignments with new values, new lists, other or newly created objects; objects may be dropped) and further
evaluations of the same query object may be started and abandoned after some results (`Edit.peek`). The query holds
no data of its own (`Attribute._apply_mapping_` is `getattr` at evaluation time), so the model of the k-th
evaluation is `run` on the k-th world: `runSeq` threads the world, `C11_history_independent` says the answers depend
on the current data only. -/

inductive Edit where
  /-- `objs[i].n = v` (also an in-place replacement of a list's contents) -/
  | set (i : Nat) (n : AttrName) (v : Val)
  /-- a newly created object; it gets the next index -/
  | new (o : Obj)
  /-- the last reference to object `i` is dropped (nothing reachable refers to it any more) -/
  | free (i : Nat)
  /-- an evaluation of the SAME query object that is abandoned after `k` results (the caller peeks with `next`,
  leaves the loop early, …; the suspended iterator is kept or dropped): the data is not touched, and the domain
  contents are not either — a domain handed over as a one-shot generator is consumed lazily by the engine, but what
  the variable ranges over is still everything the generator produces -/
  | peek (k : Nat)
  deriving Repr

def setField (fs : List (String × Val)) (n : AttrName) (v : Val) : List (String × Val) :=
  fs.map fun p => if p.1 == n then (p.1, v) else p

def modifyAt {α} (f : α → α) : List α → Nat → List α
  | [], _ => []
  | x :: xs, 0 => f x :: xs
  | x :: xs, i + 1 => x :: modifyAt f xs i

def applyEdit (w : World) : Edit → World
  | .set i n v => { w with objs := modifyAt (fun o => { o with fields := setField o.fields n v }) w.objs i }
  | .new o => { w with objs := w.objs ++ [o] }
  | .free _ => w
  | .peek _ => w

def Edit.isPeek : Edit → Bool
  | .peek _ => true
  | _ => false

/-- the data after each step (a step is a list of edits made between two evaluations) -/
def worlds : World → List (List Edit) → List World
  | w, [] => [w]
  | w, st :: rest => w :: worlds (st.foldl applyEdit w) rest

/-- evaluate, edit, evaluate again, …: the answers of the successive evaluations of one query object -/
def runSeq (Q : Quirks) (s : Schema) (dom : List Val) (p : Pat) :
    World → List (List Edit) → List (Option (List (List Val)))
  | w, [] => [run w Q s dom p]
  | w, st :: rest => run w Q s dom p :: runSeq Q s dom p (st.foldl applyEdit w) rest

end KrroodVerif.Match
