import KrroodVerif.Model.Quantifier
/-!
M-QUANT, second part — a first-order DESCRIPTION of the counting loop (`LoopShape`) and its interpreter. Core Lean only.

`harness/translate/c09_translate.py` regenerates a `LoopShape` from the CURRENT AST of
`ResultQuantifier._evaluate__` / `_assert_satisfaction_of_quantification_constraints_` / `evaluate` and
`The._evaluate__` / `The.evaluate` / `The._quantification_constraint_` (`symbolic.py`) on every run:

* where the counter lives (`CounterScope`): a local of the generator frame, or an attribute of the query node that is
  reset when an evaluation starts / when it ends (`finally`);
* what it is initialised to;
* which child results are looked at (`ChildFilter`);
* the loop body as the ORDER of its three kinds of effects (`Ev`): `incr k` (the counter grows by `k`), `check add done`
  (`constraint.assert_satisfaction(counter + add, self, done)` behind the "is there a constraint" guard), `yield`;
* the effects after the loop (`final`);
* for `the`: the default constraint, where the count errors are renamed (`MapSite`) and to what, which element of the
  result list is returned.

`interpLoop` runs such a description on a list of child results (one evaluation); `interpSched` runs SEVERAL
evaluations of one query node in an interleaved order over a shared node attribute (small-step machine over generator
frames). `Props/C09Shape.lean` proves, once and unbounded: `interpLoop Quant.shape = Quant.run`, and for every shape
satisfying the decidable predicate `ShapeOk`: `interpLoop s = Quant.run = Quant.spec`, the same number of child results
is consumed, interleaved evaluations are independent, and `the` has exactly its three outcomes.
-/
namespace KrroodVerif.Quant

inductive CounterScope where
  | frameLocal        -- `result_count = 0` : a local of the generator frame
  | attrResetAtStart  -- `self._result_count_ = 0` at the start of `_evaluate__`
  | attrResetAtEnd    -- `self._result_count_` (dataclass default), reset in a `finally` around the loop
  deriving Repr, DecidableEq

inductive ChildFilter where
  | all | onlyTrue | onlyFalse
  deriving Repr, DecidableEq

/-- one effect of the loop body (or of the code after the loop), in source order -/
inductive Ev where
  | incr (k : Nat)                   -- `counter += k`
  | check (add : Nat) (done : Bool)  -- `if constraint: constraint.assert_satisfaction(counter + add, self, done)`
  | yield                            -- `yield OperationResult(value.bindings, False, self)`
  deriving Repr, DecidableEq

inductive MapSite where
  | inner   -- `The._evaluate__` (every evaluation of the node, root or operand of an enclosing query)
  | outer   -- `The.evaluate` (only the evaluation the user starts)
  | none
  deriving Repr, DecidableEq

inductive TheErr where
  | noSolution | multipleSolutions | less | greater
  deriving Repr, DecidableEq

structure TheShape where
  dflt : Constraint      -- `default_factory=lambda: Exactly(1)`
  site : MapSite
  onLess : TheErr        -- what `LessThanExpectedNumberOfSolutions` becomes at `site`
  onGreater : TheErr     -- what `GreaterThanExpectedNumberOfSolutions` becomes at `site`
  pick : Nat             -- `list(super().evaluate())[pick]`
  deriving Repr, DecidableEq

structure LoopShape where
  counter : CounterScope
  init : Nat
  filter : ChildFilter
  body : List Ev
  final : List Ev
  the : TheShape
  deriving Repr, DecidableEq

/-- the description of the code the hand-written model `Quant.run` / `Quant.theRun` transcribes -/
def shape : LoopShape :=
  { counter := .frameLocal, init := 0, filter := .all,
    body := [.incr 1, .check 0 false, .yield], final := [.check 0 true],
    the := { dflt := .exactly 1, site := .inner, onLess := .noSolution, onGreater := .multipleSolutions, pick := 0 } }

/-! ### one evaluation -/

/-- the effects of one pass (the loop body for one child result, or the code after the loop): the counter afterwards,
how often the current result was yielded, and the error that ended the pass -/
def runEvs (c : Option Constraint) : List Ev → Nat → Nat → Nat × Nat × Option Err
  | [], cnt, ny => (cnt, ny, none)
  | .incr k :: r, cnt, ny => runEvs c r (cnt + k) ny
  | .yield :: r, cnt, ny => runEvs c r cnt (ny + 1)
  | .check a d :: r, cnt, ny =>
    match assertOpt c (cnt + a) d with
    | .ok () => runEvs c r cnt ny
    | .error e => (cnt, ny, some e)

def keeps : ChildFilter → Bool → Bool
  | .all, _ => true
  | .onlyTrue, t => t
  | .onlyFalse, t => !t

/-- `truth x`: the truth flag (`is_true`) the child result carrying solution `x` has -/
def interpFrom {α} (s : LoopShape) (truth : α → Bool) (c : Option Constraint) : Nat → List α → List α × Outcome
  | cnt, [] =>
    match (runEvs c s.final cnt 0).2.2 with
    | none => ([], .ok)
    | some e => ([], .err e)
  | cnt, x :: xs =>
    if keeps s.filter (truth x) then
      match runEvs c s.body cnt 0 with
      | (_, ny, some e) => (List.replicate ny x, .err e)
      | (cnt', ny, none) =>
        let r := interpFrom s truth c cnt' xs
        (List.replicate ny x ++ r.1, r.2)
    else interpFrom s truth c cnt xs

/-- what ONE evaluation of a node described by `s` yields and how it ends -/
def interpLoop {α} (s : LoopShape) (truth : α → Bool) (c : Option Constraint) (sols : List α) : List α × Outcome :=
  interpFrom s truth c s.init sols

/-- number of child results that evaluation takes from its (lazy) child -/
def interpConsumedFrom {α} (s : LoopShape) (truth : α → Bool) (c : Option Constraint) : Nat → List α → Nat
  | _, [] => 0
  | cnt, x :: xs =>
    if keeps s.filter (truth x) then
      match runEvs c s.body cnt 0 with
      | (_, _, some _) => 1
      | (cnt', _, none) => 1 + interpConsumedFrom s truth c cnt' xs
    else 1 + interpConsumedFrom s truth c cnt xs

def interpConsumed {α} (s : LoopShape) (truth : α → Bool) (c : Option Constraint) (sols : List α) : Nat :=
  interpConsumedFrom s truth c s.init sols

/-! ### `the` -/

/-- everything an evaluation of `the(...)` can show -/
inductive TheObs (α : Type) where
  | value (x : α)
  | raised (e : TheErr)
  | noElement            -- `IndexError` of `list(...)[pick]` / nothing handed to the enclosing query
  deriving Repr, DecidableEq

def TheOutcome.toObs {α} : TheOutcome α → TheObs α
  | .value x => .value x
  | .noSolution => .raised .noSolution
  | .multipleSolutions => .raised .multipleSolutions

def mapErr (t : TheShape) (active : Bool) : Err → TheErr
  | .less => if active then t.onLess else .less
  | .greater => if active then t.onGreater else .greater
  | .negative => .less        -- cannot be raised by `assert_satisfaction`
  | .inconsistent => .less

/-- `nested = false`: `the(...).evaluate()` called by the user; `nested = true`: the node is an operand of an enclosing
query, which evaluates it through `_evaluate__` (so only the renaming at `MapSite.inner` applies, and the enclosing query
receives the yielded element). -/
def interpThe {α} (s : LoopShape) (truth : α → Bool) (nested : Bool) (sols : List α) : TheObs α :=
  let r := interpLoop s truth (some s.the.dflt) sols
  match r.2 with
  | .err e => .raised (mapErr s.the (s.the.site == .inner || (s.the.site == .outer && !nested)) e)
  | .ok =>
    match r.1[if nested then 0 else s.the.pick]? with
    | some x => .value x
    | none => .noElement

/-! ### several evaluations of one node, interleaved: generator frames over a shared node attribute -/

inductive Frame (α : Type) where
  | fresh                                                        -- created, `next()` not yet called
  | susp (loc : Nat) (evs : List Ev) (cur : α) (rest : List α)   -- suspended at a `yield`: frame-local counter, rest of
                                                                 -- the body, current and remaining child results
  | done
  deriving Repr, DecidableEq

def rd (sc : CounterScope) (loc attr : Nat) : Nat :=
  match sc with | .frameLocal => loc | _ => attr

def wr (sc : CounterScope) (loc attr v : Nat) : Nat × Nat :=
  match sc with | .frameLocal => (v, attr) | _ => (loc, v)

/-- the `finally` of `attrResetAtEnd` -/
def atEnd (s : LoopShape) (attr : Nat) : Nat :=
  match s.counter with | .attrResetAtEnd => s.init | _ => attr

inductive EvsRes where
  | yielded (loc attr : Nat) (rest : List Ev)
  | failed (e : Err) (attr : Nat)
  | fell (loc attr : Nat)

def execEvs (sc : CounterScope) (c : Option Constraint) : List Ev → Nat → Nat → EvsRes
  | [], loc, attr => .fell loc attr
  | .incr k :: r, loc, attr =>
    let p := wr sc loc attr (rd sc loc attr + k)
    execEvs sc c r p.1 p.2
  | .yield :: r, loc, attr => .yielded loc attr r
  | .check a d :: r, loc, attr =>
    match assertOpt c (rd sc loc attr + a) d with
    | .ok () => execEvs sc c r loc attr
    | .error e => .failed e attr

def notYield : Ev → Bool
  | .yield => false
  | _ => true

/-- run the frame on from the head of the `for` loop -/
def advance {α} (s : LoopShape) (truth : α → Bool) (c : Option Constraint) :
    Nat → Nat → List α → NextObs α × Frame α × Nat
  | loc, attr, [] =>
    match execEvs s.counter c (s.final.filter notYield) loc attr with
    | .failed e a => (.finished (.err e), .done, atEnd s a)
    | .fell _ a => (.finished .ok, .done, atEnd s a)
    | .yielded _ a _ => (.finished .ok, .done, atEnd s a)
  | loc, attr, x :: xs =>
    if keeps s.filter (truth x) then
      match execEvs s.counter c s.body loc attr with
      | .yielded l a r => (.value x, .susp l r x xs, a)
      | .failed e a => (.finished (.err e), .done, atEnd s a)
      | .fell l a => advance s truth c l a xs
    else advance s truth c loc attr xs

/-- one `next()` on a frame, given the node attribute's current value: observation, frame afterwards, attribute
afterwards -/
def step {α} (s : LoopShape) (truth : α → Bool) (c : Option Constraint) (sols : List α) (attr : Nat) :
    Frame α → NextObs α × Frame α × Nat
  | .done => (.exhausted, .done, attr)
  | .fresh =>
    match s.counter with
    | .frameLocal => advance s truth c s.init attr sols
    | .attrResetAtStart => advance s truth c 0 s.init sols
    | .attrResetAtEnd => advance s truth c 0 attr sols
  | .susp loc evs cur rest =>
    match execEvs s.counter c evs loc attr with
    | .yielded l a r => (.value cur, .susp l r cur rest, a)
    | .failed e a => (.finished (.err e), .done, atEnd s a)
    | .fell l a => advance s truth c l a rest

/-- evaluations of ONE node advanced in the order `js` (the j-th entry names the evaluation whose `next()` is called);
`frames`: the generator frames alive so far, `attr`: the node attribute -/
def interpSched {α} (s : LoopShape) (truth : α → Bool) (c : Option Constraint) (sols : List α) :
    List Nat → List (Nat × Frame α) → Nat → List (Nat × NextObs α)
  | [], _, _ => []
  | j :: rest, frames, attr =>
    let r := step s truth c sols attr ((frames.lookup j).getD .fresh)
    (j, r.1) :: interpSched s truth c sols rest ((j, r.2.1) :: frames.filter (·.1 != j)) r.2.2

/-! ### the decidable condition on descriptions -/

/-- the three orders of the body's effects under which the `i`-th child result is checked against the count `i` with
`done = False` BEFORE it is yielded -/
def okBodies : List (List Ev) :=
  [ [.incr 1, .check 0 false, .yield],
    [.check 1 false, .incr 1, .yield],
    [.check 1 false, .yield, .incr 1] ]

def TheShape.Ok (t : TheShape) : Prop :=
  t.dflt = .exactly 1 ∧ t.site = .inner ∧ t.onLess = .noSolution ∧ t.onGreater = .multipleSolutions ∧ t.pick = 0

def ShapeOk (s : LoopShape) : Prop :=
  s.counter = .frameLocal ∧ s.init = 0 ∧ s.filter = .all ∧ s.body ∈ okBodies ∧ s.final = [.check 0 true] ∧ s.the.Ok

instance (t : TheShape) : Decidable t.Ok := by unfold TheShape.Ok; infer_instance
instance (s : LoopShape) : Decidable (ShapeOk s) := by unfold ShapeOk; infer_instance

end KrroodVerif.Quant
