import KrroodVerif.Model.EqlSub
import KrroodVerif.Model.EqlTraceN
/-!
M-EQL trace, SUB-QUERY OPERANDS — a nested `an(entity(y, φ))` / `the(entity(y, φ))` used as an operand of a comparison
(`x.a == an(entity(y, φ))`), as an event list on top of the frozen traces (`traceVar`, `traceTerm` of
`Model/EqlTrace.lean`, `traceN` of `Model/EqlTraceN.lean`; none of them is modified). The list model of the same
fragment is `Model/EqlSub.lean` (`evalOperand`, `evalX`, `evalQueryX`).

Python → model (checked on the real engine, `symbolic.py`, HEAD 2cc5df1)
* `Comparator._evaluate__` asks its first operand for a result, and FOR EACH of them evaluates the second operand from
  that result's bindings: a sub-query operand in second position is evaluated AGAIN (a fresh generator chain) for every
  binding of the first operand — `ResultQuantifier._evaluate__` keeps nothing between two evaluations;
* `ResultQuantifier._evaluate__` is a generator: `for value in self._child_._evaluate__(sources)` → one result handed
  on per child result, at once (nothing of the child is performed ahead of the enclosing query's use of the result);
  the child (`QueryObjectDescriptor._evaluate__`) is its condition's TRUE results (`traceN` on `build φ` — a condition
  of the nested query, condition position), then the selected variable (`evaluate_selected_variables`): bound by the
  condition (or by the enclosing query) → its value, no pull; still UNBOUND (a nested query without a condition, or
  whose condition does not mention its variable) → `generate_combinations` = `itertools.product` MATERIALISES the
  variable's generator before the first combination: every element of the domain is pulled, then the results follow
  (the same as for the selection of the outermost query, `traceSel`; observed on the engine: `an(entity(y)) == z`
  pulls all of `y` before `z` is touched);
* the values of the inner variable are cached in the variable's `HashedIterable` as they are pulled: a restart of the
  sub-query replays the cached prefix (the SAME indices are emitted again: `pulled` counts the maximum index, so a
  replay costs nothing) and pulls a new element only beyond it. Hence: pulls of the inner domain after `k` outer
  results = what the furthest inner evaluation so far needed, NOT the whole domain;
* `the(...)` is `Exactly(1)`: producing a SECOND result within one evaluation of the sub-query raises
  `MultipleSolutionFound` at that moment (the events up to and including what found the second result are performed),
  ending an evaluation without any result raises `NoSolutionFound` (`theWalk`). The frozen `Err` type has no
  constructor for the two; the trace emits `Ev.err .badOperand` as a stand-in: observers only look at `hasErr`.
  Which sub-query ids are `the(...)` is a parameter (`thes`), so that `Operand` of the list model is reused as it is;
  with `thes = []` every sub-query is `an(...)`.
Core Lean only.
-/
namespace KrroodVerif.Eql

/-- the child of a sub-query (`QueryObjectDescriptor._evaluate__` under the `ResultQuantifier`): true results of the
condition, then the selected variable; `k` receives the bindings extended with the quantifier's own id -/
def traceSubAn (w : World) (id : Nat) (y : VarId) (c : Option SExpr) (env : Env) (k : Kont) : List Ev :=
  let inner := fun (e : Env) =>
    (traceVar w true y e fun _ _ _ => []) ++
      (evalVar w y e).flatMap fun r => k ((Key.lit id, r.2.1) :: r.1) r.2.1 true
  match c with
  | some c => traceN w (build c) env fun e t => if t then inner e else []
  | none => inner env

/-- the sub-query's own stream: its events with each of its results in place (as one `row` event, `cell`) -/
def subStream (w : World) (id : Nat) (y : VarId) (c : Option SExpr) (env : Env) : List Ev :=
  traceSubAn w id y c env fun e _ _ => cell e true

/-- `The._evaluate__` / `Exactly(1)` over the sub-query's stream: the first result is handed on at once; the moment a
second one is produced `MultipleSolutionFound` escapes (nothing after it is performed by this evaluation); the end of
the stream without a result raises `NoSolutionFound` -/
def theWalk (k : Env → List Ev) : List Ev → Nat → List Ev
  | [], n => if n = 0 then [Ev.err .badOperand] else []
  | .row r :: evs, n =>
    if n = 0 then k (decCell r).1 ++ theWalk k evs (n + 1) else [Ev.err .badOperand]
  | e :: evs, n => e :: theWalk k evs n

/-- the value a sub-query result carries: what its bindings hold under the quantifier's id -/
def subVal (id : Nat) (e : Env) : Val := (e.lookup (.lit id)).getD (.int 0)

/-- an operand: a plain term, or a nested query (`ResultQuantifier._evaluate__` with a parent) -/
def traceOperand (w : World) (thes : List Nat) : Operand → Env → Kont → List Ev
  | .plain t, env, k => traceTerm w false t env k
  | .sub id y c, env, k =>
    match env.lookup (.lit id) with
    | some x => k env x true
    | none =>
      if thes.contains id then theWalk (fun e => k e (subVal id e) true) (subStream w id y c env) 0
      else traceSubAn w id y c env k

/-- `Comparator._evaluate__` with operands that may be sub-queries (same operand order rule as `traceCmp`) -/
def traceCmpX (w : World) (thes : List Nat) (op : CmpOp) (l r : Operand) (env : Env)
    (k : Env → Bool → List Ev) : List Ev :=
  let swap := !env.isEmpty && envHasAny env r.nodes
  let first := if swap then r else l
  let second := if swap then l else r
  traceOperand w thes first env fun e1 v1 t1 =>
    if t1 then
      traceOperand w thes second e1 fun e2 v2 t2 =>
        if t2 then
          let lv := if swap then v2 else v1
          let rv := if swap then v1 else v2
          match applyCmp w op lv rv with
          | .ok b => k e2 b
          | .error e => [Ev.err e]
        else []
    else []

/-- conditions with sub-query operands (`evalX` as events); sub-query-free parts are `traceN` -/
def traceX (w : World) (thes : List Nat) : XExpr → Env → (Env → Bool → List Ev) → List Ev
  | .base e, env, k => traceN w e env k
  | .cmpX op l r, env, k => traceCmpX w thes op l r env k
  | .and l r, env, k => traceX w thes l env fun e1 t => if t then traceX w thes r e1 k else k e1 false
  | .elseIf l r, env, k => traceX w thes l env fun e1 t => if t then k e1 true else traceX w thes r e1 k
  | .union l r, env, k =>
    (traceX w thes l env fun e1 t => if t then k e1 true else traceX w thes r e1 k) ++ traceX w thes r env k
  | .not e, env, k => traceX w thes e env fun e1 t => k e1 (!t)

/-- the whole query: the condition's true results, each followed by the selection (`traceSel`, frozen) -/
def traceQueryX (w : World) (thes : List Nat) (sel : List Term) (c : XExpr) : List Ev :=
  traceX w thes c [] fun env t => if t then traceSel w env sel [] else []

/-- the inner variables of the sub-query operands of a condition -/
def Operand.innerVars : Operand → List VarId
  | .plain _ => []
  | .sub _ y _ => [y]

def XExpr.innerVars : XExpr → List VarId
  | .base _ => []
  | .cmpX _ l r => l.innerVars ++ r.innerVars
  | .and l r | .elseIf l r | .union l r => l.innerVars ++ r.innerVars
  | .not e => e.innerVars

/-- the ids of the sub-query operands, left to right (the driver pairs them with the `an`/`the` flags of a case) -/
def Operand.subIds : Operand → List Nat
  | .plain _ => []
  | .sub id _ _ => [id]

def XSExpr.subIds : XSExpr → List Nat
  | .base _ => []
  | .cmpX _ l r => l.subIds ++ r.subIds
  | .and l r | .or l r => l.subIds ++ r.subIds
  | .not e => e.subIds

end KrroodVerif.Eql
