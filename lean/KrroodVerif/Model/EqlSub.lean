import KrroodVerif.Model.Eql
/-!
M-EQL extension — a nested sub-query `an(entity(y, cond))` used as an operand of a comparison
(`ResultQuantifier._evaluate__` under a `Comparator`). Kept apart from `Model/Eql.lean` (whose inductive types the
cover/multiplicity proofs case on); conditions without sub-queries are delegated to `Eql.eval` unchanged.

Python → model
* the quantifier node has its own id: if it is already bound, one result, true;
* otherwise the child descriptor is evaluated from the incoming bindings: true condition results, then the selected
  variable (bound → its value; unbound → enumerates its domain); each row additionally binds the quantifier's id to
  the selected variable's value; the result is **always true** (the quantifier does not propagate the row's flag), so
  a falsy value of a sub-query is NOT filtered by the comparator (nor is a bound plain variable since the repair of
  F-C01-3; the sub-query's selected variable, when already bound by the enclosing query, is evaluated with the descriptor
  as parent — an operand position — and only its VALUE is used here, so `evalVar`'s flag is irrelevant);
* `Comparator.get_first_second_operands`: the right operand goes first iff the environment is non-empty and one of its
  variables (for a sub-query: its selected and condition variables, literals included) is bound.
Core Lean only.
-/
namespace KrroodVerif.Eql

inductive Operand where
  | plain (t : Term)
  | sub (id : Nat) (y : VarId) (c : Option SExpr)   -- the sub-query's condition as the user wrote it
  deriving Repr

def Operand.nodes : Operand → List Key
  | .plain t => t.nodes
  | .sub _ y c => .var y :: (match c with | some c => (build c).nodes | none => [])

def Operand.vars : Operand → List VarId
  | .plain t => t.vars
  | .sub _ y c => y :: (match c with | some c => (build c).vars | none => [])

def evalOperand (w : World) : Operand → Env → Except Err (List (Env × Val × Bool))
  | .plain t, env => evalTerm w false t env
  | .sub id y c, env =>
    match env.lookup (.lit id) with
    | some x => .ok [(env, x, true)]
    | none => do
      let rows ← match c with
        | some c => do let rs ← eval w (build c) env; pure ((rs.filter (·.2)).map (·.1))
        | none => pure [env]
      pure (rows.flatMap fun e => (evalVar w y e).map fun r => ((Key.lit id, r.2.1) :: r.1, r.2.1, true))

inductive XExpr where
  | base (e : Expr)
  | cmpX (op : CmpOp) (l r : Operand)
  | and (l r : XExpr)
  | elseIf (l r : XExpr)
  | union (l r : XExpr)
  | not (e : XExpr)
  deriving Repr

inductive XSExpr where
  | base (e : SExpr)
  | cmpX (op : CmpOp) (l r : Operand)
  | and (l r : XSExpr)
  | or (l r : XSExpr)
  | not (e : XSExpr)
  deriving Repr

def XExpr.vars : XExpr → List VarId
  | .base e => e.vars
  | .cmpX _ l r => l.vars ++ r.vars
  | .and l r | .elseIf l r | .union l r => l.vars ++ r.vars
  | .not e => e.vars

def buildX : XSExpr → XExpr
  | .base e => .base (build e)
  | .cmpX op l r => .cmpX op l r
  | .and l r => .and (buildX l) (buildX r)
  | .or l r => let a := buildX l; let b := buildX r; if sameSet a.vars b.vars then .elseIf a b else .union a b
  | .not e => match buildX e with
    | .base b => .base (invert b)
    | x => .not x

def evalX (w : World) : XExpr → Env → Except Err (List (Env × Bool))
  | .base e, env => eval w e env
  | .cmpX op l r, env => do
    let swap := !env.isEmpty && envHasAny env r.nodes
    let first := if swap then r else l
    let second := if swap then l else r
    let r1 ← evalOperand w first env
    flatMapM (r1.filter (·.2.2)) fun p1 => do
      let r2 ← evalOperand w second p1.1
      (r2.filter (·.2.2)).mapM fun p2 => do
        let lv := if swap then p2.2.1 else p1.2.1
        let rv := if swap then p1.2.1 else p2.2.1
        let b ← applyCmp w op lv rv
        pure (p2.1, b)
  | .and l r, env => do
    let ls ← evalX w l env
    flatMapM ls fun p => if p.2 then evalX w r p.1 else pure [(p.1, false)]
  | .elseIf l r, env => do
    let ls ← evalX w l env
    flatMapM ls fun p => if p.2 then pure [(p.1, true)] else evalX w r p.1
  | .union l r, env => do
    let ls ← evalX w l env
    let a ← flatMapM ls fun p => if p.2 then pure [(p.1, true)] else evalX w r p.1
    let b ← evalX w r env
    pure (a ++ b)
  | .not e, env => do
    let rs ← evalX w e env
    pure (rs.map fun p => (p.1, !p.2))

def evalQueryX (w : World) (sel : List Term) (c : XExpr) : Except Err (List (List Val)) := do
  let rs ← evalX w c []
  flatMapM ((rs.filter (·.2)).map (·.1)) fun env => do
    let per ← sel.mapM fun s => do
      let rs ← evalTerm w false s env
      pure (rs.map (·.2.1))
    pure (product per)

/-! first-order reading: a sub-query operand `an(entity(y, c))` makes `y` range over the sub-query's ANSWERS — its
condition restricts `y`'s domain whatever the polarity of the comparison it occurs in; the comparison itself reads
`l op σ(y)` -/

def satOperand (w : World) (σ : Asg) : Operand → Except Err (Bool × List Val)
  | .plain t => do pure (true, ← tvals w σ t)
  | .sub _ y c => do
    let ok ← match c with | some c => sat w c σ | none => pure true
    match σ.lookup y with
    | some x => pure (ok, [x])
    | none => .error .keyError

def satX (w : World) : XSExpr → Asg → Except Err Bool
  | .base e, σ => sat w e σ
  | .cmpX op l r, σ => do
    let a ← satOperand w σ l
    let b ← satOperand w σ r
    anyM a.2 fun x => anyM b.2 fun y => applyCmp w op x y
  | .and l r, σ => do pure ((← satX w l σ) && (← satX w r σ))
  | .or l r, σ => do pure ((← satX w l σ) || (← satX w r σ))
  | .not e, σ => do pure (!(← satX w e σ))

def Operand.freeVars : Operand → List VarId
  | .plain t => t.vars
  | .sub _ y c => y :: (match c with | some c => c.freeVars | none => [])

def XSExpr.freeVars : XSExpr → List VarId
  | .base e => e.freeVars
  | .cmpX _ l r => l.freeVars ++ r.freeVars
  | .and l r | .or l r => l.freeVars ++ r.freeVars
  | .not e => e.freeVars

/-- the conditions of all sub-query operands (domain restrictions) -/
def XSExpr.restrictions : XSExpr → List SExpr
  | .base _ => []
  | .cmpX _ l r =>
    (match l with | .sub _ _ (some c) => [c] | _ => []) ++ (match r with | .sub _ _ (some c) => [c] | _ => [])
  | .and l r | .or l r => l.restrictions ++ r.restrictions
  | .not e => e.restrictions

def solutionsX (w : World) (sel : List Term) (c : XSExpr) : Except Err (List (List Val)) := do
  let vs := dedupNat (sel.flatMap Term.vars ++ c.freeVars)
  let sols ← (assignments w vs).filterM fun σ => do
    let inDom ← allM c.restrictions fun r => sat w r σ
    let holds ← satX w c σ
    pure (inDom && holds)
  sols.mapM fun σ => sel.mapM (tval w σ)

def XSExpr.hasSub : XSExpr → Bool
  | .base _ => false
  | .cmpX _ l r => (match l with | .sub .. => true | _ => false) || (match r with | .sub .. => true | _ => false)
  | .and l r | .or l r => l.hasSub || r.hasSub
  | .not e => e.hasSub

end KrroodVerif.Eql
