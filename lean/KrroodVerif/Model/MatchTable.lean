import KrroodVerif.Model.Match
/-!
M-MATCH, table form — the DECISION STRUCTURE of the desugaring in `match.py` as first-order data (`Table`) and an
interpreter `desugarWith` that runs a table. Core Lean only.

`Match.table` is the table of the code as it is now; `Props/C11T.lean` proves `desugar_eq_interp`
(`TableOk t → desugarWith t = desugar Quirks.now`, unbounded, structural induction over patterns) and hence the
property for every table that is `TableOk`. `harness/translate/c11_translate.py` regenerates the table from the
CURRENT Python AST on every run (truth tables of the Boolean decisions obtained by evaluating the source expressions
on every valuation of their atoms) and the kernel re-checks `Translated.table = Match.table` and
`TableOk Translated.table` by `decide`.

Every Boolean decision of the source is a row list indexed by the valuation of its atoms (big-endian, `bitsIdx`):

| field | Python | atoms (in index order) |
|---|---|---|
| `dispatch` | `entity_matching` / `entity_selection`: which `Match` is built for the argument | row = kind of argument: `None`, a class, a truthy non-class value, a falsy non-class value |
| `unresolved` | `AttributeAssignment.is_an_unresolved_match` | value is a `Match`; it has a variable |
| `iterVal` | `AttributeAssignment.is_iterable_value` | value is a `Match`; `is_iterable(value)`; `value.variable._is_iterable_` |
| `infer` | the comparator chosen by `infer_condition_between_attribute_and_assigned_value` | attribute iterable; value iterable; value is a `Match`; it is universal |
| `exWrap` | … wrapped in `exists(attr, ·)` | value is a `Match`; it is existential |
| `flatten` | `AttributeAssignment.resolve`: the nested match speaks about `flatten(attr)` | attribute iterable; nested match has no kwargs; type filter needed |
| `typeFilter` | `AttributeAssignment.is_type_filter_needed` | attribute type truthy; matched type truthy; same class; `issubclass(matched, attr)`; `issubclass(attr, matched)` |
| `unconstrained` | `element_is_unconstrained` in `resolve` | attribute iterable; nested match produced no conditions; it has no kwargs; its type is truthy |
| `emitHasType` | `if self.is_type_filter_needed or element_is_unconstrained` | type filter needed; element unconstrained |
| `owner` | `Match._attribute_owner_type_`: kwargs are looked up on the matched type | matched type is a class; variable type is a class; `issubclass(matched, variable type)` |
| `selUp` | `Match._update_selected_variables`: a selected variable is registered on the root match (recursively through `parent`) or on the direct parent only | – |

Rows of valuations that cannot occur (same class but not subclasses of each other, no kwargs but conditions) hold the
default `false`: translator and hand table normalise them the same way.
-/
namespace KrroodVerif.Match
open KrroodVerif.Eql

/-- the comparator `infer_condition_between_attribute_and_assigned_value` builds -/
inductive CondKind where
  /-- `contains(attr, value)` -/
  | litIn
  /-- `in_(attr, value)` -/
  | inLit
  /-- `contains(value, flatten(attr))` -/
  | inLitFlat
  /-- `attr == value` -/
  | eq
  deriving DecidableEq, Repr, Inhabited

/-- what `entity_matching(x, domain)` builds -/
inductive Dispatch where
  /-- `Match(x, domain=…)`: no variable yet, resolved later against the attribute -/
  | unresolved
  /-- `Match(x, variable=Literal(x))` -/
  | overLiteral
  deriving DecidableEq, Repr, Inhabited

/-- where `_update_selected_variables` registers a selected variable -/
inductive SelUp where
  | root
  | parent
  deriving DecidableEq, Repr, Inhabited

structure Table where
  dispatch : List Dispatch
  unresolved : List Bool
  iterVal : List Bool
  infer : List CondKind
  exWrap : List Bool
  flatten : List Bool
  typeFilter : List Bool
  unconstrained : List Bool
  emitHasType : List Bool
  owner : List Bool
  selUp : SelUp
  deriving DecidableEq, Repr

def bitsIdx (bs : List Bool) : Nat := bs.foldl (fun n b => 2 * n + b.toNat) 0

def rowB (l : List Bool) (bs : List Bool) : Bool := l.getD (bitsIdx bs) false

def Table.inferAt (t : Table) (attrIter valIter isMatch universal : Bool) : CondKind :=
  t.infer.getD (bitsIdx [attrIter, valIter, isMatch, universal]) .eq

/-- kinds of argument of `entity_matching`: 0 `None`, 1 a class, 2 a truthy non-class value, 3 a falsy one -/
def Table.dispatchAt (t : Table) (k : Nat) : Dispatch := t.dispatch.getD k .unresolved

/-- the table of the code as it is now (`Quirks.now`) -/
def table : Table where
  dispatch := [.unresolved, .unresolved, .overLiteral, .overLiteral]
  unresolved := [false, false, true, false]
  iterVal := [false, false, true, true, false, true, false, true]
  infer := [.eq, .eq, .eq, .eq, .inLit, .inLit, .inLit, .inLit, .litIn, .litIn, .litIn, .litIn,
            .inLitFlat, .inLitFlat, .inLitFlat, .eq]
  exWrap := [false, false, false, true]
  flatten := [false, false, false, false, true, true, true, true]
  typeFilter := [true, true, true, true, false, false, false, true, true, true, true, true, false, false, false, true,
                 false, false, false, false, false, false, false, false,
                 false, false, true, true, false, false, false, false]
  unconstrained := [false, false, false, false, false, false, false, false,
                    false, false, false, false, false, true, false, true]
  emitHasType := [false, true, true, true]
  owner := [false, false, false, false, true, true, false, true]
  selUp := .root

/-! ### the interpreter -/

def mkCond : CondKind → MTerm → Val → Cond
  | .litIn, a, l => .litIn a l
  | .inLit, a, l => .inLit a l
  | .inLitFlat, a, l => .inLit (.flat a) l
  | .eq, a, l => .eq a l

/-- `infer_condition_between_attribute_and_assigned_value` run on a table -/
def inferWith (t : Table) (fi : FieldInfo) (a : MTerm) (l : Val) (valIter isMatch un ex : Bool) : Cond :=
  let c := mkCond (t.inferAt fi.coll valIter isMatch un) a l
  if rowB t.exWrap [isMatch, ex] then .ex a c else c

/-- the atoms of `is_type_filter_needed` for an attribute of declared type `declared` (`none`: a builtin type, which
is a truthy type that no matched class is a subclass of) and a nested match on `cls` (`none`: `match()`, whose type
becomes the type of the attribute in `_update_fields` before the filter is decided) -/
def typeAtoms (sub : List (Nat × Nat)) (declared cls : Option Nat) : List Bool :=
  match declared, cls with
  | some d, some c => [true, true, c == d, c == d || sub.contains (c, d), c == d || sub.contains (d, c)]
  | none, some _ => [true, true, false, false, false]
  | _, none => [true, true, true, true, true]

/-- `issubclass(matched type, type of the variable)` (third atom of `_attribute_owner_type_`) -/
def subMatched (sub : List (Nat × Nat)) (declared cls : Option Nat) : Bool := (typeAtoms sub declared cls).getD 3 false

def dedupTerms : List MTerm → List MTerm
  | [] => []
  | x :: xs => x :: (dedupTerms xs).filter (· != x)

/-- the selected variables a selecting match below the match at nesting depth `depth` (0 = the root match)
contributes to the ROOT: the attribute is registered by the enclosing match, the (possibly flattened) variable by the
selecting match itself, whose parent is the enclosing match -/
def selsWith (t : Table) (depth : Nat) (a t' : MTerm) : List MTerm :=
  match t.selUp with
  | .root => dedupTerms [a, t']
  | .parent => dedupTerms ((if depth ≤ 1 then [a] else []) ++ (if depth == 0 then [t'] else []))

def selAttrWith (t : Table) (depth : Nat) (a : MTerm) : List MTerm :=
  match t.selUp with
  | .root => [a]
  | .parent => if depth ≤ 1 then [a] else []

mutual
/-- the loop of `Match._resolve` run on a table; `depth` = nesting depth of the match whose kwargs these are -/
def resolveAssignsWith (t : Table) (s : Schema) (sub : List (Nat × Nat)) (depth : Nat) (owner : Option Nat)
    (v : MTerm) : Assigns → Option (List Cond × List MTerm)
  | .nil => some ([], [])
  | .cons n av rest =>
    match fieldOf s owner n with
    | none => none
    | some fi =>
      match resolveValWith t s sub depth fi (.attr v n) av, resolveAssignsWith t s sub depth owner v rest with
      | some (c1, s1), some (c2, s2) => some (c1 ++ c2, s1 ++ s2)
      | _, _ => none
/-- one `AttributeAssignment` run on a table; `none` = an exception at construction -/
def resolveValWith (t : Table) (s : Schema) (sub : List (Nat × Nat)) (depth : Nat) (fi : FieldInfo) (a : MTerm) :
    AVal → Option (List Cond × List MTerm)
  | .lit l =>
    -- a plain value is not a `Match`
    if rowB t.unresolved [false, false] then none
    else some ([inferWith t fi a l (rowB t.iterVal [false, isColl l, false]) false false false], [])
  | .coll l ex un sel =>
    match t.dispatchAt (if truthy l then 2 else 3) with
    | .overLiteral =>
      if rowB t.unresolved [true, true] then none
      else some ([inferWith t fi a l (rowB t.iterVal [true, false, true]) true un ex],
                 if sel then selAttrWith t depth a else [])
    | .unresolved =>
      -- taken for a match without type and without kwargs (what F-C11-6 was)
      let need := rowB t.typeFilter (typeAtoms sub fi.type none)
      let t' := if rowB t.flatten [fi.coll, true, need] then MTerm.flat a else a
      let unc := rowB t.unconstrained [fi.coll, true, true, fi.type.isSome]
      let filt : List Cond := if rowB t.emitHasType [need, unc] then
          (match fi.type with | some c => [Cond.hasType t' c] | none => []) else []
      some (filt, if sel then selsWith t depth a t' else [])
  | .nested (.mk cls sel as) =>
    match t.dispatchAt (if cls.isSome then 1 else 0) with
    | .overLiteral => none
    | .unresolved =>
      if !rowB t.unresolved [true, false] then none else
      let need := rowB t.typeFilter (typeAtoms sub fi.type cls)
      let t' := if rowB t.flatten [fi.coll, as.isNil, need] then MTerm.flat a else a
      let eff := cls.orElse fun _ => fi.type
      let owner := if rowB t.owner [true, true, subMatched sub fi.type cls] then eff else fi.type
      match resolveAssignsWith t s sub (depth + 1) owner t' as with
      | none => none
      | some (cs, ss) =>
        let unc := rowB t.unconstrained [fi.coll, cs.isEmpty, as.isNil, eff.isSome]
        let filt : List Cond := if rowB t.emitHasType [need, unc] then
            (match eff with | some c => [Cond.hasType t' c] | none => []) else []
        some (filt ++ cs, (if sel then selsWith t depth a t' else []) ++ ss)
end

/-- `entity_matching(T, domain)(**kwargs).expression` run on a table -/
def desugarWith (t : Table) (s : Schema) (sub : List (Nat × Nat)) : Pat → Option MQuery
  | .mk (some T) rootSel as =>
    match resolveAssignsWith t s sub 0 (some T) .root as with
    | none => none
    | some (cs, ss) =>
      let sels := (if rootSel then [MTerm.root] else []) ++ ss
      some { cls := T, sel := if sels.isEmpty then [.root] else sels, cond := andChain cs }
  | .mk none _ _ => none

/-- the model of `an(entity_matching(T, dom)(…)).evaluate()` with the desugaring run on a table -/
def runWith (t : Table) (w : World) (Q : Quirks) (s : Schema) (dom : List Val) (p : Pat) :
    Option (List (List Val)) :=
  (desugarWith t s w.subclass p).map (evalQuery w Q dom)

/-! ### `TableOk`: the rows the interpreter can reach hold the decisions of the model -/

def TableOk (t : Table) : Prop :=
  -- `entity_matching`: `None` and classes give an unresolved match, other values (falsy ones too) a match over a literal
  (t.dispatchAt 0 = .unresolved ∧ t.dispatchAt 1 = .unresolved ∧ t.dispatchAt 2 = .overLiteral ∧
    t.dispatchAt 3 = .overLiteral) ∧
  -- a plain value and a match over a literal are not unresolved, a match without variable is
  (rowB t.unresolved [false, false] = false ∧ rowB t.unresolved [true, true] = false ∧
    rowB t.unresolved [true, false] = true) ∧
  -- a plain value is iterable iff `is_iterable` says so; a match over a literal always is
  ((∀ b, rowB t.iterVal [false, b, false] = b) ∧ rowB t.iterVal [true, false, true] = true) ∧
  -- the comparator (a plain value is never universal)
  (∀ a v m u, (m || !u) = true → t.inferAt a v m u = table.inferAt a v m u) ∧
  -- `exists` exactly for an existential match
  (∀ m e, (m || !e) = true → rowB t.exWrap [m, e] = (m && e)) ∧
  -- a nested match on a collection always speaks about an element
  (∀ a k n, rowB t.flatten [a, k, n] = a) ∧
  -- the type filter: matched type a PROPER SUBCLASS of the attribute's type (both types known)
  (∀ s ma am, rowB t.typeFilter [true, true, s, ma, am] = (!s && ma)) ∧
  -- unconstrained element: collection, no condition, known type (no kwargs implies no conditions)
  (∀ a c k ty, (!k || c) = true → rowB t.unconstrained [a, c, k, ty] = (a && c && ty)) ∧
  (∀ n u, rowB t.emitHasType [n, u] = (n || u)) ∧
  -- kwargs are looked up on the matched type iff it is a subclass of the variable's type
  (∀ b, rowB t.owner [true, true, b] = b) ∧
  t.selUp = .root

instance (t : Table) : Decidable (TableOk t) := by unfold TableOk; infer_instance

end KrroodVerif.Match
