import KrroodVerif.Model.OrmGen
/-!
# M-ORM: the kind dispatch of `WrappedTable.parse_field` and the rules of `create_mapper_args` as DATA

Core Lean only (the native driver links this file).

`parse_field` (`src/krrood/ormatic/wrapped_table.py`) is an `if / elif / … / else` chain: every branch tests a Boolean
combination of `WrappedField` predicates (and of two membership tests on the field's `type_endpoint`) and calls exactly
one `create_*` method. `create_mapper_args` is a sequence of (nested) `if`s over `parent_table is None`, `has_children`
and the inheritance strategy, each emitting entries of `__mapper_args__` (and the discriminator column).

Here both are *tables* with an interpreter:

* `DispatchTable = List (Cond × Action)` in source order, `interpDispatch` = first row whose condition holds;
* `MapperRules = List (MCond × List MapperEmit)`, `interpMapper` = the emissions of EVERY rule whose condition holds
  (sequential `if`s, not `elif`s).

`dispatch` / `mapperRules` are the tables of the pinned source. `harness/translate/c06_translate.py` regenerates both from
the CURRENT Python AST on every run; the kernel then re-checks, for the regenerated tables, extensional equality with
these tables and `DispatchOk` / `MapperOk` (`Props/C06T.lean` proves once that these imply the property theorems for
the generator built on the regenerated tables).

`factsOf` is the model of the `WrappedField` predicates on the annotation grammar of the property (`Kind`); `Shape`
enumerates the field shapes of the grammar up to names (finite), including the two shapes that only the `type_mappings`
argument produces (custom-typed scalar, container of a custom type) and `Type[...]` fields.
-/
namespace KrroodVerif.OrmGen

/-- the atomic tests `parse_field` makes -/
inductive Atom
  | isTypeType              -- `wrapped_field.is_type_type`
  | isBuiltinType           -- `wrapped_field.is_builtin_type`
  | isEnum                  -- `wrapped_field.is_enum`
  | isContainer             -- `wrapped_field.is_container`
  | isOneToOne              -- `wrapped_field.is_one_to_one_relationship`
  | isOneToMany             -- `wrapped_field.is_one_to_many_relationship`
  | isCollectionOfBuiltins  -- `wrapped_field.is_collection_of_builtins`
  | endpointMapped          -- `wrapped_field.type_endpoint in self.ormatic.mapped_classes`
  | endpointInTypeMappings  -- `wrapped_field.type_endpoint in self.ormatic.type_mappings`
  deriving DecidableEq, Repr

/-- one truth value per atom -/
structure Facts where
  isTypeType : Bool
  isBuiltinType : Bool
  isEnum : Bool
  isContainer : Bool
  isOneToOne : Bool
  isOneToMany : Bool
  isCollectionOfBuiltins : Bool
  endpointMapped : Bool
  endpointInTypeMappings : Bool
  deriving DecidableEq, Repr

def Facts.get (v : Facts) : Atom → Bool
  | .isTypeType => v.isTypeType
  | .isBuiltinType => v.isBuiltinType
  | .isEnum => v.isEnum
  | .isContainer => v.isContainer
  | .isOneToOne => v.isOneToOne
  | .isOneToMany => v.isOneToMany
  | .isCollectionOfBuiltins => v.isCollectionOfBuiltins
  | .endpointMapped => v.endpointMapped
  | .endpointInTypeMappings => v.endpointInTypeMappings

/-- a branch condition: Python's `and` / `or` / `not` over the atoms (all atoms are pure, cached and total, so
short-circuit evaluation is plain Boolean evaluation) -/
inductive Cond
  | atom (a : Atom)
  | not (c : Cond)
  | and (a b : Cond)
  | or (a b : Cond)
  deriving DecidableEq, Repr

def Cond.eval (v : Facts) : Cond → Bool
  | .atom a => v.get a
  | .not c => !(c.eval v)
  | .and a b => a.eval v && b.eval v
  | .or a b => a.eval v || b.eval v

/-- which `create_*` method a branch calls (`skip` = the final `else`, nothing is created) -/
inductive Action
  | typeType    -- `create_type_type_column`
  | builtin     -- `create_builtin_column`
  | oneToOne    -- `create_one_to_one_relationship`
  | customType  -- `create_custom_type`
  | json        -- `create_json_column`
  | oneToMany   -- `create_one_to_many_relationship`
  | skip
  deriving DecidableEq, Repr

abbrev DispatchTable := List (Cond × Action)

/-- `if c₁: a₁ elif c₂: a₂ … else: skip` -/
def interpDispatch : DispatchTable → Facts → Action
  | [], _ => .skip
  | (c, a) :: r, v => if c.eval v then a else interpDispatch r v

/-- The decision list of `WrappedTable.parse_field` as pinned (source order). -/
def dispatch : DispatchTable :=
  [ (.atom .isTypeType, .typeType),
    (.and (.or (.atom .isBuiltinType) (.atom .isEnum)) (.not (.atom .isContainer)), .builtin),
    (.and (.atom .isOneToOne) (.atom .endpointMapped), .oneToOne),
    (.and (.atom .isOneToOne) (.atom .endpointInTypeMappings), .customType),
    (.or (.atom .isCollectionOfBuiltins) (.and (.atom .endpointInTypeMappings) (.atom .isContainer)), .json),
    (.atom .isOneToMany, .oneToMany) ]

/-! ## the `WrappedField` predicates on the grammar of the property -/

/-- `wrapped_field.py` on the annotations the grammar produces: `is_builtin_type` looks at the type endpoint,
`is_one_to_one_relationship = not container and not builtin` (so it is true of enums), `is_one_to_many_relationship =
container and not builtin and not optional`, `is_collection_of_builtins = container and every argument is a builtins
class`. -/
def factsOf (m : ClassModel) : Kind → Facts
  | .scalar _ _ => ⟨false, true, false, false, false, false, false, false, false⟩
  | .datetime _ => ⟨false, true, false, false, false, false, false, false, false⟩
  | .enum _ => ⟨false, false, true, false, true, false, false, false, false⟩
  | .jsonList _ => ⟨false, true, false, true, false, false, true, false, false⟩
  | .ref t _ => ⟨false, false, false, false, true, false, false, mapped m t, false⟩
  | .coll t => ⟨false, false, false, true, false, true, false, mapped m t, false⟩
  | .custom _ => ⟨false, false, false, false, true, false, false, false, true⟩

/-- The field shapes of the grammar up to names. `custom` / `customList` exist only with a `type_mappings` argument,
`typeType` is `Type[X]`. -/
inductive Shape
  | scalar (opt : Bool)
  | datetime (opt : Bool)
  | enum (opt : Bool)
  | jsonList
  | ref (isMapped opt : Bool)
  | coll (isMapped : Bool)
  | custom (opt : Bool)
  | customList
  | typeType (isMapped : Bool)
  deriving DecidableEq, Repr

def Shape.all : List Shape :=
  [.scalar false, .scalar true, .datetime false, .datetime true, .enum false, .enum true, .jsonList,
   .ref false false, .ref false true, .ref true false, .ref true true, .coll false, .coll true,
   .custom false, .custom true, .customList, .typeType false, .typeType true]

def Shape.facts : Shape → Facts
  | .scalar _ => ⟨false, true, false, false, false, false, false, false, false⟩
  | .datetime _ => ⟨false, true, false, false, false, false, false, false, false⟩
  | .enum _ => ⟨false, false, true, false, true, false, false, false, false⟩
  | .jsonList => ⟨false, true, false, true, false, false, true, false, false⟩
  | .ref mp _ => ⟨false, false, false, false, true, false, false, mp, false⟩
  | .coll mp => ⟨false, false, false, true, false, true, false, mp, false⟩
  | .custom _ => ⟨false, false, false, false, true, false, false, false, true⟩
  | .customList => ⟨false, false, false, true, false, true, false, false, true⟩
  -- `Type[X]`: `get_origin` is `type`, which is one of `container_types`; the endpoint `X` is an arbitrary class
  -- (`Optional[Type[X]]` is outside the grammar: `is_enum` raises `TypeError` on it)
  | .typeType mp => ⟨true, false, false, true, false, true, false, mp, false⟩

/-- what the property demands for a shape: a column for every scalar / enum / datetime / JSON-list / custom-typed /
`Type` field, FK + relationship for a reference to a mapped class, association table + relationship for a collection,
nothing for a reference to a class that is neither mapped nor type-mapped. -/
def Shape.action : Shape → Action
  | .scalar _ => .builtin
  | .datetime _ => .builtin
  | .enum _ => .builtin
  | .jsonList => .json
  | .ref true _ => .oneToOne
  | .ref false _ => .skip
  | .coll _ => .oneToMany   -- an unmapped target makes `create_one_to_many_relationship` raise (`crashed`)
  | .custom _ => .customType
  | .customList => .json
  | .typeType _ => .typeType

def shapeOf (m : ClassModel) : Kind → Shape
  | .scalar _ o => .scalar o
  | .datetime o => .datetime o
  | .enum o => .enum o
  | .jsonList _ => .jsonList
  | .ref t o => .ref (mapped m t) o
  | .coll t => .coll (mapped m t)
  | .custom o => .custom o

/-- The table decides every field shape of the grammar the way the property demands. Decidable, finite. -/
def DispatchOk (t : DispatchTable) : Prop := ∀ s ∈ Shape.all, interpDispatch t s.facts = s.action

instance (t : DispatchTable) : Decidable (DispatchOk t) := by unfold DispatchOk; infer_instance

/-! ## what an action emits (the `create_*` methods) -/

def Kind.opt : Kind → Bool
  | .scalar _ o => o | .enum o => o | .datetime o => o | .ref _ o => o | .custom o => o | _ => false

def Kind.target : Kind → Option Name
  | .ref t _ => some t | .coll t => some t | _ => none

/-- `wrapped_field.type_endpoint.__module__` -/
def Kind.endpointModule : Kind → List Module
  | .scalar _ _ => [.builtins] | .jsonList _ => [.builtins] | .enum _ => [.model] | .datetime _ => [.datetime]
  | _ => [.model]

/-- the mapped attributes the method of action `a` appends for field `f` of class `c`. Both relationship methods call
`get_table_of_wrapped_field` BEFORE they append anything: when the target has no table they raise and append nothing. -/
def emitAttrs (m : ClassModel) (a : Action) (c : Class) (f : Field) : List Attr :=
  let o := f.kind.opt
  match a with
  | .builtin => [⟨f.name, .builtinCol, o, o, optMods o ++ f.kind.endpointModule⟩]
  | .json => [⟨f.name, .customCol, false, false, [.typing, .builtins]⟩]
  | .typeType => [⟨f.name, .customCol, o, o, optMods o⟩]
  | .customType => [⟨f.name, .customCol, o, o, optMods o ++ [.customTypes]⟩]
  | .oneToOne =>
    match f.kind.target with
    | some t =>
      if mapped m t then
        [⟨fkName f.name, .fkCol (tableName t), o, true, if o then [.typing, .builtins] else []⟩,
         ⟨f.name, .rel (tableName t) false none, o, true, []⟩]
      else []
    | none => []
  | .oneToMany =>
    match f.kind.target with
    | some t =>
      if mapped m t then
        [⟨f.name, .rel (tableName t) true (some (assocName (tableName c.name) f.name)), false, false, [.typing]⟩]
      else []
    | none => []
  | .skip => []

def emitAssocs (q : Quirks) (m : ClassModel) (a : Action) (c : Class) (f : Field) : List Assoc :=
  match a, f.kind.target with
  | .oneToMany, some t =>
    if mapped m t then
      let n := assocFkNames q (tableName c.name) (tableName t)
      [⟨assocName (tableName c.name) f.name, tableName c.name, n.1, tableName t, n.2⟩]
    else []
  | _, _ => []

/-- `self.ormatic.imported_modules.add(...)` -/
def emitImports (a : Action) (f : Field) : List Module :=
  match a with
  | .builtin => f.kind.endpointModule
  | .json => [.typingExtensions]
  | _ => []

/-- `get_table_of_wrapped_field` raises `WrappedTableNotFound` -/
def emitCrashes (m : ClassModel) (a : Action) (f : Field) : Bool :=
  match a, f.kind.target with
  | .oneToOne, some t => !mapped m t
  | .oneToMany, some t => !mapped m t
  | _, _ => false

/-! ## `create_mapper_args` -/

inductive MAtom
  | hasParent     -- `self.parent_table is not None`
  | hasChildren   -- `self.has_children`
  | joined        -- `self.ormatic.inheritance_strategy == InheritanceStrategy.JOINED`
  deriving DecidableEq, Repr

structure MFacts where
  hasParent : Bool
  hasChildren : Bool
  joined : Bool
  deriving DecidableEq, Repr

def MFacts.get (v : MFacts) : MAtom → Bool
  | .hasParent => v.hasParent | .hasChildren => v.hasChildren | .joined => v.joined

inductive MCond
  | atom (a : MAtom)
  | not (c : MCond)
  | and (a b : MCond)
  | or (a b : MCond)
  deriving DecidableEq, Repr

def MCond.eval (v : MFacts) : MCond → Bool
  | .atom a => v.get a
  | .not c => !(c.eval v)
  | .and a b => a.eval v && b.eval v
  | .or a b => a.eval v || b.eval v

inductive MapperEmit
  | polyColumn        -- `custom_columns.append(ColumnConstructor(polymorphic_on_name, "Mapped[str]", … nullable=False …))`
  | polyOn            -- `'polymorphic_on': polymorphic_on_name`
  | polyIdentitySelf  -- `'polymorphic_identity': self.tablename`
  | inheritCondition  -- `'inherit_condition': primary_key_name == parent_table.full_primary_key_name`
  deriving DecidableEq, Repr

abbrev MapperRules := List (MCond × List MapperEmit)

/-- sequential `if`s: the emissions of every rule that fires, in source order -/
def interpMapper (r : MapperRules) (v : MFacts) : List MapperEmit :=
  r.flatMap (fun x => if x.1.eval v then x.2 else [])

/-- The rules of `WrappedTable.create_mapper_args` as pinned. -/
def mapperRules : MapperRules :=
  [ (.and (.not (.atom .hasParent)) (.atom .hasChildren), [.polyColumn, .polyOn, .polyIdentitySelf]),
    (.atom .hasParent, [.polyIdentitySelf]),
    (.and (.atom .hasParent) (.atom .joined), [.inheritCondition]) ]

/-- what the four observable switches must be (joined-table inheritance, the default and only strategy the generator
of the property uses): the root of a hierarchy carries the discriminator column and `polymorphic_on`; every class in a
hierarchy has its own table name as identity; every class with a parent table names its join condition explicitly
(otherwise a reference between a class and its own ancestor / descendant makes the join ambiguous). -/
def MapperOk (r : MapperRules) : Prop :=
  ∀ hp ∈ [false, true], ∀ hc ∈ [false, true],
    let e := interpMapper r ⟨hp, hc, true⟩
    (e.contains .polyColumn = (!hp && hc)) ∧ (e.contains .polyOn = (!hp && hc)) ∧
    (e.contains .polyIdentitySelf = (hp || hc)) ∧ (e.contains .inheritCondition = hp)

instance (r : MapperRules) : Decidable (MapperOk r) := by unfold MapperOk; infer_instance

/-! ## the generator built on tables -/

def parseFieldT (t : DispatchTable) (m : ClassModel) (c : Class) (f : Field) : List Attr :=
  emitAttrs m (interpDispatch t (factsOf m f.kind)) c f

def assocOfT (t : DispatchTable) (q : Quirks) (m : ClassModel) (c : Class) (f : Field) : List Assoc :=
  emitAssocs q m (interpDispatch t (factsOf m f.kind)) c f

def fieldImportsT (t : DispatchTable) (m : ClassModel) (f : Field) : List Module :=
  emitImports (interpDispatch t (factsOf m f.kind)) f

def fieldCrashesT (t : DispatchTable) (m : ClassModel) (f : Field) : Bool :=
  emitCrashes m (interpDispatch t (factsOf m f.kind)) f

def mapperOf (r : MapperRules) (m : ClassModel) (c : Class) : List MapperEmit :=
  interpMapper r ⟨(parentOf m c).isSome, hasChildren m c, true⟩

def genTableT (t : DispatchTable) (r : MapperRules) (m : ClassModel) (c : Class) : Table :=
  let e := mapperOf r m c
  { name := tableName c.name
    cls := c.name
    base := (parentOf m c).map (fun p => tableName p.name)
    pkMods := [.builtins]
    polyOn := e.contains .polyColumn && e.contains .polyOn
    polyIdentity := if e.contains .polyIdentitySelf then some (tableName c.name) else none
    attrs := (tableFields m c).flatMap (parseFieldT t m c) }

def importsT (t : DispatchTable) (q : Quirks) (m : ClassModel) : List Module :=
  [.typing, .customTypes] ++ (if m.isEmpty then [] else [.model]) ++
    m.flatMap (fun c => (tableFields m c).flatMap (fieldImportsT t m)) ++
    (if q.builtinsOnlyWhenUsed then [] else [.builtins])

/-- `generate` with the kind dispatch and the mapper arguments read from tables -/
def generateT (t : DispatchTable) (r : MapperRules) (q : Quirks) (m : ClassModel) : Schema :=
  { tables := m.map (genTableT t r m)
    assocs := m.flatMap (fun c => (tableFields m c).flatMap (assocOfT t q m c))
    imports := importsT t q m
    crashed := m.any (fun c => (tableFields m c).any (fieldCrashesT t m)) }

/-- every DAO with a parent DAO names its join condition (`inherit_condition`) -/
def inheritConditionsGiven (r : MapperRules) (m : ClassModel) : Bool :=
  m.all (fun c => if (parentOf m c).isSome then (mapperOf r m c).contains .inheritCondition else true)

end KrroodVerif.OrmGen
