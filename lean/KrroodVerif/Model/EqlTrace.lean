import KrroodVerif.Model.Eql
/-!
M-EQL trace — the same evaluation as `Eql.eval`, in continuation-passing style, emitting the *events* that a
demand-driven (generator based) evaluation performs in order: pulling the `i`-th element of a variable's lazily
produced domain, reading an attribute / calling a method of a user object, and yielding a result row.
A Python generator pipeline is a depth-first traversal suspended at each `yield`; the event list is that traversal.
The consumer that stops after `k` results has performed exactly the events before the `k`-th `row` event.

Covers the quantifier-free fragment (`exists`/`for_all` keep state across results and are not traced).
Core Lean only.
-/
namespace KrroodVerif.Eql

inductive Ev where
  | pull (v : VarId) (i : Nat)        -- `next()` on the domain generator of `v` returned its `i`-th element
  | read (o : Nat) (name : AttrName)  -- `getattr(obj_o, name)` (or the call of method `name`)
  | row (r : List Val)                -- a result handed to the consumer
  | err (e : Err)                     -- an exception escaping to the consumer
  deriving DecidableEq, Repr

abbrev Kont := Env → Val → Bool → List Ev

def enumFrom {α} : Nat → List α → List (Nat × α)
  | _, [] => []
  | i, x :: r => (i, x) :: enumFrom (i + 1) r

def traceVar (w : World) (condPos : Bool) (v : VarId) (env : Env) (k : Kont) : List Ev :=
  match env.lookup (.var v) with
  | some x => k env x (boundFlag condPos x)
  | none => (enumFrom 0 (w.dom v)).flatMap fun p => Ev.pull v p.1 :: k ((.var v, p.2) :: env) p.2 true

def readEvent (x : Val) (n : AttrName) : List Ev :=
  match x with | .obj o => [Ev.read o n] | _ => []

def traceTerm (w : World) (condPos : Bool) : Term → Env → Kont → List Ev
  | .var v, env, k => traceVar w condPos v env k
  | .lit id x, env, k =>
    match env.lookup (.lit id) with
    | some y => k env y (boundFlag condPos y)
    | none => k ((.lit id, x) :: env) x true
  | .attr t n, env, k =>
    traceTerm w false t env fun env' x _ =>
      readEvent x n ++ (match getAttr w x n with
        | .ok y => k env' y (if condPos then truthy y else true)
        | .error e => [Ev.err e])
  | .index t i, env, k =>
    traceTerm w false t env fun env' x _ =>
      match getIndex x i with
      | .ok y => k env' y (if condPos then truthy y else true)
      | .error e => [Ev.err e]
  | .flatten t, env, k =>
    traceTerm w false t env fun env' x _ =>
      match elements x with
      | .ok ys => ys.flatMap fun y => k env' y (if condPos then truthy y else true)
      | .error e => [Ev.err e]

def traceCmp (w : World) (l r : Term) (op : Val → Val → Except Err Bool) (env : Env)
    (k : Env → Bool → List Ev) : List Ev :=
  let swap := !env.isEmpty && envHasAny env r.nodes
  let first := if swap then r else l
  let second := if swap then l else r
  traceTerm w false first env fun e1 v1 t1 =>
    if t1 then
      traceTerm w false second e1 fun e2 v2 t2 =>
        if t2 then
          let lv := if swap then v2 else v1
          let rv := if swap then v1 else v2
          match op lv rv with
          | .ok b => k e2 b
          | .error e => [Ev.err e]
        else []
    else []

/-- quantifier-free expressions; quantifiers are reported as `badOperand` (outside the traced fragment) -/
def traceE (w : World) : Expr → Env → (Env → Bool → List Ev) → List Ev
  | .cmp op l r, env, k => traceCmp w l r (applyCmp w op) env k
  | .contains c i, env, k => traceCmp w c i (applyContains w) env k
  | .truth t, env, k => traceTerm w true t env fun e _ tr => k e tr
  | .hasType t c, env, k => traceTerm w false t env fun e x _ => k e (isInstance w x c)
  | .and l r, env, k => traceE w l env fun e1 t => if t then traceE w r e1 k else k e1 false
  | .elseIf l r, env, k => traceE w l env fun e1 t => if t then k e1 true else traceE w r e1 k
  | .union l r, env, k =>
    (traceE w l env fun e1 t => if t then k e1 true else traceE w r e1 k) ++ traceE w r env k
  | .not e, env, k => traceE w e env fun e1 t => k e1 (!t)
  | .exists_ _ _, _, _ => [Ev.err .badOperand]
  | .forAll _ _, _, _ => [Ev.err .badOperand]

/-- selected expressions: every one is evaluated to exhaustion from the row's bindings (`itertools.product`
materialises its inputs), then the product is yielded -/
def traceSel (w : World) (env : Env) : List Term → List (List Val) → List Ev
  | [], acc => (product acc.reverse).map Ev.row
  | s :: rest, acc =>
    -- events of evaluating `s` alone (its values are collected by the pure model)
    let evs := traceTerm w false s env fun _ _ _ => []
    let vals := match evalTerm w false s env with
      | .ok rs => rs.map (·.2.1)
      | .error _ => []
    evs ++ traceSel w env rest (vals :: acc)

def traceQuery (w : World) (q : Query) : List Ev :=
  match q.cond with
  | some c => traceE w c [] fun env t => if t then traceSel w env q.sel [] else []
  | none => traceSel w [] q.sel []

/-! ### observations on traces -/

def Ev.isRow : Ev → Bool | .row _ => true | _ => false

def rowsOf (evs : List Ev) : List (List Val) := evs.filterMap fun | .row r => some r | _ => none

/-- the events performed by a consumer that stops right after receiving its `k`-th result
(`k = 0`: nothing has been requested yet) -/
def uptoRow : Nat → List Ev → List Ev
  | 0, _ => []
  | _, [] => []
  | k + 1, e :: rest => if e.isRow then (if k = 0 then [e] else e :: uptoRow k rest) else e :: uptoRow (k + 1) rest

/-- number of elements of `v`'s domain consumed by a prefix of the trace (elements are pulled in order, once:
later passes replay the cache) -/
def pulled (v : VarId) (evs : List Ev) : Nat :=
  evs.foldl (fun m e => match e with | .pull v' i => if v' == v then max m (i + 1) else m | _ => m) 0

def hasErr (evs : List Ev) : Bool := evs.any fun | .err _ => true | _ => false

end KrroodVerif.Eql
