import KrroodVerif.Model.Eql
/-!
M-EQL-IR — a small Python-shaped GENERATOR IR for the evaluation methods of `symbolic.py` and a big-step interpreter.
Core Lean only.

`harness/translate/c01_translate.py` regenerates, from the CURRENT Python AST, the bodies of the `_evaluate__` methods (and
the helpers they call) of `Variable`/`Literal`, `DomainMapping` (+ `_apply_mapping_` of `Attribute`/`Index`/`Call`/`Flatten`),
`Comparator`, `Not`, `AND`, `OR`/`Union`/`ElseIf`, `ForAll`, `Exists`, `QueryObjectDescriptor`, `ResultQuantifier` as terms
of `St`/`PE` below (`Translated.irTable`); `Model/EqlIRTable.lean` holds the table of the code AS IT IS (`irTable`), and the
per-run obligation is `Translated.irTable = irTable` (`decide`).

`runIR irTable` gives the table a meaning: generators are evaluated EAGERLY (a generator is the list of what it yields —
the reading `Eql.eval` has too), `OperationResult`s are `(bindings, is_false)`, bindings are the model's `Env` plus the
values of the current node and of the children evaluated in this activation (`IEnv.own`; the model's tree-shape
assumption: a non-variable node's id is never in the incoming `sources`). What is NOT read from the table but supplied
per node by `runIR` (the static facts of the expression tree, `Node`): which `Key` a node's `_id_` is, `condPos`
(= `isinstance(self._parent_, LogicalOperator) or self is self._conditions_root_ or self._is_condition_of_nested_query_`),
the domain, `condition_unique_variable_ids`, the ids of `right._unique_variables_`, the primitive operation
(`Eql.applyCmp` / `Eql.applyContains`, which already contain `make_set`), attribute / index / element access, the child
evaluators. Interpreted: every class above except `Call` (the model folds `x.m()` into one attribute node),
`QueryObjectDescriptor` and `ResultQuantifier` (in the table — any change breaks the obligation — but `Eql.evalQuery`'s
reading of them is not re-derived here).
-/
namespace KrroodVerif.Eql.IR
open KrroodVerif.Eql

/-- Python expressions (sequences — argument lists, dict items, comprehension clauses — are `nil`/`cons` lists) -/
inductive PE where
  | nm (x : String)
  | self
  | cst (c : String)
  | att (e : PE) (f : String)
  | call (f : PE) (args : PE)
  | kw (k : String) (v : PE)
  | nil
  | cons (h t : PE)
  | un (op : String) (e : PE)
  | bin (op : String) (a b : PE)
  | idx (e i : PE)
  | dict (items : PE)
  | kv (k v : PE)
  | splat (e : PE)
  | lst (items : PE)
  | tup (items : PE)
  | lam (params body : PE)
  | comp (kind : String) (elt gens : PE)
  | dcomp (k v gens : PE)
  | gen (target iter ifs : PE)
  deriving DecidableEq, Repr

/-- Python statements of a generator body -/
inductive St where
  | pass
  | seq (a b : St)
  | expr (e : PE)
  | assign (t e : PE)
  | aug (op : String) (t e : PE)
  | ifte (c : PE) (a b : St)
  | forIn (t it : PE) (body : St)
  | yld (e : PE)
  | yldFrom (e : PE)
  | ret (e : PE)
  | brk
  | cont
  | raise (e : PE)
  deriving DecidableEq, Repr

structure Method where
  cls : String
  name : String
  kind : String
  params : List String
  body : St
  deriving DecidableEq, Repr

/-- `dispatch`: (concrete class, method name, class whose definition the MRO selects) -/
structure Table where
  methods : List Method
  dispatch : List (String × String × String)
  deriving DecidableEq, Repr

def Table.find (t : Table) (cls name : String) : Option Method :=
  match t.dispatch.find? (fun d => d.1 == cls && d.2.1 == name) with
  | some d => t.methods.find? (fun m => m.cls == d.2.2 && m.name == name)
  | none => none

/-! ### values of the interpreter -/

inductive NodeRef where | self | left | right | child
  deriving DecidableEq, Repr

/-- a bindings dictionary: the model's environment + the values bound to node ids that are not keys of the model -/
structure IEnv where
  env : Env
  own : List (NodeRef × Val) := []

structure IRes where
  b : IEnv
  isFalse : Bool

inductive V where
  | none
  | bool (b : Bool)
  | nat (n : Nat)
  | str (s : String)
  | val (x : Val)            -- a Python value / a `HashedValue`
  | env (b : IEnv)
  | res (r : IRes)
  | node (n : NodeRef)       -- an expression object
  | key (n : NodeRef)        -- its `_id_`
  | keys (ks : List Key)
  | list (xs : List V)
  | kwarg (k : String) (v : V)
  | glob (name : String)     -- a class / function of the module
  | operation
  | parent
  | dom (xs : List Val)      -- `self._domain_`: a lazily filled `HashedIterable`, TRUE even when it turns out empty

inductive IErr where
  | err (e : Err)
  | stuck (why : String)
  deriving DecidableEq, Repr

abbrev R := Except IErr

def liftE {α} (x : Except Err α) : R α := match x with | .ok a => .ok a | .error e => .error (.err e)

/-- static facts of the node being evaluated -/
structure Node where
  cls : String
  keyOf : NodeRef → Option Key := fun _ => none
  condPos : Bool := false
  domain : Option (List Val) := none
  instantiable : Bool := false
  instantiate : Env → R (List (Env × Val × Bool)) := fun _ => .error (.stuck "instantiate")
  uniqueIds : List Key := []
  rightNodes : List Key := []
  ev : NodeRef → Env → R (List (Env × Val × Bool)) := fun _ _ => .error (.stuck "no child")
  op : Val → Val → Except Err Bool := fun _ _ => .error .badOperand
  isEqNe : Bool := false
  attrName : String := ""
  indexKey : Nat := 0

structure Frame where
  locals : List (String × V) := []
  isFalse : Bool := false

/-- assignment REPLACES the binding (frames stay canonical: one entry per name, the last assigned first) -/
def Frame.set (fr : Frame) (x : String) (v : V) : Frame :=
  { fr with locals := (x, v) :: fr.locals.filter (fun p => p.1 != x) }

inductive Ctl where | next | brk | cont | ret (v : V)

def truthyV : V → Bool
  | .none => false
  | .bool b => b
  | .nat n => n != 0
  | .val x => truthy x
  | .list xs => !xs.isEmpty
  | .env b => !b.env.isEmpty || !b.own.isEmpty
  | .keys ks => !ks.isEmpty
  | _ => true

def IEnv.merge (a b : IEnv) : IEnv := { env := Eql.merge a.env b.env, own := b.own ++ a.own }

/-- `bindings[n._id_]` -/
def IEnv.get (nd : Node) (b : IEnv) (n : NodeRef) : R Val :=
  match b.own.lookup n with
  | some x => .ok x
  | none => match nd.keyOf n with
    | some k => match b.env.lookup k with
      | some x => .ok x
      | none => .error (.err .keyError)
    | none => .error (.err .keyError)

def IEnv.has (nd : Node) (b : IEnv) (n : NodeRef) : Bool :=
  (b.own.lookup n).isSome || (match nd.keyOf n with | some k => (b.env.lookup k).isSome | none => false)

/-- `{**b, n._id_: x}` -/
def IEnv.bind (nd : Node) (b : IEnv) (n : NodeRef) (x : Val) : IEnv :=
  { env := (match nd.keyOf n with | some k => (k, x) :: b.env | none => b.env), own := (n, x) :: b.own }

/-- what `for x in v` ranges over -/
def iterV (v : V) : R (List V) :=
  match v with
  | .list xs => .ok xs
  | .dom xs => .ok (xs.map V.val)
  | .val x => do let xs ← liftE (elements x); pure (xs.map V.val)
  | .none => .error (.err .typeError)       -- `for sol in None`
  | _ => .error (.stuck "not iterable")

def wrapChild (src : IEnv) (c : NodeRef) (rs : List (Env × Val × Bool)) : V :=
  .list (rs.map fun r => V.res { b := { env := r.1, own := (c, r.2.1) :: src.own }, isFalse := !r.2.2 })

/-- fold over a list with the `_is_false_` flag threaded -/
def loopV (xs : List V) (s : Bool) (f : V → Bool → R (List V × Bool)) : R (List V × Bool) :=
  match xs with
  | [] => .ok ([], s)
  | x :: rest => do
    let (a, s1) ← f x s
    let (b, s2) ← loopV rest s1 f
    pure (a ++ b, s2)

def lookupKw (k : String) : List V → Option V
  | [] => none
  | .kwarg k' v :: rest => if k == k' then some v else lookupKw k rest
  | _ :: rest => lookupKw k rest

def positional : List V → List V
  | [] => []
  | .kwarg _ _ :: rest => positional rest
  | v :: rest => v :: positional rest

/-- calls of `self.<helper>(args)`: (method name, positional arguments, flag) ↦ (value, flag) -/
abbrev CallH := String → List V → Bool → R (V × Bool)

def bindTarget (fr : Frame) (t : PE) (v : V) : R Frame :=
  match t, v with
  | .nm x, v => .ok (fr.set x v)
  | .tup (.cons (.nm x) (.cons (.nm y) .nil)), .list [a, b] => .ok ((fr.set x a).set y b)
  | _, _ => .error (.stuck "target")

mutual
/-- expressions: `(value, new _is_false_)` -/
def evalE (callH : CallH) (nd : Node) (w : World) : PE → Frame → R (V × Bool)
  | .nm x, fr => match fr.locals.lookup x with
    | some v => .ok (v, fr.isFalse)
    | none => .ok (.glob x, fr.isFalse)
  | .self, fr => .ok (.node .self, fr.isFalse)
  | .cst c, fr => .ok ((match c with
      | "None" => V.none | "True" => .bool true | "False" => .bool false
      | _ => match c.toNat? with | some n => .nat n | none => .str c), fr.isFalse)
  | .att e f, fr => do
    let (v, s) ← evalE callH nd w e fr
    match v, f with
    | .node n, "_id_" => pure (.key n, s)
    | .node .self, "left" => pure (.node .left, s)
    | .node .self, "right" => pure (.node .right, s)
    | .node .self, "_child_" => pure (.node .child, s)
    | .node .self, "variable" => pure (.node .left, s)      -- `QuantifiedConditional.variable`: `return self.left`
    | .node .self, "condition" => pure (.node .right, s)    -- `QuantifiedConditional.condition`: `return self.right`
    | .node .self, "_is_false_" => pure (.bool s, s)
    | .node .self, "_parent_" => pure (.parent, s)
    | .node .self, "_conditions_root_" => pure (.none, s)   -- `self is self._conditions_root_`: folded into `condPos`
    | .node .self, "_is_condition_of_nested_query_" => pure (.bool false, s)   -- folded into `condPos`
    | .node .self, "_domain_" => pure ((match nd.domain with | some d => .dom d | none => .none), s)
    | .node .self, "_should_be_instantiated_" => pure (.bool nd.instantiable, s)
    | .node .self, "condition_unique_variable_ids" => pure (.keys nd.uniqueIds, s)
    | .node .self, "_attr_name_" => pure (.str nd.attrName, s)
    | .node .self, "_key_" => pure (.nat nd.indexKey, s)
    | .node .self, "operation" => pure (.operation, s)
    | .node .self, name => pure (.kwarg name (.node .self), s)   -- a bound method `self.name`: see `.call`
    | .node n, "_evaluate__" => pure (.kwarg "_evaluate__" (.node n), s)
    | .res r, "bindings" => pure (.env r.b, s)
    | .res r, "is_false" => pure (.bool r.isFalse, s)
    | .res r, "is_true" => pure (.bool (!r.isFalse), s)      -- `OperationResult.is_true`: `return not self.is_false`
    | .val x, "value" => pure (.val x, s)
    | .val x, "id_" => pure (.val x, s)
    | .glob "operator", "eq" => pure (.glob "operator.eq", s)
    | .glob "operator", "ne" => pure (.glob "operator.ne", s)
    | .list xs, "append" => pure (.kwarg "append" (.list xs), s)
    | _, _ => .error (.stuck ("attribute " ++ f))
  | .call f args, fr =>
    -- idioms whose argument is a comprehension over facts of the expression tree
    match f, args with
    | .nm "any", .cons (.comp _ _ (.cons (.gen _ (.att (.att .self _) "_descendants_") _) .nil)) .nil =>
      pure (.bool false, fr.isFalse)           -- `any(isinstance(desc, The) for desc in ….​_descendants_)`: no `The` in the grammar
    | .nm "any", .cons (.comp _ _ (.cons (.gen _ (.att (.att .self "right") "_unique_variables_") _) .nil)) .nil =>
      match fr.locals.lookup "sources" with
      | some (.env b) => pure (.bool (envHasAny b.env nd.rightNodes), fr.isFalse)
      | _ => .error (.stuck "any: sources")
    | _, _ => do
      let (fv, s0) ← evalE callH nd w f fr
      let (av, s1) ← evalE callH nd w args { fr with isFalse := s0 }
      let as ← (match av with | .list xs => pure xs | _ => .error (.stuck "args") : R (List V))
      let pos := positional as
      match fv, pos with
      | .glob "OperationResult", [.env b, fl, _] => pure (.res { b := b, isFalse := truthyV fl }, s1)
      | .glob "HashedValue", [.val x] => pure (.val x, s1)
      | .glob "HashedValue", [.bool b] => pure (.val (.bool b), s1)
      | .glob "HashedValue", [] => match lookupKw "value" as with
        | some (.val x) => pure (.val x, s1)
        | _ => .error (.stuck "HashedValue")
      | .glob "bool", [v] => pure (.bool (truthyV v), s1)
      | .glob "isinstance", [.parent, .glob _] => pure (.bool nd.condPos, s1)
      | .glob "is_iterable", [.val x] =>
        pure (.bool (match x with | .list _ | .objs _ | .set _ => true | _ => false), s1)
      | .glob "make_set", [.val x] => pure (.val x, s1)     -- `Eql.applyCmp` compares two iterables as sets
      | .glob "getattr", [.val x, .str n] => do let y ← liftE (getAttr w x n); pure (.val y, s1)
      | .operation, [.val a, .val b] => do let r ← liftE (nd.op a b); pure (.bool r, s1)
      | .kwarg "_evaluate__" (.node c), [.env b] => do
        let rs ← nd.ev c b.env
        pure (wrapChild b c rs, s1)
      | .kwarg "_instantiate_using_child_vars_and_yield_results_" (.node .self), [.env b] => do
        let rs ← nd.instantiate b.env
        pure (.list (rs.map fun r => V.res { b := { env := r.1, own := (.self, r.2.1) :: b.own }, isFalse := !r.2.2 }), s1)
      | .kwarg name (.node .self), _ => callH name pos s1
      | _, _ => .error (.stuck "call")
  | .kw k v, fr => do
    let (x, s) ← evalE callH nd w v fr
    pure (.kwarg k x, s)
  | .nil, fr => .ok (.list [], fr.isFalse)
  | .cons h t, fr => do
    let (x, s) ← evalE callH nd w h fr
    let (r, s') ← evalE callH nd w t { fr with isFalse := s }
    match r with
    | .list xs => pure (.list (x :: xs), s')
    | _ => .error (.stuck "cons")
  | .un _ e, fr => do
    let (x, s) ← evalE callH nd w e fr
    pure (.bool (!truthyV x), s)
  | .bin op a b, fr => do
    let (x, s) ← evalE callH nd w a fr
    match op with
    | "and" => if truthyV x then evalE callH nd w b { fr with isFalse := s } else pure (x, s)
    | "or" => if truthyV x then pure (x, s) else evalE callH nd w b { fr with isFalse := s }
    | _ => do
      let (y, s') ← evalE callH nd w b { fr with isFalse := s }
      match op, x, y with
      | "in", .key n, .env e => pure (.bool (e.has nd n), s')
      | "in", .operation, .list _ => pure (.bool nd.isEqNe, s')
      | "notin", .val v, .list seen =>
        pure (.bool (!valIn w v (seen.filterMap fun | .val z => some z | _ => Option.none)), s')
      | "is", v, .none => pure (.bool (match v with | .none => true | _ => false), s')
      | _, _, _ => .error (.stuck ("operator " ++ op))
  | .idx e i, fr => do
    let (x, s) ← evalE callH nd w e fr
    let (k, s') ← evalE callH nd w i { fr with isFalse := s }
    match x, k with
    | .env b, .key n => do let y ← b.get nd n; pure (.val y, s')
    | .res r, .key n => do let y ← r.b.get nd n; pure (.val y, s')
    | .val v, .nat j => do let y ← liftE (getIndex v j); pure (.val y, s')
    | _, _ => .error (.stuck "subscript")
  | .dict items, fr => do
    let (xs, s) ← evalE callH nd w items fr
    match xs with
    | .list its =>
      let r : R IEnv := its.foldlM (fun (acc : IEnv) it => match it with
        | .kwarg "**" (.env b) => pure (acc.merge b)
        | .kwarg "kv" (.list [.key n, .val x]) => pure (acc.bind nd n x)
        | _ => .error (.stuck "dict item")) { env := [] }
      do let b ← r; pure (.env b, s)
    | _ => .error (.stuck "dict")
  | .kv k v, fr => do
    let (a, s) ← evalE callH nd w k fr
    let (b, s') ← evalE callH nd w v { fr with isFalse := s }
    pure (.kwarg "kv" (.list [a, b]), s')
  | .splat e, fr => do
    let (x, s) ← evalE callH nd w e fr
    pure (.kwarg "**" x, s)
  | .lst items, fr => evalE callH nd w items fr
  | .tup items, fr => evalE callH nd w items fr
  | .lam _ _, _ => .error (.stuck "lambda")
  | .comp _ elt gens, fr => do
    let (xs, s) ← evalGens callH nd w (fun fr' => evalE callH nd w elt fr') gens fr
    pure (.list xs, s)
  | .dcomp _ _ gens, fr =>
    -- `{k: v for k, v in B.items() if k in IDS}`
    match gens with
    | .cons (.gen _ (.call (.att b "items") .nil) (.cons (.bin "in" _ ids) .nil)) .nil => do
      let (bv, s) ← evalE callH nd w b fr
      let (iv, s') ← evalE callH nd w ids { fr with isFalse := s }
      match bv, iv with
      | .env e, .keys ks => pure (.env { env := restrict e.env ks }, s')
      | _, _ => .error (.stuck "dict comprehension")
    | _ => .error (.stuck "dict comprehension shape")
  | .gen _ _ _, _ => .error (.stuck "gen")

/-- the `for … in … if …` clauses of a comprehension; `elt` evaluates the element in the extended frame -/
def evalGens (callH : CallH) (nd : Node) (w : World) (elt : Frame → R (V × Bool)) : PE → Frame → R (List V × Bool)
  | .nil, fr => do let (x, s) ← elt fr; pure ([x], s)
  | .cons (.gen t it ifs) rest, fr => do
    let (itv, s) ← evalE callH nd w it fr
    let items ← iterV itv
    loopV items s fun x s1 => do
      let fr1 ← bindTarget { fr with isFalse := s1 } t x
      let (cs, s2) ← evalE callH nd w ifs fr1
      match cs with
      | .list conds =>
        if conds.all truthyV then evalGens callH nd w elt rest { fr1 with isFalse := s2 } else pure ([], s2)
      | _ => .error (.stuck "ifs")
  | _, _ => .error (.stuck "comprehension")
end

structure Out where
  fr : Frame
  ys : List V
  ctl : Ctl

/-- the body of a `for`: one pass per element, `break` / `continue` / `return` -/
def loopSt (xs : List V) (fr : Frame) (body : V → Frame → R Out) : R Out :=
  match xs with
  | [] => .ok { fr := fr, ys := [], ctl := .next }
  | x :: rest => do
    let o ← body x fr
    match o.ctl with
    | .brk => pure { o with ctl := .next }
    | .ret v => pure { o with ctl := .ret v }
    | _ => do
      let o2 ← loopSt rest o.fr body
      pure { o2 with ys := o.ys ++ o2.ys }

def exec (callH : CallH) (nd : Node) (w : World) : St → Frame → R Out
  | .pass, fr => .ok { fr := fr, ys := [], ctl := .next }
  | .seq a b, fr => do
    let o ← exec callH nd w a fr
    match o.ctl with
    | .next => do
      let o2 ← exec callH nd w b o.fr
      pure { o2 with ys := o.ys ++ o2.ys }
    | _ => pure o
  | .expr e, fr =>
    match e with
    | .call (.att (.nm x) "append") (.cons a .nil) => do
      let (v, s) ← evalE callH nd w a fr
      match fr.locals.lookup x with
      | some (.list xs) => pure { fr := { (fr.set x (.list (xs ++ [v]))) with isFalse := s }, ys := [], ctl := .next }
      | _ => .error (.stuck "append")
    | _ => do
      let (_, s) ← evalE callH nd w e fr
      pure { fr := { fr with isFalse := s }, ys := [], ctl := .next }
  | .assign t e, fr => do
    let (v, s) ← evalE callH nd w e fr
    let fr1 := { fr with isFalse := s }
    match t with
    | .att .self "_is_false_" => pure { fr := { fr1 with isFalse := truthyV v }, ys := [], ctl := .next }
    | .att .self _ => pure { fr := fr1, ys := [], ctl := .next }     -- `_eval_parent_`, `left_evaluated`, …: not read here
    | .idx (.nm _) (.att .self "_id_") => pure { fr := fr1, ys := [], ctl := .next }   -- `operand_values[self._id_] = …`
    | _ => do
      let fr2 ← bindTarget fr1 t v
      pure { fr := fr2, ys := [], ctl := .next }
  | .aug _ _ _, _ => .error (.stuck "augmented assignment")
  | .ifte c a b, fr => do
    let (v, s) ← evalE callH nd w c fr
    if truthyV v then exec callH nd w a { fr with isFalse := s } else exec callH nd w b { fr with isFalse := s }
  | .forIn t it body, fr => do
    let (itv, s) ← evalE callH nd w it fr
    let items ← iterV itv
    loopSt items { fr with isFalse := s } fun x fr1 => do
      let fr2 ← bindTarget fr1 t x
      exec callH nd w body fr2
  | .yld e, fr => do
    let (v, s) ← evalE callH nd w e fr
    pure { fr := { fr with isFalse := s }, ys := [v], ctl := .next }
  | .yldFrom e, fr => do
    let (v, s) ← evalE callH nd w e fr
    let xs ← iterV v
    pure { fr := { fr with isFalse := s }, ys := xs, ctl := .next }
  | .ret e, fr => do
    let (v, s) ← evalE callH nd w e fr
    pure { fr := { fr with isFalse := s }, ys := [], ctl := .ret v }
  | .brk, fr => .ok { fr := fr, ys := [], ctl := .brk }
  | .cont, fr => .ok { fr := fr, ys := [], ctl := .cont }
  | .raise _, _ => .error (.stuck "raise")

def bindParams : List String → List V → List (String × V)
  | [], _ => []
  | p :: ps, a :: as => (p, a) :: bindParams ps as
  | p :: ps, [] => (p, V.none) :: bindParams ps []

/-- call method `name` of the node's class with the helper calls inside it answered by `lower` -/
def callWith (tbl : Table) (nd : Node) (w : World) (lower : CallH) : CallH := fun name args s =>
  match tbl.find nd.cls name with
  | none => .error (.stuck ("no method " ++ name))
  | some m => do
    let o ← exec lower nd w m.body { locals := bindParams m.params args, isFalse := s }
    match o.ctl with
    | .ret .none => pure (.list o.ys, o.fr.isFalse)
    | .ret v => pure (v, o.fr.isFalse)
    | _ => pure (.list o.ys, o.fr.isFalse)

def call0 : CallH := fun name _ _ => .error (.stuck ("call depth: " ++ name))

/-- helper calls nest at most three deep (`Union._evaluate__` → `evaluate_left` → `evaluate_right`) -/
def callTop (tbl : Table) (nd : Node) (w : World) : CallH :=
  callWith tbl nd w (callWith tbl nd w (callWith tbl nd w (callWith tbl nd w call0)))

/-- `self._evaluate__(env)` as the model sees it: `(bindings, value of the node, is_true)` -/
def runNode (tbl : Table) (nd : Node) (w : World) (env : Env) : R (List (Env × Val × Bool)) := do
  let (v, _) ← callTop tbl nd w "_evaluate__" [.env { env := env }, .none] false
  let xs ← iterV v
  xs.mapM fun x => match x with
    | .res r =>
      let value := match r.b.own.lookup .self with
        | some y => y
        | none => match nd.keyOf .self with
          | some k => (r.b.env.lookup k).getD .none
          | none => .none
      pure (r.b.env, value, !r.isFalse)
    | _ => .error (.stuck "yielded a non-result")

def keyOfTerm : Term → Option Key
  | .var v => some (.var v)
  | .lit id _ => some (.lit id)
  | _ => none

def runIRTerm (tbl : Table) (w : World) (condPos : Bool) : Term → Env → R (List (Env × Val × Bool))
  | .var v, env =>
    runNode tbl { cls := "Variable", keyOf := fun | .self => some (.var v) | _ => none, condPos := condPos,
                  domain := some (w.dom v) } w env
  | .lit id x, env =>
    runNode tbl { cls := "Literal", keyOf := fun | .self => some (.lit id) | _ => none, condPos := condPos,
                  domain := some [x] } w env
  | .attr t n, env =>
    runNode tbl { cls := "Attribute", condPos := condPos, attrName := n,
                  keyOf := fun | .child => keyOfTerm t | _ => none,
                  ev := fun | .child, e => runIRTerm tbl w false t e | _, _ => .error (.stuck "child") } w env
  | .index t i, env =>
    runNode tbl { cls := "Index", condPos := condPos, indexKey := i,
                  keyOf := fun | .child => keyOfTerm t | _ => none,
                  ev := fun | .child, e => runIRTerm tbl w false t e | _, _ => .error (.stuck "child") } w env
  | .flatten t, env =>
    runNode tbl { cls := "Flatten", condPos := condPos,
                  keyOf := fun | .child => keyOfTerm t | _ => none,
                  ev := fun | .child, e => runIRTerm tbl w false t e | _, _ => .error (.stuck "child") } w env

def dropVal (rs : List (Env × Val × Bool)) : List (Env × Bool) := rs.map fun r => (r.1, r.2.2)
def addVal (rs : List (Env × Bool)) : List (Env × Val × Bool) := rs.map fun r => (r.1, Val.none, r.2)

def cmpNode (tbl : Table) (w : World) (l r : Term) (op : Val → Val → Except Err Bool) (isEqNe : Bool) : Node :=
  { cls := "Comparator", op := op, isEqNe := isEqNe, rightNodes := r.nodes,
    keyOf := fun | .left => keyOfTerm l | .right => keyOfTerm r | _ => none,
    ev := fun | .left, e => runIRTerm tbl w false l e | .right, e => runIRTerm tbl w false r e
              | _, _ => .error (.stuck "child") }

/-- the interpreter of the table on the model's expressions: what `Eql.eval` transcribes by hand -/
def runIR (tbl : Table) (w : World) : Expr → Env → R (List (Env × Bool))
  | .cmp op l r, env => do
    let rs ← runNode tbl (cmpNode tbl w l r (applyCmp w op) (op == .eq || op == .ne)) w env
    pure (dropVal rs)
  | .contains c i, env => do
    let rs ← runNode tbl (cmpNode tbl w c i (applyContains w) false) w env
    pure (dropVal rs)
  | .truth t, env => do
    let rs ← runIRTerm tbl w true t env
    pure (dropVal rs)
  | .hasType t c, env => do
    -- the predicate `HasType(t, c)` is a `Variable` without a domain that is instantiated from its child variables
    -- (`_instantiate_using_child_vars_and_yield_results_`: NOT translated, supplied here as the model reads it)
    let nd : Node := { cls := "Variable", domain := none, instantiable := true,
                       instantiate := fun e => do
                         let rs ← runIRTerm tbl w false t e
                         pure (rs.map fun r => (r.1, Val.none, isInstance w r.2.1 c)) }
    let rs ← runNode tbl nd w env
    pure (dropVal rs)
  | .and l r, env => do
    let nd : Node := { cls := "AND",
                                        ev := fun | .left, e => do pure (addVal (← runIR tbl w l e)) | .right, e => do pure (addVal (← runIR tbl w r e))
                                                  | _, _ => .error (.stuck "child") }
    let rs ← runNode tbl nd w env
    pure (dropVal rs)
  | .elseIf l r, env => do
    let nd : Node := { cls := "ElseIf",
                                        ev := fun | .left, e => do pure (addVal (← runIR tbl w l e)) | .right, e => do pure (addVal (← runIR tbl w r e))
                                                  | _, _ => .error (.stuck "child") }
    let rs ← runNode tbl nd w env
    pure (dropVal rs)
  | .union l r, env => do
    let nd : Node := { cls := "Union",
                                        ev := fun | .left, e => do pure (addVal (← runIR tbl w l e)) | .right, e => do pure (addVal (← runIR tbl w r e))
                                                  | _, _ => .error (.stuck "child") }
    let rs ← runNode tbl nd w env
    pure (dropVal rs)
  | .not e, env => do
    let nd : Node := { cls := "Not",
                                        ev := fun | .child, e' => do pure (addVal (← runIR tbl w e e')) | _, _ => .error (.stuck "child") }
    let rs ← runNode tbl nd w env
    pure (dropVal rs)
  | .exists_ q c, env => do
    let nd : Node := { cls := "Exists", keyOf := fun | .left => some (.var q) | _ => none,
                                        ev := fun | .left, e => pure (evalVar w q e) | .right, e => do pure (addVal (← runIR tbl w c e))
                                                  | _, _ => .error (.stuck "child") }
    let rs ← runNode tbl nd w env
    pure (dropVal rs)
  | .forAll q c, env => do
    let nd : Node := { cls := "ForAll", keyOf := fun | .left => some (.var q) | _ => none,
                                        uniqueIds := c.nodes.filter (· != .var q),
                                        ev := fun | .left, e => pure (evalVar w q e) | .right, e => do pure (addVal (← runIR tbl w c e))
                                                  | _, _ => .error (.stuck "child") }
    let rs ← runNode tbl nd w env
    pure (dropVal rs)

end KrroodVerif.Eql.IR
