import KrroodVerif.Model.EqlTrace
/-!
M-EQL trace, root-level quantifiers — `an(entity(sel, exists(u, c)))` and `an(entity(sel, for_all(u, c)))` with a
quantifier-free `c`, as event lists built ON TOP of the frozen quantifier-free trace `traceE` (which is not modified).

Python → model
* `Exists._evaluate__` streams the results of its condition and hands a result on the moment the condition holds for a
  value of the quantified variable not seen before (`seen_var_values`, a list compared with `==`); nothing is collected
  first. `childTrace` is the condition's event stream with an empty `row` marker at every true result; `existsWalk`
  walks it with the list of true result cells of the list model (`childTrue`, same order by `C10_trace_vis`) and
  replaces a marker by the selection events of a NEW witness, or by nothing.
* `ForAll._evaluate__` pulls the values of the universal variable one at a time: under the first it evaluates the whole
  condition stream (`get_all_candidate_solutions`), under every later one it re-checks the surviving candidates with
  all variables bound (`evaluate_condition`: no new domain element is needed), and it STOPS pulling as soon as no
  candidate is left (`if not solution_set: break`). Everything happens before the first result is handed out.
Core Lean only.
-/
namespace KrroodVerif.Eql

/-- the condition's event stream from `env`, with an (empty) `row` marker at every TRUE result -/
def childTrace (w : World) (c : Expr) (env : Env) : List Ev :=
  traceE w c env fun _ t => if t then [Ev.row []] else []

/-- the bindings of the condition's true results, in order (list model) -/
def childTrue (w : World) (c : Expr) (env : Env) : List Env :=
  match eval w c env with
  | .ok rs => (rs.filter (·.2)).map (·.1)
  | .error _ => []

/-- `Exists._evaluate__` + the selection of the enclosing query, over the marked stream -/
def existsWalk (w : World) (sel : List Term) (u : VarId) : List Ev → List Env → List Val → List Ev
  | [], _, _ => []
  | .row _ :: evs, env :: envs, seen =>
    match env.lookup (.var u) with
    | some x =>
      if valIn w x seen then existsWalk w sel u evs envs seen
      else traceSel w env sel [] ++ existsWalk w sel u evs envs (seen ++ [x])
    | none => [Ev.err .keyError]
  | .row _ :: _, [], _ => []
  | e :: evs, envs, seen => e :: existsWalk w sel u evs envs seen

def traceExistsRoot (w : World) (sel : List Term) (u : VarId) (c : Expr) : List Ev :=
  existsWalk w sel u (childTrace w c []) (childTrue w c []) []

/-- the later values of the universal variable: one pull each while candidates survive -/
def forAllLoop (w : World) (u : VarId) (c : Expr) : List (Nat × Val) → List Env → List Ev × List Env
  | [], sols => ([], sols)
  | (i, v) :: rest, sols =>
    if sols.isEmpty then ([], [])
    else
      let sols' := sols.filter fun sol =>
        match eval w c (merge sol [(.var u, v)]) with
        | .ok (r :: _) => r.2
        | _ => false
      let r := forAllLoop w u c rest sols'
      (Ev.pull u i :: r.1, r.2)

def traceForAllRoot (w : World) (sel : List Term) (u : VarId) (c : Expr) : List Ev :=
  match enumFrom 0 (w.dom u) with
  | [] => [Ev.err .typeError]
  | (_, v1) :: rest =>
    let env1 : Env := [(.var u, v1)]
    let first := traceE w c env1 fun _ _ => []
    let others := c.nodes.filter (· != .var u)
    let cands := (childTrue w c env1).map (restrict · others)
    let r := forAllLoop w u c rest cands
    Ev.pull u 0 :: first ++ r.1 ++ r.2.flatMap fun sol => traceSel w sol sel []

/-- a query whose condition is a root-level quantifier over a quantifier-free body, or any quantifier-free query -/
def traceQueryQ (w : World) (q : Query) : List Ev :=
  match q.cond with
  | some (.exists_ u c) => traceExistsRoot w q.sel u c
  | some (.forAll u c) => traceForAllRoot w q.sel u c
  | _ => traceQuery w q

end KrroodVerif.Eql
