/-!
S-expressions: the line protocol between the Python harness and the Lean driver.
Core Lean only (the driver is linked as a native executable).

Grammar: atom = run of non-space, non-paren characters, or a double-quoted string with `\"`/`\\` escapes;
list = `(` items `)`.
-/
namespace KrroodVerif

inductive Sexp where
  | atom (s : String)
  | list (xs : List Sexp)
  deriving Repr, Inhabited, BEq

namespace Sexp

private def isDelim (c : Char) : Bool := c == '(' || c == ')' || c == ' ' || c == '\t' || c == '\n' || c == '\r'

/-- tokens: "(" , ")" , or atom text (strings keep a leading `"` marker removed; atoms are raw) -/
private inductive Tok | lp | rp | at (s : String)

private partial def lexAux (cs : List Char) (acc : Array Tok) : Option (Array Tok) :=
  match cs with
  | [] => some acc
  | c :: rest =>
    if c == '(' then lexAux rest (acc.push .lp)
    else if c == ')' then lexAux rest (acc.push .rp)
    else if c == ' ' || c == '\t' || c == '\n' || c == '\r' then lexAux rest acc
    else if c == '"' then
      let rec str (cs : List Char) (buf : String) : Option (String × List Char) :=
        match cs with
        | [] => none
        | '\\' :: d :: r => str r (buf.push (if d == 'n' then '\n' else d))
        | '"' :: r => some (buf, r)
        | d :: r => str r (buf.push d)
      match str rest "" with
      | none => none
      | some (s, r) => lexAux r (acc.push (.at s))
    else
      let word := (c :: rest).takeWhile (fun d => !isDelim d)
      lexAux ((c :: rest).dropWhile (fun d => !isDelim d)) (acc.push (.at (String.ofList word)))

private partial def parseAux (toks : List Tok) : Option (Sexp × List Tok) :=
  match toks with
  | [] => none
  | .at s :: r => some (.atom s, r)
  | .rp :: _ => none
  | .lp :: r =>
    let rec items (toks : List Tok) (acc : Array Sexp) : Option (Sexp × List Tok) :=
      match toks with
      | [] => none
      | .rp :: r => some (.list acc.toList, r)
      | _ => match parseAux toks with
        | none => none
        | some (x, r) => items r (acc.push x)
    items r #[]

def parse (s : String) : Option Sexp :=
  match lexAux s.toList #[] with
  | none => none
  | some toks => match parseAux toks.toList with
    | some (x, []) => some x
    | _ => none

partial def toString : Sexp → String
  | .atom s => s
  | .list xs => "(" ++ " ".intercalate (xs.map toString) ++ ")"

instance : ToString Sexp := ⟨toString⟩

def asAtom? : Sexp → Option String | .atom s => some s | _ => none
def asList? : Sexp → Option (List Sexp) | .list xs => some xs | _ => none
def asNat? (s : Sexp) : Option Nat := s.asAtom?.bind String.toNat?
def asInt? (s : Sexp) : Option Int := s.asAtom?.bind String.toInt?
def asBool? (s : Sexp) : Option Bool :=
  match s with | .atom "true" => some true | .atom "false" => some false | .atom "T" => some true | .atom "F" => some false | _ => none

/-- `(tag a b c)` → `some (tag, [a,b,c])` -/
def tagged? : Sexp → Option (String × List Sexp)
  | .list (.atom t :: r) => some (t, r)
  | _ => none

/-- find `(key …)` among items -/
def field? (items : List Sexp) (key : String) : Option (List Sexp) :=
  items.findSome? fun x => match x with
    | .list (.atom t :: r) => if t == key then some r else none
    | _ => none

def fields (items : List Sexp) (key : String) : List (List Sexp) :=
  items.filterMap fun x => match x with
    | .list (.atom t :: r) => if t == key then some r else none
    | _ => none

end Sexp

/-- Small canonical printers used by the driver. -/
def showList (xs : List String) : String := "[" ++ ",".intercalate xs ++ "]"

/-- insertion sort on strings, for canonical output of order-free observations -/
def sortStrings (xs : List String) : List String :=
  xs.foldl (fun acc x =>
    let (a, b) := acc.span (fun y => y < x || y == x)
    a ++ [x] ++ b) []

def dedupStrings (xs : List String) : List String :=
  xs.foldl (fun acc x => if acc.contains x then acc else acc ++ [x]) []

end KrroodVerif
