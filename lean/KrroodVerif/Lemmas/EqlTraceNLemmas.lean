import KrroodVerif.Model.EqlTraceN
import KrroodVerif.Lemmas.EqlTraceQLemmas
/-!
Helper lemmas for C10N (laziness of quantifiers in arbitrary position, `Model/EqlTraceN.lean`): the encoding of results
as events, unfolding of `existsWalkN`, the walk against `existsFilter`, `recheck` / `forAllLoopN` against the
`filterM` / `foldlM` of the list model, `traceN_vis` (the trace hands its continuation exactly the list model's cells).
Core Lean only.
-/
namespace KrroodVerif.Eql

/-! ### results as events -/

theorem decEnv_encEnv (e : Env) : decEnv (encEnv e) = e := by
  induction e with
  | nil => rfl
  | cons p r ih =>
    obtain ⟨k, x⟩ := p
    cases k <;> simp [encEnv, encKey, decEnv, ih]

@[simp] theorem decCell_encCell (e : Env) (t : Bool) : decCell (encCell e t) = (e, t) := by
  simp [decCell, encCell, decEnv_encEnv]

/-- a result as an event -/
def cellRow (p : Env × Bool) : Ev := Ev.row (encCell p.1 p.2)

theorem cell_eq (e : Env) (t : Bool) : cell e t = [cellRow (e, t)] := rfl

@[simp] theorem vis_cell (e : Env) (t : Bool) : vis (cell e t) = [cellRow (e, t)] := rfl

theorem flatMap_vis_cell (rs : List (Env × Bool)) :
    (rs.flatMap fun p => vis (cell p.1 p.2)) = rs.map cellRow := by
  induction rs with
  | nil => rfl
  | cons p rs ih => rw [List.flatMap_cons, List.map_cons, ih]; rfl

@[simp] theorem dropRows_nil : dropRows [] = [] := rfl
@[simp] theorem dropRows_append (a b : List Ev) : dropRows (a ++ b) = dropRows a ++ dropRows b := by
  simp [dropRows]
@[simp] theorem dropRows_cons_pull (v i) (evs : List Ev) : dropRows (Ev.pull v i :: evs) = Ev.pull v i :: dropRows evs := rfl
@[simp] theorem dropRows_cons_read (o n) (evs : List Ev) : dropRows (Ev.read o n :: evs) = Ev.read o n :: dropRows evs := rfl
@[simp] theorem dropRows_cons_err (e) (evs : List Ev) : dropRows (Ev.err e :: evs) = Ev.err e :: dropRows evs := rfl
@[simp] theorem dropRows_cons_row (r) (evs : List Ev) : dropRows (Ev.row r :: evs) = dropRows evs := rfl

theorem dropRows_eq_nonRow (evs : List Ev) : dropRows evs = nonRow evs := rfl

/-- a stream whose consumer-visible events are exactly the results `rs`: its results decode to `rs` -/
theorem cellsOf_of_vis (evs : List Ev) (rs : List (Env × Bool)) (h : vis evs = rs.map cellRow) :
    cellsOf evs = rs := by
  induction evs generalizing rs with
  | nil => cases rs with
    | nil => rfl
    | cons p rs => simp at h
  | cons e evs ih =>
    cases e with
    | pull v i => exact ih rs (by simpa using h)
    | read o n => exact ih rs (by simpa using h)
    | err e => cases rs <;> simp [cellRow] at h
    | row r =>
      cases rs with
      | nil => simp at h
      | cons p rs =>
        simp only [vis_cons_row, List.map_cons, List.cons.injEq, cellRow, Ev.row.injEq] at h
        have := ih rs h.2
        simp only [cellsOf, rowsOf_cons_row, List.map_cons] at this ⊢
        rw [this, h.1, decCell_encCell]

theorem vis_dropRows_of_vis (evs : List Ev) (rs : List (Env × Bool)) (h : vis evs = rs.map cellRow) :
    vis (dropRows evs) = [] := by
  induction evs generalizing rs with
  | nil => rfl
  | cons e evs ih =>
    cases e with
    | pull v i => simpa using ih rs (by simpa using h)
    | read o n => simpa using ih rs (by simpa using h)
    | err e => cases rs <;> simp [cellRow] at h
    | row r =>
      cases rs with
      | nil => simp at h
      | cons p rs =>
        simp only [vis_cons_row, List.map_cons, List.cons.injEq] at h
        simpa using ih rs h.2

/-- taking ONE result of such a stream: the first cell, and no exception before it -/
theorem uptoCell_of_vis (evs : List Ev) (rs : List (Env × Bool)) (h : vis evs = rs.map cellRow) :
    (uptoCell evs).2 = rs.head? ∧ vis (uptoCell evs).1 = [] := by
  induction evs generalizing rs with
  | nil => cases rs with
    | nil => exact ⟨rfl, rfl⟩
    | cons p rs => simp at h
  | cons e evs ih =>
    cases e with
    | pull v i => simpa [uptoCell] using ih rs (by simpa using h)
    | read o n => simpa [uptoCell] using ih rs (by simpa using h)
    | err e => cases rs <;> simp [cellRow] at h
    | row r =>
      cases rs with
      | nil => simp at h
      | cons p rs =>
        simp only [vis_cons_row, List.map_cons, List.cons.injEq, cellRow, Ev.row.injEq] at h
        simp [uptoCell, h.1]

/-! ### unfolding `existsWalkN` -/

@[simp] theorem existsWalkN_nil (w : World) (u : VarId) (k : Env → Bool → List Ev) (seen : List Val) :
    existsWalkN w u k [] seen = [] := rfl
@[simp] theorem existsWalkN_pull (w : World) (u : VarId) (k : Env → Bool → List Ev) (v i) (evs : List Ev)
    (seen : List Val) : existsWalkN w u k (Ev.pull v i :: evs) seen = Ev.pull v i :: existsWalkN w u k evs seen := rfl
@[simp] theorem existsWalkN_read (w : World) (u : VarId) (k : Env → Bool → List Ev) (o n) (evs : List Ev)
    (seen : List Val) : existsWalkN w u k (Ev.read o n :: evs) seen = Ev.read o n :: existsWalkN w u k evs seen := rfl
@[simp] theorem existsWalkN_err (w : World) (u : VarId) (k : Env → Bool → List Ev) (e) (evs : List Ev)
    (seen : List Val) : existsWalkN w u k (Ev.err e :: evs) seen = Ev.err e :: existsWalkN w u k evs seen := rfl
theorem existsWalkN_row (w : World) (u : VarId) (k : Env → Bool → List Ev) (r) (evs : List Ev) (seen : List Val) :
    existsWalkN w u k (Ev.row r :: evs) seen =
      (match (decCell r).1.lookup (.var u) with
      | none => Ev.err .keyError :: existsWalkN w u k evs seen
      | some x =>
        if (decCell r).2 && !valIn w x seen then k (decCell r).1 true ++ existsWalkN w u k evs (seen ++ [x])
        else existsWalkN w u k evs seen) := rfl

/-- **the walk against the list model's `existsFilter`**: over a stream whose visible events are the cells `rs0`, the
walk hands its continuation exactly the cells `existsFilter` keeps (and raises nothing) -/
theorem existsWalkN_vis (w : World) (u : VarId) (k : Env → Bool → List Ev) (evs : List Ev)
    (rs0 : List (Env × Bool)) (seen : List Val) (rs : List (Env × Bool))
    (hv : vis evs = rs0.map cellRow) (h : existsFilter w u rs0 seen = .ok rs) :
    vis (existsWalkN w u k evs seen) = rs.flatMap fun p => vis (k p.1 p.2) := by
  induction evs generalizing rs0 seen rs with
  | nil =>
    cases rs0 with
    | nil => cases h; rfl
    | cons p rs0 => simp at hv
  | cons e evs ih =>
    cases e with
    | pull v i => simpa using ih rs0 seen rs (by simpa using hv) h
    | read o n => simpa using ih rs0 seen rs (by simpa using hv) h
    | err e => cases rs0 <;> simp [cellRow] at hv
    | row r =>
      cases rs0 with
      | nil => simp at hv
      | cons p rs0 =>
        obtain ⟨env1, t⟩ := p
        simp only [vis_cons_row, List.map_cons, List.cons.injEq, cellRow, Ev.row.injEq] at hv
        obtain ⟨hr, hv⟩ := hv
        rw [existsWalkN_row, hr, decCell_encCell]
        unfold existsFilter at h
        cases hl : env1.lookup (.var u) with
        | none => simp [hl] at h
        | some x =>
          simp only [hl] at h ⊢
          split at h
          · rename_i hc
            simp only [bind_eq_ok, pure_eq_ok] at h
            obtain ⟨r', hr', rfl⟩ := h
            simp only [hc, if_true, vis_append, List.flatMap_cons]
            rw [ih rs0 _ r' hv hr']
          · rename_i hc
            simp only [hc]
            exact ih rs0 seen rs hv h

/-! ### `ForAll`: `recheck` / `forAllLoopN` against the list model's `filterM` / `foldlM` -/

/-- what the lemmas below assume about the child's stream: wherever the list model evaluates the child, the stream's
consumer-visible events are exactly its cells (this is `traceN_vis` for the child — the induction hypothesis) -/
def StreamOk (w : World) (c : Expr) (stream : Env → List Ev) : Prop :=
  ∀ env' rs, eval w c env' = .ok rs → vis (stream env') = rs.map cellRow

theorem recheck_spec (w : World) (c : Expr) (stream : Env → List Ev) (hs : StreamOk w c stream)
    (qv : Env × Val × Bool) (sols sols' : List Env) (h : forAllStep w c sols qv = .ok sols') :
    (recheck stream qv.1 sols).2 = sols' ∧ vis (recheck stream qv.1 sols).1 = [] := by
  obtain ⟨g, hg, rfl⟩ := filterM_ok h
  clear h
  induction sols with
  | nil => exact ⟨rfl, rfl⟩
  | cons sol rest ih =>
    have h1 := hg sol (List.mem_cons_self ..)
    simp only [bind_eq_ok, pure_eq_ok] at h1
    obtain ⟨rs, hrs, hm⟩ := h1
    obtain ⟨hu2, hu1⟩ := uptoCell_of_vis _ rs (hs _ rs hrs)
    obtain ⟨ih2, ih1⟩ := ih fun x hx => hg x (List.mem_cons_of_mem _ hx)
    have hkeep : firstTrue (uptoCell (stream (merge sol qv.1))).2 = g sol := by
      rw [hu2, ← hm]; cases rs <;> rfl
    simp only [recheck, hkeep, vis_append, hu1, ih1, List.append_nil, List.filter_cons]
    refine ⟨?_, trivial⟩
    cases g sol <;> simp [ih2]

theorem forAllLoopN_nil_sols (stream : Env → List Ev) (qs : List (List Ev × Env)) :
    forAllLoopN stream qs [] = ([], []) := by
  cases qs with
  | nil => rfl
  | cons q qs => obtain ⟨pre, envq⟩ := q; rfl

theorem forAllLoopN_spec (w : World) (c : Expr) (stream : Env → List Ev) (hs : StreamOk w c stream)
    (qs : List (List Ev × Env)) (hpre : ∀ q ∈ qs, vis q.1 = []) (qvs : List (Env × Val × Bool))
    (hq : qvs.map (·.1) = qs.map (·.2)) (sols final : List Env)
    (h : qvs.foldlM (forAllStep w c) sols = .ok final) :
    (forAllLoopN stream qs sols).2 = final ∧ vis (forAllLoopN stream qs sols).1 = [] := by
  induction qs generalizing qvs sols with
  | nil =>
    cases qvs with
    | nil => simp only [List.foldlM_nil, pure_eq_ok] at h; subst h; exact ⟨rfl, rfl⟩
    | cons qv qvs => simp at hq
  | cons q qs ih =>
    obtain ⟨pre, envq⟩ := q
    cases qvs with
    | nil => simp at hq
    | cons qv qvs =>
      simp only [List.map_cons, List.cons.injEq] at hq
      obtain ⟨hq1, hq2⟩ := hq
      by_cases hsols : sols = []
      · subst hsols
        rw [forAllLoopN_nil_sols]
        exact ⟨(foldlM_forAllStep_nil w c _ final h).symm, rfl⟩
      · rw [List.foldlM_cons] at h
        obtain ⟨s', h1, h2⟩ := (bind_eq_ok ..).1 h
        obtain ⟨r2, r1⟩ := recheck_spec w c stream hs qv sols s' h1
        rw [hq1] at r2 r1
        obtain ⟨i2, i1⟩ := ih (fun q hq => hpre q (List.mem_cons_of_mem _ hq)) qvs hq2 s' h2
        have hpre1 : vis pre = [] := hpre (pre, envq) (List.mem_cons_self ..)
        have he : sols.isEmpty = false := by cases sols <;> simp_all
        simp only [forAllLoopN, he, Bool.false_eq_true, if_false, vis_append, hpre1, r1, r2, i1, i2,
          List.append_nil, and_self]

theorem enumFrom_map_snd {α β} (l : List α) (s : Nat) (f : α → β) :
    (enumFrom s l).map (fun p => f p.2) = l.map f := by
  induction l generalizing s with
  | nil => rfl
  | cons x l ih => simp [enumFrom, ih]

theorem evalVar_uvals (w : World) (u : VarId) (env : Env) :
    (evalVar w u env).map (·.1) = (uvals w u env).map (·.2) ∧ ∀ q ∈ uvals w u env, vis q.1 = [] := by
  unfold evalVar uvals
  cases env.lookup (.var u) with
  | some x => simp
  | none =>
    simp only [List.map_map, Function.comp_def]
    refine ⟨(enumFrom_map_snd (w.dom u) 0 fun x => ((Key.var u, x) :: env)).symm, ?_⟩
    intro q hq
    simp only [List.mem_map] at hq
    obtain ⟨p, _, rfl⟩ := hq
    rfl

/-- **for_all in any position**: the trace hands its continuation exactly the list model's cells, no exception -/
theorem traceForAllN_vis (w : World) (u : VarId) (c : Expr) (stream : Env → List Ev) (hs : StreamOk w c stream)
    (env : Env) (k : Env → Bool → List Ev) (res : List (Env × Bool)) (h : eval w (.forAll u c) env = .ok res) :
    vis (traceForAllN w u (c.nodes.filter (· != .var u)) stream env k) = res.flatMap fun p => vis (k p.1 p.2) := by
  rw [eval] at h
  obtain ⟨hmap, hpre⟩ := evalVar_uvals w u env
  unfold traceForAllN
  cases hE : evalVar w u env with
  | nil => simp [hE] at h
  | cons first rest =>
    cases hU : uvals w u env with
    | nil => simp [hE, hU] at hmap
    | cons q qs =>
      obtain ⟨pre, env1⟩ := q
      simp only [hE, hU, List.map_cons, List.cons.injEq] at hmap
      obtain ⟨hm1, hm2⟩ := hmap
      simp only [hE, bind_eq_ok, pure_eq_ok] at h
      obtain ⟨c0, hc0, final, hfinal, rfl⟩ := h
      rw [hm1] at hc0
      have hv := hs _ c0 hc0
      have hpre' : ∀ q ∈ qs, vis q.1 = [] := fun q hq => hpre q (by rw [hU]; exact List.mem_cons_of_mem _ hq)
      have hpre1 : vis pre = [] := hpre (pre, env1) (by rw [hU]; exact List.mem_cons_self ..)
      obtain ⟨l2, l1⟩ := forAllLoopN_spec w c stream hs qs hpre' rest hm2 _ final hfinal
      simp only [vis_append, hpre1, vis_dropRows_of_vis _ c0 hv, cellsOf_of_vis _ c0 hv, List.nil_append]
      rw [l1, l2, List.flatMap_map, List.nil_append, vis_flatMap]

/-! ### the trace hands its continuation exactly the list model's cells -/

theorem traceN_vis (w : World) (e : Expr) (env : Env) (k : Env → Bool → List Ev)
    (rs : List (Env × Bool)) (h : eval w e env = .ok rs) :
    vis (traceN w e env k) = rs.flatMap fun p => vis (k p.1 p.2) := by
  induction e generalizing env k rs with
  | cmp op l r => exact traceCmp_vis w l r _ env k rs h
  | contains c i => exact traceCmp_vis w c i _ env k rs h
  | truth t =>
    simp only [eval, bind_eq_ok, pure_eq_ok] at h
    obtain ⟨r0, h0, rfl⟩ := h
    simp only [traceN]
    rw [traceTerm_vis _ _ _ _ _ _ h0, List.flatMap_map]
  | hasType t c =>
    simp only [eval, bind_eq_ok, pure_eq_ok] at h
    obtain ⟨r0, h0, rfl⟩ := h
    simp only [traceN]
    rw [traceTerm_vis _ _ _ _ _ _ h0, List.flatMap_map]
  | and l r ihl ihr =>
    simp only [eval, bind_eq_ok] at h
    obtain ⟨ls, h0, h1⟩ := h
    simp only [traceN]
    rw [ihl _ _ _ h0]
    refine flatMapM_ok_flatMap _ _ _ _ _ h1 ?_
    intro p _ zs hz
    split at hz
    · rename_i hp; simp only [hp, if_true]; exact ihr _ _ _ hz
    · rename_i hp
      simp only [pure_eq_ok] at hz; subst hz
      simp [hp]
  | elseIf l r ihl ihr =>
    simp only [eval, bind_eq_ok] at h
    obtain ⟨ls, h0, h1⟩ := h
    simp only [traceN]
    rw [ihl _ _ _ h0]
    refine flatMapM_ok_flatMap _ _ _ _ _ h1 ?_
    intro p _ zs hz
    split at hz
    · rename_i hp
      simp only [pure_eq_ok] at hz; subst hz
      simp [hp]
    · rename_i hp; simp only [hp]; exact ihr _ _ _ hz
  | union l r ihl ihr =>
    simp only [eval, bind_eq_ok, pure_eq_ok] at h
    obtain ⟨ls, h0, a, h1, b, h2, rfl⟩ := h
    simp only [traceN, vis_append, List.flatMap_append]
    rw [ihl _ _ _ h0, ihr _ _ _ h2]
    congr 1
    refine flatMapM_ok_flatMap _ _ _ _ _ h1 ?_
    intro p _ zs hz
    split at hz
    · rename_i hp
      simp only [pure_eq_ok] at hz; subst hz
      simp [hp]
    · rename_i hp; simp only [hp]; exact ihr _ _ _ hz
  | not e ih =>
    simp only [eval, bind_eq_ok, pure_eq_ok] at h
    obtain ⟨r0, h0, rfl⟩ := h
    simp only [traceN]
    rw [ih _ _ _ h0, List.flatMap_map]
  | exists_ u c ih =>
    simp only [eval, bind_eq_ok] at h
    obtain ⟨rs0, h0, h1⟩ := h
    simp only [traceN]
    exact existsWalkN_vis w u k _ rs0 [] rs (by rw [ih _ _ _ h0, flatMap_vis_cell]) h1
  | forAll u c ih =>
    simp only [traceN]
    exact traceForAllN_vis w u c _ (fun env' rs' h' => by rw [ih _ _ _ h', flatMap_vis_cell]) env k rs h

/-! ### the events of an expression do not depend on its consumer (naturality in the continuation) -/

/-- the consumer's events in place of a result -/
def substEv (k : Env → Bool → List Ev) : Ev → List Ev
  | .row r => k (decCell r).1 (decCell r).2
  | e => [e]

/-- a stream with the consumer's events spliced in at every result -/
def substCells (k : Env → Bool → List Ev) (evs : List Ev) : List Ev := evs.flatMap (substEv k)

/-- an event-wise rewriting that leaves pull, read and exception events alone -/
def KeepsNonRows (g : Ev → List Ev) : Prop := ∀ e, e.isRow = false → g e = [e]

theorem substEv_keeps (k : Env → Bool → List Ev) : KeepsNonRows (substEv k) := by
  intro e he; cases e <;> first | rfl | cases he

def NoRow (evs : List Ev) : Prop := ∀ e ∈ evs, e.isRow = false

theorem NoRow.nil : NoRow [] := fun _ h => by cases h
theorem NoRow.append {a b : List Ev} (ha : NoRow a) (hb : NoRow b) : NoRow (a ++ b) :=
  fun e h => (List.mem_append.1 h).elim (ha e) (hb e)
theorem NoRow.dropRows (evs : List Ev) : NoRow (dropRows evs) := by
  intro e he
  have := (List.mem_filter.1 he).2
  simpa using this

theorem flatMap_noRow {g : Ev → List Ev} (hg : KeepsNonRows g) (l : List Ev) (hl : NoRow l) : l.flatMap g = l := by
  induction l with
  | nil => rfl
  | cons e l ih =>
    rw [List.flatMap_cons, hg e (hl e (List.mem_cons_self ..)), ih fun x hx => hl x (List.mem_cons_of_mem _ hx)]
    rfl

theorem readEvent_flatMap {g : Ev → List Ev} (hg : KeepsNonRows g) (x : Val) (n : AttrName) :
    (readEvent x n).flatMap g = readEvent x n := by
  cases x <;> simp [readEvent, hg _ (rfl : (Ev.read _ n).isRow = false)]

theorem traceVar_flatMap {g : Ev → List Ev} (hg : KeepsNonRows g) (w : World) (cp : Bool) (v : VarId) (env : Env)
    (k : Kont) : (traceVar w cp v env k).flatMap g = traceVar w cp v env fun e x b => (k e x b).flatMap g := by
  unfold traceVar
  split
  · rfl
  · rw [List.flatMap_assoc]
    refine flatMap_congr' _ _ _ fun p _ => ?_
    rw [List.flatMap_cons, hg _ (rfl : (Ev.pull v p.1).isRow = false)]
    rfl

theorem traceTerm_flatMap {g : Ev → List Ev} (hg : KeepsNonRows g) (w : World) (c : Bool) (t : Term) (env : Env)
    (k : Kont) : (traceTerm w c t env k).flatMap g = traceTerm w c t env fun e x b => (k e x b).flatMap g := by
  induction t generalizing c env k with
  | var v => exact traceVar_flatMap hg w c v env k
  | lit id x => simp only [traceTerm]; split <;> rfl
  | attr t n ih =>
    simp only [traceTerm]
    rw [ih]
    congr 1; funext e x b
    rw [List.flatMap_append, readEvent_flatMap hg]
    congr 1
    split
    · rfl
    · rw [List.flatMap_cons, hg _ (rfl : (Ev.err _).isRow = false)]; rfl
  | index t i ih =>
    simp only [traceTerm]
    rw [ih]
    congr 1; funext e x b
    split
    · rfl
    · rw [List.flatMap_cons, hg _ (rfl : (Ev.err _).isRow = false)]; rfl
  | flatten t ih =>
    simp only [traceTerm]
    rw [ih]
    congr 1; funext e x b
    split
    · rw [List.flatMap_assoc]
    · rw [List.flatMap_cons, hg _ (rfl : (Ev.err _).isRow = false)]; rfl

theorem traceCmp_flatMap {g : Ev → List Ev} (hg : KeepsNonRows g) (w : World) (l r : Term)
    (op : Val → Val → Except Err Bool) (env : Env) (k : Env → Bool → List Ev) :
    (traceCmp w l r op env k).flatMap g = traceCmp w l r op env fun e b => (k e b).flatMap g := by
  simp only [traceCmp]
  rw [traceTerm_flatMap hg]
  congr 1; funext e1 v1 t1
  split
  · rw [traceTerm_flatMap hg]
    congr 1; funext e2 v2 t2
    split
    · split
      · rfl
      · rw [List.flatMap_cons, hg _ (rfl : (Ev.err _).isRow = false)]; rfl
    · rfl
  · rfl

theorem existsWalkN_flatMap {g : Ev → List Ev} (hg : KeepsNonRows g) (w : World) (u : VarId)
    (k : Env → Bool → List Ev) (evs : List Ev) (seen : List Val) :
    (existsWalkN w u k evs seen).flatMap g = existsWalkN w u (fun e b => (k e b).flatMap g) evs seen := by
  induction evs generalizing seen with
  | nil => rfl
  | cons e evs ih =>
    cases e with
    | pull v i => rw [existsWalkN_pull, existsWalkN_pull, List.flatMap_cons, hg _ rfl, ih]; rfl
    | read o n => rw [existsWalkN_read, existsWalkN_read, List.flatMap_cons, hg _ rfl, ih]; rfl
    | err e => rw [existsWalkN_err, existsWalkN_err, List.flatMap_cons, hg _ rfl, ih]; rfl
    | row r =>
      rw [existsWalkN_row, existsWalkN_row]
      split
      · rw [List.flatMap_cons, hg _ (rfl : (Ev.err _).isRow = false), ih]; rfl
      · split
        · rw [List.flatMap_append, ih]
        · exact ih _

theorem uptoCell_fst_noRow (evs : List Ev) : NoRow (uptoCell evs).1 := by
  induction evs with
  | nil => exact NoRow.nil
  | cons e evs ih =>
    cases e with
    | row r => exact NoRow.nil
    | pull v i =>
      intro x hx
      rcases List.mem_cons.1 hx with rfl | hx
      · rfl
      · exact ih x hx
    | read o n =>
      intro x hx
      rcases List.mem_cons.1 hx with rfl | hx
      · rfl
      · exact ih x hx
    | err e =>
      intro x hx
      rcases List.mem_cons.1 hx with rfl | hx
      · rfl
      · exact ih x hx

theorem recheck_fst_noRow (stream : Env → List Ev) (envq : Env) (sols : List Env) :
    NoRow (recheck stream envq sols).1 := by
  induction sols with
  | nil => exact NoRow.nil
  | cons sol rest ih => exact NoRow.append (uptoCell_fst_noRow _) ih

theorem forAllLoopN_fst_noRow (stream : Env → List Ev) (qs : List (List Ev × Env)) (hq : ∀ q ∈ qs, NoRow q.1)
    (sols : List Env) : NoRow (forAllLoopN stream qs sols).1 := by
  induction qs generalizing sols with
  | nil => exact NoRow.nil
  | cons q qs ih =>
    obtain ⟨pre, envq⟩ := q
    simp only [forAllLoopN]
    split
    · exact NoRow.nil
    · exact NoRow.append (NoRow.append (hq _ (List.mem_cons_self ..)) (recheck_fst_noRow _ _ _))
        (ih (fun q h => hq q (List.mem_cons_of_mem _ h)) _)

theorem uvals_noRow (w : World) (u : VarId) (env : Env) : ∀ q ∈ uvals w u env, NoRow q.1 := by
  unfold uvals
  split
  · intro q hq; simp only [List.mem_singleton] at hq; subst hq; exact NoRow.nil
  · intro q hq
    simp only [List.mem_map] at hq
    obtain ⟨p, _, rfl⟩ := hq
    intro e he; simp only [List.mem_singleton] at he; subst he; rfl

theorem traceForAllN_flatMap {g : Ev → List Ev} (hg : KeepsNonRows g) (w : World) (u : VarId) (others : List Key)
    (stream : Env → List Ev) (env : Env) (k : Env → Bool → List Ev) :
    (traceForAllN w u others stream env k).flatMap g = traceForAllN w u others stream env fun e b => (k e b).flatMap g := by
  unfold traceForAllN
  have hu := uvals_noRow w u env
  cases hU : uvals w u env with
  | nil => simp only [List.flatMap_cons, hg _ (rfl : (Ev.err _).isRow = false)]; rfl
  | cons q qs =>
    obtain ⟨pre, env1⟩ := q
    rw [hU] at hu
    simp only [List.flatMap_append]
    rw [flatMap_noRow hg _ (hu _ (List.mem_cons_self ..)), flatMap_noRow hg _ (NoRow.dropRows _),
      flatMap_noRow hg _ (forAllLoopN_fst_noRow stream qs (fun q h => hu q (List.mem_cons_of_mem _ h)) _),
      List.flatMap_assoc]

/-- **naturality**: rewriting the events of the continuation event-wise (leaving non-row events alone) commutes with
the evaluation of ANY expression — the expression's own events are the same whatever the consumer does -/
theorem traceN_flatMap {g : Ev → List Ev} (hg : KeepsNonRows g) (w : World) (e : Expr) (env : Env)
    (k : Env → Bool → List Ev) :
    (traceN w e env k).flatMap g = traceN w e env fun e1 b => (k e1 b).flatMap g := by
  induction e generalizing env k with
  | cmp op l r => exact traceCmp_flatMap hg w l r _ env k
  | contains c i => exact traceCmp_flatMap hg w c i _ env k
  | truth t => simp only [traceN]; exact traceTerm_flatMap hg w true t env _
  | hasType t c => simp only [traceN]; exact traceTerm_flatMap hg w false t env _
  | and l r ihl ihr =>
    simp only [traceN]
    rw [ihl]
    congr 1; funext e1 t
    split
    · exact ihr _ _
    · rfl
  | elseIf l r ihl ihr =>
    simp only [traceN]
    rw [ihl]
    congr 1; funext e1 t
    split
    · rfl
    · exact ihr _ _
  | union l r ihl ihr =>
    simp only [traceN, List.flatMap_append]
    rw [ihl, ihr]
    congr 2; funext e1 t
    split
    · rfl
    · exact ihr _ _
  | not e ih => simp only [traceN]; exact ih _ _
  | exists_ u c _ => simp only [traceN]; exact existsWalkN_flatMap hg w u k _ _
  | forAll u c _ => simp only [traceN]; exact traceForAllN_flatMap hg w u _ _ env k

theorem substEv_cell (k : Env → Bool → List Ev) (e : Env) (b : Bool) : (cell e b).flatMap (substEv k) = k e b := by
  simp [cell, substEv]

/-- the trace under any continuation is the expression's own stream with the continuation spliced in at the results -/
theorem traceN_eq_substCells (w : World) (e : Expr) (env : Env) (k : Env → Bool → List Ev) :
    traceN w e env k = substCells k (streamN w e env) := by
  unfold substCells streamN
  rw [traceN_flatMap (substEv_keeps k)]
  simp only [substEv_cell]

/-! ### splicing rows only / splicing nothing of interest -/

theorem substCells_nil (k : Env → Bool → List Ev) : substCells k [] = [] := rfl
theorem substCells_cons_row (k : Env → Bool → List Ev) (r) (evs : List Ev) :
    substCells k (Ev.row r :: evs) = k (decCell r).1 (decCell r).2 ++ substCells k evs := rfl
theorem substCells_cons_pull (k : Env → Bool → List Ev) (v i) (evs : List Ev) :
    substCells k (Ev.pull v i :: evs) = Ev.pull v i :: substCells k evs := rfl
theorem substCells_cons_read (k : Env → Bool → List Ev) (o n) (evs : List Ev) :
    substCells k (Ev.read o n :: evs) = Ev.read o n :: substCells k evs := rfl
theorem substCells_cons_err (k : Env → Bool → List Ev) (e) (evs : List Ev) :
    substCells k (Ev.err e :: evs) = Ev.err e :: substCells k evs := rfl

theorem cellsOf_cons_row (r) (evs : List Ev) : cellsOf (Ev.row r :: evs) = decCell r :: cellsOf evs := rfl
theorem cellsOf_cons_pull (v i) (evs : List Ev) : cellsOf (Ev.pull v i :: evs) = cellsOf evs := rfl
theorem cellsOf_cons_read (o n) (evs : List Ev) : cellsOf (Ev.read o n :: evs) = cellsOf evs := rfl
theorem cellsOf_cons_err (e) (evs : List Ev) : cellsOf (Ev.err e :: evs) = cellsOf evs := rfl

/-- a filter that keeps no row and nothing the consumer emits sees the stream's own events only -/
theorem filter_substCells (keep : Ev → Bool) (hrow : ∀ r, keep (.row r) = false) (k : Env → Bool → List Ev)
    (evs : List Ev) (hk : ∀ p ∈ cellsOf evs, (k p.1 p.2).filter keep = []) :
    (substCells k evs).filter keep = evs.filter keep := by
  induction evs with
  | nil => rfl
  | cons e evs ih =>
    cases e with
    | pull v i =>
      rw [substCells_cons_pull, List.filter_cons, List.filter_cons, ih (by simpa [cellsOf_cons_pull] using hk)]
    | read o n =>
      rw [substCells_cons_read, List.filter_cons, List.filter_cons, ih (by simpa [cellsOf_cons_read] using hk)]
    | err e =>
      rw [substCells_cons_err, List.filter_cons, List.filter_cons, ih (by simpa [cellsOf_cons_err] using hk)]
    | row r =>
      rw [cellsOf_cons_row] at hk
      rw [substCells_cons_row, List.filter_append, hk _ (List.mem_cons_self ..),
        ih (fun p hp => hk p (List.mem_cons_of_mem _ hp)), List.filter_cons, hrow]
      rfl

/-! ### `Exists` needs only a prefix of its child's stream for a prefix of its own -/

theorem existsWalkN_append (w : World) (u : VarId) (k : Env → Bool → List Ev) (a b : List Ev) (seen : List Val) :
    ∃ seen', existsWalkN w u k (a ++ b) seen = existsWalkN w u k a seen ++ existsWalkN w u k b seen' := by
  induction a generalizing seen with
  | nil => exact ⟨seen, rfl⟩
  | cons e a ih =>
    cases e with
    | pull v i => obtain ⟨s', h⟩ := ih seen; exact ⟨s', by simp [h]⟩
    | read o n => obtain ⟨s', h⟩ := ih seen; exact ⟨s', by simp [h]⟩
    | err e => obtain ⟨s', h⟩ := ih seen; exact ⟨s', by simp [h]⟩
    | row r =>
      simp only [List.cons_append, existsWalkN_row]
      split
      · obtain ⟨s', h⟩ := ih seen; exact ⟨s', by simp [h]⟩
      · split
        · obtain ⟨s', h⟩ := ih (seen ++ [_]); exact ⟨s', by rw [h, List.append_assoc]⟩
        · exact ih seen

theorem existsWalkN_prefix (w : World) (u : VarId) (k : Env → Bool → List Ev) {a s : List Ev} (h : a <+: s)
    (seen : List Val) : existsWalkN w u k a seen <+: existsWalkN w u k s seen := by
  obtain ⟨b, rfl⟩ := h
  obtain ⟨s', h⟩ := existsWalkN_append w u k a b seen
  rw [h]; exact List.prefix_append _ _

/-- when every result of the child binds the quantified variable, `Exists` adds no event of its own -/
theorem existsWalkN_dropRows_cell (w : World) (u : VarId) (evs : List Ev) (seen : List Val)
    (hb : ∀ p ∈ cellsOf evs, Bnd u p.1) : dropRows (existsWalkN w u cell evs seen) = dropRows evs := by
  induction evs generalizing seen with
  | nil => rfl
  | cons e evs ih =>
    cases e with
    | pull v i => simp [ih seen (by simpa [cellsOf_cons_pull] using hb)]
    | read o n => simp [ih seen (by simpa [cellsOf_cons_read] using hb)]
    | err e => simp [ih seen (by simpa [cellsOf_cons_err] using hb)]
    | row r =>
      rw [cellsOf_cons_row] at hb
      have hr := hb _ (List.mem_cons_self ..)
      have hrest : ∀ p ∈ cellsOf evs, Bnd u p.1 := fun p hp => hb p (List.mem_cons_of_mem _ hp)
      rw [existsWalkN_row, dropRows_cons_row]
      cases hl : (decCell r).1.lookup (.var u) with
      | none => simp [Bnd, hl] at hr
      | some x =>
        simp only
        split
        · rw [dropRows_append, ih _ hrest]; rfl
        · exact ih _ hrest

/-! ### event-set invariants through the quantifiers -/

theorem AllEv.of_cons {P : Ev → Prop} {e : Ev} {l : List Ev} (h : AllEv P (e :: l)) : P e ∧ AllEv P l :=
  ⟨h e (List.mem_cons_self ..), fun x hx => h x (List.mem_cons_of_mem _ hx)⟩
theorem AllEv.cons {P : Ev → Prop} {e : Ev} {l : List Ev} (he : P e) (hl : AllEv P l) : AllEv P (e :: l) := by
  intro x hx
  rcases List.mem_cons.1 hx with rfl | hx
  · exact he
  · exact hl x hx
theorem AllEv.of_append {P : Ev → Prop} {a b : List Ev} (h : AllEv P (a ++ b)) : AllEv P a ∧ AllEv P b :=
  ⟨fun x hx => h x (List.mem_append_left _ hx), fun x hx => h x (List.mem_append_right _ hx)⟩

/-- splicing nothing in leaves the stream's own events -/
theorem substCells_silent (evs : List Ev) : substCells (fun _ _ => []) evs = dropRows evs := by
  induction evs with
  | nil => rfl
  | cons e evs ih =>
    cases e with
    | pull v i => rw [substCells_cons_pull, ih]; rfl
    | read o n => rw [substCells_cons_read, ih]; rfl
    | err e => rw [substCells_cons_err, ih]; rfl
    | row r => rw [substCells_cons_row, ih]; rfl

/-- the pull/read/exception events of an expression's stream are its trace under the silent consumer -/
theorem dropRows_streamN (w : World) (e : Expr) (env : Env) :
    dropRows (streamN w e env) = traceN w e env fun _ _ => [] := by
  rw [traceN_eq_substCells w e env fun _ _ => [], substCells_silent]

/-- every event of the `Exists` walk is an event of the child's stream, an event of the consumer at one of the
child's results, or the `KeyError` -/
theorem existsWalkN_allEv {P : Ev → Prop} (herr : P (.err .keyError)) (w : World) (u : VarId)
    (k : Env → Bool → List Ev) (evs : List Ev) (seen : List Val)
    (h : AllEv P (substCells (fun e _ => k e true) evs)) : AllEv P (existsWalkN w u k evs seen) := by
  induction evs generalizing seen with
  | nil => exact AllEv.nil P
  | cons e evs ih =>
    cases e with
    | pull v i => rw [substCells_cons_pull] at h; exact AllEv.cons h.of_cons.1 (ih _ h.of_cons.2)
    | read o n => rw [substCells_cons_read] at h; exact AllEv.cons h.of_cons.1 (ih _ h.of_cons.2)
    | err e => rw [substCells_cons_err] at h; exact AllEv.cons h.of_cons.1 (ih _ h.of_cons.2)
    | row r =>
      rw [substCells_cons_row] at h
      rw [existsWalkN_row]
      split
      · exact AllEv.cons herr (ih _ h.of_append.2)
      · split
        · exact AllEv.append h.of_append.1 (ih _ h.of_append.2)
        · exact ih _ h.of_append.2

theorem uptoCell_fst_subset (evs : List Ev) : ∀ x ∈ (uptoCell evs).1, x ∈ dropRows evs := by
  induction evs with
  | nil => intro x hx; cases hx
  | cons e evs ih =>
    cases e with
    | row r => intro x hx; cases hx
    | pull v i =>
      intro x hx
      rcases List.mem_cons.1 hx with rfl | hx
      · exact List.mem_cons_self ..
      · exact List.mem_cons_of_mem _ (ih x hx)
    | read o n =>
      intro x hx
      rcases List.mem_cons.1 hx with rfl | hx
      · exact List.mem_cons_self ..
      · exact List.mem_cons_of_mem _ (ih x hx)
    | err e =>
      intro x hx
      rcases List.mem_cons.1 hx with rfl | hx
      · exact List.mem_cons_self ..
      · exact List.mem_cons_of_mem _ (ih x hx)

theorem recheck_allEv {P : Ev → Prop} (stream : Env → List Ev) (envq : Env) (sols : List Env)
    (h : ∀ sol, AllEv P (dropRows (stream (merge sol envq)))) : AllEv P (recheck stream envq sols).1 := by
  induction sols with
  | nil => exact AllEv.nil P
  | cons sol rest ih =>
    exact AllEv.append (fun x hx => h sol x (uptoCell_fst_subset _ x hx)) ih

theorem forAllLoopN_allEv {P : Ev → Prop} (stream : Env → List Ev) (qs : List (List Ev × Env))
    (hq : ∀ q ∈ qs, AllEv P q.1 ∧ ∀ sol, AllEv P (dropRows (stream (merge sol q.2)))) (sols : List Env) :
    AllEv P (forAllLoopN stream qs sols).1 := by
  induction qs generalizing sols with
  | nil => exact AllEv.nil P
  | cons q qs ih =>
    obtain ⟨pre, envq⟩ := q
    simp only [forAllLoopN]
    split
    · exact AllEv.nil P
    · have h0 := hq _ (List.mem_cons_self ..)
      exact AllEv.append (AllEv.append h0.1 (recheck_allEv stream envq sols h0.2))
        (ih (fun q h => hq q (List.mem_cons_of_mem _ h)) _)

/-- every event of a `ForAll` evaluation is: obtaining a universal value, an event of the condition's stream from
bindings that extend one of the universal bindings, the `TypeError` of an empty universal domain, or an event of the
consumer -/
theorem traceForAllN_allEv {P : Ev → Prop} (herr : P (.err .typeError)) (w : World) (u : VarId) (others : List Key)
    (stream : Env → List Ev) (env : Env) (k : Env → Bool → List Ev)
    (hq : ∀ q ∈ uvals w u env, AllEv P q.1 ∧ AllEv P (dropRows (stream q.2)) ∧
      ∀ sol, AllEv P (dropRows (stream (merge sol q.2))))
    (hk : ∀ sol, AllEv P (k (merge env sol) true)) : AllEv P (traceForAllN w u others stream env k) := by
  unfold traceForAllN
  cases hU : uvals w u env with
  | nil => exact AllEv.single herr
  | cons q qs =>
    obtain ⟨pre, env1⟩ := q
    rw [hU] at hq
    have h0 := hq _ (List.mem_cons_self ..)
    refine AllEv.append (AllEv.append (AllEv.append h0.1 h0.2.1) ?_) (AllEv.flatMap _ _ fun sol _ => hk sol)
    exact forAllLoopN_allEv stream qs (fun q h => ⟨(hq q (List.mem_cons_of_mem _ h)).1,
      (hq q (List.mem_cons_of_mem _ h)).2.2⟩) _

theorem Bnd.append_left {u : VarId} {a : Env} (b : Env) (h : Bnd u a) : Bnd u (a ++ b) := by
  induction a with
  | nil => simp [Bnd] at h
  | cons p a ih =>
    obtain ⟨key, x⟩ := p
    unfold Bnd at h ⊢
    simp only [List.cons_append, List.lookup_cons] at h ⊢
    split
    · rfl
    · rename_i hne; simp only [hne] at h; exact ih h

theorem Bnd.append_right {u : VarId} (a : Env) {b : Env} (h : Bnd u b) : Bnd u (a ++ b) := by
  induction a with
  | nil => exact h
  | cons p a ih =>
    obtain ⟨key, x⟩ := p
    unfold Bnd at ih ⊢
    simp only [List.cons_append, List.lookup_cons]
    split
    · rfl
    · exact ih

theorem noPull_iff_allEv (u : VarId) (evs : List Ev) : NoPull u evs ↔ AllEv (fun e => ∀ i, e ≠ .pull u i) evs := by
  constructor
  · intro h e he i hei; subst hei; exact h i he
  · intro h i hi; exact h _ hi i rfl

/-- the bindings each universal value is handed over with keep `u` bound, and obtaining them pulls nothing of `u` -/
theorem uvals_bnd (w : World) (u q : VarId) (env : Env) (hb : Bnd u env) :
    ∀ p ∈ uvals w q env, NoPull u p.1 ∧ Bnd u p.2 := by
  unfold uvals
  cases hl : env.lookup (.var q) with
  | some x => intro p hp; simp only [List.mem_singleton] at hp; subst hp; exact ⟨NoPull.nil u, hb⟩
  | none =>
    have hne : q ≠ u := by rintro rfl; simp [Bnd, hl] at hb
    intro p hp
    simp only [List.mem_map] at hp
    obtain ⟨iv, _, rfl⟩ := hp
    refine ⟨?_, Bnd.cons_var q iv.2 (Or.inl hb)⟩
    intro i hi
    simp only [List.mem_singleton, Ev.pull.injEq] at hi
    exact hne hi.1.symm

/-- **a bound variable is never pulled**, quantifiers anywhere -/
theorem traceN_noPull (w : World) (u : VarId) (e : Expr) (env : Env) (k : Env → Bool → List Ev) (hb : Bnd u env)
    (hk : ∀ e b, Bnd u e → NoPull u (k e b)) : NoPull u (traceN w e env k) := by
  induction e generalizing env k with
  | cmp op l r => exact traceCmp_noPull w u l r _ env k hb hk
  | contains c i => exact traceCmp_noPull w u c i _ env k hb hk
  | truth t => exact traceTerm_noPull _ _ _ _ _ _ hb fun _ _ _ he => hk _ _ he
  | hasType t c => exact traceTerm_noPull _ _ _ _ _ _ hb fun _ _ _ he => hk _ _ he
  | and l r ihl ihr =>
    simp only [traceN]
    refine ihl _ _ hb fun e1 t he => ?_
    split
    · exact ihr _ _ he hk
    · exact hk _ _ he
  | elseIf l r ihl ihr =>
    simp only [traceN]
    refine ihl _ _ hb fun e1 t he => ?_
    split
    · exact hk _ _ he
    · exact ihr _ _ he hk
  | union l r ihl ihr =>
    simp only [traceN]
    refine NoPull.append (ihl _ _ hb fun e1 t he => ?_) (ihr _ _ hb hk)
    split
    · exact hk _ _ he
    · exact ihr _ _ he hk
  | not e ih => exact ih _ _ hb fun _ _ he => hk _ _ he
  | exists_ q c ih =>
    simp only [traceN]
    rw [noPull_iff_allEv]
    refine existsWalkN_allEv (fun i h => by cases h) w q k _ [] ?_
    rw [← noPull_iff_allEv]
    have := traceN_eq_substCells w c env fun e _ => k e true
    unfold streamN at this
    rw [← this]
    exact ih _ _ hb fun e _ he => hk e true he
  | forAll q c ih =>
    simp only [traceN]
    rw [noPull_iff_allEv]
    refine traceForAllN_allEv (fun i h => by cases h) w q _ _ env k ?_ ?_
    · intro p hp
      obtain ⟨h1, h2⟩ := uvals_bnd w u q env hb p hp
      have hs : ∀ e', Bnd u e' → AllEv (fun e => ∀ i, e ≠ .pull u i) (dropRows (traceN w c e' cell)) := by
        intro e' he'
        rw [← noPull_iff_allEv]
        have := dropRows_streamN w c e'
        unfold streamN at this
        rw [this]
        exact ih _ _ he' fun _ _ _ => NoPull.nil u
      exact ⟨(noPull_iff_allEv u _).1 h1, hs _ h2, fun sol => hs _ (Bnd.append_left sol h2)⟩
    · intro sol
      rw [← noPull_iff_allEv]
      exact hk _ _ (Bnd.append_right sol hb)

/-! ### pulls stay inside the domains, quantifiers anywhere -/

theorem uvals_pullOk (w : World) (q : VarId) (env : Env) : ∀ p ∈ uvals w q env, AllPullOk w p.1 := by
  unfold uvals
  split
  · intro p hp; simp only [List.mem_singleton] at hp; subst hp; exact AllPullOk.nil w
  · intro p hp
    simp only [List.mem_map] at hp
    obtain ⟨iv, hiv, rfl⟩ := hp
    intro ev hev
    simp only [List.mem_singleton] at hev
    subst hev
    have := mem_enumFrom _ _ _ hiv
    show iv.1 < (w.dom q).length
    omega

theorem traceN_pullOk (w : World) (e : Expr) (env : Env) (k : Env → Bool → List Ev)
    (hk : ∀ e b, AllPullOk w (k e b)) : AllPullOk w (traceN w e env k) := by
  induction e generalizing env k with
  | cmp op l r => exact traceCmp_pullOk w l r _ env k hk
  | contains c i => exact traceCmp_pullOk w c i _ env k hk
  | truth t => exact traceTerm_pullOk _ _ _ _ _ fun _ _ _ => hk _ _
  | hasType t c => exact traceTerm_pullOk _ _ _ _ _ fun _ _ _ => hk _ _
  | and l r ihl ihr =>
    simp only [traceN]
    refine ihl _ _ fun e1 t => ?_
    split
    · exact ihr _ _ hk
    · exact hk _ _
  | elseIf l r ihl ihr =>
    simp only [traceN]
    refine ihl _ _ fun e1 t => ?_
    split
    · exact hk _ _
    · exact ihr _ _ hk
  | union l r ihl ihr =>
    simp only [traceN]
    refine AllPullOk.append (ihl _ _ fun e1 t => ?_) (ihr _ _ hk)
    split
    · exact hk _ _
    · exact ihr _ _ hk
  | not e ih => exact ih _ _ fun _ _ => hk _ _
  | exists_ q c ih =>
    simp only [traceN]
    refine existsWalkN_allEv (P := PullOk w) trivial w q k _ [] ?_
    have := traceN_eq_substCells w c env fun e _ => k e true
    unfold streamN at this
    rw [← this]
    exact ih _ _ fun e _ => hk e true
  | forAll q c ih =>
    simp only [traceN]
    refine traceForAllN_allEv (P := PullOk w) trivial w q _ _ env k ?_ fun sol => hk _ _
    intro p hp
    have hs : ∀ e', AllEv (PullOk w) (dropRows (traceN w c e' cell)) := by
      intro e'
      have := dropRows_streamN w c e'
      unfold streamN at this
      rw [this]
      exact ih _ _ fun _ _ => AllPullOk.nil w
    exact ⟨uvals_pullOk w q env p hp, hs _, fun sol => hs _⟩

theorem traceQueryN_pullOk (w : World) (q : Query) : AllPullOk w (traceQueryN w q) := by
  unfold traceQueryN
  split
  · refine traceN_pullOk w _ _ _ fun e b => ?_
    split
    · exact traceSel_pullOk w _ _ _
    · exact AllPullOk.nil w
  · exact traceSel_pullOk w _ _ _

end KrroodVerif.Eql
