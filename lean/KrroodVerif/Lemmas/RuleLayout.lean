import KrroodVerif.Model.Rule
/-!
# Layout of the selector tree a rule program leaves behind (definitions)

`Kids.lay` / `Prog.layBranch` / `Prog.layScope` describe, as pure functions over `Sel` trees *with node
identities*, what the tree surgery of `build Quirks.today` does block by block:

* a `refinement` wraps the condition leaf of the block it is written in, in place: `ExceptIf(leaf, R)`; a later
  refinement of the same block goes *inside* the earlier ones (it wraps the leaf again);
* an `alternative` / `next_rule` climbs to the top of the scope (the whole tree, or the right operand of the
  `ExceptIf` of the enclosing refinement) and wraps that: `Alternative(scope, leaf)`; so the scope tree is a left
  fold over all alternatives / next_rules of the scope in textual order;
* every branch call allocates two nodes: the condition leaf `n`, the selector `n + 1`.

`Lemmas/RuleBuild.lean` proves that the pointer store of the builder represents these trees
(`build_today_eq_lay`), `Lemmas/RuleLayoutShape.lean` that for unambiguous programs their shape is
`Rule.compile` (`layScope_shape`).
-/
namespace KrroodVerif.Rdr

/-- one step of a path from a hole to the top of a selector tree: the selector node above the hole, which side
the hole is on, and the sibling subtree -/
structure Frame where
  k : SK
  id : Nat
  holeLeft : Bool
  sib : Sel

def Frame.fill (f : Frame) (u : Sel) : Sel :=
  if f.holeLeft then .node f.k f.id u f.sib else .node f.k f.id f.sib u

/-- plug `u` into a path (innermost frame first) -/
def plug : List Frame → Sel → Sel
  | [], u => u
  | f :: P, u => plug P (f.fill u)

/-- a branch attached at the top of a scope: kind and id of the selector node, body of the branch -/
abbrev LItem := SK × Nat × Sel

def attach (t : Sel) (its : List LItem) : Sel :=
  its.foldl (fun t it => .node it.1 it.2.1 t it.2.2) t

def itemFrames (its : List LItem) : List Frame := its.map fun it => ⟨it.1, it.2.1, true, it.2.2⟩

mutual
/-- the block of a branch whose condition leaf has id `i`, next free id `n`: (body = the leaf under the
`ExceptIf`s of the block's refinements, the alternatives / next_rules the block contributes to its scope in
textual order, next free id) -/
def Prog.layBranch (n i : Nat) : Prog → Sel × List LItem × Nat
  | .mk b kids =>
    let r := kids.lay n
    (plug r.1 (.leaf i b [b]), r.2.1, r.2.2)
/-- the branches written in one block: (`ExceptIf` frames around the block's leaf, innermost first; items for the
scope; next free id) -/
def Kids.lay (n : Nat) : Kids → List Frame × List LItem × Nat
  | .nil => ([], [], n)
  | .cons .ref p rest =>
    let rp := p.layBranch (n + 2) n
    let rr := rest.lay rp.2.2
    (rr.1 ++ [⟨.exceptIf, n + 1, true, attach rp.1 rp.2.1⟩], rr.2.1, rr.2.2)
  | .cons .alt p rest =>
    let rp := p.layBranch (n + 2) n
    let rr := rest.lay rp.2.2
    (rr.1, (SK.alt, n + 1, rp.1) :: (rp.2.1 ++ rr.2.1), rr.2.2)
  | .cons .next p rest =>
    let rp := p.layBranch (n + 2) n
    let rr := rest.lay rp.2.2
    (rr.1, (SK.next, n + 1, rp.1) :: (rp.2.1 ++ rr.2.1), rr.2.2)
end

/-- a whole scope (the program of a query, or the block of a refinement): its items attached over its body -/
def Prog.layScope (n i : Nat) (p : Prog) : Sel × Nat :=
  let r := p.layBranch n i
  (attach r.1 r.2.1, r.2.2)

/-- **the selector tree `build Quirks.today p` leaves behind**, node identities included -/
def Prog.layout (p : Prog) : Sel := (p.layScope 3 2).1

end KrroodVerif.Rdr
