import KrroodVerif.Model.Eql
/-!
Helper definitions and lemmas for the C01 / C02 theorems about M-EQL (`Model/Eql.lean`, which is frozen).
Core Lean only.

Contents: (1) inversion lemmas for the `Except Err` monad combinators the model uses; (2) the fragments
`Fc ⊇ F2` and side conditions; (3) the first-order reading `satE` on core expressions and `satE_build`;
(4) environment-extension invariants; (5) the cover theorem; (6) totality of true cells on `F2`;
(7) the counting argument behind `C02_multiplicity`.
-/
namespace KrroodVerif.Eql

/-! ## 1. `Except Err` inversion lemmas -/

theorem bind_ok {α β} {x : Except Err α} {f : α → Except Err β} {y : β}
    (h : (x >>= f) = .ok y) : ∃ a, x = .ok a ∧ f a = .ok y := by
  cases x with
  | error e => cases h
  | ok a => exact ⟨a, rfl, h⟩

theorem map_ok {α β} {x : Except Err α} {f : α → β} {y : β}
    (h : (f <$> x) = .ok y) : ∃ a, x = .ok a ∧ f a = y := by
  cases x with
  | error e => cases h
  | ok a => exact ⟨a, rfl, by cases h; rfl⟩

theorem pure_ok {α} {a y : α} (h : (pure a : Except Err α) = .ok y) : a = y := by
  cases h; rfl

/-- value of a successful computation (default otherwise) -/
def okOr {β} (d : β) : Except Err β → β
  | .ok y => y
  | .error _ => d

theorem okOr_eq {β} {d : β} {x : Except Err β} {y : β} (h : x = .ok y) : okOr d x = y := by
  subst h; rfl

theorem flatMapM_ok {α β} {xs : List α} {f : α → Except Err (List β)} {ys : List β}
    (h : flatMapM xs f = .ok ys) :
    ∃ g : α → List β, (∀ x ∈ xs, f x = .ok (g x)) ∧ ys = xs.flatMap g := by
  refine ⟨fun x => okOr [] (f x), ?_⟩
  induction xs generalizing ys with
  | nil => simp only [flatMapM] at h; cases h; simp
  | cons x r ih =>
    simp only [flatMapM] at h
    obtain ⟨a, ha, h⟩ := bind_ok h
    obtain ⟨b, hb, h⟩ := bind_ok h
    cases h
    obtain ⟨ih1, ih2⟩ := ih hb
    refine ⟨?_, ?_⟩
    · intro z hz
      rcases List.mem_cons.mp hz with rfl | hz
      · simp only [ha, okOr]
      · exact ih1 z hz
    · rw [List.flatMap_cons, ← ih2, ha]; rfl

theorem mapM_ok {α β} [Inhabited β] {xs : List α} {f : α → Except Err β} {ys : List β}
    (h : xs.mapM f = .ok ys) :
    ∃ g : α → β, (∀ x ∈ xs, f x = .ok (g x)) ∧ ys = xs.map g := by
  refine ⟨fun x => okOr default (f x), ?_⟩
  induction xs generalizing ys with
  | nil => simp only [List.mapM_nil] at h; cases h; simp
  | cons x r ih =>
    rw [List.mapM_cons] at h
    obtain ⟨a, ha, h⟩ := bind_ok h
    obtain ⟨b, hb, h⟩ := bind_ok h
    cases h
    obtain ⟨ih1, ih2⟩ := ih hb
    refine ⟨?_, ?_⟩
    · intro z hz
      rcases List.mem_cons.mp hz with rfl | hz
      · simp only [ha, okOr]
      · exact ih1 z hz
    · rw [List.map_cons, ← ih2, ha]; rfl

theorem filterAuxM_ok {α} {xs acc : List α} {f : α → Except Err Bool} {ys : List α}
    (h : List.filterAuxM f xs acc = .ok ys) :
    (∀ x ∈ xs, f x = .ok (okOr false (f x))) ∧
      ys = (xs.filter fun x => okOr false (f x)).reverse ++ acc := by
  induction xs generalizing acc ys with
  | nil => simp only [List.filterAuxM] at h; cases h; simp
  | cons x r ih =>
    simp only [List.filterAuxM] at h
    obtain ⟨b, hb, h⟩ := bind_ok h
    obtain ⟨ih1, ih2⟩ := ih h
    refine ⟨?_, ?_⟩
    · intro z hz
      rcases List.mem_cons.mp hz with rfl | hz
      · simp only [hb, okOr]
      · exact ih1 z hz
    · rw [ih2, List.filter_cons, hb]
      cases b <;> simp [okOr]

theorem filterM_ok {α} {xs : List α} {f : α → Except Err Bool} {ys : List α}
    (h : xs.filterM f = .ok ys) :
    ∃ g : α → Bool, (∀ x ∈ xs, f x = .ok (g x)) ∧ ys = xs.filter g := by
  unfold List.filterM at h
  obtain ⟨a, ha, h⟩ := bind_ok h
  cases h
  obtain ⟨h1, h2⟩ := filterAuxM_ok ha
  exact ⟨fun x => okOr false (f x), h1, by simp [h2]⟩

theorem anyM_ok {α} {xs : List α} {f : α → Except Err Bool} {b : Bool}
    (h : anyM xs f = .ok b) :
    ∃ g : α → Bool, (∀ x ∈ xs, f x = .ok (g x)) ∧ b = xs.any g := by
  refine ⟨fun x => okOr false (f x), ?_⟩
  induction xs generalizing b with
  | nil => simp only [anyM] at h; cases h; simp
  | cons x r ih =>
    simp only [anyM] at h
    obtain ⟨a, ha, h⟩ := bind_ok h
    obtain ⟨c, hc, h⟩ := bind_ok h
    cases h
    obtain ⟨ih1, ih2⟩ := ih hc
    refine ⟨?_, ?_⟩
    · intro z hz
      rcases List.mem_cons.mp hz with rfl | hz
      · simp only [ha, okOr]
      · exact ih1 z hz
    · rw [List.any_cons, ← ih2, ha]; rfl

theorem allM_ok {α} {xs : List α} {f : α → Except Err Bool} {b : Bool}
    (h : allM xs f = .ok b) :
    ∃ g : α → Bool, (∀ x ∈ xs, f x = .ok (g x)) ∧ b = xs.all g := by
  refine ⟨fun x => okOr false (f x), ?_⟩
  induction xs generalizing b with
  | nil => simp only [allM] at h; cases h; simp
  | cons x r ih =>
    simp only [allM] at h
    obtain ⟨a, ha, h⟩ := bind_ok h
    obtain ⟨c, hc, h⟩ := bind_ok h
    cases h
    obtain ⟨ih1, ih2⟩ := ih hc
    refine ⟨?_, ?_⟩
    · intro z hz
      rcases List.mem_cons.mp hz with rfl | hz
      · simp only [ha, okOr]
      · exact ih1 z hz
    · rw [List.all_cons, ← ih2, ha]; rfl

/-! ## 2. Fragments and side conditions -/

/-- no `flatten` anywhere in the term -/
def Term.noFlat : Term → Bool
  | .var _ => true
  | .lit _ _ => true
  | .attr t _ => t.noFlat
  | .index t _ => t.noFlat
  | .flatten _ => false

/-- an attribute/index chain (not a bare variable or literal), without `flatten` -/
def Term.isChain : Term → Bool
  | .attr t _ => t.noFlat
  | .index t _ => t.noFlat
  | _ => false

/-- atoms of the cover fragment -/
def Expr.isAtom : Expr → Bool
  | .cmp _ l r => l.noFlat && r.noFlat
  | .contains c i => c.noFlat && i.noFlat
  | .hasType t _ => t.noFlat
  | .truth t => t.isChain
  | _ => false

/-- **cover fragment**: atoms without `flatten`, `and`, `elseIf`, `not`; no `union`, no quantifiers -/
def Expr.Fc : Expr → Bool
  | .cmp _ l r => l.noFlat && r.noFlat
  | .contains c i => c.noFlat && i.noFlat
  | .hasType t _ => t.noFlat
  | .truth t => t.isChain
  | .and l r => l.Fc && r.Fc
  | .elseIf l r => l.Fc && r.Fc
  | .not e => e.Fc
  | .union _ _ => false
  | .exists_ _ _ => false
  | .forAll _ _ => false

/-- **multiplicity fragment**: `elseIf` only between conditions over the same variables, `not` only on atoms -/
def Expr.F2 : Expr → Bool
  | .cmp _ l r => l.noFlat && r.noFlat
  | .contains c i => c.noFlat && i.noFlat
  | .hasType t _ => t.noFlat
  | .truth t => t.isChain
  | .and l r => l.F2 && r.F2
  | .elseIf l r => l.F2 && r.F2 && sameSet l.vars r.vars
  | .not e => e.isAtom
  | .union _ _ => false
  | .exists_ _ _ => false
  | .forAll _ _ => false

def SExpr.isAtom : SExpr → Bool
  | .cmp _ l r => l.noFlat && r.noFlat
  | .contains c i => c.noFlat && i.noFlat
  | .hasType t _ => t.noFlat
  | .truth t => t.isChain
  | _ => false

/-- surface version of `F2`: and/or/not over atoms, `or` only between conditions with the same variables,
`not` only on atoms -/
def SExpr.F2 : SExpr → Bool
  | .cmp _ l r => l.noFlat && r.noFlat
  | .contains c i => c.noFlat && i.noFlat
  | .hasType t _ => t.noFlat
  | .truth t => t.isChain
  | .and l r => l.F2 && r.F2
  | .or l r => l.F2 && r.F2 && sameSet l.freeVars r.freeVars
  | .not e => e.isAtom
  | .exists_ _ _ => false
  | .forAll _ _ => false

theorem Expr.isAtom_Fc {e : Expr} (h : e.isAtom = true) : e.Fc = true := by
  cases e <;> simp_all [Expr.isAtom, Expr.Fc]

theorem Expr.isAtom_F2 {e : Expr} (h : e.isAtom = true) : e.F2 = true := by
  cases e <;> simp_all [Expr.isAtom, Expr.F2]

theorem Expr.F2_Fc {e : Expr} (h : e.F2 = true) : e.Fc = true := by
  induction e with
  | and l r ihl ihr => simp only [Expr.F2, Bool.and_eq_true] at h; simp [Expr.Fc, ihl h.1, ihr h.2]
  | elseIf l r ihl ihr =>
    simp only [Expr.F2, Bool.and_eq_true] at h; simp [Expr.Fc, ihl h.1.1, ihr h.1.2]
  | not e _ => simp only [Expr.F2] at h; simp only [Expr.Fc]; exact Expr.isAtom_Fc h
  | _ => simp_all [Expr.F2, Expr.Fc]

theorem build_isAtom {s : SExpr} (h : s.isAtom = true) : (build s).isAtom = true := by
  cases s <;> simp_all [SExpr.isAtom, Expr.isAtom, build]

theorem build_vars_atom {s : SExpr} (h : s.isAtom = true) : (build s).vars = s.freeVars := by
  cases s <;> simp_all [SExpr.isAtom, build, Expr.vars, SExpr.freeVars]

theorem invert_atom {e : Expr} (h : e.isAtom = true) : invert e = .not e := by
  cases e <;> simp_all [Expr.isAtom, invert]

/-- on `F2` the variables of the built expression are the free variables of the surface expression -/
theorem build_vars {s : SExpr} (h : s.F2 = true) : (build s).vars = s.freeVars := by
  induction s with
  | and l r ihl ihr =>
    simp only [SExpr.F2, Bool.and_eq_true] at h
    simp [build, Expr.vars, SExpr.freeVars, ihl h.1, ihr h.2]
  | or l r ihl ihr =>
    simp only [SExpr.F2, Bool.and_eq_true] at h
    simp only [build, mkOr, SExpr.freeVars]
    split <;> simp [Expr.vars, ihl h.1.1, ihr h.1.2]
  | not e _ =>
    simp only [SExpr.F2] at h
    simp only [build, invert_atom (build_isAtom h), Expr.vars, SExpr.freeVars, build_vars_atom h]
  | _ => simp_all [SExpr.F2, build, Expr.vars, SExpr.freeVars]

/-- **build_F2**: the construction-time rewrites keep the surface fragment inside the core fragment -/
theorem build_F2 {s : SExpr} (h : s.F2 = true) : (build s).F2 = true := by
  induction s with
  | and l r ihl ihr =>
    simp only [SExpr.F2, Bool.and_eq_true] at h
    simp [build, Expr.F2, ihl h.1, ihr h.2]
  | or l r ihl ihr =>
    simp only [SExpr.F2, Bool.and_eq_true] at h
    have hv : sameSet (build l).vars (build r).vars = true := by
      rw [build_vars h.1.1, build_vars h.1.2]; exact h.2
    simp [build, mkOr, hv, Expr.F2, ihl h.1.1, ihr h.1.2]
  | not e _ =>
    simp only [SExpr.F2] at h
    simp only [build, invert_atom (build_isAtom h), Expr.F2]; exact build_isAtom h
  | _ => simp_all [SExpr.F2, build, Expr.F2]

/-- every domain value is truthy. Before fix commit `78cb732` (F-C01-3 / F-C02-1: a bound falsy value dropped the
row) this was a hypothesis of every C01/C02 theorem; since the repair none of them needs it. Kept only so that the
non-vacuity examples can state that their worlds DO contain falsy values (`domTruthyB w = false`). -/
def DomTruthy (w : World) : Prop := ∀ v x, x ∈ w.dom v → truthy x = true

/-- decidable sufficient check for `DomTruthy` -/
def domTruthyB (w : World) : Bool := w.doms.all fun d => d.2.all truthy

/-- decidable sufficient check for `∀ v, (w.dom v).Nodup` -/
def domsNodupB (w : World) : Bool := w.doms.all fun d => decide d.2.Nodup

theorem lookup_mem' {α β} [BEq α] [LawfulBEq α] {l : List (α × β)} {k : α} {x : β}
    (h : l.lookup k = some x) : (k, x) ∈ l := by
  induction l with
  | nil => simp at h
  | cons p t ih =>
    rw [List.lookup_cons] at h
    split at h
    · rename_i heq
      have := eq_of_beq heq
      cases h; subst this; simp
    · exact List.mem_cons_of_mem _ (ih h)

theorem dom_cases (w : World) (v : VarId) : w.dom v = [] ∨ (v, w.dom v) ∈ w.doms := by
  unfold World.dom
  cases h : w.doms.lookup v with
  | none => left; rfl
  | some d => right; exact lookup_mem' h

theorem domTruthy_of_B {w : World} (h : domTruthyB w = true) : DomTruthy w := by
  intro v x hx
  rcases dom_cases w v with h0 | h1
  · rw [h0] at hx; cases hx
  · simp only [domTruthyB, List.all_eq_true] at h
    exact h _ h1 x hx

theorem domsNodup_of_B {w : World} (h : domsNodupB w = true) : ∀ v, (w.dom v).Nodup := by
  intro v
  rcases dom_cases w v with h0 | h1
  · rw [h0]; exact List.nodup_nil
  · simp only [domsNodupB, List.all_eq_true, decide_eq_true_eq] at h
    exact h _ h1

/-- ids of the literal nodes among a list of keys -/
def litIds (ks : List Key) : List Nat := ks.filterMap fun k => match k with | .lit i => some i | .var _ => none

/-- the literal nodes of the expression have pairwise distinct ids (tree-shaped query, DESIGN §4) -/
def LitNodup (e : Expr) : Prop := (litIds e.nodes).Nodup

instance (e : Expr) : Decidable (LitNodup e) := by unfold LitNodup; infer_instance

/-- none of the literal nodes among `ks` is bound in `env` -/
def LitFresh (ks : List Key) (env : Env) : Prop := ∀ id, Key.lit id ∈ ks → env.lookup (.lit id) = none

theorem mem_litIds {ks : List Key} {i : Nat} : i ∈ litIds ks ↔ Key.lit i ∈ ks := by
  simp only [litIds, List.mem_filterMap]
  constructor
  · rintro ⟨k, hk, h⟩; cases k <;> simp_all
  · intro h; exact ⟨_, h, rfl⟩

theorem litIds_append (a b : List Key) : litIds (a ++ b) = litIds a ++ litIds b := by
  simp [litIds, List.filterMap_append]

theorem litNodup_append {a b : List Key} (h : (litIds (a ++ b)).Nodup) :
    (litIds a).Nodup ∧ (litIds b).Nodup ∧ ∀ i, Key.lit i ∈ a → Key.lit i ∉ b := by
  rw [litIds_append, List.nodup_append] at h
  refine ⟨h.1, h.2.1, ?_⟩
  intro i ha hb
  exact h.2.2 i (mem_litIds.mpr ha) i (mem_litIds.mpr hb) rfl

/-! ## 3. First-order reading of core expressions -/

/-- the ordinary first-order reading of a core expression (`elseIf`/`union` = or) -/
def satE (w : World) : Expr → Asg → Except Err Bool
  | .cmp op l r, σ => do
    let ls ← tvals w σ l; let rs ← tvals w σ r
    anyM ls fun a => anyM rs fun b => applyCmp w op a b
  | .contains c i, σ => do
    let cs ← tvals w σ c; let is ← tvals w σ i
    anyM cs fun a => anyM is fun b => applyContains w a b
  | .truth t, σ => do pure ((← tvals w σ t).any truthy)
  | .hasType t c, σ => do pure ((← tvals w σ t).any fun x => isInstance w x c)
  | .and l r, σ => do pure ((← satE w l σ) && (← satE w r σ))
  | .elseIf l r, σ => do pure ((← satE w l σ) || (← satE w r σ))
  | .union l r, σ => do pure ((← satE w l σ) || (← satE w r σ))
  | .not e, σ => do pure (!(← satE w e σ))
  | .exists_ v e, σ => anyM (w.dom v) fun x => satE w e ((v, x) :: σ)
  | .forAll v e, σ => allM (w.dom v) fun x => satE w e ((v, x) :: σ)

theorem allM_not {α} (xs : List α) (f : α → Except Err Bool) :
    allM xs (fun x => do pure (!(← f x))) = (do pure (!(← anyM xs f))) := by
  induction xs with
  | nil => rfl
  | cons x r ih =>
    simp only [allM, anyM, ih]
    cases f x with
    | error e => rfl
    | ok a =>
      cases anyM r f with
      | error e => rfl
      | ok c => cases a <;> cases c <;> rfl

theorem anyM_not {α} (xs : List α) (f : α → Except Err Bool) :
    anyM xs (fun x => do pure (!(← f x))) = (do pure (!(← allM xs f))) := by
  induction xs with
  | nil => rfl
  | cons x r ih =>
    simp only [allM, anyM, ih]
    cases f x with
    | error e => rfl
    | ok a =>
      cases allM r f with
      | error e => rfl
      | ok c => cases a <;> cases c <;> rfl

theorem satE_invert (w : World) (e : Expr) : ∀ σ, satE w (invert e) σ = (do pure (!(← satE w e σ))) := by
  induction e with
  | exists_ v e ih =>
    intro σ
    simp only [invert, satE, ih]
    exact allM_not _ _
  | forAll v e ih =>
    intro σ
    simp only [invert, satE, ih]
    exact anyM_not _ _
  | _ => intro σ; simp only [invert, satE]

/-- **satE_build**: the first-order reading of a surface expression is the first-order reading of the
expression the engine builds from it (construction-time `not_` / `or_` rewrites preserve meaning) -/
theorem satE_build (w : World) (s : SExpr) : ∀ σ, sat w s σ = satE w (build s) σ := by
  induction s with
  | and l r ihl ihr => intro σ; simp only [sat, build, satE, ihl, ihr]
  | or l r ihl ihr =>
    intro σ
    simp only [sat, build, mkOr, ihl, ihr]
    split <;> simp only [satE]
  | not e ih => intro σ; simp only [sat, build, satE_invert, ih]
  | exists_ v e ih => intro σ; simp only [sat, build, satE, ih]
  | forAll v e ih => intro σ; simp only [sat, build, satE, ih]
  | _ => intro σ; simp only [sat, build, satE]

/-! ## 4. Agreement, cells, environment extension -/

/-- the (total) assignment `τ` is compatible with the partial assignment `env`: every *variable* binding of
`env` is the value `τ` gives (literal bindings are ignored) -/
def agreesB (τ : Asg) (env : Env) : Bool :=
  env.all fun p => match p.1 with
    | .var v => τ.lookup v == some p.2
    | .lit _ => true

theorem agreesB_iff {τ : Asg} {env : Env} :
    agreesB τ env = true ↔ ∀ v x, (Key.var v, x) ∈ env → τ.lookup v = some x := by
  simp only [agreesB, List.all_eq_true]
  constructor
  · intro h v x hm; simpa using h _ hm
  · intro h p hp
    obtain ⟨k, x⟩ := p
    cases k with
    | var v => simpa using h v x hp
    | lit i => rfl

theorem agreesB_nil (τ : Asg) : agreesB τ [] = true := rfl

theorem agreesB_cons_var (τ : Asg) (v : VarId) (x : Val) (env : Env) :
    agreesB τ ((.var v, x) :: env) = (τ.lookup v == some x && agreesB τ env) := rfl

theorem agreesB_cons_lit (τ : Asg) (i : Nat) (x : Val) (env : Env) :
    agreesB τ ((.lit i, x) :: env) = agreesB τ env := by
  simp [agreesB]

theorem agreesB_append (τ : Asg) (a b : Env) : agreesB τ (a ++ b) = (agreesB τ a && agreesB τ b) := by
  simp [agreesB, List.all_append]

/-- the result cells compatible with `τ` -/
def cells {α} (τ : Asg) (rs : List (Env × α)) : List (Env × α) := rs.filter fun p => agreesB τ p.1

def keys (env : Env) : List Key := env.map (·.1)

/-- `env'` extends `env` by bindings for keys in `ks` only; new variable bindings are domain elements; keys
stay duplicate-free -/
def Ext (w : World) (ks : List Key) (env env' : Env) : Prop :=
  ∃ pre, env' = pre ++ env ∧ (∀ p ∈ pre, p.1 ∈ ks ∧ ∀ v, p.1 = .var v → p.2 ∈ w.dom v) ∧
    ((keys env).Nodup → (keys env').Nodup)

theorem Ext.refl (w : World) (ks : List Key) (env : Env) : Ext w ks env env :=
  ⟨[], rfl, by simp, id⟩

theorem Ext.trans {w : World} {k1 k2 : List Key} {a b c : Env} (h1 : Ext w k1 a b) (h2 : Ext w k2 b c) :
    Ext w (k1 ++ k2) a c := by
  obtain ⟨p1, rfl, hp1, hn1⟩ := h1
  obtain ⟨p2, rfl, hp2, hn2⟩ := h2
  refine ⟨p2 ++ p1, by simp, ?_, fun h => hn2 (hn1 h)⟩
  intro p hp
  rcases List.mem_append.mp hp with hp | hp
  · exact ⟨List.mem_append_right _ (hp2 p hp).1, (hp2 p hp).2⟩
  · exact ⟨List.mem_append_left _ (hp1 p hp).1, (hp1 p hp).2⟩

theorem Ext.mono {w : World} {k1 k2 : List Key} {a b : Env} (h : Ext w k1 a b) (hs : ∀ k ∈ k1, k ∈ k2) :
    Ext w k2 a b := by
  obtain ⟨p, rfl, hp, hn⟩ := h
  exact ⟨p, rfl, fun q hq => ⟨hs _ (hp q hq).1, (hp q hq).2⟩, hn⟩

theorem Ext.agrees {w : World} {ks : List Key} {a b : Env} {τ : Asg} (h : Ext w ks a b)
    (hb : agreesB τ b = true) : agreesB τ a = true := by
  obtain ⟨p, rfl, _, _⟩ := h
  rw [agreesB_append, Bool.and_eq_true] at hb
  exact hb.2

theorem Ext.isSome {w : World} {ks : List Key} {a b : Env} (h : Ext w ks a b) {k : Key}
    (hk : (a.lookup k).isSome = true) : (b.lookup k).isSome = true := by
  obtain ⟨p, rfl, _, _⟩ := h
  rw [List.lookup_append]
  cases List.lookup k p <;> simp [hk]

theorem Ext.litFresh {w : World} {k1 k2 : List Key} {a b : Env} (h : Ext w k1 a b)
    (ha : LitFresh k2 a) (hd : ∀ i, Key.lit i ∈ k1 → Key.lit i ∉ k2) : LitFresh k2 b := by
  obtain ⟨p, rfl, hp, _⟩ := h
  intro i hi
  rw [List.lookup_append, ha i hi]
  have : List.lookup (Key.lit i) p = none := by
    rw [List.lookup_eq_none_iff]
    intro q hq
    have h1 := (hp q hq).1
    simp only [bne_iff_ne, ne_eq]
    intro heq
    rw [← heq] at h1
    exact hd i h1 hi
  simp [this]

theorem LitFresh.mono {k1 k2 : List Key} {env : Env} (h : LitFresh k2 env) (hs : ∀ k ∈ k1, k ∈ k2) :
    LitFresh k1 env := fun i hi => h i (hs _ hi)

theorem not_mem_keys_of_lookup_none {env : Env} {k : Key} (h : env.lookup k = none) : k ∉ keys env := by
  rw [List.lookup_eq_none_iff] at h
  intro hm
  simp only [keys, List.mem_map] at hm
  obtain ⟨p, hp, rfl⟩ := hm
  have := h p hp
  simp at this

theorem Ext.cons {w : World} {env : Env} {k : Key} {x : Val} (hl : env.lookup k = none)
    (hd : ∀ v, k = .var v → x ∈ w.dom v) : Ext w [k] env ((k, x) :: env) := by
  refine ⟨[(k, x)], rfl, ?_, ?_⟩
  · intro p hp; simp only [List.mem_singleton] at hp; subst hp; exact ⟨by simp, hd⟩
  · intro hn
    simp only [keys, List.map_cons, List.nodup_cons]
    exact ⟨not_mem_keys_of_lookup_none hl, hn⟩

theorem cells_flatMap {α β} {w : World} {ks : List Key} (τ : Asg) (rs : List (Env × α))
    (f : Env × α → List (Env × β)) (hf : ∀ a ∈ rs, ∀ p ∈ f a, Ext w ks a.1 p.1) :
    cells τ (rs.flatMap f) = (cells τ rs).flatMap fun a => cells τ (f a) := by
  induction rs with
  | nil => simp [cells]
  | cons a t ih =>
    have iht := ih (fun a ha => hf a (List.mem_cons_of_mem _ ha))
    simp only [cells, List.flatMap_cons, List.filter_append] at iht ⊢
    rw [iht]
    by_cases ha : agreesB τ a.1 = true
    · simp [ha]
    · have : (f a).filter (fun p => agreesB τ p.1) = [] := by
        rw [List.filter_eq_nil_iff]
        intro p hp hpa
        exact ha ((hf a (List.mem_cons_self) p hp).agrees hpa)
      simp [ha, this]

theorem cells_map_fst {α β} (τ : Asg) (rs : List (Env × α)) (f : Env × α → Env × β)
    (hf : ∀ p ∈ rs, (f p).1 = p.1) : cells τ (rs.map f) = (cells τ rs).map f := by
  simp only [cells, List.filter_map]
  congr 1
  apply List.filter_congr
  intro p hp
  simp [Function.comp, hf p hp]

theorem map_eq_single {α β} {f : α → β} {l : List α} {y : β} (h : l.map f = [y]) :
    ∃ a, l = [a] ∧ f a = y := by
  match l, h with
  | [a], h => exact ⟨a, rfl, by simpa using h⟩

theorem cells_single {α β} {τ : Asg} {rs : List (Env × α)} {f : Env × α → β} {t : β}
    (h : (cells τ rs).map f = [t]) : ∃ a, cells τ rs = [a] ∧ f a = t ∧ a ∈ rs ∧ agreesB τ a.1 = true := by
  obtain ⟨a, ha, hat⟩ := map_eq_single h
  have : a ∈ cells τ rs := by rw [ha]; simp
  have hm := List.mem_filter.mp this
  exact ⟨a, ha, hat, hm.1, hm.2⟩

/-! ## 5. Terms -/

/-- the attribute / index step over the operand results of the child term -/
def mapVal (cp : Bool) (op : Val → Except Err Val) (rs : List (Env × Val × Bool)) :
    Except Err (List (Env × Val × Bool)) :=
  rs.mapM fun r => do
    let x ← op r.2.1
    pure (r.1, x, if cp then truthy x else true)

theorem evalTerm_attr (w : World) (cp : Bool) (t : Term) (n : AttrName) (env : Env) :
    evalTerm w cp (.attr t n) env = (evalTerm w false t env >>= mapVal cp (fun x => getAttr w x n)) := rfl

theorem evalTerm_index (w : World) (cp : Bool) (t : Term) (i : Nat) (env : Env) :
    evalTerm w cp (.index t i) env = (evalTerm w false t env >>= mapVal cp (fun x => getIndex x i)) := rfl

theorem mapVal_ok {cp : Bool} {op : Val → Except Err Val} {rs0 rs : List (Env × Val × Bool)}
    (h : mapVal cp op rs0 = .ok rs) :
    ∃ g : Env × Val × Bool → Val, (∀ r ∈ rs0, op r.2.1 = .ok (g r)) ∧
      rs = rs0.map fun r => (r.1, g r, if cp then truthy (g r) else true) := by
  obtain ⟨g0, hg0, rfl⟩ := mapM_ok h
  refine ⟨fun r => okOr .none (op r.2.1), ?_, ?_⟩
  · intro r hr
    obtain ⟨x, hx, _⟩ := bind_ok (hg0 r hr)
    simp only [hx, okOr]
  · apply List.map_congr_left
    intro r hr
    obtain ⟨x, hx, h2⟩ := bind_ok (hg0 r hr)
    have := pure_ok h2
    simp only [hx, okOr]; exact this.symm

theorem evalVar_mem {w : World} {cp : Bool} {v : VarId} {env : Env} {p : Env × Val × Bool}
    (hp : p ∈ evalVarAt w cp v env) :
    (∃ y, env.lookup (.var v) = some y ∧ p = (env, y, boundFlag cp y)) ∨
    (env.lookup (.var v) = none ∧ ∃ y ∈ w.dom v, p = ((.var v, y) :: env, y, true)) := by
  unfold evalVarAt at hp
  split at hp
  · rename_i y hy; left; exact ⟨y, hy, by simpa using hp⟩
  · rename_i hn; right
    simp only [List.mem_map] at hp
    obtain ⟨y, hy, rfl⟩ := hp
    exact ⟨hn, y, hy, rfl⟩

theorem evalLit_cases (w : World) (cp : Bool) (id : Nat) (x : Val) (env : Env) :
    (∃ y, env.lookup (.lit id) = some y ∧ evalTerm w cp (.lit id x) env = .ok [(env, y, boundFlag cp y)]) ∨
    (env.lookup (.lit id) = none ∧ evalTerm w cp (.lit id x) env = .ok [((.lit id, x) :: env, x, true)]) := by
  unfold evalTerm
  cases h : env.lookup (.lit id) with
  | some y => left; exact ⟨y, rfl, rfl⟩
  | none => right; exact ⟨rfl, rfl⟩

/-- results of a term only extend the environment, by bindings for the term's own node -/
theorem evalTerm_ext (w : World) (t : Term) :
    ∀ cp env rs, evalTerm w cp t env = .ok rs → ∀ p ∈ rs, Ext w t.nodes env p.1 := by
  induction t with
  | var v =>
    intro cp env rs h p hp
    simp only [evalTerm] at h; cases h
    rcases evalVar_mem hp with ⟨y, _, rfl⟩ | ⟨hn, y, hy, rfl⟩
    · exact Ext.refl _ _ _
    · exact Ext.cons hn (by intro v' hv'; cases hv'; exact hy)
  | lit id x =>
    intro cp env rs h p hp
    rcases evalLit_cases w cp id x env with ⟨y, _, he⟩ | ⟨hn, he⟩
    · rw [he] at h; cases h; simp only [List.mem_singleton] at hp; subst hp; exact Ext.refl _ _ _
    · rw [he] at h; cases h; simp only [List.mem_singleton] at hp; subst hp
      exact Ext.cons hn (by intro v' hv'; cases hv')
  | attr t n ih =>
    intro cp env rs h p hp
    rw [evalTerm_attr] at h
    obtain ⟨rs0, h0, h⟩ := bind_ok h
    obtain ⟨g, _, rfl⟩ := mapVal_ok h
    simp only [List.mem_map] at hp; obtain ⟨r, hr, rfl⟩ := hp
    exact ih false env rs0 h0 r hr
  | index t i ih =>
    intro cp env rs h p hp
    rw [evalTerm_index] at h
    obtain ⟨rs0, h0, h⟩ := bind_ok h
    obtain ⟨g, _, rfl⟩ := mapVal_ok h
    simp only [List.mem_map] at hp; obtain ⟨r, hr, rfl⟩ := hp
    exact ih false env rs0 h0 r hr
  | flatten t ih =>
    intro cp env rs h p hp
    simp only [evalTerm] at h
    obtain ⟨rs0, h0, h⟩ := bind_ok h
    obtain ⟨g, hg, rfl⟩ := flatMapM_ok h
    simp only [List.mem_flatMap] at hp; obtain ⟨r, hr, hp⟩ := hp
    obtain ⟨xs, _, h2⟩ := bind_ok (hg r hr)
    rw [← pure_ok h2] at hp
    simp only [List.mem_map] at hp; obtain ⟨x, _, rfl⟩ := hp
    exact ih false env rs0 h0 r hr

/-- every result of a term binds the term's node -/
theorem evalTerm_binds (w : World) (t : Term) :
    ∀ cp env rs, evalTerm w cp t env = .ok rs → ∀ p ∈ rs, ∀ k ∈ t.nodes, (p.1.lookup k).isSome = true := by
  induction t with
  | var v =>
    intro cp env rs h p hp k hk
    simp only [evalTerm] at h; cases h
    simp only [Term.nodes, List.mem_singleton] at hk; subst hk
    rcases evalVar_mem hp with ⟨y, hy, rfl⟩ | ⟨hn, y, hy, rfl⟩
    · simp [hy]
    · simp
  | lit id x =>
    intro cp env rs h p hp k hk
    simp only [Term.nodes, List.mem_singleton] at hk; subst hk
    rcases evalLit_cases w cp id x env with ⟨y, hy, he⟩ | ⟨hn, he⟩
    · rw [he] at h; cases h; simp only [List.mem_singleton] at hp; subst hp; simp [hy]
    · rw [he] at h; cases h; simp only [List.mem_singleton] at hp; subst hp; simp
  | attr t n ih =>
    intro cp env rs h p hp
    rw [evalTerm_attr] at h
    obtain ⟨rs0, h0, h⟩ := bind_ok h
    obtain ⟨g, _, rfl⟩ := mapVal_ok h
    simp only [List.mem_map] at hp; obtain ⟨r, hr, rfl⟩ := hp
    exact ih false env rs0 h0 r hr
  | index t i ih =>
    intro cp env rs h p hp
    rw [evalTerm_index] at h
    obtain ⟨rs0, h0, h⟩ := bind_ok h
    obtain ⟨g, _, rfl⟩ := mapVal_ok h
    simp only [List.mem_map] at hp; obtain ⟨r, hr, rfl⟩ := hp
    exact ih false env rs0 h0 r hr
  | flatten t ih =>
    intro cp env rs h p hp
    simp only [evalTerm] at h
    obtain ⟨rs0, h0, h⟩ := bind_ok h
    obtain ⟨g, hg, rfl⟩ := flatMapM_ok h
    simp only [List.mem_flatMap] at hp; obtain ⟨r, hr, hp⟩ := hp
    obtain ⟨xs, _, h2⟩ := bind_ok (hg r hr)
    rw [← pure_ok h2] at hp
    simp only [List.mem_map] at hp; obtain ⟨x, _, rfl⟩ := hp
    exact ih false env rs0 h0 r hr

/-- in operand position every result of a term is flagged true — whatever the bound values are (since the repair
of F-C01-3 a falsy bound value is an operand like any other) -/
theorem evalTerm_flag_operand (w : World) (t : Term) {env : Env} {rs : List (Env × Val × Bool)}
    (h : evalTerm w false t env = .ok rs) :
    ∀ p ∈ rs, p.2.2 = true := by
  intro p hp
  cases t with
  | var v =>
    simp only [evalTerm] at h; cases h
    rcases evalVar_mem hp with ⟨y, hy, rfl⟩ | ⟨hn, y, hy, rfl⟩
    · rfl
    · rfl
  | lit id x =>
    rcases evalLit_cases w false id x env with ⟨y, hy, he⟩ | ⟨hn, he⟩
    · rw [he] at h; cases h; simp only [List.mem_singleton] at hp; subst hp; rfl
    · rw [he] at h; cases h; simp only [List.mem_singleton] at hp; subst hp; rfl
  | attr t n =>
    rw [evalTerm_attr] at h
    obtain ⟨rs0, h0, h⟩ := bind_ok h
    obtain ⟨g, _, rfl⟩ := mapVal_ok h
    simp only [List.mem_map] at hp; obtain ⟨r, hr, rfl⟩ := hp
    rfl
  | index t i =>
    rw [evalTerm_index] at h
    obtain ⟨rs0, h0, h⟩ := bind_ok h
    obtain ⟨g, _, rfl⟩ := mapVal_ok h
    simp only [List.mem_map] at hp; obtain ⟨r, hr, rfl⟩ := hp
    rfl
  | flatten t =>
    simp only [evalTerm] at h
    obtain ⟨rs0, h0, h⟩ := bind_ok h
    obtain ⟨g, hg, rfl⟩ := flatMapM_ok h
    simp only [List.mem_flatMap] at hp; obtain ⟨r, hr, hp⟩ := hp
    obtain ⟨xs, _, h2⟩ := bind_ok (hg r hr)
    rw [← pure_ok h2] at hp
    simp only [List.mem_map] at hp; obtain ⟨x, _, rfl⟩ := hp
    rfl

/-- in condition position an attribute/index chain is flagged with the truthiness of its value -/
theorem evalTerm_flag_cond (w : World) (t : Term) (hc : t.isChain = true) {env : Env}
    {rs : List (Env × Val × Bool)} (h : evalTerm w true t env = .ok rs) :
    ∀ p ∈ rs, p.2.2 = truthy p.2.1 := by
  intro p hp
  cases t with
  | attr t n =>
    rw [evalTerm_attr] at h
    obtain ⟨rs0, h0, h⟩ := bind_ok h
    obtain ⟨g, _, rfl⟩ := mapVal_ok h
    simp only [List.mem_map] at hp; obtain ⟨r, hr, rfl⟩ := hp
    rfl
  | index t i =>
    rw [evalTerm_index] at h
    obtain ⟨rs0, h0, h⟩ := bind_ok h
    obtain ⟨g, _, rfl⟩ := mapVal_ok h
    simp only [List.mem_map] at hp; obtain ⟨r, hr, rfl⟩ := hp
    rfl
  | _ => simp [Term.isChain] at hc

theorem filter_beq_single {l : List Val} {x : Val} (h : l.count x = 1) : l.filter (· == x) = [x] := by
  rw [List.filter_beq, h]; rfl

theorem cells_dom (τ : Asg) (env : Env) (v : VarId) (x : Val) (hag : agreesB τ env = true)
    (hτ : τ.lookup v = some x) (l : List Val) :
    (cells τ (l.map fun y => ((Key.var v, y) :: env, y, true))).map (·.2.1) = l.filter (· == x) := by
  induction l with
  | nil => rfl
  | cons y t ih =>
    simp only [cells] at ih
    simp only [List.map_cons, cells, List.filter_cons, agreesB_cons_var, hτ, hag, Bool.and_true]
    by_cases hxy : y = x
    · subst hxy; simp [ih]
    · have h1 : (some x == some y) = false := by simp; exact fun h => hxy h.symm
      have h2 : (y == x) = false := by simp [hxy]
      simp [h1, h2, ih]

/-- the assignment `τ` gives every variable in `vs` a value that occurs exactly once in its domain -/
def Covers (w : World) (τ : Asg) (vs : List VarId) : Prop :=
  ∀ v ∈ vs, ∃ x, τ.lookup v = some x ∧ (w.dom v).count x = 1

/-- **term cover**: exactly one result of a `flatten`-free term is compatible with `τ`; its value is the
term's value under `τ` -/
theorem evalTerm_cover (w : World) (τ : Asg) (t : Term) :
    ∀ cp env rs x, t.noFlat = true → Covers w τ t.vars → LitFresh t.nodes env → agreesB τ env = true →
      evalTerm w cp t env = .ok rs → tval w τ t = .ok x → (cells τ rs).map (·.2.1) = [x] := by
  induction t with
  | var v =>
    intro cp env rs x _ hcov _ hag h htv
    simp only [evalTerm] at h; cases h
    obtain ⟨x', hx', hc⟩ := hcov v (by simp [Term.vars])
    simp only [tval, hx'] at htv; cases htv
    unfold evalVarAt
    split
    · rename_i y hy
      have := agreesB_iff.mp hag v y (lookup_mem' hy)
      rw [hx'] at this; cases this
      simp [cells, hag]
    · rw [cells_dom τ env v x hag hx', filter_beq_single hc]
  | lit id y =>
    intro cp env rs x _ _ hl hag h htv
    simp only [tval] at htv; cases htv
    rcases evalLit_cases w cp id y env with ⟨z, hz, he⟩ | ⟨hn, he⟩
    · rw [hl id (by simp [Term.nodes])] at hz; cases hz
    · rw [he] at h; cases h
      simp [cells, agreesB_cons_lit, hag]
  | attr t n ih =>
    intro cp env rs x hnf hcov hl hag h htv
    rw [evalTerm_attr] at h
    obtain ⟨rs0, h0, h⟩ := bind_ok h
    obtain ⟨g, hg, rfl⟩ := mapVal_ok h
    simp only [tval] at htv
    obtain ⟨x0, hx0, hx⟩ := bind_ok htv
    obtain ⟨a, hca, hav, ham, _⟩ := cells_single (ih false env rs0 x0 hnf hcov hl hag h0 hx0)
    rw [cells_map_fst τ rs0 (fun r => (r.fst, g r, if cp = true then truthy (g r) else true))
      (fun _ _ => rfl), hca]
    have := hg a ham
    rw [hav, hx] at this; cases this
    rfl
  | index t i ih =>
    intro cp env rs x hnf hcov hl hag h htv
    rw [evalTerm_index] at h
    obtain ⟨rs0, h0, h⟩ := bind_ok h
    obtain ⟨g, hg, rfl⟩ := mapVal_ok h
    simp only [tval] at htv
    obtain ⟨x0, hx0, hx⟩ := bind_ok htv
    obtain ⟨a, hca, hav, ham, _⟩ := cells_single (ih false env rs0 x0 hnf hcov hl hag h0 hx0)
    rw [cells_map_fst τ rs0 (fun r => (r.fst, g r, if cp = true then truthy (g r) else true))
      (fun _ _ => rfl), hca]
    have := hg a ham
    rw [hav, hx] at this; cases this
    rfl
  | flatten t _ => intro cp env rs x hnf; simp [Term.noFlat] at hnf

/-! ## 6. Comparators -/

/-- `evalCmp` with the order of evaluation made explicit: `f` is evaluated first, `s` second -/
def evalCmpCore (w : World) (f s : Term) (cmb : Val → Val → Except Err Bool) (env : Env) :
    Except Err (List (Env × Bool)) := do
  let r1 ← evalTerm w false f env
  flatMapM (r1.filter (·.2.2)) fun p1 => do
    let r2 ← evalTerm w false s p1.1
    (r2.filter (·.2.2)).mapM fun p2 => do
      let b ← cmb p1.2.1 p2.2.1
      pure (p2.1, b)

theorem evalCmp_eq (w : World) (l r : Term) (op : Val → Val → Except Err Bool) (env : Env) :
    evalCmp w l r op env = evalCmpCore w l r op env ∨
    evalCmp w l r op env = evalCmpCore w r l (fun a b => op b a) env := by
  unfold evalCmp evalCmpCore
  cases (!env.isEmpty && envHasAny env r.nodes)
  · left; rfl
  · right; rfl

theorem evalCmpCore_inv {w : World} {f s : Term} {cmb : Val → Val → Except Err Bool} {env : Env}
    {rs : List (Env × Bool)} (h : evalCmpCore w f s cmb env = .ok rs) :
    ∃ r1 g, evalTerm w false f env = .ok r1 ∧ rs = (r1.filter (·.2.2)).flatMap g ∧
      ∀ p1 ∈ r1.filter (·.2.2), ∃ (r2 : List (Env × Val × Bool)) (c : Env × Val × Bool → Bool),
        evalTerm w false s p1.1 = .ok r2 ∧
        (∀ p2 ∈ r2.filter (·.2.2), cmb p1.2.1 p2.2.1 = .ok (c p2)) ∧
        g p1 = (r2.filter (·.2.2)).map fun p2 => (p2.1, c p2) := by
  unfold evalCmpCore at h
  obtain ⟨r1, h1, h⟩ := bind_ok h
  obtain ⟨g, hg, rfl⟩ := flatMapM_ok h
  refine ⟨r1, g, h1, rfl, ?_⟩
  intro p1 hp1
  obtain ⟨r2, h2, h3⟩ := bind_ok (hg p1 hp1)
  obtain ⟨g0, hg0, h4⟩ := mapM_ok h3
  refine ⟨r2, fun p2 => (g0 p2).2, h2, ?_, ?_⟩
  · intro p2 hp2
    obtain ⟨b, hb, h5⟩ := bind_ok (hg0 p2 hp2)
    show _ = Except.ok (g0 p2).2
    rw [← pure_ok h5]; exact hb
  · rw [h4]
    apply List.map_congr_left
    intro p2 hp2
    obtain ⟨b, hb, h5⟩ := bind_ok (hg0 p2 hp2)
    show g0 p2 = (p2.1, (g0 p2).2)
    rw [← pure_ok h5]

theorem evalCmpCore_ext {w : World} {f s : Term} {cmb : Val → Val → Except Err Bool} {env : Env}
    {rs : List (Env × Bool)} (h : evalCmpCore w f s cmb env = .ok rs) :
    ∀ p ∈ rs, Ext w (f.nodes ++ s.nodes) env p.1 := by
  obtain ⟨r1, g, h1, rfl, hg⟩ := evalCmpCore_inv h
  intro p hp
  simp only [List.mem_flatMap] at hp
  obtain ⟨p1, hp1, hp⟩ := hp
  obtain ⟨r2, c, h2, _, hgp⟩ := hg p1 hp1
  rw [hgp] at hp
  simp only [List.mem_map] at hp
  obtain ⟨p2, hp2, rfl⟩ := hp
  exact (evalTerm_ext w f false env r1 h1 p1 (List.mem_filter.mp hp1).1).trans
    (evalTerm_ext w s false p1.1 r2 h2 p2 (List.mem_filter.mp hp2).1)

theorem evalCmpCore_binds {w : World} {f s : Term} {cmb : Val → Val → Except Err Bool} {env : Env}
    {rs : List (Env × Bool)} (h : evalCmpCore w f s cmb env = .ok rs) :
    ∀ p ∈ rs, ∀ k ∈ f.nodes ++ s.nodes, (p.1.lookup k).isSome = true := by
  obtain ⟨r1, g, h1, rfl, hg⟩ := evalCmpCore_inv h
  intro p hp k hk
  simp only [List.mem_flatMap] at hp
  obtain ⟨p1, hp1, hp⟩ := hp
  obtain ⟨r2, c, h2, _, hgp⟩ := hg p1 hp1
  rw [hgp] at hp
  simp only [List.mem_map] at hp
  obtain ⟨p2, hp2, rfl⟩ := hp
  have hm1 := (List.mem_filter.mp hp1).1
  have hm2 := (List.mem_filter.mp hp2).1
  rcases List.mem_append.mp hk with hk | hk
  · exact (evalTerm_ext w s false p1.1 r2 h2 p2 hm2).isSome (evalTerm_binds w f false env r1 h1 p1 hm1 k hk)
  · exact evalTerm_binds w s false p1.1 r2 h2 p2 hm2 k hk

theorem evalCmpCore_cover {w : World} {τ : Asg} {f s : Term}
    {cmb : Val → Val → Except Err Bool} {env : Env} {rs : List (Env × Bool)} {a b : Val} {c : Bool}
    (hnf : f.noFlat = true) (hns : s.noFlat = true) (hcf : Covers w τ f.vars) (hcs : Covers w τ s.vars)
    (hlf : LitFresh f.nodes env) (hls : LitFresh s.nodes env)
    (hd : ∀ i, Key.lit i ∈ f.nodes → Key.lit i ∉ s.nodes)
    (hag : agreesB τ env = true)
    (h : evalCmpCore w f s cmb env = .ok rs)
    (ha : tval w τ f = .ok a) (hb : tval w τ s = .ok b) (hc : cmb a b = .ok c) :
    (cells τ rs).map (·.2) = [c] := by
  obtain ⟨r1, g, h1, rfl, hg⟩ := evalCmpCore_inv h
  have hf1 : r1.filter (·.2.2) = r1 :=
    List.filter_eq_self.mpr (evalTerm_flag_operand w f h1)
  rw [hf1] at hg ⊢
  have hext1 := evalTerm_ext w f false env r1 h1
  rw [cells_flatMap (w := w) (ks := s.nodes) τ r1 g (by
    intro p1 hp1 p hp
    obtain ⟨r2, c', h2, _, hgp⟩ := hg p1 hp1
    rw [hgp] at hp
    simp only [List.mem_map] at hp
    obtain ⟨p2, hp2, rfl⟩ := hp
    exact evalTerm_ext w s false p1.1 r2 h2 p2 (List.mem_filter.mp hp2).1)]
  obtain ⟨p1, hc1, hv1, hm1, hag1⟩ := cells_single (evalTerm_cover w τ f false env r1 a hnf hcf hlf hag h1 ha)
  rw [hc1]
  simp only [List.flatMap_cons, List.flatMap_nil, List.append_nil]
  obtain ⟨r2, c', h2, hc', hgp⟩ := hg p1 hm1
  have hx1 := hext1 p1 hm1
  have hls1 : LitFresh s.nodes p1.1 := hx1.litFresh hls hd
  have hf2 : r2.filter (·.2.2) = r2 :=
    List.filter_eq_self.mpr (evalTerm_flag_operand w s h2)
  rw [hf2] at hgp hc'
  rw [hgp, cells_map_fst τ r2 (fun p2 => (p2.1, c' p2)) (fun _ _ => rfl)]
  obtain ⟨p2, hc2, hv2, hm2, _⟩ := cells_single (evalTerm_cover w τ s false p1.1 r2 b hns hcs hls1 hag1 h2 hb)
  rw [hc2]
  have := hc' p2 hm2
  rw [hv1, hv2, hc] at this
  cases this
  rfl

theorem evalCmp_ext {w : World} {l r : Term} {op : Val → Val → Except Err Bool} {env : Env}
    {rs : List (Env × Bool)} (h : evalCmp w l r op env = .ok rs) :
    ∀ p ∈ rs, Ext w (l.nodes ++ r.nodes) env p.1 := by
  rcases evalCmp_eq w l r op env with he | he
  · rw [he] at h; exact evalCmpCore_ext h
  · rw [he] at h
    intro p hp
    exact (evalCmpCore_ext h p hp).mono (by intro k hk; simp only [List.mem_append] at hk ⊢; exact hk.symm)

theorem evalCmp_binds {w : World} {l r : Term} {op : Val → Val → Except Err Bool} {env : Env}
    {rs : List (Env × Bool)} (h : evalCmp w l r op env = .ok rs) :
    ∀ p ∈ rs, ∀ k ∈ l.nodes ++ r.nodes, (p.1.lookup k).isSome = true := by
  rcases evalCmp_eq w l r op env with he | he
  · rw [he] at h; exact evalCmpCore_binds h
  · rw [he] at h
    intro p hp k hk
    exact evalCmpCore_binds h p hp k (by simp only [List.mem_append] at hk ⊢; exact hk.symm)

theorem evalCmp_cover {w : World} {τ : Asg} {l r : Term}
    {op : Val → Val → Except Err Bool} {env : Env} {rs : List (Env × Bool)} {a b : Val} {c : Bool}
    (hnl : l.noFlat = true) (hnr : r.noFlat = true) (hcov : Covers w τ (l.vars ++ r.vars))
    (hlf : LitFresh (l.nodes ++ r.nodes) env) (hln : (litIds (l.nodes ++ r.nodes)).Nodup)
    (hag : agreesB τ env = true)
    (h : evalCmp w l r op env = .ok rs)
    (ha : tval w τ l = .ok a) (hb : tval w τ r = .ok b) (hc : op a b = .ok c) :
    (cells τ rs).map (·.2) = [c] := by
  have hcl : Covers w τ l.vars := fun v hv => hcov v (List.mem_append_left _ hv)
  have hcr : Covers w τ r.vars := fun v hv => hcov v (List.mem_append_right _ hv)
  have hll : LitFresh l.nodes env := hlf.mono fun k hk => List.mem_append_left _ hk
  have hlr : LitFresh r.nodes env := hlf.mono fun k hk => List.mem_append_right _ hk
  have hd := (litNodup_append hln).2.2
  rcases evalCmp_eq w l r op env with he | he
  · rw [he] at h
    exact evalCmpCore_cover hnl hnr hcl hcr hll hlr hd hag h ha hb hc
  · rw [he] at h
    exact evalCmpCore_cover hnr hnl hcr hcl hlr hll (fun i hi hi' => hd i hi' hi) hag h hb ha hc

theorem tvals_noFlat (w : World) (σ : Asg) (t : Term) (h : t.noFlat = true) :
    tvals w σ t = (tval w σ t >>= fun x => pure [x]) := by
  induction t with
  | var v => simp only [tvals, tval]; cases σ.lookup v <;> rfl
  | lit i x => rfl
  | attr t n ih =>
    simp only [tvals, tval, ih h]
    cases tval w σ t with
    | error e => rfl
    | ok x =>
      show List.mapM (fun x => getAttr w x n) [x] = (getAttr w x n >>= fun y => pure [y])
      rw [List.mapM_cons, List.mapM_nil]
      cases getAttr w x n <;> rfl
  | index t i ih =>
    simp only [tvals, tval, ih h]
    cases tval w σ t with
    | error e => rfl
    | ok x =>
      show List.mapM (fun x => getIndex x i) [x] = (getIndex x i >>= fun y => pure [y])
      rw [List.mapM_cons, List.mapM_nil]
      cases getIndex x i <;> rfl
  | flatten t _ => simp [Term.noFlat] at h

theorem tvals_ok_noFlat {w : World} {σ : Asg} {t : Term} (h : t.noFlat = true) {xs : List Val}
    (hx : tvals w σ t = .ok xs) : ∃ x, tval w σ t = .ok x ∧ xs = [x] := by
  rw [tvals_noFlat w σ t h] at hx
  obtain ⟨x, hx1, hx2⟩ := bind_ok hx
  exact ⟨x, hx1, (pure_ok hx2).symm⟩

theorem anyM_single {α} {x : α} {f : α → Except Err Bool} {b : Bool} (h : anyM [x] f = .ok b) :
    f x = .ok b := by
  simp only [anyM] at h
  obtain ⟨a, ha, h⟩ := bind_ok h
  obtain ⟨c, hc, h⟩ := bind_ok h
  cases hc
  rw [← pure_ok h, ha]; simp

theorem satCmp_inv {w : World} {σ : Asg} {l r : Term} {op : Val → Val → Except Err Bool} {c : Bool}
    (hl : l.noFlat = true) (hr : r.noFlat = true)
    (h : (do let ls ← tvals w σ l; let rs ← tvals w σ r
             anyM ls fun a => anyM rs fun b => op a b) = .ok c) :
    ∃ a b, tval w σ l = .ok a ∧ tval w σ r = .ok b ∧ op a b = .ok c := by
  obtain ⟨ls, h1, h⟩ := bind_ok h
  obtain ⟨rs, h2, h⟩ := bind_ok h
  obtain ⟨a, ha, rfl⟩ := tvals_ok_noFlat hl h1
  obtain ⟨b, hb, rfl⟩ := tvals_ok_noFlat hr h2
  exact ⟨a, b, ha, hb, anyM_single (anyM_single h)⟩

/-! ## 7. Expressions: inversion, extension, cover -/

theorem Term.isChain_noFlat {t : Term} (h : t.isChain = true) : t.noFlat = true := by
  cases t <;> simp_all [Term.isChain, Term.noFlat]

theorem eval_truth_inv {w : World} {t : Term} {env : Env} {rs : List (Env × Bool)}
    (h : eval w (.truth t) env = .ok rs) :
    ∃ rs0, evalTerm w true t env = .ok rs0 ∧ rs = rs0.map fun r => (r.1, r.2.2) := by
  simp only [eval] at h
  obtain ⟨rs0, h0, h⟩ := bind_ok h
  exact ⟨rs0, h0, (pure_ok h).symm⟩

theorem eval_hasType_inv {w : World} {t : Term} {c : Nat} {env : Env} {rs : List (Env × Bool)}
    (h : eval w (.hasType t c) env = .ok rs) :
    ∃ rs0, evalTerm w false t env = .ok rs0 ∧ rs = rs0.map fun r => (r.1, isInstance w r.2.1 c) := by
  simp only [eval] at h
  obtain ⟨rs0, h0, h⟩ := bind_ok h
  exact ⟨rs0, h0, (pure_ok h).symm⟩

theorem eval_not_inv {w : World} {e : Expr} {env : Env} {rs : List (Env × Bool)}
    (h : eval w (.not e) env = .ok rs) :
    ∃ rs0, eval w e env = .ok rs0 ∧ rs = rs0.map fun p => (p.1, !p.2) := by
  simp only [eval] at h
  obtain ⟨rs0, h0, h⟩ := bind_ok h
  exact ⟨rs0, h0, (pure_ok h).symm⟩

theorem eval_and_inv {w : World} {l r : Expr} {env : Env} {rs : List (Env × Bool)}
    (h : eval w (.and l r) env = .ok rs) :
    ∃ ls g, eval w l env = .ok ls ∧ rs = ls.flatMap g ∧
      ∀ a ∈ ls, (a.2 = true → eval w r a.1 = .ok (g a)) ∧ (a.2 = false → g a = [(a.1, false)]) := by
  simp only [eval] at h
  obtain ⟨ls, h0, h⟩ := bind_ok h
  obtain ⟨g, hg, rfl⟩ := flatMapM_ok h
  refine ⟨ls, g, h0, rfl, ?_⟩
  intro a ha
  have := hg a ha
  constructor
  · intro h2; rw [h2] at this; exact this
  · intro h2; rw [h2] at this; exact (pure_ok this).symm

theorem eval_elseIf_inv {w : World} {l r : Expr} {env : Env} {rs : List (Env × Bool)}
    (h : eval w (.elseIf l r) env = .ok rs) :
    ∃ ls g, eval w l env = .ok ls ∧ rs = ls.flatMap g ∧
      ∀ a ∈ ls, (a.2 = true → g a = [(a.1, true)]) ∧ (a.2 = false → eval w r a.1 = .ok (g a)) := by
  simp only [eval] at h
  obtain ⟨ls, h0, h⟩ := bind_ok h
  obtain ⟨g, hg, rfl⟩ := flatMapM_ok h
  refine ⟨ls, g, h0, rfl, ?_⟩
  intro a ha
  have := hg a ha
  constructor
  · intro h2; rw [h2] at this; exact (pure_ok this).symm
  · intro h2; rw [h2] at this; exact this

theorem subset_append_left {α} (a b : List α) : ∀ k ∈ a, k ∈ a ++ b := fun _ h => List.mem_append_left _ h
theorem subset_append_right {α} (a b : List α) : ∀ k ∈ b, k ∈ a ++ b := fun _ h => List.mem_append_right _ h

/-- every result environment extends the input environment by bindings for nodes of `e` only; new variable
bindings come from the domains; keys stay duplicate-free -/
theorem eval_ext (w : World) (e : Expr) :
    e.Fc = true → ∀ env rs, eval w e env = .ok rs → ∀ p ∈ rs, Ext w e.nodes env p.1 := by
  induction e with
  | cmp op l r => intro _ env rs h; simp only [eval] at h; exact evalCmp_ext h
  | contains c i => intro _ env rs h; simp only [eval] at h; exact evalCmp_ext h
  | truth t =>
    intro _ env rs h p hp
    obtain ⟨rs0, h0, rfl⟩ := eval_truth_inv h
    simp only [List.mem_map] at hp; obtain ⟨r, hr, rfl⟩ := hp
    exact evalTerm_ext w t true env rs0 h0 r hr
  | hasType t c =>
    intro _ env rs h p hp
    obtain ⟨rs0, h0, rfl⟩ := eval_hasType_inv h
    simp only [List.mem_map] at hp; obtain ⟨r, hr, rfl⟩ := hp
    exact evalTerm_ext w t false env rs0 h0 r hr
  | and l r ihl ihr =>
    intro hF env rs h p hp
    simp only [Expr.Fc, Bool.and_eq_true] at hF
    obtain ⟨ls, g, h0, rfl, hg⟩ := eval_and_inv h
    simp only [List.mem_flatMap] at hp; obtain ⟨a, ha, hp⟩ := hp
    have hxa := ihl hF.1 env ls h0 a ha
    cases ha2 : a.2 with
    | true => exact hxa.trans (ihr hF.2 a.1 _ ((hg a ha).1 ha2) p hp)
    | false =>
      rw [(hg a ha).2 ha2, List.mem_singleton] at hp; subst hp
      exact hxa.mono (subset_append_left _ _)
  | elseIf l r ihl ihr =>
    intro hF env rs h p hp
    simp only [Expr.Fc, Bool.and_eq_true] at hF
    obtain ⟨ls, g, h0, rfl, hg⟩ := eval_elseIf_inv h
    simp only [List.mem_flatMap] at hp; obtain ⟨a, ha, hp⟩ := hp
    have hxa := ihl hF.1 env ls h0 a ha
    cases ha2 : a.2 with
    | false => exact hxa.trans (ihr hF.2 a.1 _ ((hg a ha).2 ha2) p hp)
    | true =>
      rw [(hg a ha).1 ha2, List.mem_singleton] at hp; subst hp
      exact hxa.mono (subset_append_left _ _)
  | not e ih =>
    intro hF env rs h p hp
    simp only [Expr.Fc] at hF
    obtain ⟨rs0, h0, rfl⟩ := eval_not_inv h
    simp only [List.mem_map] at hp; obtain ⟨r, hr, rfl⟩ := hp
    exact ih hF env rs0 h0 r hr
  | union l r _ _ => intro hF; simp [Expr.Fc] at hF
  | exists_ v e _ => intro hF; simp [Expr.Fc] at hF
  | forAll v e _ => intro hF; simp [Expr.Fc] at hF

theorem any_single {α} (p : α → Bool) (x : α) : [x].any p = p x := by simp

/-- **cover** (C01_cover): for `e` in the cover fragment, every total assignment `τ` compatible with `env`
lies in exactly one result cell of `eval w e env`, and that cell's truth flag is the first-order truth value
of `e` under `τ`. The result cells form a decision-tree partition of the assignment space. -/
theorem cover (w : World) (τ : Asg) (e : Expr) :
    e.Fc = true → Covers w τ e.vars → LitNodup e →
    ∀ env rs b, LitFresh e.nodes env → agreesB τ env = true →
      eval w e env = .ok rs → satE w e τ = .ok b →
      ((rs.filter fun p => agreesB τ p.1).map (·.2)) = [b] := by
  induction e with
  | cmp op l r =>
    intro hF hcov hln env rs b hlf hag h hs
    simp only [Expr.Fc, Bool.and_eq_true] at hF
    simp only [eval] at h
    simp only [satE] at hs
    obtain ⟨a, b', ha, hb, hc⟩ := satCmp_inv hF.1 hF.2 hs
    exact evalCmp_cover hF.1 hF.2 hcov hlf hln hag h ha hb hc
  | contains c i =>
    intro hF hcov hln env rs b hlf hag h hs
    simp only [Expr.Fc, Bool.and_eq_true] at hF
    simp only [eval] at h
    simp only [satE] at hs
    obtain ⟨a, b', ha, hb, hc⟩ := satCmp_inv hF.1 hF.2 hs
    exact evalCmp_cover hF.1 hF.2 hcov hlf hln hag h ha hb hc
  | truth t =>
    intro hF hcov _ env rs b hlf hag h hs
    simp only [Expr.Fc] at hF
    obtain ⟨rs0, h0, rfl⟩ := eval_truth_inv h
    simp only [satE] at hs
    obtain ⟨xs, hxs, hb⟩ := bind_ok hs
    obtain ⟨x, hx, rfl⟩ := tvals_ok_noFlat (Term.isChain_noFlat hF) hxs
    have hb := pure_ok hb
    rw [any_single] at hb
    obtain ⟨a, hca, hav, ham, _⟩ := cells_single
      (evalTerm_cover w τ t true env rs0 x (Term.isChain_noFlat hF) hcov hlf hag h0 hx)
    show (cells τ _).map _ = _
    rw [cells_map_fst τ rs0 (fun r => (r.1, r.2.2)) (fun _ _ => rfl), hca]
    simp only [List.map_cons, List.map_nil]
    rw [evalTerm_flag_cond w t hF h0 a ham, hav, hb]
  | hasType t c =>
    intro hF hcov _ env rs b hlf hag h hs
    simp only [Expr.Fc] at hF
    obtain ⟨rs0, h0, rfl⟩ := eval_hasType_inv h
    simp only [satE] at hs
    obtain ⟨xs, hxs, hb⟩ := bind_ok hs
    obtain ⟨x, hx, rfl⟩ := tvals_ok_noFlat hF hxs
    have hb := pure_ok hb
    rw [any_single] at hb
    obtain ⟨a, hca, hav, ham, _⟩ := cells_single
      (evalTerm_cover w τ t false env rs0 x hF hcov hlf hag h0 hx)
    show (cells τ _).map _ = _
    rw [cells_map_fst τ rs0 (fun r => (r.1, isInstance w r.2.1 c)) (fun _ _ => rfl), hca]
    simp only [List.map_cons, List.map_nil]
    rw [hav, hb]
  | and l r ihl ihr =>
    intro hF hcov hln env rs b hlf hag h hs
    simp only [Expr.Fc, Bool.and_eq_true] at hF
    obtain ⟨ls, g, h0, rfl, hg⟩ := eval_and_inv h
    simp only [satE] at hs
    obtain ⟨bl, hbl, hs⟩ := bind_ok hs
    obtain ⟨br, hbr, hs⟩ := bind_ok hs
    have hb := pure_ok hs
    obtain ⟨hnl, hnr, hd⟩ := litNodup_append hln
    have hcl : Covers w τ l.vars := fun v hv => hcov v (List.mem_append_left _ hv)
    have hcr : Covers w τ r.vars := fun v hv => hcov v (List.mem_append_right _ hv)
    have hextl := eval_ext w l hF.1 env ls h0
    show (cells τ _).map _ = _
    rw [cells_flatMap (w := w) (ks := r.nodes) τ ls g (by
      intro a ha p hp
      cases ha2 : a.2 with
      | true => exact eval_ext w r hF.2 a.1 _ ((hg a ha).1 ha2) p hp
      | false =>
        rw [(hg a ha).2 ha2, List.mem_singleton] at hp; subst hp; exact Ext.refl _ _ _)]
    obtain ⟨a, hca, hav, ham, haa⟩ := cells_single
      (ihl hF.1 hcl hnl env ls bl (hlf.mono (subset_append_left _ _)) hag h0 hbl)
    rw [hca]
    simp only [List.flatMap_cons, List.flatMap_nil, List.append_nil]
    cases hbl2 : bl with
    | true =>
      rw [hbl2] at hav
      have := ihr hF.2 hcr hnr a.1 (g a) br
        ((hextl a ham).litFresh (hlf.mono (subset_append_right _ _)) hd) haa ((hg a ham).1 hav) hbr
      rw [← hb, hbl2]; exact this
    | false =>
      rw [hbl2] at hav
      rw [(hg a ham).2 hav, ← hb, hbl2]
      simp [cells, haa]
  | elseIf l r ihl ihr =>
    intro hF hcov hln env rs b hlf hag h hs
    simp only [Expr.Fc, Bool.and_eq_true] at hF
    obtain ⟨ls, g, h0, rfl, hg⟩ := eval_elseIf_inv h
    simp only [satE] at hs
    obtain ⟨bl, hbl, hs⟩ := bind_ok hs
    obtain ⟨br, hbr, hs⟩ := bind_ok hs
    have hb := pure_ok hs
    obtain ⟨hnl, hnr, hd⟩ := litNodup_append hln
    have hcl : Covers w τ l.vars := fun v hv => hcov v (List.mem_append_left _ hv)
    have hcr : Covers w τ r.vars := fun v hv => hcov v (List.mem_append_right _ hv)
    have hextl := eval_ext w l hF.1 env ls h0
    show (cells τ _).map _ = _
    rw [cells_flatMap (w := w) (ks := r.nodes) τ ls g (by
      intro a ha p hp
      cases ha2 : a.2 with
      | false => exact eval_ext w r hF.2 a.1 _ ((hg a ha).2 ha2) p hp
      | true =>
        rw [(hg a ha).1 ha2, List.mem_singleton] at hp; subst hp; exact Ext.refl _ _ _)]
    obtain ⟨a, hca, hav, ham, haa⟩ := cells_single
      (ihl hF.1 hcl hnl env ls bl (hlf.mono (subset_append_left _ _)) hag h0 hbl)
    rw [hca]
    simp only [List.flatMap_cons, List.flatMap_nil, List.append_nil]
    cases hbl2 : bl with
    | false =>
      rw [hbl2] at hav
      have := ihr hF.2 hcr hnr a.1 (g a) br
        ((hextl a ham).litFresh (hlf.mono (subset_append_right _ _)) hd) haa ((hg a ham).2 hav) hbr
      rw [← hb, hbl2]; exact this
    | true =>
      rw [hbl2] at hav
      rw [(hg a ham).1 hav, ← hb, hbl2]
      simp [cells, haa]
  | not e ih =>
    intro hF hcov hln env rs b hlf hag h hs
    simp only [Expr.Fc] at hF
    obtain ⟨rs0, h0, rfl⟩ := eval_not_inv h
    simp only [satE] at hs
    obtain ⟨b0, hb0, hs⟩ := bind_ok hs
    have hb := pure_ok hs
    obtain ⟨a, hca, hav, _, _⟩ := cells_single (ih hF hcov hln env rs0 b0 hlf hag h0 hb0)
    show (cells τ _).map _ = _
    rw [cells_map_fst τ rs0 (fun p => (p.1, !p.2)) (fun _ _ => rfl), hca]
    simp only [List.map_cons, List.map_nil]
    rw [hav, hb]
  | union l r _ _ => intro hF; simp [Expr.Fc] at hF
  | exists_ v e _ => intro hF; simp [Expr.Fc] at hF
  | forAll v e _ => intro hF; simp [Expr.Fc] at hF

end KrroodVerif.Eql
