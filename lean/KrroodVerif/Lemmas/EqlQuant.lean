import KrroodVerif.Lemmas.EqlF1
import KrroodVerif.Model.EqlQuantFrag
/-!
Lemmas for the C01 theorems about QUANTIFIED conditions (`Props/C01Quant.lean`). Core Lean only.

Fragment `Expr.Ql`: a chain `and l₁ (and l₂ (… Q))` (any nesting inside the `lᵢ`, which are in the cover fragment
`Expr.Fc`) that ENDS in one quantifier `Q = exists_ q φ` or `Q = forAll q φ` with `φ` in the cover fragment, under
decidable syntactic side conditions that exclude the recorded deviations of the engine:

* `exists_ q φ`: every result cell of `φ` binds `q` (else `KeyError`, F-C01-7) and every other variable of `φ` is
  already bound when the quantifier is reached (else the de-duplication on the value of `q` runs across different
  assignments of the free variables and drops answers, F-C01-5);
* `forAll q φ`: every TRUE result cell of `φ` binds every node of `φ` (else a candidate leaves a variable unbound and
  its re-check reads only the first result of a condition that now enumerates that variable, F-C01-11), and the
  universal domain is not empty (else `TypeError`, F-C01-6).

Contents: (Q1) free variables and the coincidence lemma; (Q2) which keys every result cell of a given truth value
binds; (Q3) literal bindings carry the literal's value; (Q4) evaluation with every node bound is deterministic;
(Q5) `Exists`; (Q6) `ForAll`; (Q7) the chain; (Q8) the query level.
-/
namespace KrroodVerif.Eql

/-! ## Q1. Free variables; the specification only reads them -/

/-- free variables of a core expression (a quantifier binds its variable) -/
def Expr.fvars : Expr → List VarId
  | .cmp _ l r => l.vars ++ r.vars
  | .contains c i => c.vars ++ i.vars
  | .truth t | .hasType t _ => t.vars
  | .and l r | .elseIf l r | .union l r => l.fvars ++ r.fvars
  | .not e => e.fvars
  | .exists_ v e | .forAll v e => e.fvars.filter (· != v)

/-! the copies in `Model/EqlQuantFrag.lean` ARE the definitions of `Lemmas/EqlCover.lean` / `EqlF1.lean` -/

@[simp] theorem Term.noFlatQ_eq (t : Term) : t.noFlatQ = t.noFlat := by
  induction t <;> simp_all [Term.noFlatQ, Term.noFlat]

@[simp] theorem Term.isChainQ_eq (t : Term) : t.isChainQ = t.isChain := by
  cases t <;> simp [Term.isChainQ, Term.isChain]

@[simp] theorem Term.noLitQ_eq (t : Term) : t.noLitQ = t.noLit := by
  induction t <;> simp_all [Term.noLitQ, Term.noLit]

@[simp] theorem Expr.FcQ_eq (e : Expr) : e.FcQ = e.Fc := by
  induction e <;> simp_all [Expr.FcQ, Expr.Fc]

theorem litIdsQ_eq (ks : List Key) : litIdsQ ks = litIds ks := rfl

theorem nodupNat_iff (l : List Nat) : nodupNat l = true ↔ l.Nodup := by
  induction l with
  | nil => simp [nodupNat]
  | cons x r ih => simp [nodupNat, ih]

theorem nodupVal_iff (l : List Val) : nodupVal l = true ↔ l.Nodup := by
  induction l with
  | nil => simp [nodupVal]
  | cons x r ih => simp [nodupVal, ih]

theorem Expr.fvars_Fc {e : Expr} (h : e.Fc = true) : e.fvars = e.vars := by
  induction e with
  | and l r ihl ihr => simp only [Expr.Fc, Bool.and_eq_true] at h; simp [Expr.fvars, Expr.vars, ihl h.1, ihr h.2]
  | elseIf l r ihl ihr => simp only [Expr.Fc, Bool.and_eq_true] at h; simp [Expr.fvars, Expr.vars, ihl h.1, ihr h.2]
  | not e ih => simp only [Expr.Fc] at h; simp [Expr.fvars, Expr.vars, ih h]
  | _ => simp_all [Expr.Fc, Expr.fvars, Expr.vars]

theorem Expr.qvars_Fc {e : Expr} (h : e.Fc = true) : e.qvars = [] := by
  induction e with
  | and l r ihl ihr => simp only [Expr.Fc, Bool.and_eq_true] at h; simp [Expr.qvars, ihl h.1, ihr h.2]
  | elseIf l r ihl ihr => simp only [Expr.Fc, Bool.and_eq_true] at h; simp [Expr.qvars, ihl h.1, ihr h.2]
  | not e ih => simp only [Expr.Fc] at h; simp [Expr.qvars, ih h]
  | _ => simp_all [Expr.Fc, Expr.qvars]

theorem tval_congr (w : World) {τ₁ τ₂ : Asg} (t : Term) (h : ∀ v ∈ t.vars, τ₁.lookup v = τ₂.lookup v) :
    tval w τ₁ t = tval w τ₂ t := by
  induction t with
  | var v => simp only [tval, h v (by simp [Term.vars])]
  | lit i x => rfl
  | attr t n ih => simp only [tval, ih h]
  | index t i ih => simp only [tval, ih h]
  | flatten t _ => rfl

theorem tvals_congr (w : World) {τ₁ τ₂ : Asg} (t : Term) (h : ∀ v ∈ t.vars, τ₁.lookup v = τ₂.lookup v) :
    tvals w τ₁ t = tvals w τ₂ t := by
  induction t with
  | var v => simp only [tvals, h v (by simp [Term.vars])]
  | lit i x => rfl
  | attr t n ih => simp only [tvals, ih h]
  | index t i ih => simp only [tvals, ih h]
  | flatten t ih => simp only [tvals, ih h]

theorem lookup_cons_congr {τ₁ τ₂ : Asg} {q u : VarId} {x : Val} (h : u ≠ q → τ₁.lookup u = τ₂.lookup u) :
    List.lookup u ((q, x) :: τ₁) = List.lookup u ((q, x) :: τ₂) := by
  rw [List.lookup_cons, List.lookup_cons]
  by_cases huq : u = q
  · subst huq; simp
  · have : (u == q) = false := by simp [huq]
    rw [this]; exact h huq

/-- **coincidence**: the first-order reading depends only on the values of the free variables -/
theorem satE_congr (w : World) (e : Expr) : ∀ τ₁ τ₂ : Asg, (∀ v ∈ e.fvars, τ₁.lookup v = τ₂.lookup v) →
    satE w e τ₁ = satE w e τ₂ := by
  induction e with
  | cmp op l r =>
    intro τ₁ τ₂ h
    simp only [Expr.fvars, List.mem_append] at h
    simp only [satE, tvals_congr w l (fun v hv => h v (Or.inl hv)), tvals_congr w r (fun v hv => h v (Or.inr hv))]
  | contains c i =>
    intro τ₁ τ₂ h
    simp only [Expr.fvars, List.mem_append] at h
    simp only [satE, tvals_congr w c (fun v hv => h v (Or.inl hv)), tvals_congr w i (fun v hv => h v (Or.inr hv))]
  | truth t => intro τ₁ τ₂ h; simp only [satE, tvals_congr w t h]
  | hasType t c => intro τ₁ τ₂ h; simp only [satE, tvals_congr w t h]
  | and l r ihl ihr =>
    intro τ₁ τ₂ h
    simp only [Expr.fvars, List.mem_append] at h
    simp only [satE, ihl τ₁ τ₂ (fun v hv => h v (Or.inl hv)), ihr τ₁ τ₂ (fun v hv => h v (Or.inr hv))]
  | elseIf l r ihl ihr =>
    intro τ₁ τ₂ h
    simp only [Expr.fvars, List.mem_append] at h
    simp only [satE, ihl τ₁ τ₂ (fun v hv => h v (Or.inl hv)), ihr τ₁ τ₂ (fun v hv => h v (Or.inr hv))]
  | union l r ihl ihr =>
    intro τ₁ τ₂ h
    simp only [Expr.fvars, List.mem_append] at h
    simp only [satE, ihl τ₁ τ₂ (fun v hv => h v (Or.inl hv)), ihr τ₁ τ₂ (fun v hv => h v (Or.inr hv))]
  | not e ih => intro τ₁ τ₂ h; simp only [satE, ih τ₁ τ₂ h]
  | exists_ q e ih =>
    intro τ₁ τ₂ h
    simp only [satE]
    congr 1
    funext x
    apply ih
    intro u hu
    apply lookup_cons_congr
    intro huq
    exact h u (by simp only [Expr.fvars, List.mem_filter]; exact ⟨hu, by simp [huq]⟩)
  | forAll q e ih =>
    intro τ₁ τ₂ h
    simp only [satE]
    congr 1
    funext x
    apply ih
    intro u hu
    apply lookup_cons_congr
    intro huq
    exact h u (by simp only [Expr.fvars, List.mem_filter]; exact ⟨hu, by simp [huq]⟩)

theorem invert_fvars (e : Expr) : (invert e).fvars = e.fvars := by
  induction e with
  | exists_ v e ih => simp only [invert, Expr.fvars, ih]
  | forAll v e ih => simp only [invert, Expr.fvars, ih]
  | _ => simp only [invert, Expr.fvars]

/-- the free variables of the built expression are the free variables of the surface expression -/
theorem build_fvars (s : SExpr) : (build s).fvars = s.freeVars := by
  induction s with
  | and l r ihl ihr => simp only [build, Expr.fvars, SExpr.freeVars, ihl, ihr]
  | or l r ihl ihr => simp only [build, mkOr, SExpr.freeVars]; split <;> simp only [Expr.fvars, ihl, ihr]
  | not e ih => simp only [build, invert_fvars, SExpr.freeVars, ih]
  | exists_ v e ih => simp only [build, Expr.fvars, SExpr.freeVars, ih]
  | forAll v e ih => simp only [build, Expr.fvars, SExpr.freeVars, ih]
  | _ => simp only [build, Expr.fvars, SExpr.freeVars]

/-! ## Q2. Keys bound by every result cell of a given truth value -/

theorem bK_sound (w : World) (e : Expr) : e.Fc = true → ∀ env rs, eval w e env = .ok rs → ∀ p ∈ rs, ∀ pol, p.2 = pol →
    ∀ k ∈ Expr.bK pol e, (p.1.lookup k).isSome = true := by
  induction e with
  | cmp op l r =>
    intro _ env rs h p hp pol _ k hk
    simp only [eval] at h
    cases pol <;> exact evalCmp_binds h p hp k hk
  | contains c i =>
    intro _ env rs h p hp pol _ k hk
    simp only [eval] at h
    cases pol <;> exact evalCmp_binds h p hp k hk
  | truth t =>
    intro _ env rs h p hp pol _ k hk
    obtain ⟨rs0, h0, rfl⟩ := eval_truth_inv h
    simp only [List.mem_map] at hp; obtain ⟨r, hr, rfl⟩ := hp
    cases pol <;> exact evalTerm_binds w t true env rs0 h0 r hr k hk
  | hasType t c =>
    intro _ env rs h p hp pol _ k hk
    obtain ⟨rs0, h0, rfl⟩ := eval_hasType_inv h
    simp only [List.mem_map] at hp; obtain ⟨r, hr, rfl⟩ := hp
    cases pol <;> exact evalTerm_binds w t false env rs0 h0 r hr k hk
  | and l r ihl ihr =>
    intro hF env rs h p hp pol hpol k hk
    simp only [Expr.Fc, Bool.and_eq_true] at hF
    obtain ⟨ls, g, h0, rfl, hg⟩ := eval_and_inv h
    simp only [List.mem_flatMap] at hp; obtain ⟨a, ha, hp⟩ := hp
    cases ha2 : a.2 with
    | true =>
      have hr := (hg a ha).1 ha2
      have hx := eval_ext w r hF.2 a.1 _ hr p hp
      cases pol with
      | true =>
        simp only [Expr.bK, List.mem_append] at hk
        rcases hk with hk | hk
        · exact hx.isSome (ihl hF.1 env ls h0 a ha true ha2 k hk)
        · exact ihr hF.2 a.1 _ hr p hp true hpol k hk
      | false =>
        simp only [Expr.bK, List.mem_filter, List.contains_iff_mem, List.mem_append] at hk
        rcases hk.2 with hk' | hk'
        · exact hx.isSome (ihl hF.1 env ls h0 a ha true ha2 k hk')
        · exact ihr hF.2 a.1 _ hr p hp false hpol k hk'
    | false =>
      rw [(hg a ha).2 ha2, List.mem_singleton] at hp; subst hp
      cases pol with
      | true => cases hpol
      | false =>
        simp only [Expr.bK, List.mem_filter] at hk
        exact ihl hF.1 env ls h0 a ha false ha2 k hk.1
  | elseIf l r ihl ihr =>
    intro hF env rs h p hp pol hpol k hk
    simp only [Expr.Fc, Bool.and_eq_true] at hF
    obtain ⟨ls, g, h0, rfl, hg⟩ := eval_elseIf_inv h
    simp only [List.mem_flatMap] at hp; obtain ⟨a, ha, hp⟩ := hp
    cases ha2 : a.2 with
    | false =>
      have hr := (hg a ha).2 ha2
      have hx := eval_ext w r hF.2 a.1 _ hr p hp
      cases pol with
      | false =>
        simp only [Expr.bK, List.mem_append] at hk
        rcases hk with hk | hk
        · exact hx.isSome (ihl hF.1 env ls h0 a ha false ha2 k hk)
        · exact ihr hF.2 a.1 _ hr p hp false hpol k hk
      | true =>
        simp only [Expr.bK, List.mem_filter, List.contains_iff_mem, List.mem_append] at hk
        rcases hk.2 with hk' | hk'
        · exact hx.isSome (ihl hF.1 env ls h0 a ha false ha2 k hk')
        · exact ihr hF.2 a.1 _ hr p hp true hpol k hk'
    | true =>
      rw [(hg a ha).1 ha2, List.mem_singleton] at hp; subst hp
      cases pol with
      | false => cases hpol
      | true =>
        simp only [Expr.bK, List.mem_filter] at hk
        exact ihl hF.1 env ls h0 a ha true ha2 k hk.1
  | not e ih =>
    intro hF env rs h p hp pol hpol k hk
    simp only [Expr.Fc] at hF
    obtain ⟨rs0, h0, rfl⟩ := eval_not_inv h
    simp only [List.mem_map] at hp; obtain ⟨r, hr, rfl⟩ := hp
    simp only [Expr.bK] at hk
    exact ih hF env rs0 h0 r hr (!pol) (by simp only at hpol; rw [← hpol]; simp) k hk
  | union l r _ _ => intro hF; simp [Expr.Fc] at hF
  | exists_ v e _ => intro hF; simp [Expr.Fc] at hF
  | forAll v e _ => intro hF; simp [Expr.Fc] at hF

/-! ## Q3. A literal node is only ever bound to the literal's own value -/

def Term.lits : Term → List (Nat × Val)
  | .var _ => []
  | .lit id x => [(id, x)]
  | .attr t _ | .index t _ | .flatten t => t.lits

def Expr.lits : Expr → List (Nat × Val)
  | .cmp _ l r => l.lits ++ r.lits
  | .contains c i => c.lits ++ i.lits
  | .truth t | .hasType t _ => t.lits
  | .and l r | .elseIf l r | .union l r => l.lits ++ r.lits
  | .not e => e.lits
  | .exists_ _ e | .forAll _ e => e.lits

/-- `env'` extends `env`; every new binding of a literal node is `(id, x)` for a literal `lit id x` in `L` -/
def LitExt (L : List (Nat × Val)) (env env' : Env) : Prop :=
  ∃ pre, env' = pre ++ env ∧ ∀ p ∈ pre, ∀ id, p.1 = Key.lit id → (id, p.2) ∈ L

theorem LitExt.refl (L : List (Nat × Val)) (env : Env) : LitExt L env env := ⟨[], rfl, by simp⟩

theorem LitExt.trans {L1 L2 : List (Nat × Val)} {a b c : Env} (h1 : LitExt L1 a b) (h2 : LitExt L2 b c) :
    LitExt (L1 ++ L2) a c := by
  obtain ⟨p1, rfl, hp1⟩ := h1
  obtain ⟨p2, rfl, hp2⟩ := h2
  refine ⟨p2 ++ p1, by simp, ?_⟩
  intro p hp id hid
  rcases List.mem_append.mp hp with hp | hp
  · exact List.mem_append_right _ (hp2 p hp id hid)
  · exact List.mem_append_left _ (hp1 p hp id hid)

theorem LitExt.mono {L1 L2 : List (Nat × Val)} {a b : Env} (h : LitExt L1 a b) (hs : ∀ x ∈ L1, x ∈ L2) :
    LitExt L2 a b := by
  obtain ⟨p, rfl, hp⟩ := h
  exact ⟨p, rfl, fun q hq id hid => hs _ (hp q hq id hid)⟩

theorem evalTerm_lit (w : World) (t : Term) :
    ∀ cp env rs, evalTerm w cp t env = .ok rs → ∀ p ∈ rs, LitExt t.lits env p.1 := by
  induction t with
  | var v =>
    intro cp env rs h p hp
    simp only [evalTerm] at h; cases h
    rcases evalVar_mem hp with ⟨y, _, rfl⟩ | ⟨hn, y, hy, rfl⟩
    · exact LitExt.refl _ _
    · exact ⟨[(.var v, y)], rfl, by intro q hq id hid; simp only [List.mem_singleton] at hq; subst hq; cases hid⟩
  | lit id x =>
    intro cp env rs h p hp
    rcases evalLit_cases w cp id x env with ⟨y, _, he⟩ | ⟨hn, he⟩
    · rw [he] at h; cases h; simp only [List.mem_singleton] at hp; subst hp; exact LitExt.refl _ _
    · rw [he] at h; cases h; simp only [List.mem_singleton] at hp; subst hp
      refine ⟨[(.lit id, x)], rfl, ?_⟩
      intro q hq id' hid; simp only [List.mem_singleton] at hq; subst hq
      cases hid; simp [Term.lits]
  | attr t n ih =>
    intro cp env rs h p hp
    rw [evalTerm_attr] at h
    obtain ⟨rs0, h0, h⟩ := bind_ok h
    obtain ⟨g, _, rfl⟩ := mapVal_ok h
    simp only [List.mem_map] at hp; obtain ⟨r, hr, rfl⟩ := hp
    exact ih false env rs0 h0 r hr
  | index t i ih =>
    intro cp env rs h p hp
    rw [evalTerm_index] at h
    obtain ⟨rs0, h0, h⟩ := bind_ok h
    obtain ⟨g, _, rfl⟩ := mapVal_ok h
    simp only [List.mem_map] at hp; obtain ⟨r, hr, rfl⟩ := hp
    exact ih false env rs0 h0 r hr
  | flatten t ih =>
    intro cp env rs h p hp
    simp only [evalTerm] at h
    obtain ⟨rs0, h0, h⟩ := bind_ok h
    obtain ⟨g, hg, rfl⟩ := flatMapM_ok h
    simp only [List.mem_flatMap] at hp; obtain ⟨r, hr, hp⟩ := hp
    obtain ⟨xs, _, h2⟩ := bind_ok (hg r hr)
    rw [← pure_ok h2] at hp
    simp only [List.mem_map] at hp; obtain ⟨x, _, rfl⟩ := hp
    exact ih false env rs0 h0 r hr

theorem evalCmpCore_lit {w : World} {f s : Term} {cmb : Val → Val → Except Err Bool} {env : Env}
    {rs : List (Env × Bool)} (h : evalCmpCore w f s cmb env = .ok rs) :
    ∀ p ∈ rs, LitExt (f.lits ++ s.lits) env p.1 := by
  obtain ⟨r1, g, h1, rfl, hg⟩ := evalCmpCore_inv h
  intro p hp
  simp only [List.mem_flatMap] at hp
  obtain ⟨p1, hp1, hp⟩ := hp
  obtain ⟨r2, c, h2, _, hgp⟩ := hg p1 hp1
  rw [hgp] at hp
  simp only [List.mem_map] at hp
  obtain ⟨p2, hp2, rfl⟩ := hp
  exact (evalTerm_lit w f false env r1 h1 p1 (List.mem_filter.mp hp1).1).trans
    (evalTerm_lit w s false p1.1 r2 h2 p2 (List.mem_filter.mp hp2).1)

theorem evalCmp_lit {w : World} {l r : Term} {op : Val → Val → Except Err Bool} {env : Env}
    {rs : List (Env × Bool)} (h : evalCmp w l r op env = .ok rs) :
    ∀ p ∈ rs, LitExt (l.lits ++ r.lits) env p.1 := by
  rcases evalCmp_eq w l r op env with he | he
  · rw [he] at h; exact evalCmpCore_lit h
  · rw [he] at h
    intro p hp
    exact (evalCmpCore_lit h p hp).mono (by intro k hk; simp only [List.mem_append] at hk ⊢; exact hk.symm)

theorem eval_lit (w : World) (e : Expr) :
    e.Fc = true → ∀ env rs, eval w e env = .ok rs → ∀ p ∈ rs, LitExt e.lits env p.1 := by
  induction e with
  | cmp op l r => intro _ env rs h; simp only [eval] at h; exact evalCmp_lit h
  | contains c i => intro _ env rs h; simp only [eval] at h; exact evalCmp_lit h
  | truth t =>
    intro _ env rs h p hp
    obtain ⟨rs0, h0, rfl⟩ := eval_truth_inv h
    simp only [List.mem_map] at hp; obtain ⟨r, hr, rfl⟩ := hp
    exact evalTerm_lit w t true env rs0 h0 r hr
  | hasType t c =>
    intro _ env rs h p hp
    obtain ⟨rs0, h0, rfl⟩ := eval_hasType_inv h
    simp only [List.mem_map] at hp; obtain ⟨r, hr, rfl⟩ := hp
    exact evalTerm_lit w t false env rs0 h0 r hr
  | and l r ihl ihr =>
    intro hF env rs h p hp
    simp only [Expr.Fc, Bool.and_eq_true] at hF
    obtain ⟨ls, g, h0, rfl, hg⟩ := eval_and_inv h
    simp only [List.mem_flatMap] at hp; obtain ⟨a, ha, hp⟩ := hp
    have hxa := ihl hF.1 env ls h0 a ha
    cases ha2 : a.2 with
    | true => exact hxa.trans (ihr hF.2 a.1 _ ((hg a ha).1 ha2) p hp)
    | false =>
      rw [(hg a ha).2 ha2, List.mem_singleton] at hp; subst hp
      exact hxa.mono (subset_append_left _ _)
  | elseIf l r ihl ihr =>
    intro hF env rs h p hp
    simp only [Expr.Fc, Bool.and_eq_true] at hF
    obtain ⟨ls, g, h0, rfl, hg⟩ := eval_elseIf_inv h
    simp only [List.mem_flatMap] at hp; obtain ⟨a, ha, hp⟩ := hp
    have hxa := ihl hF.1 env ls h0 a ha
    cases ha2 : a.2 with
    | false => exact hxa.trans (ihr hF.2 a.1 _ ((hg a ha).2 ha2) p hp)
    | true =>
      rw [(hg a ha).1 ha2, List.mem_singleton] at hp; subst hp
      exact hxa.mono (subset_append_left _ _)
  | not e ih =>
    intro hF env rs h p hp
    simp only [Expr.Fc] at hF
    obtain ⟨rs0, h0, rfl⟩ := eval_not_inv h
    simp only [List.mem_map] at hp; obtain ⟨r, hr, rfl⟩ := hp
    exact ih hF env rs0 h0 r hr
  | union l r _ _ => intro hF; simp [Expr.Fc] at hF
  | exists_ v e _ => intro hF; simp [Expr.Fc] at hF
  | forAll v e _ => intro hF; simp [Expr.Fc] at hF

/-! ## Q4. With every node bound, evaluation is deterministic: one result, flagged with the first-order truth value -/

/-- `env` binds every variable in `vs` to the value `τ` gives it and every literal node in `ls` to its literal -/
def Closed (τ : Asg) (env : Env) (vs : List VarId) (ls : List (Nat × Val)) : Prop :=
  (∀ v ∈ vs, ∃ x, env.lookup (.var v) = some x ∧ τ.lookup v = some x) ∧
  (∀ il ∈ ls, env.lookup (.lit il.1) = some il.2)

theorem Closed.mono {τ : Asg} {env : Env} {vs vs' : List VarId} {ls ls' : List (Nat × Val)}
    (h : Closed τ env vs ls) (h1 : ∀ v ∈ vs', v ∈ vs) (h2 : ∀ x ∈ ls', x ∈ ls) : Closed τ env vs' ls' :=
  ⟨fun v hv => h.1 v (h1 v hv), fun x hx => h.2 x (h2 x hx)⟩

theorem closed_term (w : World) (τ : Asg) (t : Term) :
    ∀ cp env rs y, t.noFlat = true → Closed τ env t.vars t.lits → evalTerm w cp t env = .ok rs →
      tval w τ t = .ok y → ∃ fl, rs = [(env, y, fl)] ∧ (cp = false → fl = true) ∧
        (t.isChain = true → cp = true → fl = truthy y) := by
  induction t with
  | var v =>
    intro cp env rs y _ hc h htv
    obtain ⟨x, hx, hτ⟩ := hc.1 v (by simp [Term.vars])
    simp only [tval, hτ] at htv; cases htv
    simp only [evalTerm, evalVarAt, hx] at h; cases h
    refine ⟨_, rfl, ?_, ?_⟩
    · intro hcp; subst hcp; rfl
    · intro hch; simp [Term.isChain] at hch
  | lit id x =>
    intro cp env rs y _ hc h htv
    simp only [tval] at htv; cases htv
    have hx := hc.2 (id, x) (by simp [Term.lits])
    simp only [evalTerm, hx] at h; cases h
    refine ⟨_, rfl, ?_, ?_⟩
    · intro hcp; subst hcp; rfl
    · intro hch; simp [Term.isChain] at hch
  | attr t n ih =>
    intro cp env rs y hnf hc h htv
    rw [evalTerm_attr] at h
    obtain ⟨rs0, h0, h⟩ := bind_ok h
    obtain ⟨g, hg, rfl⟩ := mapVal_ok h
    simp only [tval] at htv
    obtain ⟨x0, hx0, hx⟩ := bind_ok htv
    obtain ⟨fl, rfl, _, _⟩ := ih false env rs0 x0 hnf hc h0 hx0
    have := hg _ (List.mem_singleton.mpr rfl)
    simp only at this
    rw [hx] at this; cases this
    refine ⟨_, rfl, ?_, ?_⟩
    · intro hcp; subst hcp; rfl
    · intro _ hcp; subst hcp; rfl
  | index t i ih =>
    intro cp env rs y hnf hc h htv
    rw [evalTerm_index] at h
    obtain ⟨rs0, h0, h⟩ := bind_ok h
    obtain ⟨g, hg, rfl⟩ := mapVal_ok h
    simp only [tval] at htv
    obtain ⟨x0, hx0, hx⟩ := bind_ok htv
    obtain ⟨fl, rfl, _, _⟩ := ih false env rs0 x0 hnf hc h0 hx0
    have := hg _ (List.mem_singleton.mpr rfl)
    simp only at this
    rw [hx] at this; cases this
    refine ⟨_, rfl, ?_, ?_⟩
    · intro hcp; subst hcp; rfl
    · intro _ hcp; subst hcp; rfl
  | flatten t _ => intro cp env rs y hnf; simp [Term.noFlat] at hnf

theorem closed_cmpCore {w : World} {τ : Asg} {f s : Term} {cmb : Val → Val → Except Err Bool} {env : Env}
    {rs : List (Env × Bool)} {a b : Val} {c : Bool}
    (hnf : f.noFlat = true) (hns : s.noFlat = true)
    (hcf : Closed τ env f.vars f.lits) (hcs : Closed τ env s.vars s.lits)
    (h : evalCmpCore w f s cmb env = .ok rs)
    (ha : tval w τ f = .ok a) (hb : tval w τ s = .ok b) (hc : cmb a b = .ok c) : rs = [(env, c)] := by
  obtain ⟨r1, g, h1, rfl, hg⟩ := evalCmpCore_inv h
  obtain ⟨fl1, rfl, hfl1, _⟩ := closed_term w τ f false env r1 a hnf hcf h1 ha
  have hfl1 := hfl1 rfl; subst hfl1
  simp only [List.filter_cons, if_true, List.filter_nil, List.flatMap_cons, List.flatMap_nil, List.append_nil] at hg ⊢
  obtain ⟨r2, c', h2, hc', hgp⟩ := hg _ (List.mem_singleton.mpr rfl)
  obtain ⟨fl2, rfl, hfl2, _⟩ := closed_term w τ s false env r2 b hns hcs h2 hb
  have hfl2 := hfl2 rfl; subst hfl2
  simp only [List.filter_cons, if_true, List.filter_nil, List.map_cons, List.map_nil] at hgp hc'
  have := hc' _ (List.mem_singleton.mpr rfl)
  simp only at this
  rw [hc] at this; cases this
  exact hgp

theorem closed_cmp {w : World} {τ : Asg} {l r : Term} {op : Val → Val → Except Err Bool} {env : Env}
    {rs : List (Env × Bool)} {a b : Val} {c : Bool}
    (hnl : l.noFlat = true) (hnr : r.noFlat = true)
    (hcl : Closed τ env (l.vars ++ r.vars) (l.lits ++ r.lits))
    (h : evalCmp w l r op env = .ok rs)
    (ha : tval w τ l = .ok a) (hb : tval w τ r = .ok b) (hc : op a b = .ok c) : rs = [(env, c)] := by
  have h1 : Closed τ env l.vars l.lits := hcl.mono (subset_append_left _ _) (subset_append_left _ _)
  have h2 : Closed τ env r.vars r.lits := hcl.mono (subset_append_right _ _) (subset_append_right _ _)
  rcases evalCmp_eq w l r op env with he | he
  · rw [he] at h; exact closed_cmpCore hnl hnr h1 h2 h ha hb hc
  · rw [he] at h; exact closed_cmpCore hnr hnl h2 h1 h hb ha hc

/-- **closed evaluation**: if `env` binds every node of `e` (variables as `τ` does, literal nodes to their literals),
`eval w e env` is the single result `(env, b)` with `b` the first-order truth value of `e` under `τ` -/
theorem closed_eval (w : World) (τ : Asg) (e : Expr) :
    e.Fc = true → ∀ env rs b, Closed τ env e.vars e.lits → eval w e env = .ok rs → satE w e τ = .ok b →
      rs = [(env, b)] := by
  induction e with
  | cmp op l r =>
    intro hF env rs b hc h hs
    simp only [Expr.Fc, Bool.and_eq_true] at hF
    simp only [eval] at h
    simp only [satE] at hs
    obtain ⟨a, b', ha, hb, hc'⟩ := satCmp_inv hF.1 hF.2 hs
    exact closed_cmp hF.1 hF.2 hc h ha hb hc'
  | contains c i =>
    intro hF env rs b hc h hs
    simp only [Expr.Fc, Bool.and_eq_true] at hF
    simp only [eval] at h
    simp only [satE] at hs
    obtain ⟨a, b', ha, hb, hc'⟩ := satCmp_inv hF.1 hF.2 hs
    exact closed_cmp hF.1 hF.2 hc h ha hb hc'
  | truth t =>
    intro hF env rs b hc h hs
    simp only [Expr.Fc] at hF
    obtain ⟨rs0, h0, rfl⟩ := eval_truth_inv h
    simp only [satE] at hs
    obtain ⟨xs, hxs, hb⟩ := bind_ok hs
    obtain ⟨x, hx, rfl⟩ := tvals_ok_noFlat (Term.isChain_noFlat hF) hxs
    have hb := pure_ok hb
    rw [any_single] at hb
    obtain ⟨fl, rfl, _, hfl⟩ := closed_term w τ t true env rs0 x (Term.isChain_noFlat hF) hc h0 hx
    simp only [List.map_cons, List.map_nil]
    rw [hfl hF rfl, hb]
  | hasType t c =>
    intro hF env rs b hc h hs
    simp only [Expr.Fc] at hF
    obtain ⟨rs0, h0, rfl⟩ := eval_hasType_inv h
    simp only [satE] at hs
    obtain ⟨xs, hxs, hb⟩ := bind_ok hs
    obtain ⟨x, hx, rfl⟩ := tvals_ok_noFlat hF hxs
    have hb := pure_ok hb
    rw [any_single] at hb
    obtain ⟨fl, rfl, _, _⟩ := closed_term w τ t false env rs0 x hF hc h0 hx
    simp only [List.map_cons, List.map_nil]
    rw [hb]
  | and l r ihl ihr =>
    intro hF env rs b hc h hs
    simp only [Expr.Fc, Bool.and_eq_true] at hF
    obtain ⟨ls, g, h0, rfl, hg⟩ := eval_and_inv h
    simp only [satE] at hs
    obtain ⟨bl, hbl, hs⟩ := bind_ok hs
    obtain ⟨br, hbr, hs⟩ := bind_ok hs
    have hb := pure_ok hs
    have hcl : Closed τ env l.vars l.lits := hc.mono (subset_append_left _ _) (subset_append_left _ _)
    have hcr : Closed τ env r.vars r.lits := hc.mono (subset_append_right _ _) (subset_append_right _ _)
    have := ihl hF.1 env ls bl hcl h0 hbl
    subst this
    simp only [List.flatMap_cons, List.flatMap_nil, List.append_nil]
    have hg1 := hg _ (List.mem_singleton.mpr rfl)
    cases bl with
    | true =>
      have := ihr hF.2 env _ br hcr (hg1.1 rfl) hbr
      rw [this, ← hb]; rfl
    | false => rw [hg1.2 rfl, ← hb]; rfl
  | elseIf l r ihl ihr =>
    intro hF env rs b hc h hs
    simp only [Expr.Fc, Bool.and_eq_true] at hF
    obtain ⟨ls, g, h0, rfl, hg⟩ := eval_elseIf_inv h
    simp only [satE] at hs
    obtain ⟨bl, hbl, hs⟩ := bind_ok hs
    obtain ⟨br, hbr, hs⟩ := bind_ok hs
    have hb := pure_ok hs
    have hcl : Closed τ env l.vars l.lits := hc.mono (subset_append_left _ _) (subset_append_left _ _)
    have hcr : Closed τ env r.vars r.lits := hc.mono (subset_append_right _ _) (subset_append_right _ _)
    have := ihl hF.1 env ls bl hcl h0 hbl
    subst this
    simp only [List.flatMap_cons, List.flatMap_nil, List.append_nil]
    have hg1 := hg _ (List.mem_singleton.mpr rfl)
    cases bl with
    | false =>
      have := ihr hF.2 env _ br hcr (hg1.2 rfl) hbr
      rw [this, ← hb]; rfl
    | true => rw [hg1.1 rfl, ← hb]; rfl
  | not e ih =>
    intro hF env rs b hc h hs
    simp only [Expr.Fc] at hF
    obtain ⟨rs0, h0, rfl⟩ := eval_not_inv h
    simp only [satE] at hs
    obtain ⟨b0, hb0, hs⟩ := bind_ok hs
    have hb := pure_ok hs
    have := ih hF env rs0 b0 hc h0 hb0
    subst this
    simp only [List.map_cons, List.map_nil]
    rw [hb]
  | union l r _ _ => intro hF; simp [Expr.Fc] at hF
  | exists_ v e _ => intro hF; simp [Expr.Fc] at hF
  | forAll v e _ => intro hF; simp [Expr.Fc] at hF

/-! ## Q4'. Closed evaluation with literal nodes that may still be unbound -/

/-- `env` binds every variable in `vs` as `τ` does; a literal node in `L` is bound to its literal or not at all -/
def LClosed (τ : Asg) (env : Env) (vs : List VarId) (L : List (Nat × Val)) : Prop :=
  (∀ v ∈ vs, ∃ x, env.lookup (.var v) = some x ∧ τ.lookup v = some x) ∧
  (∀ il ∈ L, env.lookup (.lit il.1) = some il.2 ∨ env.lookup (.lit il.1) = none)

/-- `env'` extends `env` by bindings of literal nodes of `L` to their literals -/
def LitPre (L : List (Nat × Val)) (env env' : Env) : Prop :=
  ∃ pre, env' = pre ++ env ∧ ∀ p ∈ pre, ∃ id, p.1 = Key.lit id ∧ (id, p.2) ∈ L

theorem LitPre.refl (L : List (Nat × Val)) (env : Env) : LitPre L env env := ⟨[], rfl, by simp⟩

theorem LitPre.trans {L : List (Nat × Val)} {a b c : Env} (h1 : LitPre L a b) (h2 : LitPre L b c) : LitPre L a c := by
  obtain ⟨p1, rfl, hp1⟩ := h1
  obtain ⟨p2, rfl, hp2⟩ := h2
  refine ⟨p2 ++ p1, by simp, ?_⟩
  intro p hp
  rcases List.mem_append.mp hp with hp | hp
  · exact hp2 p hp
  · exact hp1 p hp

/-- ids in `L` name one literal -/
def LitFn (L : List (Nat × Val)) : Prop := ∀ id x y, (id, x) ∈ L → (id, y) ∈ L → x = y

theorem LClosed.mono {τ : Asg} {env : Env} {vs vs' : List VarId} {L : List (Nat × Val)}
    (h : LClosed τ env vs L) (h1 : ∀ v ∈ vs', v ∈ vs) : LClosed τ env vs' L :=
  ⟨fun v hv => h.1 v (h1 v hv), h.2⟩

theorem LClosed.ext {τ : Asg} {env env' : Env} {vs : List VarId} {L : List (Nat × Val)} (hfn : LitFn L)
    (h : LClosed τ env vs L) (hx : LitPre L env env') : LClosed τ env' vs L := by
  obtain ⟨pre, rfl, hpre⟩ := hx
  constructor
  · intro v hv
    obtain ⟨x, hx, hτ⟩ := h.1 v hv
    refine ⟨x, ?_, hτ⟩
    rw [List.lookup_append]
    have : List.lookup (Key.var v) pre = none := by
      rw [List.lookup_eq_none_iff]
      intro p hp
      obtain ⟨id, hid, _⟩ := hpre p hp
      simp [hid]
    rw [this]; exact hx
  · intro il hil
    rw [List.lookup_append]
    cases hl : List.lookup (Key.lit il.1) pre with
    | none => simpa using h.2 il hil
    | some y =>
      left
      obtain ⟨id, hid, hm⟩ := hpre _ (lookup_mem' hl)
      simp only at hid hm
      cases hid
      rw [hfn il.1 y il.2 hm hil]; rfl

theorem lclosed_term (w : World) (τ : Asg) (L : List (Nat × Val)) (t : Term) :
    ∀ cp env rs y, t.noFlat = true → (∀ x ∈ t.lits, x ∈ L) → LClosed τ env t.vars L →
      evalTerm w cp t env = .ok rs → tval w τ t = .ok y →
      ∃ env' fl, rs = [(env', y, fl)] ∧ LitPre L env env' ∧ (cp = false → fl = true) ∧
        (t.isChain = true → cp = true → fl = truthy y) := by
  induction t with
  | var v =>
    intro cp env rs y _ _ hc h htv
    obtain ⟨x, hx, hτ⟩ := hc.1 v (by simp [Term.vars])
    simp only [tval, hτ] at htv; cases htv
    simp only [evalTerm, evalVarAt, hx] at h; cases h
    refine ⟨env, _, rfl, LitPre.refl _ _, ?_, ?_⟩
    · intro hcp; subst hcp; rfl
    · intro hch; simp [Term.isChain] at hch
  | lit id x =>
    intro cp env rs y _ hL hc h htv
    simp only [tval] at htv; cases htv
    have hm : (id, x) ∈ L := hL _ (by simp [Term.lits])
    rcases hc.2 (id, x) hm with hx | hx
    · simp only at hx
      simp only [evalTerm, hx] at h; cases h
      refine ⟨env, _, rfl, LitPre.refl _ _, ?_, ?_⟩
      · intro hcp; subst hcp; rfl
      · intro hch; simp [Term.isChain] at hch
    · simp only at hx
      simp only [evalTerm, hx] at h; cases h
      refine ⟨(Key.lit id, x) :: env, true, rfl, ⟨[(Key.lit id, x)], rfl, ?_⟩, fun _ => rfl, ?_⟩
      · intro p hp; simp only [List.mem_singleton] at hp; subst hp; exact ⟨id, rfl, hm⟩
      · intro hch; simp [Term.isChain] at hch
  | attr t n ih =>
    intro cp env rs y hnf hL hc h htv
    rw [evalTerm_attr] at h
    obtain ⟨rs0, h0, h⟩ := bind_ok h
    obtain ⟨g, hg, rfl⟩ := mapVal_ok h
    simp only [tval] at htv
    obtain ⟨x0, hx0, hx⟩ := bind_ok htv
    obtain ⟨env', fl, rfl, hpre, _, _⟩ := ih false env rs0 x0 hnf hL hc h0 hx0
    have := hg _ (List.mem_singleton.mpr rfl)
    simp only at this
    rw [hx] at this; cases this
    refine ⟨env', _, rfl, hpre, ?_, ?_⟩
    · intro hcp; subst hcp; rfl
    · intro _ hcp; subst hcp; rfl
  | index t i ih =>
    intro cp env rs y hnf hL hc h htv
    rw [evalTerm_index] at h
    obtain ⟨rs0, h0, h⟩ := bind_ok h
    obtain ⟨g, hg, rfl⟩ := mapVal_ok h
    simp only [tval] at htv
    obtain ⟨x0, hx0, hx⟩ := bind_ok htv
    obtain ⟨env', fl, rfl, hpre, _, _⟩ := ih false env rs0 x0 hnf hL hc h0 hx0
    have := hg _ (List.mem_singleton.mpr rfl)
    simp only at this
    rw [hx] at this; cases this
    refine ⟨env', _, rfl, hpre, ?_, ?_⟩
    · intro hcp; subst hcp; rfl
    · intro _ hcp; subst hcp; rfl
  | flatten t _ => intro cp env rs y hnf; simp [Term.noFlat] at hnf

theorem lclosed_cmpCore {w : World} {τ : Asg} {L : List (Nat × Val)} {f s : Term}
    {cmb : Val → Val → Except Err Bool} {env : Env} {rs : List (Env × Bool)} {a b : Val} {c : Bool}
    (hfn : LitFn L) (hnf : f.noFlat = true) (hns : s.noFlat = true)
    (hLf : ∀ x ∈ f.lits, x ∈ L) (hLs : ∀ x ∈ s.lits, x ∈ L)
    (hcf : LClosed τ env f.vars L) (hcs : LClosed τ env s.vars L)
    (h : evalCmpCore w f s cmb env = .ok rs)
    (ha : tval w τ f = .ok a) (hb : tval w τ s = .ok b) (hc : cmb a b = .ok c) :
    ∃ env', rs = [(env', c)] ∧ LitPre L env env' := by
  obtain ⟨r1, g, h1, rfl, hg⟩ := evalCmpCore_inv h
  obtain ⟨env1, fl1, rfl, hp1, hfl1, _⟩ := lclosed_term w τ L f false env r1 a hnf hLf hcf h1 ha
  have hfl1 := hfl1 rfl; subst hfl1
  simp only [List.filter_cons, if_true, List.filter_nil, List.flatMap_cons, List.flatMap_nil, List.append_nil] at hg ⊢
  obtain ⟨r2, c', h2, hc', hgp⟩ := hg _ (List.mem_singleton.mpr rfl)
  obtain ⟨env2, fl2, rfl, hp2, hfl2, _⟩ :=
    lclosed_term w τ L s false env1 r2 b hns hLs (hcs.ext hfn hp1) h2 hb
  have hfl2 := hfl2 rfl; subst hfl2
  simp only [List.filter_cons, if_true, List.filter_nil, List.map_cons, List.map_nil] at hgp hc'
  have := hc' _ (List.mem_singleton.mpr rfl)
  simp only at this
  rw [hc] at this; cases this
  exact ⟨env2, hgp, hp1.trans hp2⟩

theorem lclosed_cmp {w : World} {τ : Asg} {L : List (Nat × Val)} {l r : Term}
    {op : Val → Val → Except Err Bool} {env : Env} {rs : List (Env × Bool)} {a b : Val} {c : Bool}
    (hfn : LitFn L) (hnl : l.noFlat = true) (hnr : r.noFlat = true)
    (hL : ∀ x ∈ l.lits ++ r.lits, x ∈ L)
    (hcl : LClosed τ env (l.vars ++ r.vars) L)
    (h : evalCmp w l r op env = .ok rs)
    (ha : tval w τ l = .ok a) (hb : tval w τ r = .ok b) (hc : op a b = .ok c) :
    ∃ env', rs = [(env', c)] ∧ LitPre L env env' := by
  have h1 : LClosed τ env l.vars L := hcl.mono (subset_append_left _ _)
  have h2 : LClosed τ env r.vars L := hcl.mono (subset_append_right _ _)
  have hL1 : ∀ x ∈ l.lits, x ∈ L := fun x hx => hL x (List.mem_append_left _ hx)
  have hL2 : ∀ x ∈ r.lits, x ∈ L := fun x hx => hL x (List.mem_append_right _ hx)
  rcases evalCmp_eq w l r op env with he | he
  · rw [he] at h; exact lclosed_cmpCore hfn hnl hnr hL1 hL2 h1 h2 h ha hb hc
  · rw [he] at h; exact lclosed_cmpCore hfn hnr hnl hL2 hL1 h2 h1 h hb ha hc

/-- **closed evaluation** (variables bound, literal nodes bound to their literal or unbound): ONE result, flagged with
the first-order truth value; its environment adds literal bindings only -/
theorem lclosed_eval (w : World) (τ : Asg) (L : List (Nat × Val)) (hfn : LitFn L) (e : Expr) :
    e.Fc = true → (∀ x ∈ e.lits, x ∈ L) → ∀ env rs b, LClosed τ env e.vars L → eval w e env = .ok rs →
      satE w e τ = .ok b → ∃ env', rs = [(env', b)] ∧ LitPre L env env' := by
  induction e with
  | cmp op l r =>
    intro hF hL env rs b hc h hs
    simp only [Expr.Fc, Bool.and_eq_true] at hF
    simp only [eval] at h
    simp only [satE] at hs
    obtain ⟨a, b', ha, hb, hc'⟩ := satCmp_inv hF.1 hF.2 hs
    exact lclosed_cmp hfn hF.1 hF.2 hL hc h ha hb hc'
  | contains c i =>
    intro hF hL env rs b hc h hs
    simp only [Expr.Fc, Bool.and_eq_true] at hF
    simp only [eval] at h
    simp only [satE] at hs
    obtain ⟨a, b', ha, hb, hc'⟩ := satCmp_inv hF.1 hF.2 hs
    exact lclosed_cmp hfn hF.1 hF.2 hL hc h ha hb hc'
  | truth t =>
    intro hF hL env rs b hc h hs
    simp only [Expr.Fc] at hF
    obtain ⟨rs0, h0, rfl⟩ := eval_truth_inv h
    simp only [satE] at hs
    obtain ⟨xs, hxs, hb⟩ := bind_ok hs
    obtain ⟨x, hx, rfl⟩ := tvals_ok_noFlat (Term.isChain_noFlat hF) hxs
    have hb := pure_ok hb
    rw [any_single] at hb
    obtain ⟨env', fl, rfl, hpre, _, hfl⟩ := lclosed_term w τ L t true env rs0 x (Term.isChain_noFlat hF) hL hc h0 hx
    refine ⟨env', ?_, hpre⟩
    simp only [List.map_cons, List.map_nil]
    rw [hfl hF rfl, hb]
  | hasType t c =>
    intro hF hL env rs b hc h hs
    simp only [Expr.Fc] at hF
    obtain ⟨rs0, h0, rfl⟩ := eval_hasType_inv h
    simp only [satE] at hs
    obtain ⟨xs, hxs, hb⟩ := bind_ok hs
    obtain ⟨x, hx, rfl⟩ := tvals_ok_noFlat hF hxs
    have hb := pure_ok hb
    rw [any_single] at hb
    obtain ⟨env', fl, rfl, hpre, _, _⟩ := lclosed_term w τ L t false env rs0 x hF hL hc h0 hx
    refine ⟨env', ?_, hpre⟩
    simp only [List.map_cons, List.map_nil]
    rw [hb]
  | and l r ihl ihr =>
    intro hF hL env rs b hc h hs
    simp only [Expr.Fc, Bool.and_eq_true] at hF
    obtain ⟨ls, g, h0, rfl, hg⟩ := eval_and_inv h
    simp only [satE] at hs
    obtain ⟨bl, hbl, hs⟩ := bind_ok hs
    obtain ⟨br, hbr, hs⟩ := bind_ok hs
    have hb := pure_ok hs
    have hcl : LClosed τ env l.vars L := hc.mono (subset_append_left _ _)
    have hcr : LClosed τ env r.vars L := hc.mono (subset_append_right _ _)
    obtain ⟨env1, rfl, hp1⟩ := ihl hF.1 (fun x hx => hL x (List.mem_append_left _ hx)) env ls bl hcl h0 hbl
    simp only [List.flatMap_cons, List.flatMap_nil, List.append_nil]
    have hg1 := hg _ (List.mem_singleton.mpr rfl)
    cases bl with
    | true =>
      obtain ⟨env2, h2, hp2⟩ := ihr hF.2 (fun x hx => hL x (List.mem_append_right _ hx)) env1 _ br
        (hcr.ext hfn hp1) (hg1.1 rfl) hbr
      exact ⟨env2, by rw [h2, ← hb]; rfl, hp1.trans hp2⟩
    | false => exact ⟨env1, by rw [hg1.2 rfl, ← hb]; rfl, hp1⟩
  | elseIf l r ihl ihr =>
    intro hF hL env rs b hc h hs
    simp only [Expr.Fc, Bool.and_eq_true] at hF
    obtain ⟨ls, g, h0, rfl, hg⟩ := eval_elseIf_inv h
    simp only [satE] at hs
    obtain ⟨bl, hbl, hs⟩ := bind_ok hs
    obtain ⟨br, hbr, hs⟩ := bind_ok hs
    have hb := pure_ok hs
    have hcl : LClosed τ env l.vars L := hc.mono (subset_append_left _ _)
    have hcr : LClosed τ env r.vars L := hc.mono (subset_append_right _ _)
    obtain ⟨env1, rfl, hp1⟩ := ihl hF.1 (fun x hx => hL x (List.mem_append_left _ hx)) env ls bl hcl h0 hbl
    simp only [List.flatMap_cons, List.flatMap_nil, List.append_nil]
    have hg1 := hg _ (List.mem_singleton.mpr rfl)
    cases bl with
    | false =>
      obtain ⟨env2, h2, hp2⟩ := ihr hF.2 (fun x hx => hL x (List.mem_append_right _ hx)) env1 _ br
        (hcr.ext hfn hp1) (hg1.2 rfl) hbr
      exact ⟨env2, by rw [h2, ← hb]; rfl, hp1.trans hp2⟩
    | true => exact ⟨env1, by rw [hg1.1 rfl, ← hb]; rfl, hp1⟩
  | not e ih =>
    intro hF hL env rs b hc h hs
    simp only [Expr.Fc] at hF
    obtain ⟨rs0, h0, rfl⟩ := eval_not_inv h
    simp only [satE] at hs
    obtain ⟨b0, hb0, hs⟩ := bind_ok hs
    have hb := pure_ok hs
    obtain ⟨env1, rfl, hp1⟩ := ih hF hL env rs0 b0 hc h0 hb0
    refine ⟨env1, ?_, hp1⟩
    simp only [List.map_cons, List.map_nil]
    rw [hb]
  | union l r _ _ => intro hF; simp [Expr.Fc] at hF
  | exists_ v e _ => intro hF; simp [Expr.Fc] at hF
  | forAll v e _ => intro hF; simp [Expr.Fc] at hF

/-! ## Q5. `Exists` -/

/-- an environment is functional: two bindings of one key carry the same value (`ForAll` re-appends the candidate's
copy of outer bindings, so its results may list a key twice) -/
def EnvFn (env : Env) : Prop := ∀ k x y, (k, x) ∈ env → (k, y) ∈ env → x = y

theorem EnvFn.of_nodup {env : Env} (h : (keys env).Nodup) : EnvFn env := by
  intro k x y hx hy
  have h1 := lookup_of_mem_nodup h hx
  have h2 := lookup_of_mem_nodup h hy
  rw [h1] at h2; cases h2; rfl

theorem mem_keys {env : Env} {k : Key} {x : Val} (h : (k, x) ∈ env) : k ∈ keys env :=
  List.mem_map.mpr ⟨(k, x), h, rfl⟩

theorem EnvFn.lookup {env : Env} (h : EnvFn env) {k : Key} {x : Val} (hm : (k, x) ∈ env) :
    env.lookup k = some x := by
  cases hl : env.lookup k with
  | none => exact absurd (mem_keys hm) (not_mem_keys_of_lookup_none hl)
  | some y => rw [h k x y hm (lookup_mem' hl)]

theorem isSome_mem {env : Env} {k : Key} (h : (env.lookup k).isSome = true) : ∃ x, (k, x) ∈ env := by
  cases hl : env.lookup k with
  | none => rw [hl] at h; cases h
  | some x => exact ⟨x, lookup_mem' hl⟩

theorem nodup_append_disjoint {pre env : Env} (h : (keys (pre ++ env)).Nodup) {k : Key} {y z : Val}
    (h1 : (k, y) ∈ pre) (h2 : (k, z) ∈ env) : False := by
  simp only [keys, List.map_append, List.nodup_append] at h
  exact h.2.2 k (mem_keys h1) k (mem_keys h2) rfl


theorem EnvFn.cons {env : Env} (h : EnvFn env) {k : Key} {x : Val} (hk : k ∉ keys env) : EnvFn ((k, x) :: env) := by
  intro k' a b ha hb
  rcases List.mem_cons.mp ha with ha | ha <;> rcases List.mem_cons.mp hb with hb | hb
  · cases ha; cases hb; rfl
  · cases ha; exact absurd (mem_keys hb) hk
  · cases hb; exact absurd (mem_keys ha) hk
  · exact h k' a b ha hb

/-- `env'` extends `env` by bindings of pairwise different keys that `env` does not bind -/
def FExt (env env' : Env) : Prop :=
  ∃ pre, env' = pre ++ env ∧ (keys pre).Nodup ∧ ∀ b ∈ pre, env.lookup b.1 = none

theorem FExt.refl (env : Env) : FExt env env := ⟨[], rfl, by simp [keys], by simp⟩

theorem lookup_append_none {a b : Env} {k : Key} (h : (a ++ b).lookup k = none) :
    a.lookup k = none ∧ b.lookup k = none := by
  rw [List.lookup_append] at h
  cases ha : List.lookup k a with
  | none => rw [ha] at h; exact ⟨rfl, by simpa using h⟩
  | some x => rw [ha] at h; simp at h

theorem FExt.trans {a b c : Env} (h1 : FExt a b) (h2 : FExt b c) : FExt a c := by
  obtain ⟨p1, rfl, hn1, hf1⟩ := h1
  obtain ⟨p2, rfl, hn2, hf2⟩ := h2
  refine ⟨p2 ++ p1, by simp, ?_, ?_⟩
  · simp only [keys, List.map_append, List.nodup_append]
    refine ⟨hn2, hn1, ?_⟩
    intro k hk2 k' hk1 heq
    subst heq
    obtain ⟨b, hb, rfl⟩ := List.mem_map.mp hk2
    exact not_mem_keys_of_lookup_none (lookup_append_none (hf2 b hb)).1 hk1
  · intro b hb
    rcases List.mem_append.mp hb with hb | hb
    · exact (lookup_append_none (hf2 b hb)).2
    · exact hf1 b hb

theorem FExt.cons {env : Env} {k : Key} {x : Val} (h : env.lookup k = none) : FExt env ((k, x) :: env) :=
  ⟨[(k, x)], rfl, by simp [keys], by intro b hb; simp only [List.mem_singleton] at hb; subst hb; exact h⟩

theorem EnvFn.of_fext {env env' : Env} (h : EnvFn env) (hx : FExt env env') : EnvFn env' := by
  obtain ⟨pre, rfl, hn, hf⟩ := hx
  intro k a b ha hb
  rcases List.mem_append.mp ha with ha | ha <;> rcases List.mem_append.mp hb with hb | hb
  · exact EnvFn.of_nodup hn k a b ha hb
  · exact absurd (mem_keys hb) (not_mem_keys_of_lookup_none (hf _ ha))
  · exact absurd (mem_keys ha) (not_mem_keys_of_lookup_none (hf _ hb))
  · exact h k a b ha hb

theorem evalTerm_fext (w : World) (t : Term) :
    ∀ cp env rs, evalTerm w cp t env = .ok rs → ∀ p ∈ rs, FExt env p.1 := by
  induction t with
  | var v =>
    intro cp env rs h p hp
    simp only [evalTerm] at h; cases h
    rcases evalVar_mem hp with ⟨y, _, rfl⟩ | ⟨hn, y, hy, rfl⟩
    · exact FExt.refl _
    · exact FExt.cons hn
  | lit id x =>
    intro cp env rs h p hp
    rcases evalLit_cases w cp id x env with ⟨y, _, he⟩ | ⟨hn, he⟩
    · rw [he] at h; cases h; simp only [List.mem_singleton] at hp; subst hp; exact FExt.refl _
    · rw [he] at h; cases h; simp only [List.mem_singleton] at hp; subst hp; exact FExt.cons hn
  | attr t n ih =>
    intro cp env rs h p hp
    rw [evalTerm_attr] at h
    obtain ⟨rs0, h0, h⟩ := bind_ok h
    obtain ⟨g, _, rfl⟩ := mapVal_ok h
    simp only [List.mem_map] at hp; obtain ⟨r, hr, rfl⟩ := hp
    exact ih false env rs0 h0 r hr
  | index t i ih =>
    intro cp env rs h p hp
    rw [evalTerm_index] at h
    obtain ⟨rs0, h0, h⟩ := bind_ok h
    obtain ⟨g, _, rfl⟩ := mapVal_ok h
    simp only [List.mem_map] at hp; obtain ⟨r, hr, rfl⟩ := hp
    exact ih false env rs0 h0 r hr
  | flatten t ih =>
    intro cp env rs h p hp
    simp only [evalTerm] at h
    obtain ⟨rs0, h0, h⟩ := bind_ok h
    obtain ⟨g, hg, rfl⟩ := flatMapM_ok h
    simp only [List.mem_flatMap] at hp; obtain ⟨r, hr, hp⟩ := hp
    obtain ⟨xs, _, h2⟩ := bind_ok (hg r hr)
    rw [← pure_ok h2] at hp
    simp only [List.mem_map] at hp; obtain ⟨x, _, rfl⟩ := hp
    exact ih false env rs0 h0 r hr

theorem evalCmpCore_fext {w : World} {f s : Term} {cmb : Val → Val → Except Err Bool} {env : Env}
    {rs : List (Env × Bool)} (h : evalCmpCore w f s cmb env = .ok rs) : ∀ p ∈ rs, FExt env p.1 := by
  obtain ⟨r1, g, h1, rfl, hg⟩ := evalCmpCore_inv h
  intro p hp
  simp only [List.mem_flatMap] at hp
  obtain ⟨p1, hp1, hp⟩ := hp
  obtain ⟨r2, c, h2, _, hgp⟩ := hg p1 hp1
  rw [hgp] at hp
  simp only [List.mem_map] at hp
  obtain ⟨p2, hp2, rfl⟩ := hp
  exact (evalTerm_fext w f false env r1 h1 p1 (List.mem_filter.mp hp1).1).trans
    (evalTerm_fext w s false p1.1 r2 h2 p2 (List.mem_filter.mp hp2).1)

theorem evalCmp_fext {w : World} {l r : Term} {op : Val → Val → Except Err Bool} {env : Env}
    {rs : List (Env × Bool)} (h : evalCmp w l r op env = .ok rs) : ∀ p ∈ rs, FExt env p.1 := by
  rcases evalCmp_eq w l r op env with he | he
  · rw [he] at h; exact evalCmpCore_fext h
  · rw [he] at h; exact evalCmpCore_fext h

/-- evaluation only ever ADDS bindings of keys that were unbound -/
theorem eval_fext (w : World) (e : Expr) :
    e.Fc = true → ∀ env rs, eval w e env = .ok rs → ∀ p ∈ rs, FExt env p.1 := by
  induction e with
  | cmp op l r => intro _ env rs h; simp only [eval] at h; exact evalCmp_fext h
  | contains c i => intro _ env rs h; simp only [eval] at h; exact evalCmp_fext h
  | truth t =>
    intro _ env rs h p hp
    obtain ⟨rs0, h0, rfl⟩ := eval_truth_inv h
    simp only [List.mem_map] at hp; obtain ⟨r, hr, rfl⟩ := hp
    exact evalTerm_fext w t true env rs0 h0 r hr
  | hasType t c =>
    intro _ env rs h p hp
    obtain ⟨rs0, h0, rfl⟩ := eval_hasType_inv h
    simp only [List.mem_map] at hp; obtain ⟨r, hr, rfl⟩ := hp
    exact evalTerm_fext w t false env rs0 h0 r hr
  | and l r ihl ihr =>
    intro hF env rs h p hp
    simp only [Expr.Fc, Bool.and_eq_true] at hF
    obtain ⟨ls, g, h0, rfl, hg⟩ := eval_and_inv h
    simp only [List.mem_flatMap] at hp; obtain ⟨a, ha, hp⟩ := hp
    have hxa := ihl hF.1 env ls h0 a ha
    cases ha2 : a.2 with
    | true => exact hxa.trans (ihr hF.2 a.1 _ ((hg a ha).1 ha2) p hp)
    | false =>
      rw [(hg a ha).2 ha2, List.mem_singleton] at hp; subst hp
      exact hxa
  | elseIf l r ihl ihr =>
    intro hF env rs h p hp
    simp only [Expr.Fc, Bool.and_eq_true] at hF
    obtain ⟨ls, g, h0, rfl, hg⟩ := eval_elseIf_inv h
    simp only [List.mem_flatMap] at hp; obtain ⟨a, ha, hp⟩ := hp
    have hxa := ihl hF.1 env ls h0 a ha
    cases ha2 : a.2 with
    | false => exact hxa.trans (ihr hF.2 a.1 _ ((hg a ha).2 ha2) p hp)
    | true =>
      rw [(hg a ha).1 ha2, List.mem_singleton] at hp; subst hp
      exact hxa
  | not e ih =>
    intro hF env rs h p hp
    simp only [Expr.Fc] at hF
    obtain ⟨rs0, h0, rfl⟩ := eval_not_inv h
    simp only [List.mem_map] at hp; obtain ⟨r, hr, rfl⟩ := hp
    exact ih hF env rs0 h0 r hr
  | union l r _ _ => intro hF; simp [Expr.Fc] at hF
  | exists_ v e _ => intro hF; simp [Expr.Fc] at hF
  | forAll v e _ => intro hF; simp [Expr.Fc] at hF


/-- what the main induction establishes for the result cells `rs` of `eval w e env` -/
structure QInv (w : World) (e : Expr) (env : Env) (rs : List (Env × Bool)) : Prop where
  /-- true cells extend `env` by bindings of `e`'s variables to domain elements (and of literal nodes) -/
  ext : ∀ p ∈ rs, p.2 = true → (∃ pre, p.1 = pre ++ env) ∧
    ∀ b ∈ p.1, b ∈ env ∨ ∀ v, b.1 = Key.var v → v ∈ e.vars ∧ b.2 ∈ w.dom v
  fn : ∀ p ∈ rs, p.2 = true → EnvFn p.1
  /-- soundness: every assignment compatible with a true cell satisfies `e` -/
  sound : ∀ p ∈ rs, p.2 = true → ∀ τ b, Covers w τ e.fvars → agreesB τ p.1 = true → satE w e τ = .ok b → b = true
  /-- completeness: every satisfying assignment of the FREE variables is, after choosing values for the quantified
  variables, compatible with a true cell -/
  complete : ∀ τ, Covers w τ e.fvars → agreesB τ env = true → satE w e τ = .ok true →
    ∃ p ∈ rs, p.2 = true ∧ ∃ ρ : Asg, (∀ b ∈ ρ, b.1 ∈ e.qvars) ∧ agreesB (ρ ++ τ) p.1 = true

theorem existsFilter_sub (w : World) (q : VarId) : ∀ (rs : List (Env × Bool)) (seen : List Val) (out : List (Env × Bool)),
    existsFilter w q rs seen = .ok out → ∀ p ∈ out, p.2 = true ∧ (p.1, true) ∈ rs := by
  intro rs
  induction rs with
  | nil => intro seen out h; simp only [existsFilter] at h; cases h; simp
  | cons a rest ih =>
    intro seen out h p hp
    obtain ⟨env1, t⟩ := a
    simp only [existsFilter] at h
    split at h
    · cases h
    · rename_i x hx
      split at h
      · rename_i hcond
        obtain ⟨r, hr, h⟩ := bind_ok h
        have := pure_ok h; subst this
        simp only [Bool.and_eq_true] at hcond
        rcases List.mem_cons.mp hp with rfl | hp
        · exact ⟨rfl, by rw [hcond.1]; exact List.mem_cons_self⟩
        · exact ⟨(ih _ _ hr p hp).1, List.mem_cons_of_mem _ (ih _ _ hr p hp).2⟩
      · exact ⟨(ih _ _ h p hp).1, List.mem_cons_of_mem _ (ih _ _ h p hp).2⟩

theorem existsFilter_nonempty (w : World) (q : VarId) :
    ∀ (rs : List (Env × Bool)) (seen : List Val) (out : List (Env × Bool)),
    existsFilter w q rs seen = .ok out →
    (∃ p ∈ rs, p.2 = true ∧ ∀ x, p.1.lookup (.var q) = some x → valIn w x seen = false) → out ≠ [] := by
  intro rs
  induction rs with
  | nil => intro seen out _ ⟨p, hp, _⟩; cases hp
  | cons a rest ih =>
    intro seen out h hw
    obtain ⟨env1, t⟩ := a
    simp only [existsFilter] at h
    split at h
    · cases h
    · rename_i x hx
      split at h
      · obtain ⟨r, hr, h⟩ := bind_ok h
        have := pure_ok h; subst this
        simp
      · rename_i hcond
        obtain ⟨p, hp, hpt, hpv⟩ := hw
        rcases List.mem_cons.mp hp with rfl | hp
        · exfalso; apply hcond
          simp only at hpt hpv
          simp [hpt, hpv x hx]
        · exact ih seen out h ⟨p, hp, hpt, hpv⟩

theorem eval_exists_inv {w : World} {q : VarId} {c : Expr} {env : Env} {out : List (Env × Bool)}
    (h : eval w (.exists_ q c) env = .ok out) :
    ∃ rs0, eval w c env = .ok rs0 ∧ existsFilter w q rs0 [] = .ok out := by
  simp only [eval] at h
  obtain ⟨rs0, h0, h⟩ := bind_ok h
  exact ⟨rs0, h0, h⟩

theorem lookup_cons_ne {τ : Asg} {q v : VarId} {x : Val} (h : v ≠ q) :
    List.lookup v ((q, x) :: τ) = τ.lookup v := by
  have : (v == q) = false := by simp [h]
  rw [List.lookup_cons, this]

theorem lookup_cons_self {τ : Asg} {q : VarId} {x : Val} : List.lookup q ((q, x) :: τ) = some x := by
  simp

theorem covers_cons {w : World} (hnd : ∀ v, (w.dom v).Nodup) {τ : Asg} {q : VarId} {x : Val} {vs : List VarId}
    (hx : x ∈ w.dom q) (h : ∀ v ∈ vs, v ≠ q → ∃ y, τ.lookup v = some y ∧ (w.dom v).count y = 1) :
    Covers w ((q, x) :: τ) vs := by
  intro v hv
  by_cases hvq : v = q
  · subst hvq
    exact ⟨x, lookup_cons_self, by rw [(hnd v).count]; simp [hx]⟩
  · rw [lookup_cons_ne hvq]; exact h v hv hvq

theorem agrees_cons_of_unbound {τ : Asg} {env : Env} {q : VarId} {x : Val} (hag : agreesB τ env = true)
    (hq : env.lookup (.var q) = none) : agreesB ((q, x) :: τ) env = true := by
  rw [agreesB_iff] at hag ⊢
  intro v y hm
  have hvq : v ≠ q := by
    rintro rfl; exact not_mem_keys_of_lookup_none hq (mem_keys hm)
  rw [lookup_cons_ne hvq]; exact hag v y hm

/-- **Exists**: if every result cell of `φ` binds `q` and every other variable of `φ` is already bound, the results of
`exists_ q φ` are sound and complete for `∃ q ∈ dom q, φ` -/
theorem exists_qinv (w : World) (hnd : ∀ v, (w.dom v).Nodup) (q : VarId) (φ : Expr) (hF : φ.Fc = true)
    (hln : LitNodup φ) (B : List Key)
    (hbq : Key.var q ∈ Expr.bK true φ ∧ Key.var q ∈ Expr.bK false φ)
    (hB : ∀ v ∈ φ.vars, v = q ∨ Key.var v ∈ B)
    (env : Env) (out : List (Env × Bool)) (hk : EnvFn env)
    (hBenv : ∀ k ∈ B, (env.lookup k).isSome = true) (hq : env.lookup (.var q) = none)
    (hlf : LitFresh φ.nodes env) (h : eval w (.exists_ q φ) env = .ok out) :
    QInv w (.exists_ q φ) env out := by
  obtain ⟨rs0, h0, hfil⟩ := eval_exists_inv h
  have hsub := existsFilter_sub w q rs0 [] out hfil
  have hext := eval_ext w φ hF env rs0 h0
  have hfv : (Expr.exists_ q φ).fvars = φ.vars.filter (· != q) := by simp only [Expr.fvars, Expr.fvars_Fc hF]
  -- facts about one true cell of `rs0`
  have hcell : ∀ env1 : Env, (env1, true) ∈ rs0 → ∃ pre x, env1 = pre ++ env ∧ EnvFn env1 ∧
      (Key.var q, x) ∈ pre ∧ x ∈ w.dom q ∧
      (∀ b ∈ pre, ∀ v, b.1 = Key.var v → v = q ∧ b.2 = x) ∧
      (∀ b ∈ pre, ∀ v, b.1 = Key.var v → v ∈ φ.vars ∧ b.2 ∈ w.dom v) := by
    intro env1 hm
    obtain ⟨pre, hpe, hprop, _⟩ := hext _ hm
    have hnd1 : EnvFn env1 := hk.of_fext (eval_fext w φ hF env rs0 h0 _ hm)
    obtain ⟨pre', hpe', _, hfresh⟩ := eval_fext w φ hF env rs0 h0 _ hm
    simp only at hpe hpe'
    have : pre = pre' := List.append_cancel_right (hpe.symm.trans hpe')
    subst this
    obtain ⟨x, hx⟩ := isSome_mem (bK_sound w φ hF env rs0 h0 _ hm true rfl _ hbq.1)
    simp only at hx
    have hxp : (Key.var q, x) ∈ pre := by
      rw [hpe] at hx
      rcases List.mem_append.mp hx with hx | hx
      · exact hx
      · exact absurd (mem_keys hx) (not_mem_keys_of_lookup_none hq)
    have hpv : ∀ b ∈ pre, ∀ v, b.1 = Key.var v → v ∈ φ.vars ∧ b.2 ∈ w.dom v := by
      intro b hb v hv
      refine ⟨Expr.mem_nodes_var.mp (hv ▸ (hprop b hb).1), (hprop b hb).2 v hv⟩
    refine ⟨pre, x, hpe, hnd1, hxp, (hpv _ hxp q rfl).2, ?_, hpv⟩
    intro b hb v hv
    obtain ⟨k, y⟩ := b
    simp only at hv; subst hv
    rcases hB v (hpv _ hb v rfl).1 with hvq | hvB
    · subst hvq
      refine ⟨rfl, ?_⟩
      exact hnd1 _ _ _ (hpe ▸ List.mem_append_left env hb) (hpe ▸ List.mem_append_left env hxp)
    · exfalso
      have h1 := hfresh _ hb
      have h2 := hBenv _ hvB
      simp only at h1
      rw [h1] at h2; cases h2
  refine ⟨?_, ?_, ?_, ?_⟩
  · intro p hp hpt
    obtain ⟨pre, x, hpe, _, _, _, _, hpv⟩ := hcell p.1 (hsub p hp).2
    refine ⟨⟨pre, hpe⟩, ?_⟩
    intro b hb
    rw [hpe] at hb
    rcases List.mem_append.mp hb with hb | hb
    · right; intro v hv
      exact ⟨List.mem_cons_of_mem _ (hpv b hb v hv).1, (hpv b hb v hv).2⟩
    · left; exact hb
  · intro p hp hpt
    obtain ⟨pre, x, hpe, hnd1, _⟩ := hcell p.1 (hsub p hp).2
    exact hnd1
  · -- soundness
    intro p hp hpt τ b hcov hag hs
    have hm := (hsub p hp).2
    obtain ⟨pre, x, hpe, hnd1, hxp, hxd, _, _⟩ := hcell p.1 hm
    have hτq : τ.lookup q = some x := agreesB_iff.mp hag q x (hpe ▸ List.mem_append_left env hxp)
    have hagenv : agreesB τ env = true := by
      rw [hpe, agreesB_append, Bool.and_eq_true] at hag; exact hag.2
    have hcovφ : Covers w τ φ.vars := by
      intro v hv
      by_cases hvq : v = q
      · subst hvq; exact ⟨x, hτq, by rw [(hnd v).count]; simp [hxd]⟩
      · exact hcov v (by rw [hfv]; exact List.mem_filter.mpr ⟨hv, by simp [hvq]⟩)
    simp only [satE] at hs
    obtain ⟨g, hg, hb⟩ := anyM_ok hs
    have hsat : satE w φ τ = .ok (g x) := by
      rw [← hg x hxd]
      apply satE_congr
      intro v _
      by_cases hvq : v = q
      · subst hvq; rw [lookup_cons_self, hτq]
      · rw [lookup_cons_ne hvq]
    have hc := cover w τ φ hF hcovφ hln env rs0 (g x) hlf hagenv h0 hsat
    have : true ∈ (rs0.filter fun p => agreesB τ p.1).map (·.2) :=
      List.mem_map.mpr ⟨(p.1, true), List.mem_filter.mpr ⟨hm, hag⟩, rfl⟩
    rw [hc, List.mem_singleton] at this
    rw [hb]
    exact List.any_eq_true.mpr ⟨x, hxd, this.symm⟩
  · -- completeness
    intro τ hcov hag hs
    simp only [satE] at hs
    obtain ⟨g, hg, hb⟩ := anyM_ok hs
    obtain ⟨x, hxd, hgx⟩ := List.any_eq_true.mp hb.symm
    have hsat : satE w φ ((q, x) :: τ) = .ok true := by rw [hg x hxd, hgx]
    have hcovφ : Covers w ((q, x) :: τ) φ.vars := covers_cons hnd hxd (by
      intro v hv hvq
      exact hcov v (by rw [hfv]; exact List.mem_filter.mpr ⟨hv, by simp [hvq]⟩))
    have hagx := agrees_cons_of_unbound (x := x) hag hq
    obtain ⟨a, _, hav, ham, haa⟩ :=
      cells_single (cover w _ φ hF hcovφ hln env rs0 true hlf hagx h0 hsat)
    have hne : out ≠ [] := existsFilter_nonempty w q rs0 [] out hfil
      ⟨a, ham, hav, fun _ _ => by simp [valIn]⟩
    obtain ⟨p, hp⟩ := List.exists_mem_of_ne_nil out hne
    obtain ⟨hpt, hm⟩ := hsub p hp
    obtain ⟨pre, x', hpe, hnd1, hxp, hxd', hpq, _⟩ := hcell p.1 hm
    refine ⟨p, hp, hpt, [(q, x')], ?_, ?_⟩
    · intro b hb; simp only [List.mem_singleton] at hb; subst hb; simp [Expr.qvars]
    · rw [agreesB_iff]
      intro v y hmem
      rw [hpe] at hmem
      show List.lookup v ((q, x') :: τ) = some y
      rcases List.mem_append.mp hmem with hmem | hmem
      · obtain ⟨hvq, hy⟩ := hpq _ hmem v rfl
        simp only at hy
        subst hvq; rw [lookup_cons_self, hy]
      · have hvq : v ≠ q := by
          rintro rfl; exact not_mem_keys_of_lookup_none hq (mem_keys hmem)
        rw [lookup_cons_ne hvq]
        exact agreesB_iff.mp hag v y hmem

/-! ## Q6. `ForAll` -/

theorem foldlM_filter_ok {α β} (F : β → α → Except Err Bool) : ∀ (rest : List β) (cands final : List α),
    rest.foldlM (fun sols qv => sols.filterM (F qv)) cands = .ok final →
    (∀ sol ∈ final, sol ∈ cands ∧ ∀ qv ∈ rest, F qv sol = .ok true) ∧
    (∀ sol ∈ cands, (∀ qv ∈ rest, ∀ b, F qv sol = .ok b → b = true) → sol ∈ final) := by
  intro rest
  induction rest with
  | nil =>
    intro cands final h
    rw [List.foldlM_nil] at h
    have := pure_ok h; subst this
    exact ⟨fun sol hs => ⟨hs, by simp⟩, fun sol hs _ => hs⟩
  | cons qv rest ih =>
    intro cands final h
    rw [List.foldlM_cons] at h
    obtain ⟨sols1, h1, h⟩ := bind_ok h
    obtain ⟨g, hg, rfl⟩ := filterM_ok h1
    obtain ⟨ih1, ih2⟩ := ih _ _ h
    constructor
    · intro sol hs
      obtain ⟨hm, hall⟩ := ih1 sol hs
      obtain ⟨hm1, hm2⟩ := List.mem_filter.mp hm
      refine ⟨hm1, ?_⟩
      intro qv' hqv'
      rcases List.mem_cons.mp hqv' with rfl | hqv'
      · rw [hg sol hm1, hm2]
      · exact hall qv' hqv'
    · intro sol hs hall
      apply ih2 sol
      · exact List.mem_filter.mpr ⟨hs, hall qv List.mem_cons_self _ (hg sol hs)⟩
      · intro qv' hqv'; exact hall qv' (List.mem_cons_of_mem _ hqv')

/-- the flag `ForAll` reads off a re-check: that of the FIRST result -/
def firstFlag : List (Env × Bool) → Bool
  | r :: _ => r.2
  | [] => false

theorem eval_forAll_inv {w : World} {q : VarId} {c : Expr} {env : Env} {out : List (Env × Bool)}
    (hq : env.lookup (.var q) = none) (h : eval w (.forAll q c) env = .ok out) :
    ∃ x0 xs c0 final, w.dom q = x0 :: xs ∧ eval w c ((.var q, x0) :: env) = .ok c0 ∧
      (xs.map fun x => ((Key.var q, x) :: env, x, true)).foldlM
        (fun (sols : List Env) (qv : Env × Val × Bool) => sols.filterM
          ((fun (qv : Env × Val × Bool) (sol : Env) => do
            let rs ← eval w c (merge sol qv.1)
            pure (firstFlag rs)) qv))
        ((c0.filter (·.2)).map fun p => restrict p.1 (c.nodes.filter (· != .var q))) = .ok final ∧
      out = final.map fun sol => (merge env sol, true) := by
  simp only [eval, evalVar, hq] at h
  cases hd : w.dom q with
  | nil => rw [hd] at h; cases h
  | cons x0 xs =>
    rw [hd] at h
    simp only [List.map_cons] at h
    obtain ⟨c0, h0, h⟩ := bind_ok h
    obtain ⟨final, hf, h⟩ := bind_ok h
    exact ⟨x0, xs, c0, final, rfl, h0, hf, (pure_ok h).symm⟩

theorem Term.lits_ids (t : Term) : t.lits.map (·.1) = litIds t.nodes := by
  induction t with
  | var v => simp [Term.lits, Term.nodes, litIds]
  | lit i x => simp [Term.lits, Term.nodes, litIds]
  | attr t n ih => exact ih
  | index t i ih => exact ih
  | flatten t ih => exact ih

theorem litIds_cons_var (v : VarId) (ks : List Key) : litIds (Key.var v :: ks) = litIds ks := by
  simp [litIds]

theorem Expr.lits_ids (e : Expr) : e.lits.map (·.1) = litIds e.nodes := by
  induction e with
  | cmp op l r => simp only [Expr.lits, Expr.nodes, List.map_append, litIds_append, Term.lits_ids]
  | contains c i => simp only [Expr.lits, Expr.nodes, List.map_append, litIds_append, Term.lits_ids]
  | truth t => simp only [Expr.lits, Expr.nodes, Term.lits_ids]
  | hasType t c => simp only [Expr.lits, Expr.nodes, Term.lits_ids]
  | and l r ihl ihr => simp only [Expr.lits, Expr.nodes, List.map_append, litIds_append, ihl, ihr]
  | elseIf l r ihl ihr => simp only [Expr.lits, Expr.nodes, List.map_append, litIds_append, ihl, ihr]
  | union l r ihl ihr => simp only [Expr.lits, Expr.nodes, List.map_append, litIds_append, ihl, ihr]
  | not e ih => simp only [Expr.lits, Expr.nodes, ih]
  | exists_ v e ih => simp only [Expr.lits, Expr.nodes, litIds_cons_var, ih]
  | forAll v e ih => simp only [Expr.lits, Expr.nodes, litIds_cons_var, ih]

theorem fst_nodup_fn {α β} {l : List (α × β)} (h : (l.map (·.1)).Nodup) {a : α} {x y : β}
    (h1 : (a, x) ∈ l) (h2 : (a, y) ∈ l) : x = y := by
  induction l with
  | nil => cases h1
  | cons p t ih =>
    simp only [List.map_cons, List.nodup_cons] at h
    rcases List.mem_cons.mp h1 with h1 | h1 <;> rcases List.mem_cons.mp h2 with h2 | h2
    · rw [← h1] at h2; cases h2; rfl
    · exfalso; apply h.1; rw [← h1]; exact List.mem_map.mpr ⟨(a, y), h2, rfl⟩
    · exfalso; apply h.1; rw [← h2]; exact List.mem_map.mpr ⟨(a, x), h1, rfl⟩
    · exact ih h.2 h1 h2

theorem mem_lits_nodes {e : Expr} {id : Nat} {x : Val} (h : (id, x) ∈ e.lits) : Key.lit id ∈ e.nodes := by
  rw [← mem_litIds, ← Expr.lits_ids]
  exact List.mem_map.mpr ⟨(id, x), h, rfl⟩

theorem lookup_cons_key_ne {env : Env} {k k' : Key} {x : Val} (h : k ≠ k') :
    List.lookup k ((k', x) :: env) = env.lookup k := by
  have : (k == k') = false := by simp [h]
  rw [List.lookup_cons, this]

theorem mem_restrict {env : Env} {ids : List Key} {b : Key × Val} :
    b ∈ restrict env ids ↔ b ∈ env ∧ b.1 ∈ ids := by
  simp [restrict, List.mem_filter]

/-- **ForAll**: if every TRUE result cell of `φ` binds every VARIABLE of `φ` (literal nodes may stay unbound: they are
re-read fresh) and the universal domain is not empty, the
results of `forAll q φ` are sound and complete for `∀ q ∈ dom q, φ` -/
theorem forAll_qinv (w : World) (hnd : ∀ v, (w.dom v).Nodup) (q : VarId) (φ : Expr) (hF : φ.Fc = true)
    (hln : LitNodup φ) (hall : ∀ v ∈ φ.vars, Key.var v ∈ Expr.bK true φ)
    (env : Env) (out : List (Env × Bool)) (hk : EnvFn env)
    (hq : env.lookup (.var q) = none) (hlf : LitFresh φ.nodes env)
    (h : eval w (.forAll q φ) env = .ok out) :
    QInv w (.forAll q φ) env out := by
  obtain ⟨x0, xs, c0, final, hdom, h0, hfold, rfl⟩ := eval_forAll_inv hq h
  obtain ⟨hfin1, hfin2⟩ := foldlM_filter_ok _ _ _ _ hfold
  have hfv : (Expr.forAll q φ).fvars = φ.vars.filter (· != q) := by simp only [Expr.fvars, Expr.fvars_Fc hF]
  have hlfn : LitFn φ.lits := fun id x y hx hy => fst_nodup_fn (by rw [Expr.lits_ids]; exact hln) hx hy
  have hx0d : x0 ∈ w.dom q := by rw [hdom]; exact List.mem_cons_self
  have hxsd : ∀ x ∈ xs, x ∈ w.dom q := fun x hx => by rw [hdom]; exact List.mem_cons_of_mem _ hx
  let others := φ.nodes.filter (· != Key.var q)
  let env0 : Env := (Key.var q, x0) :: env
  have hk0 : EnvFn env0 := hk.cons (not_mem_keys_of_lookup_none hq)
  have hlf0 : LitFresh φ.nodes env0 := by
    intro id hid
    show List.lookup (Key.lit id) ((Key.var q, x0) :: env) = none
    rw [lookup_cons_key_ne (by intro h; cases h)]; exact hlf id hid
  -- facts about a true cell of `c0` and the candidate made from it
  have hcell : ∀ c ∈ c0, c.2 = true →
      (∃ pre0, c.1 = pre0 ++ env0 ∧ (∀ b ∈ pre0, (∀ v, b.1 = Key.var v → v ∈ φ.vars ∧ b.2 ∈ w.dom v) ∧
          (∀ id, b.1 = Key.lit id → (id, b.2) ∈ φ.lits))) ∧
      EnvFn c.1 ∧ (∀ v ∈ φ.vars, v ≠ q → ∃ y, (Key.var v, y) ∈ restrict c.1 others) := by
    intro c hc hct
    obtain ⟨pre0, hpe, hprop, _⟩ := eval_ext w φ hF env0 c0 h0 c hc
    obtain ⟨pre1, hpe1, hlit⟩ := eval_lit w φ hF env0 c0 h0 c hc
    have : pre1 = pre0 := List.append_cancel_right (hpe1.symm.trans hpe)
    subst this
    refine ⟨⟨pre1, hpe, fun b hb => ⟨fun v hv => ⟨Expr.mem_nodes_var.mp (hv ▸ (hprop b hb).1), (hprop b hb).2 v hv⟩,
      hlit b hb⟩⟩, hk0.of_fext (eval_fext w φ hF env0 c0 h0 c hc), ?_⟩
    intro v hv hvq
    obtain ⟨y, hy⟩ := isSome_mem (bK_sound w φ hF env0 c0 h0 c hc true hct _ (hall v hv))
    exact ⟨y, mem_restrict.mpr ⟨hy, List.mem_filter.mpr ⟨Expr.mem_nodes_var.mpr hv, by simp [hvq]⟩⟩⟩
  -- members of a candidate and of `env` are members of the cell
  have hsub : ∀ c ∈ c0, c.2 = true → ∀ b, (b ∈ restrict c.1 others ∨ b ∈ env) → b ∈ c.1 := by
    intro c hc hct b hb
    rcases hb with hb | hb
    · exact (mem_restrict.mp hb).1
    · obtain ⟨⟨pre0, hpe, _⟩, _, _⟩ := hcell c hc hct
      rw [hpe]; exact List.mem_append_right _ (List.mem_cons_of_mem _ hb)
  -- closedness of the re-check environment
  have hclosed : ∀ c ∈ c0, c.2 = true → ∀ (τ : Asg) (x : Val),
      (∀ v y, (Key.var v, y) ∈ restrict c.1 others → τ.lookup v = some y) →
      LClosed ((q, x) :: τ) (merge (restrict c.1 others) ((Key.var q, x) :: env)) φ.vars φ.lits := by
    intro c hc hct τ x hτ
    obtain ⟨⟨pre0, hpe, hpre⟩, hnd1, hbound⟩ := hcell c hc hct
    have hlk : ∀ k y, k ≠ Key.var q → (k, y) ∈ restrict c.1 others →
        (merge (restrict c.1 others) ((Key.var q, x) :: env)).lookup k = some y := by
      intro k y hkq hm
      show List.lookup k ((Key.var q, x) :: (env ++ restrict c.1 others)) = some y
      rw [lookup_cons_key_ne hkq]
      have hfn : EnvFn (env ++ restrict c.1 others) := by
        intro k' a b ha hb
        have ha' : (k', a) ∈ c.1 := hsub c hc hct _ ((List.mem_append.mp ha).symm)
        have hb' : (k', b) ∈ c.1 := hsub c hc hct _ ((List.mem_append.mp hb).symm)
        exact hnd1 k' a b ha' hb'
      exact hfn.lookup (List.mem_append_right _ hm)
    constructor
    · intro v hv
      by_cases hvq : v = q
      · subst hvq
        exact ⟨x, by show List.lookup (Key.var v) ((Key.var v, x) :: _) = some x; simp, lookup_cons_self⟩
      · have hkq : Key.var v ≠ Key.var q := by intro h; cases h; exact hvq rfl
        obtain ⟨y, hy⟩ := hbound v hv hvq
        exact ⟨y, hlk _ y hkq hy, by rw [lookup_cons_ne hvq]; exact hτ v y hy⟩
    · intro il hil
      obtain ⟨id, lx⟩ := il
      have hkq : Key.lit id ≠ Key.var q := by intro h; cases h
      show List.lookup (Key.lit id) ((Key.var q, x) :: (env ++ restrict c.1 others)) = some lx ∨
        List.lookup (Key.lit id) ((Key.var q, x) :: (env ++ restrict c.1 others)) = none
      rw [lookup_cons_key_ne hkq]
      cases hl : List.lookup (Key.lit id) (env ++ restrict c.1 others) with
      | none => right; rfl
      | some y =>
        left
        have hmem := lookup_mem' hl
        have hyc : (Key.lit id, y) ∈ c.1 := hsub c hc hct _ ((List.mem_append.mp hmem).symm)
        rw [hpe] at hyc
        have hyl : (id, y) ∈ φ.lits := by
          rcases List.mem_append.mp hyc with hyc | hyc
          · exact (hpre _ hyc).2 id rfl
          · rcases List.mem_cons.mp hyc with hyc | hyc
            · cases hyc
            · exact absurd (mem_keys hyc) (not_mem_keys_of_lookup_none (hlf id (mem_lits_nodes hil)))
        rw [fst_nodup_fn (by rw [Expr.lits_ids]; exact hln) hyl hil]
  -- a candidate agrees with `τ` iff its cell agrees with `(q, x0) :: τ`
  have hagcell : ∀ c ∈ c0, c.2 = true → ∀ τ : Asg, agreesB τ env = true →
      (∀ v y, (Key.var v, y) ∈ restrict c.1 others → τ.lookup v = some y) →
      agreesB ((q, x0) :: τ) c.1 = true := by
    intro c hc hct τ hag hτ
    obtain ⟨⟨pre0, hpe, hpre⟩, hnd1, _⟩ := hcell c hc hct
    rw [agreesB_iff]
    intro v y hm
    by_cases hvq : v = q
    · subst hvq
      have h1 := hnd1.lookup hm
      have h2 := hnd1.lookup (hpe ▸ (List.mem_append_right pre0 (List.mem_cons_self) : (Key.var v, x0) ∈ pre0 ++ env0))
      rw [h1] at h2; cases h2
      exact lookup_cons_self
    · rw [lookup_cons_ne hvq]
      rw [hpe] at hm
      rcases List.mem_append.mp hm with hm' | hm'
      · apply hτ v y
        refine mem_restrict.mpr ⟨hpe ▸ List.mem_append_left _ hm', List.mem_filter.mpr ⟨?_, ?_⟩⟩
        · exact Expr.mem_nodes_var.mpr ((hpre _ hm').1 v rfl).1
        · simp; intro h; exact hvq h
      · rcases List.mem_cons.mp hm' with hm' | hm'
        · cases hm'; exact absurd rfl hvq
        · exact agreesB_iff.mp hag v y hm'
  have hcand : ∀ sol ∈ (c0.filter (·.2)).map (fun p => restrict p.1 others),
      ∃ c ∈ c0, c.2 = true ∧ sol = restrict c.1 others := by
    intro sol hs
    obtain ⟨c, hc, rfl⟩ := List.mem_map.mp hs
    obtain ⟨hc1, hc2⟩ := List.mem_filter.mp hc
    exact ⟨c, hc1, hc2, rfl⟩
  have hrest : ∀ x ∈ xs, ((Key.var q, x) :: env, x, true) ∈ xs.map (fun x => ((Key.var q, x) :: env, x, true)) :=
    fun x hx => List.mem_map.mpr ⟨x, hx, rfl⟩
  refine ⟨?_, ?_, ?_, ?_⟩
  · -- ext
    intro p hp _
    obtain ⟨sol, hsol, rfl⟩ := List.mem_map.mp hp
    obtain ⟨c, hc, hct, rfl⟩ := hcand sol (hfin1 sol hsol).1
    refine ⟨⟨restrict c.1 others, rfl⟩, ?_⟩
    intro b hb
    rcases List.mem_append.mp hb with hb | hb
    · obtain ⟨⟨pre0, hpe, hpre⟩, _, _⟩ := hcell c hc hct
      obtain ⟨hbc, hbo⟩ := mem_restrict.mp hb
      rw [hpe] at hbc
      rcases List.mem_append.mp hbc with hbc | hbc
      · right; intro v hv
        exact ⟨List.mem_cons_of_mem _ ((hpre b hbc).1 v hv).1, ((hpre b hbc).1 v hv).2⟩
      · rcases List.mem_cons.mp hbc with hbc | hbc
        · exfalso; subst hbc
          have := (List.mem_filter.mp hbo).2
          simp at this
        · left; exact hbc
    · left; exact hb
  · -- fn
    intro p hp _
    obtain ⟨sol, hsol, rfl⟩ := List.mem_map.mp hp
    obtain ⟨c, hc, hct, rfl⟩ := hcand sol (hfin1 sol hsol).1
    obtain ⟨_, hnd1, _⟩ := hcell c hc hct
    intro k a b ha hb
    exact hnd1 k a b (hsub c hc hct _ (List.mem_append.mp ha)) (hsub c hc hct _ (List.mem_append.mp hb))
  · -- soundness
    intro p hp _ τ b hcov hag hs
    obtain ⟨sol, hsol, rfl⟩ := List.mem_map.mp hp
    obtain ⟨hsc, hchk⟩ := hfin1 sol hsol
    obtain ⟨c, hc, hct, rfl⟩ := hcand sol hsc
    have hag' : agreesB τ (restrict c.1 others ++ env) = true := hag
    rw [agreesB_append, Bool.and_eq_true] at hag'
    have hτ : ∀ v y, (Key.var v, y) ∈ restrict c.1 others → τ.lookup v = some y :=
      fun v y hm => agreesB_iff.mp hag'.1 v y hm
    simp only [satE] at hs
    obtain ⟨g, hg, hb⟩ := allM_ok hs
    rw [hb, List.all_eq_true]
    intro x hx
    rw [hdom] at hx
    have hcovx : ∀ x ∈ w.dom q, Covers w ((q, x) :: τ) φ.vars := fun x hx => covers_cons hnd hx (by
      intro v hv hvq
      exact hcov v (by rw [hfv]; exact List.mem_filter.mpr ⟨hv, by simp [hvq]⟩))
    rcases List.mem_cons.mp hx with rfl | hx
    · have hagc := hagcell c hc hct τ hag'.2 hτ
      have hag0 : agreesB ((q, x) :: τ) env0 = true := by
        obtain ⟨⟨pre0, hpe, _⟩, _, _⟩ := hcell c hc hct
        rw [hpe, agreesB_append, Bool.and_eq_true] at hagc; exact hagc.2
      have hcv := cover w _ φ hF (hcovx x hx0d) hln env0 c0 (g x) hlf0 hag0 h0 (hg x hx0d)
      have : true ∈ (c0.filter fun p => agreesB ((q, x) :: τ) p.1).map (·.2) :=
        List.mem_map.mpr ⟨c, List.mem_filter.mpr ⟨hc, hagc⟩, hct⟩
      rw [hcv, List.mem_singleton] at this
      exact this.symm
    · have hF1 := hchk _ (hrest x hx)
      obtain ⟨rs, hrs, hfl⟩ := bind_ok hF1
      have hfl := pure_ok hfl
      obtain ⟨env', rfl, _⟩ := lclosed_eval w _ φ.lits hlfn φ hF (fun _ h => h) _ rs (g x)
        (hclosed c hc hct τ x hτ) hrs (hg x (hxsd x hx))
      exact hfl
  · -- completeness
    intro τ hcov hag hs
    simp only [satE] at hs
    obtain ⟨g, hg, hb⟩ := allM_ok hs
    have hgall : ∀ x ∈ w.dom q, g x = true := List.all_eq_true.mp hb.symm
    have hcovx : ∀ x ∈ w.dom q, Covers w ((q, x) :: τ) φ.vars := fun x hx => covers_cons hnd hx (by
      intro v hv hvq
      exact hcov v (by rw [hfv]; exact List.mem_filter.mpr ⟨hv, by simp [hvq]⟩))
    have hag0 : agreesB ((q, x0) :: τ) env0 = true := by
      show agreesB ((q, x0) :: τ) ((Key.var q, x0) :: env) = true
      rw [agreesB_cons_var, lookup_cons_self, agrees_cons_of_unbound hag hq]; simp
    have hsat0 : satE w φ ((q, x0) :: τ) = .ok true := by rw [hg x0 hx0d, hgall x0 hx0d]
    obtain ⟨a, _, hav, ham, haa⟩ :=
      cells_single (cover w _ φ hF (hcovx x0 hx0d) hln env0 c0 true hlf0 hag0 h0 hsat0)
    have hτ : ∀ v y, (Key.var v, y) ∈ restrict a.1 others → τ.lookup v = some y := by
      intro v y hm
      obtain ⟨hm1, hm2⟩ := mem_restrict.mp hm
      have hvq : v ≠ q := by
        rintro rfl
        have := (List.mem_filter.mp hm2).2
        simp at this
      have := agreesB_iff.mp haa v y hm1
      rwa [lookup_cons_ne hvq] at this
    have hsolc : restrict a.1 others ∈ (c0.filter (·.2)).map (fun p => restrict p.1 others) :=
      List.mem_map.mpr ⟨a, List.mem_filter.mpr ⟨ham, hav⟩, rfl⟩
    have hsolf : restrict a.1 others ∈ final := by
      apply hfin2 _ hsolc
      intro qv hqv b hFb
      obtain ⟨x, hx, rfl⟩ := List.mem_map.mp hqv
      obtain ⟨rs, hrs, hfl⟩ := bind_ok hFb
      have hfl := pure_ok hfl
      have hsx : satE w φ ((q, x) :: τ) = .ok true := by rw [hg x (hxsd x hx), hgall x (hxsd x hx)]
      obtain ⟨env', rfl, _⟩ := lclosed_eval w _ φ.lits hlfn φ hF (fun _ h => h) _ rs true
        (hclosed a ham hav τ x hτ) hrs hsx
      exact hfl.symm
    refine ⟨(merge env (restrict a.1 others), true), List.mem_map.mpr ⟨_, hsolf, rfl⟩, rfl, [], by simp, ?_⟩
    show agreesB τ (restrict a.1 others ++ env) = true
    rw [agreesB_append, hag, Bool.and_true, agreesB_iff]
    exact hτ




/-! ## Q7. The chain `and l₁ (and l₂ (… Q))` -/

theorem ql_qvars (e : Expr) : ∀ A B, e.Ql A B = true → ∀ v ∈ e.qvars, v ∉ A ∧ v ∉ e.fvars := by
  induction e with
  | and l e' _ ih =>
    intro A B h v hv
    simp only [Expr.Ql, Expr.FcQ_eq, Bool.and_eq_true] at h
    simp only [Expr.qvars, Expr.qvars_Fc h.1, List.nil_append] at hv
    obtain ⟨h1, h2⟩ := ih _ _ h.2 v hv
    simp only [List.mem_append, not_or] at h1
    simp only [Expr.fvars, Expr.fvars_Fc h.1, List.mem_append, not_or]
    exact ⟨h1.1, h1.2, h2⟩
  | exists_ q φ _ =>
    intro A B h v hv
    simp only [Expr.Ql, Expr.FcQ_eq, Bool.and_eq_true, Bool.not_eq_true'] at h
    simp only [Expr.qvars, Expr.qvars_Fc h.1.1.1.1, List.mem_singleton] at hv
    subst hv
    exact ⟨by simpa using h.1.1.1.2, by simp [Expr.fvars]⟩
  | forAll q φ _ =>
    intro A B h v hv
    simp only [Expr.Ql, Expr.FcQ_eq, Bool.and_eq_true, Bool.not_eq_true'] at h
    simp only [Expr.qvars, Expr.qvars_Fc h.1.1, List.mem_singleton] at hv
    subst hv
    exact ⟨by simpa using h.1.2, by simp [Expr.fvars]⟩
  | _ => intro A B h; simp [Expr.Ql] at h

theorem litNodup_cons_var {q : VarId} {ks : List Key} (h : (litIds (Key.var q :: ks)).Nodup) : (litIds ks).Nodup := by
  rwa [litIds_cons_var] at h

/-- **main induction**: on the fragment the result cells are sound and complete for the first-order reading -/
theorem ql_qinv (w : World) (hnd : ∀ v, (w.dom v).Nodup) (e : Expr) : ∀ A B, e.Ql A B = true → LitNodup e →
    ∀ env rs, EnvFn env → (∀ k ∈ B, (env.lookup k).isSome = true) →
      (∀ v, (env.lookup (.var v)).isSome = true → v ∈ A) → LitFresh e.nodes env →
      eval w e env = .ok rs → QInv w e env rs := by
  induction e with
  | and l e' _ ih =>
    intro A B hQ hln env rs hk hB hA hlf h
    simp only [Expr.Ql, Expr.FcQ_eq, Bool.and_eq_true] at hQ
    obtain ⟨hFl, hQ'⟩ := hQ
    obtain ⟨ls, g, h0, rfl, hg⟩ := eval_and_inv h
    obtain ⟨hnl, hnr, hd⟩ := litNodup_append hln
    have hextl := eval_ext w l hFl env ls h0
    -- the invariant for the rest of the chain, from each true cell of `l`
    have hrest : ∀ a ∈ ls, a.2 = true → QInv w e' a.1 (g a) := by
      intro a ha hat
      obtain ⟨pre, hpe, hprop, _⟩ := hextl a ha
      apply ih (A ++ l.vars) (B ++ Expr.bK true l) hQ' hnr a.1 (g a) (hk.of_fext (eval_fext w l hFl env ls h0 a ha))
      · intro k hkm
        rcases List.mem_append.mp hkm with hkm | hkm
        · exact (hextl a ha).isSome (hB k hkm)
        · exact bK_sound w l hFl env ls h0 a ha true hat k hkm
      · intro v hv
        rw [hpe, List.lookup_append] at hv
        cases hl : List.lookup (Key.var v) pre with
        | none => rw [hl] at hv; exact List.mem_append_left _ (hA v (by simpa using hv))
        | some y =>
          exact List.mem_append_right _ (Expr.mem_nodes_var.mp ((hprop _ (lookup_mem' hl)).1))
      · exact (hextl a ha).litFresh (hlf.mono (subset_append_right _ _)) hd
      · exact (hg a ha).1 hat
    -- a true result comes from a true cell of `l`
    have hsrc : ∀ p ∈ ls.flatMap g, p.2 = true → ∃ a ∈ ls, a.2 = true ∧ p ∈ g a := by
      intro p hp hpt
      obtain ⟨a, ha, hpa⟩ := List.mem_flatMap.mp hp
      cases hat : a.2 with
      | true => exact ⟨a, ha, hat, hpa⟩
      | false =>
        rw [(hg a ha).2 hat, List.mem_singleton] at hpa
        rw [hpa] at hpt; cases hpt
    have hfv : (Expr.and l e').fvars = l.vars ++ e'.fvars := by simp only [Expr.fvars, Expr.fvars_Fc hFl]
    refine ⟨?_, ?_, ?_, ?_⟩
    · intro p hp hpt
      obtain ⟨a, ha, hat, hpa⟩ := hsrc p hp hpt
      obtain ⟨⟨pre', hpe'⟩, hmem⟩ := (hrest a ha hat).ext p hpa hpt
      obtain ⟨pre, hpe, hprop, _⟩ := hextl a ha
      refine ⟨⟨pre' ++ pre, by rw [hpe', hpe, List.append_assoc]⟩, ?_⟩
      intro b hb
      rcases hmem b hb with hb' | hb'
      · rw [hpe] at hb'
        rcases List.mem_append.mp hb' with hb' | hb'
        · right; intro v hv
          exact ⟨List.mem_append_left _ (Expr.mem_nodes_var.mp (hv ▸ (hprop b hb').1)), (hprop b hb').2 v hv⟩
        · left; exact hb'
      · right; intro v hv
        exact ⟨List.mem_append_right _ (hb' v hv).1, (hb' v hv).2⟩
    · intro p hp hpt
      obtain ⟨a, ha, hat, hpa⟩ := hsrc p hp hpt
      exact (hrest a ha hat).fn p hpa hpt
    · intro p hp hpt τ b hcov hag hs
      obtain ⟨a, ha, hat, hpa⟩ := hsrc p hp hpt
      obtain ⟨⟨pre', hpe'⟩, _⟩ := (hrest a ha hat).ext p hpa hpt
      obtain ⟨pre, hpe, _, _⟩ := hextl a ha
      have haga : agreesB τ a.1 = true := by
        rw [hpe', agreesB_append, Bool.and_eq_true] at hag; exact hag.2
      have hagenv : agreesB τ env = true := by
        rw [hpe, agreesB_append, Bool.and_eq_true] at haga; exact haga.2
      simp only [satE] at hs
      obtain ⟨bl, hbl, hs⟩ := bind_ok hs
      obtain ⟨br, hbr, hs⟩ := bind_ok hs
      have hb := pure_ok hs
      rw [hfv] at hcov
      have hbrt : br = true := (hrest a ha hat).sound p hpa hpt τ br
        (fun v hv => hcov v (List.mem_append_right _ hv)) hag hbr
      have hc := cover w τ l hFl (fun v hv => hcov v (List.mem_append_left _ hv)) hnl env ls bl
        (hlf.mono (subset_append_left _ _)) hagenv h0 hbl
      have : a.2 ∈ (ls.filter fun p => agreesB τ p.1).map (·.2) :=
        List.mem_map.mpr ⟨a, List.mem_filter.mpr ⟨ha, haga⟩, rfl⟩
      rw [hc, List.mem_singleton, hat] at this
      rw [← hb, ← this, hbrt]; rfl
    · intro τ hcov hag hs
      simp only [satE] at hs
      obtain ⟨bl, hbl, hs⟩ := bind_ok hs
      obtain ⟨br, hbr, hs⟩ := bind_ok hs
      have hb := pure_ok hs
      simp only [Bool.and_eq_true] at hb
      obtain ⟨rfl, rfl⟩ := hb
      rw [hfv] at hcov
      obtain ⟨a, _, hav, ham, haa⟩ := cells_single
        (cover w τ l hFl (fun v hv => hcov v (List.mem_append_left _ hv)) hnl env ls true
          (hlf.mono (subset_append_left _ _)) hag h0 hbl)
      obtain ⟨p, hp, hpt, ρ, hρ, hagp⟩ := (hrest a ham hav).complete τ
        (fun v hv => hcov v (List.mem_append_right _ hv)) haa hbr
      refine ⟨p, List.mem_flatMap.mpr ⟨a, ham, hp⟩, hpt, ρ, ?_, hagp⟩
      intro b hb
      simp only [Expr.qvars]
      exact List.mem_append_right _ (hρ b hb)
  | exists_ q φ _ =>
    intro A B hQ hln env rs hk hB hA hlf h
    simp only [Expr.Ql, Expr.FcQ_eq, Bool.and_eq_true, Bool.not_eq_true', List.contains_iff_mem,
      List.all_eq_true, Bool.or_eq_true, beq_iff_eq] at hQ
    obtain ⟨⟨⟨⟨hF, hqA⟩, hb1⟩, hb2⟩, hvars⟩ := hQ
    have hq : env.lookup (.var q) = none := by
      cases hl : env.lookup (.var q) with
      | none => rfl
      | some y => exact absurd (hA q (by simp [hl])) (by simpa using hqA)
    exact exists_qinv w hnd q φ hF (litNodup_cons_var hln) B ⟨hb1, hb2⟩ hvars env rs hk hB hq
      (hlf.mono fun k hk => List.mem_cons_of_mem _ hk) h
  | forAll q φ _ =>
    intro A B hQ hln env rs hk hB hA hlf h
    simp only [Expr.Ql, Expr.FcQ_eq, Bool.and_eq_true, Bool.not_eq_true', List.contains_iff_mem,
      List.all_eq_true] at hQ
    obtain ⟨⟨hF, hqA⟩, hall⟩ := hQ
    have hq : env.lookup (.var q) = none := by
      cases hl : env.lookup (.var q) with
      | none => rfl
      | some y => exact absurd (hA q (by simp [hl])) (by simpa using hqA)
    exact forAll_qinv w hnd q φ hF (litNodup_cons_var hln) hall env rs hk hq
      (hlf.mono fun k hk => List.mem_cons_of_mem _ hk) h
  | _ => intro A B hQ; simp [Expr.Ql] at hQ


/-! ## Q8. The query level -/

/-- a term adds at most one binding — of its own leaf node, which was unbound -/
theorem evalTerm_fresh (w : World) (t : Term) :
    ∀ cp env rs, evalTerm w cp t env = .ok rs → ∀ p ∈ rs,
      p.1 = env ∨ ∃ k x, p.1 = (k, x) :: env ∧ env.lookup k = none ∧ k ∈ t.nodes ∧ ∀ v, k = Key.var v → x ∈ w.dom v := by
  induction t with
  | var v =>
    intro cp env rs h p hp
    simp only [evalTerm] at h; cases h
    rcases evalVar_mem hp with ⟨y, _, rfl⟩ | ⟨hn, y, hy, rfl⟩
    · left; rfl
    · right; exact ⟨_, _, rfl, hn, by simp [Term.nodes], by intro v' hv'; cases hv'; exact hy⟩
  | lit id x =>
    intro cp env rs h p hp
    rcases evalLit_cases w cp id x env with ⟨y, _, he⟩ | ⟨hn, he⟩
    · rw [he] at h; cases h; simp only [List.mem_singleton] at hp; subst hp; left; rfl
    · rw [he] at h; cases h; simp only [List.mem_singleton] at hp; subst hp
      right; exact ⟨_, _, rfl, hn, by simp [Term.nodes], by intro v' hv'; cases hv'⟩
  | attr t n ih =>
    intro cp env rs h p hp
    rw [evalTerm_attr] at h
    obtain ⟨rs0, h0, h⟩ := bind_ok h
    obtain ⟨g, _, rfl⟩ := mapVal_ok h
    simp only [List.mem_map] at hp; obtain ⟨r, hr, rfl⟩ := hp
    exact ih false env rs0 h0 r hr
  | index t i ih =>
    intro cp env rs h p hp
    rw [evalTerm_index] at h
    obtain ⟨rs0, h0, h⟩ := bind_ok h
    obtain ⟨g, _, rfl⟩ := mapVal_ok h
    simp only [List.mem_map] at hp; obtain ⟨r, hr, rfl⟩ := hp
    exact ih false env rs0 h0 r hr
  | flatten t ih =>
    intro cp env rs h p hp
    simp only [evalTerm] at h
    obtain ⟨rs0, h0, h⟩ := bind_ok h
    obtain ⟨g, hg, rfl⟩ := flatMapM_ok h
    simp only [List.mem_flatMap] at hp; obtain ⟨r, hr, hp⟩ := hp
    obtain ⟨xs, _, h2⟩ := bind_ok (hg r hr)
    rw [← pure_ok h2] at hp
    simp only [List.mem_map] at hp; obtain ⟨x, _, rfl⟩ := hp
    exact ih false env rs0 h0 r hr


/-- **selection, soundness** for FUNCTIONAL row bindings (a key may be listed twice, with one value): `select_sound`
of `Lemmas/EqlF1.lean` with `EnvFn` in place of duplicate-free keys -/
theorem select_sound' (w : World) : ∀ (sel : List Term) (env : Env) (per : List (List Val)) (r : List Val),
    (∀ s ∈ sel, s.noFlat = true ∧ s.noLit = true) → (sel.flatMap Term.vars).Nodup → EnvFn env →
    sel.mapM (selVals w env) = .ok per → r ∈ product per →
    ∃ pre : Env, EnvFn (pre ++ env) ∧
      (∀ p ∈ pre, ∃ u, p.1 = .var u ∧ u ∈ sel.flatMap Term.vars ∧ p.2 ∈ w.dom u) ∧
      ∀ τ, agreesB τ (pre ++ env) = true → Covers w τ (sel.flatMap Term.vars) →
        ∀ ys, sel.mapM (tval w τ) = .ok ys → ys = r := by
  intro sel
  induction sel with
  | nil =>
    intro env per r _ _ hk hper hr
    rw [List.mapM_nil] at hper
    rw [← pure_ok hper, mem_product_nil] at hr
    subst hr
    refine ⟨[], hk, by simp, ?_⟩
    intro τ _ _ ys hys
    rw [List.mapM_nil] at hys
    exact (pure_ok hys).symm
  | cons s rest ih =>
    intro env per r hsel hnd hk hper hr
    rw [List.mapM_cons] at hper
    obtain ⟨vs, hvs, hper⟩ := bind_ok hper
    obtain ⟨per', hper', hper⟩ := bind_ok hper
    rw [← pure_ok hper, mem_product_cons] at hr
    obtain ⟨x, r', rfl, hx, hr'⟩ := hr
    obtain ⟨rs, hrs, hvs⟩ := bind_ok hvs
    rw [← pure_ok hvs, List.mem_map] at hx
    obtain ⟨p, hp, rfl⟩ := hx
    rw [List.flatMap_cons, List.nodup_append] at hnd
    obtain ⟨hs1, hs2⟩ := hsel s (List.mem_cons_self)
    obtain ⟨pre', hk', hpre', hτ'⟩ :=
      ih env per' r' (fun t ht => hsel t (List.mem_cons_of_mem _ ht)) hnd.2.1 hk hper' hr'
    -- the part of the statement that does not depend on the shape of `p.1`
    have hτpart : ∀ pre : Env, p.1 = pre ++ env → ∀ τ, agreesB τ ((pre ++ pre') ++ env) = true →
        Covers w τ (s.vars ++ rest.flatMap Term.vars) →
        ∀ ys, (s :: rest).mapM (tval w τ) = .ok ys → ys = p.2.1 :: r' := by
      intro pre hpe τ hag hcov ys hys
      rw [List.append_assoc] at hag
      obtain ⟨hag1, hag2⟩ := agreesB_sub hag
      rw [List.mapM_cons] at hys
      obtain ⟨y, hy, hys⟩ := bind_ok hys
      obtain ⟨ys', hys', hys⟩ := bind_ok hys
      rw [← pure_ok hys]
      have hcs : Covers w τ s.vars := fun v hv => hcov v (List.mem_append_left _ hv)
      have hcr : Covers w τ (rest.flatMap Term.vars) := fun v hv => hcov v (List.mem_append_right _ hv)
      have hagenv : agreesB τ env = true := by
        rw [agreesB_append, Bool.and_eq_true] at hag1; exact hag1.2
      have hc := evalTerm_cover w τ s false env rs y hs1 hcs (litFresh_noLit hs2 env) hagenv hrs hy
      have hpc : p ∈ cells τ rs := List.mem_filter.mpr ⟨hp, by rw [hpe]; exact hag1⟩
      have : p.2.1 ∈ (cells τ rs).map (·.2.1) := List.mem_map.mpr ⟨p, hpc, rfl⟩
      rw [hc, List.mem_singleton] at this
      rw [this, hτ' τ hag2 hcr ys' hys']
    rcases evalTerm_fresh w s false env rs hrs p hp with hpe | ⟨k, y, hpe, hkn, hkm, hkd⟩
    · refine ⟨pre', hk', ?_, ?_⟩
      · intro q hq
        obtain ⟨u, hu, hus, hd⟩ := hpre' q hq
        exact ⟨u, hu, List.mem_append_right _ hus, hd⟩
      · intro τ hag hcov ys hys
        exact hτpart [] (by simpa using hpe) τ (by simpa using hag) (by simpa [List.flatMap_cons] using hcov) ys hys
    · obtain ⟨u, hu, hus⟩ := Term.nodes_noLit hs2 hkm
      subst hu
      refine ⟨(Key.var u, y) :: pre', ?_, ?_, ?_⟩
      · apply EnvFn.cons hk'
        intro hmem
        simp only [keys, List.map_append, List.mem_append, List.mem_map] at hmem
        rcases hmem with ⟨q, hq, hq1⟩ | ⟨q, hq, hq1⟩
        · obtain ⟨u', hu', hus', _⟩ := hpre' q hq
          rw [hu'] at hq1; cases hq1
          exact hnd.2.2 u hus u hus' rfl
        · exact not_mem_keys_of_lookup_none hkn (hq1 ▸ mem_keys (x := q.2) hq)
      · intro q hq
        rcases List.mem_cons.mp hq with rfl | hq
        · exact ⟨u, rfl, List.mem_append_left _ hus, hkd u rfl⟩
        · obtain ⟨u', hu', hus', hd⟩ := hpre' q hq
          exact ⟨u', hu', List.mem_append_right _ hus', hd⟩
      · intro τ hag hcov ys hys
        exact hτpart [(Key.var u, y)] (by simpa using hpe) τ (by simpa using hag)
          (by simpa [List.flatMap_cons] using hcov) ys hys

theorem mapM_congr_mem {α β} {f g : α → Except Err β} : ∀ {l : List α}, (∀ x ∈ l, f x = g x) → l.mapM f = l.mapM g := by
  intro l
  induction l with
  | nil => intro _; rfl
  | cons a t ih =>
    intro h
    rw [List.mapM_cons, List.mapM_cons, h a List.mem_cons_self, ih (fun x hx => h x (List.mem_cons_of_mem _ hx))]

theorem lookup_append_of_isSome {σ ρ : Asg} {v : VarId} (h : (σ.lookup v).isSome = true) :
    (σ ++ ρ).lookup v = σ.lookup v := by
  rw [List.lookup_append]
  cases hl : σ.lookup v with
  | none => rw [hl] at h; cases h
  | some x => rfl

theorem lookup_append_of_not_mem {ρ σ : Asg} {v : VarId} (h : ∀ b ∈ ρ, b.1 ≠ v) : (ρ ++ σ).lookup v = σ.lookup v := by
  rw [List.lookup_append]
  have : ρ.lookup v = none := by
    rw [List.lookup_eq_none_iff]
    intro b hb
    simp only [bne_iff_ne, ne_eq]
    exact fun heq => h b hb heq.symm
  rw [this]; rfl

theorem covers_congr {w : World} {τ τ' : Asg} {vs : List VarId} (h : Covers w τ vs)
    (heq : ∀ v ∈ vs, τ'.lookup v = τ.lookup v) : Covers w τ' vs := by
  intro v hv
  obtain ⟨x, hx, hc⟩ := h v hv
  exact ⟨x, by rw [heq v hv]; exact hx, hc⟩

theorem mem_vars_fq {e : Expr} {v : VarId} (h : v ∈ e.vars) : v ∈ e.fvars ∨ v ∈ e.qvars := by
  induction e with
  | and l r ihl ihr =>
    simp only [Expr.vars, Expr.fvars, Expr.qvars, List.mem_append] at h ⊢
    rcases h with h | h
    · rcases ihl h with h | h <;> simp [h]
    · rcases ihr h with h | h <;> simp [h]
  | elseIf l r ihl ihr =>
    simp only [Expr.vars, Expr.fvars, Expr.qvars, List.mem_append] at h ⊢
    rcases h with h | h
    · rcases ihl h with h | h <;> simp [h]
    · rcases ihr h with h | h <;> simp [h]
  | union l r ihl ihr =>
    simp only [Expr.vars, Expr.fvars, Expr.qvars, List.mem_append] at h ⊢
    rcases h with h | h
    · rcases ihl h with h | h <;> simp [h]
    · rcases ihr h with h | h <;> simp [h]
  | not e ih => exact ih h
  | exists_ q e ih =>
    simp only [Expr.vars, Expr.fvars, Expr.qvars, List.mem_cons, List.mem_filter] at h ⊢
    by_cases hvq : v = q
    · right; left; exact hvq
    · rcases h with h | h
      · exact absurd h hvq
      · rcases ih h with h | h
        · left; exact ⟨h, by simp [hvq]⟩
        · right; right; exact h
  | forAll q e ih =>
    simp only [Expr.vars, Expr.fvars, Expr.qvars, List.mem_cons, List.mem_filter] at h ⊢
    by_cases hvq : v = q
    · right; left; exact hvq
    · rcases h with h | h
      · exact absurd h hvq
      · rcases ih h with h | h
        · left; exact ⟨h, by simp [hvq]⟩
        · right; right; exact h
  | _ => left; exact h

/-- **from the cell invariant to the rows** (as sets): if the result cells of the built condition satisfy `QInv`, the
rows the descriptor returns are exactly the projections of the satisfying assignments of the free variables -/
theorem sound_complete_of_qinv (w : World) (sel : List Term) (c : SExpr)
    (hqf : ∀ v ∈ (build c).qvars, v ∉ (build c).fvars)
    (hinvF : ∀ rs, eval w (build c) [] = .ok rs → QInv w (build c) [] rs)
    (hsel : selF1 sel = true) (hms : (sel.flatMap Term.vars).Nodup)
    (hsq : ∀ v ∈ (build c).qvars, v ∉ sel.flatMap Term.vars)
    (hnd : ∀ v, (w.dom v).Nodup)
    (hne : ∀ v ∈ SQuery.vars { sel := sel, cond := some c }, w.dom v ≠ [])
    {rows rows' : List (List Val)}
    (h1 : evalQuery w { sel := sel, cond := some (build c) } = .ok rows)
    (h2 : solutions w { sel := sel, cond := some c } = .ok rows') :
    ∀ r, r ∈ rows ↔ r ∈ rows' := by
  have hselp : ∀ s ∈ sel, s.noFlat = true ∧ s.noLit = true := by
    intro s hs
    have := List.all_eq_true.mp hsel s hs
    simpa using this
  obtain ⟨vs, hvs⟩ : ∃ vs, vs = SQuery.vars { sel := sel, cond := some c } := ⟨_, rfl⟩
  rw [← hvs] at hne
  have hvsn : vs.Nodup := by rw [hvs]; exact dedupNat_nodup _
  have hvsm : ∀ v, v ∈ vs ↔ v ∈ sel.flatMap Term.vars ∨ v ∈ (build c).fvars := by
    intro v; rw [hvs, SQuery.vars, mem_dedupNat, build_fvars, List.mem_append]
  let qs := (build c).qvars
  have hqvs : ∀ v ∈ qs, v ∉ vs := by
    intro v hv hvv
    rcases (hvsm v).mp hvv with h | h
    · exact hsq v hv h
    · exact hqf v hv h
  -- the evaluation side
  unfold evalQuery at h1
  obtain ⟨rs, hrs, h1⟩ := bind_ok h1
  obtain ⟨T, hT, h1⟩ := bind_ok h1
  have hT := (pure_ok hT).symm
  obtain ⟨gF, hgF, rfl⟩ := flatMapM_ok h1
  have hgF' : ∀ env ∈ T, ∃ per, sel.mapM (selVals w env) = .ok per ∧ gF env = product per := by
    intro env henv
    obtain ⟨per, hper, hp⟩ := bind_ok (hgF env henv)
    exact ⟨per, hper, (pure_ok hp).symm⟩
  have hinv : QInv w (build c) [] rs := hinvF rs hrs
  have hfacts : ∀ p ∈ rs, p.2 = true → ∀ v x, (Key.var v, x) ∈ p.1 → (v ∈ vs ∨ v ∈ qs) ∧ x ∈ w.dom v := by
    intro p hp hpt v x hm
    rcases (hinv.ext p hp hpt).2 _ hm with h | h
    · cases h
    · obtain ⟨hv, hx⟩ := h v rfl
      refine ⟨?_, hx⟩
      rcases mem_vars_fq hv with h | h
      · left; exact (hvsm v).mpr (Or.inr h)
      · right; exact h
  -- the specification side
  unfold solutions at h2
  obtain ⟨sols, hsols, h2⟩ := bind_ok h2
  rw [← hvs] at hsols
  obtain ⟨pred, hpred, hsolsEq⟩ := filterM_ok hsols
  obtain ⟨g', hg', rfl⟩ := mapM_ok h2
  have hcovers : ∀ σ ∈ assignments w vs, ∀ us : List VarId, (∀ u ∈ us, u ∈ vs) → Covers w σ us := by
    intro σ hσ us hus v hv
    obtain ⟨x, hx, hxd⟩ := assignments_lookup hvsn hσ (hus v hv)
    exact ⟨x, hx, by rw [(hnd v).count]; simp [hxd]⟩
  have hsatσ : ∀ σ ∈ assignments w vs, satE w (build c) σ = .ok (pred σ) := by
    intro σ hσ; rw [← satE_build]; exact hpred σ hσ
  have hfvs : ∀ u ∈ (build c).fvars, u ∈ vs := fun u hu => (hvsm u).mpr (Or.inr hu)
  have hsvs : ∀ u ∈ sel.flatMap Term.vars, u ∈ vs := fun u hu => (hvsm u).mpr (Or.inl hu)
  intro r
  constructor
  · -- soundness
    intro hr
    obtain ⟨env, henv, hr⟩ := List.mem_flatMap.mp hr
    obtain ⟨per, hper, hgp⟩ := hgF' env henv
    rw [hgp] at hr
    rw [hT] at henv
    simp only [List.mem_map, List.mem_filter] at henv
    obtain ⟨p, ⟨hp, hpt⟩, rfl⟩ := henv
    obtain ⟨pre, hfnp, hpre, hτ⟩ := select_sound' w sel p.1 per r hselp hms (hinv.fn p hp hpt) hper hr
    -- the assignment read off the extended cell (free variables; then the quantified ones)
    let σ : Asg := vs.map fun v => (v, ((pre ++ p.1).lookup (.var v)).getD ((w.dom v).headD .none))
    let ρ : Asg := qs.map fun v => (v, ((pre ++ p.1).lookup (.var v)).getD .none)
    have hall : ∀ v x, (Key.var v, x) ∈ pre ++ p.1 → (v ∈ vs ∨ v ∈ qs) ∧ x ∈ w.dom v := by
      intro v x hm
      rcases List.mem_append.mp hm with hm | hm
      · obtain ⟨u, hu, hus, hd⟩ := hpre _ hm
        cases hu
        exact ⟨Or.inl (hsvs v hus), hd⟩
      · exact hfacts p hp hpt v x hm
    have hσ : σ ∈ assignments w vs := by
      rw [mem_assignments]
      refine ⟨by simp [σ, List.map_map, Function.comp_def], ?_⟩
      intro q hq
      simp only [σ, List.mem_map] at hq
      obtain ⟨v, hv, rfl⟩ := hq
      cases hl : (pre ++ p.1).lookup (.var v) with
      | none => simp only [Option.getD_none]; exact headD_mem (hne v hv) _
      | some x => exact (hall v x (lookup_mem' hl)).2
    have hlkσ : ∀ v ∈ vs, (σ ++ ρ).lookup v = σ.lookup v := by
      intro v hv
      apply lookup_append_of_isSome
      simp only [σ]; rw [lookup_map_self, if_pos hv]; rfl
    have hag : agreesB (σ ++ ρ) (pre ++ p.1) = true := by
      rw [agreesB_iff]
      intro v x hm
      have hlk := hfnp.lookup hm
      by_cases hv : v ∈ vs
      · rw [hlkσ v hv]
        simp only [σ]
        rw [lookup_map_self, if_pos hv, hlk]; rfl
      · have hq : v ∈ qs := (hall v x hm).1.resolve_left hv
        rw [List.lookup_append]
        have h1 : σ.lookup v = none := by simp only [σ]; rw [lookup_map_self, if_neg hv]
        have h2 : ρ.lookup v = some x := by simp only [ρ]; rw [lookup_map_self, if_pos hq, hlk]; rfl
        rw [h1, h2]; rfl
    have hagp : agreesB (σ ++ ρ) p.1 = true := by
      rw [agreesB_append, Bool.and_eq_true] at hag; exact hag.2
    have hpredσ : pred σ = true := by
      apply hinv.sound p hp hpt (σ ++ ρ) (pred σ) (covers_congr (hcovers σ hσ _ hfvs) (fun v hv => hlkσ v (hfvs v hv))) hagp
      rw [← hsatσ σ hσ]
      exact satE_congr w _ _ _ (fun v hv => hlkσ v (hfvs v hv))
    have hσs : σ ∈ sols := by rw [hsolsEq]; exact List.mem_filter.mpr ⟨hσ, hpredσ⟩
    have := hτ (σ ++ ρ) hag (covers_congr (hcovers σ hσ _ hsvs) (fun v hv => hlkσ v (hsvs v hv))) (g' σ) (by
      rw [← hg' σ hσs]
      apply mapM_congr_mem
      intro s hs
      apply tval_congr
      intro v hv
      exact hlkσ v (hsvs v (List.mem_flatMap.mpr ⟨s, hs, hv⟩)))
    rw [← this]
    exact List.mem_map.mpr ⟨σ, hσs, rfl⟩
  · -- completeness
    intro hr
    obtain ⟨σ, hσs, rfl⟩ := List.mem_map.mp hr
    have hσs' := hσs
    rw [hsolsEq] at hσs'
    obtain ⟨hσ, hpredσ⟩ := List.mem_filter.mp hσs'
    obtain ⟨p, hp, hpt, ρ, hρ, hagp⟩ := hinv.complete σ (hcovers σ hσ _ hfvs) (agreesB_nil σ)
      (by rw [hsatσ σ hσ, hpredσ])
    have hpT : p.1 ∈ T := by
      rw [hT]
      exact List.mem_map.mpr ⟨p, List.mem_filter.mpr ⟨hp, hpt⟩, rfl⟩
    obtain ⟨per, hper, hgp⟩ := hgF' p.1 hpT
    refine List.mem_flatMap.mpr ⟨p.1, hpT, ?_⟩
    rw [hgp]
    have hlk : ∀ v ∈ sel.flatMap Term.vars, (ρ ++ σ).lookup v = σ.lookup v := by
      intro v hv
      apply lookup_append_of_not_mem
      intro b hb heq
      exact hsq _ (hρ b hb) (heq ▸ hv)
    apply select_complete w (ρ ++ σ) sel p.1 per (g' σ) hselp hagp
      (covers_congr (hcovers σ hσ _ hsvs) hlk) hper
    rw [← hg' σ hσs]
    apply mapM_congr_mem
    intro s hs
    apply tval_congr
    intro v hv
    exact hlk v (List.mem_flatMap.mpr ⟨s, hs, hv⟩)



/-- **soundness and completeness on the chain fragment `Expr.Ql`** (as sets of rows) -/
theorem sound_complete_Ql (w : World) (sel : List Term) (c : SExpr)
    (hQ : (build c).Ql [] [] = true) (hsel : selF1 sel = true) (hms : (sel.flatMap Term.vars).Nodup)
    (hsq : ∀ v ∈ (build c).qvars, v ∉ sel.flatMap Term.vars)
    (hnd : ∀ v, (w.dom v).Nodup)
    (hne : ∀ v ∈ SQuery.vars { sel := sel, cond := some c }, w.dom v ≠ [])
    (hlit : LitNodup (build c))
    {rows rows' : List (List Val)}
    (h1 : evalQuery w { sel := sel, cond := some (build c) } = .ok rows)
    (h2 : solutions w { sel := sel, cond := some c } = .ok rows') :
    ∀ r, r ∈ rows ↔ r ∈ rows' :=
  sound_complete_of_qinv w sel c (fun v hv => (ql_qvars _ _ _ hQ v hv).2)
    (fun rs hrs => ql_qinv w hnd (build c) [] [] hQ hlit [] rs (fun _ _ _ h => by cases h) (by simp) (by simp) (fun _ _ => rfl) hrs)
    hsel hms hsq hnd hne h1 h2

/-! ## Q9. And-TREES of quantifier-free conditions and quantifiers (`Expr.Qt`) -/

/-- `QInv` plus what a conjunct evaluated LATER needs to know about the rows it meets -/
structure QInv2 (w : World) (e : Expr) (env : Env) (rs : List (Env × Bool)) : Prop extends QInv w e env rs where
  keysIn : ∀ p ∈ rs, p.2 = true → ∃ pre, p.1 = pre ++ env ∧ ∀ b ∈ pre, b.1 ∈ e.nodes
  tbinds : ∀ p ∈ rs, p.2 = true → ∀ k ∈ e.tb, (p.1.lookup k).isSome = true

theorem Expr.noForAll_Fc {e : Expr} (h : e.Fc = true) : e.noForAll = true := by
  induction e with
  | and l r ihl ihr => simp only [Expr.Fc, Bool.and_eq_true] at h; simp [Expr.noForAll, ihl h.1, ihr h.2]
  | elseIf l r ihl ihr => simp only [Expr.Fc, Bool.and_eq_true] at h; simp [Expr.noForAll, ihl h.1, ihr h.2]
  | not e ih => simp only [Expr.Fc] at h; simp [Expr.noForAll, ih h]
  | _ => simp_all [Expr.Fc, Expr.noForAll]

theorem Expr.tb_Fc {e : Expr} (h : e.Fc = true) : e.tb = Expr.bK true e := by
  induction e with
  | and l r ihl ihr => simp only [Expr.Fc, Bool.and_eq_true] at h; simp [Expr.tb, Expr.bK, ihl h.1, ihr h.2]
  | exists_ q e _ => simp [Expr.Fc] at h
  | forAll q e _ => simp [Expr.Fc] at h
  | _ => simp [Expr.tb]

theorem mem_fvars_vars {e : Expr} {v : VarId} (h : v ∈ e.fvars) : v ∈ e.vars := by
  induction e with
  | and l r ihl ihr =>
    simp only [Expr.fvars, Expr.vars, List.mem_append] at h ⊢
    exact h.imp ihl ihr
  | elseIf l r ihl ihr =>
    simp only [Expr.fvars, Expr.vars, List.mem_append] at h ⊢
    exact h.imp ihl ihr
  | union l r ihl ihr =>
    simp only [Expr.fvars, Expr.vars, List.mem_append] at h ⊢
    exact h.imp ihl ihr
  | not e ih => exact ih h
  | exists_ q e ih =>
    simp only [Expr.fvars, List.mem_filter] at h
    exact List.mem_cons_of_mem _ (ih h.1)
  | forAll q e ih =>
    simp only [Expr.fvars, List.mem_filter] at h
    exact List.mem_cons_of_mem _ (ih h.1)
  | _ => exact h

/-- a quantifier-free condition of the cover fragment, as a leaf of the tree -/
theorem fc_qinv2 (w : World) (e : Expr) (hF : e.Fc = true) (hln : LitNodup e) (env : Env) (rs : List (Env × Bool))
    (hk : EnvFn env) (hlf : LitFresh e.nodes env) (h : eval w e env = .ok rs) : QInv2 w e env rs := by
  have hext := eval_ext w e hF env rs h
  refine ⟨⟨?_, ?_, ?_, ?_⟩, ?_, ?_⟩
  · intro p hp _
    obtain ⟨pre, hpe, hprop, _⟩ := hext p hp
    refine ⟨⟨pre, hpe⟩, ?_⟩
    intro b hb
    rw [hpe] at hb
    rcases List.mem_append.mp hb with hb | hb
    · right; intro v hv
      exact ⟨Expr.mem_nodes_var.mp (hv ▸ (hprop b hb).1), (hprop b hb).2 v hv⟩
    · left; exact hb
  · intro p hp _
    exact hk.of_fext (eval_fext w e hF env rs h p hp)
  · intro p hp hpt τ b hcov hag hs
    rw [Expr.fvars_Fc hF] at hcov
    obtain ⟨pre, hpe, _, _⟩ := hext p hp
    have hagenv : agreesB τ env = true := by
      rw [hpe, agreesB_append, Bool.and_eq_true] at hag; exact hag.2
    have hc := cover w τ e hF hcov hln env rs b hlf hagenv h hs
    have : p.2 ∈ (rs.filter fun p => agreesB τ p.1).map (·.2) :=
      List.mem_map.mpr ⟨p, List.mem_filter.mpr ⟨hp, hag⟩, rfl⟩
    rw [hc, List.mem_singleton, hpt] at this
    exact this.symm
  · intro τ hcov hag hs
    rw [Expr.fvars_Fc hF] at hcov
    obtain ⟨a, _, hav, ham, haa⟩ := cells_single (cover w τ e hF hcov hln env rs true hlf hag h hs)
    exact ⟨a, ham, hav, [], by simp, by simpa using haa⟩
  · intro p hp _
    obtain ⟨pre, hpe, hprop, _⟩ := hext p hp
    exact ⟨pre, hpe, fun b hb => (hprop b hb).1⟩
  · intro p hp hpt k hk
    rw [Expr.tb_Fc hF] at hk
    exact bK_sound w e hF env rs h p hp true hpt k hk

theorem litFresh_append {k1 k2 : List Key} {pre env : Env} (ha : LitFresh k2 env) (hp : ∀ b ∈ pre, b.1 ∈ k1)
    (hd : ∀ i, Key.lit i ∈ k1 → Key.lit i ∉ k2) : LitFresh k2 (pre ++ env) := by
  intro i hi
  rw [List.lookup_append, ha i hi]
  have : List.lookup (Key.lit i) pre = none := by
    rw [List.lookup_eq_none_iff]
    intro q hq
    have h1 := hp q hq
    simp only [bne_iff_ne, ne_eq]
    intro heq
    rw [← heq] at h1
    exact hd i h1 hi
  simp [this]

theorem isSome_append_right {pre env : Env} {k : Key} (h : (env.lookup k).isSome = true) :
    ((pre ++ env).lookup k).isSome = true := by
  rw [List.lookup_append]
  cases List.lookup k pre <;> simp [h]

theorem qt_qvars (e : Expr) : ∀ A B, e.Qt A B = true → ∀ v ∈ e.qvars, v ∉ A ∧ v ∉ e.fvars := by
  induction e with
  | and l r ihl ihr =>
    intro A B h v hv
    simp only [Expr.Qt, Bool.and_eq_true, List.all_eq_true, Bool.not_eq_true'] at h
    obtain ⟨⟨hl, hlr⟩, hr⟩ := h
    simp only [Expr.qvars, List.mem_append] at hv
    simp only [Expr.fvars, List.mem_append, not_or]
    rcases hv with hv | hv
    · obtain ⟨h1, h2⟩ := ihl _ _ hl v hv
      refine ⟨h1, h2, ?_⟩
      intro hvr
      have := hlr v hv
      simp [mem_fvars_vars hvr] at this
    · obtain ⟨h1, h2⟩ := ihr _ _ hr v hv
      simp only [List.mem_append, not_or] at h1
      exact ⟨h1.1, fun hvl => h1.2 (mem_fvars_vars hvl), h2⟩
  | exists_ q φ _ =>
    intro A B h v hv
    simp only [Expr.Qt, Expr.FcQ_eq, Bool.and_eq_true, Bool.not_eq_true'] at h
    simp only [Expr.qvars, Expr.qvars_Fc h.1.1.1.1, List.mem_singleton] at hv
    subst hv
    exact ⟨by simpa using h.1.1.1.2, by simp [Expr.fvars]⟩
  | forAll q φ _ =>
    intro A B h v hv
    simp only [Expr.Qt, Expr.FcQ_eq, Bool.and_eq_true, Bool.not_eq_true'] at h
    simp only [Expr.qvars, Expr.qvars_Fc h.1.1, List.mem_singleton] at hv
    subst hv
    exact ⟨by simpa using h.1.2, by simp [Expr.fvars]⟩
  | union l r _ _ => intro A B h; simp [Expr.Qt, Expr.FcQ] at h
  | _ =>
    intro A B h v hv
    simp only [Expr.Qt, Expr.FcQ_eq] at h
    rw [Expr.qvars_Fc h] at hv; cases hv

/-- **main induction, and-trees** -/
theorem qt_qinv2 (w : World) (hnd : ∀ v, (w.dom v).Nodup) (e : Expr) : ∀ A B, e.Qt A B = true → LitNodup e →
    ∀ env rs, EnvFn env → (∀ k ∈ B, (env.lookup k).isSome = true) →
      (∀ v, (env.lookup (.var v)).isSome = true → v ∈ A) → LitFresh e.nodes env →
      eval w e env = .ok rs → QInv2 w e env rs := by
  induction e with
  | and l r ihl ihr =>
    intro A B hQ hln env rs hk hB hA hlf h
    simp only [Expr.Qt, Bool.and_eq_true, List.all_eq_true, Bool.not_eq_true'] at hQ
    obtain ⟨⟨hQl, hlr⟩, hQr⟩ := hQ
    obtain ⟨ls, g, h0, rfl, hg⟩ := eval_and_inv h
    obtain ⟨hnl, hnr, hd⟩ := litNodup_append hln
    have hL : QInv2 w l env ls :=
      ihl A B hQl hnl env ls hk hB hA (hlf.mono (subset_append_left _ _)) h0
    have hrest : ∀ a ∈ ls, a.2 = true → QInv2 w r a.1 (g a) := by
      intro a ha hat
      obtain ⟨pre, hpe, hkeys⟩ := hL.keysIn a ha hat
      apply ihr (A ++ l.vars) (B ++ l.tb) hQr hnr a.1 (g a) (hL.fn a ha hat)
      · intro k hkm
        rcases List.mem_append.mp hkm with hkm | hkm
        · rw [hpe]; exact isSome_append_right (hB k hkm)
        · exact hL.tbinds a ha hat k hkm
      · intro v hv
        rw [hpe, List.lookup_append] at hv
        cases hl : List.lookup (Key.var v) pre with
        | none => rw [hl] at hv; exact List.mem_append_left _ (hA v (by simpa using hv))
        | some y => exact List.mem_append_right _ (Expr.mem_nodes_var.mp (hkeys _ (lookup_mem' hl)))
      · rw [hpe]; exact litFresh_append (hlf.mono (subset_append_right _ _)) hkeys hd
      · exact (hg a ha).1 hat
    have hsrc : ∀ p ∈ ls.flatMap g, p.2 = true → ∃ a ∈ ls, a.2 = true ∧ p ∈ g a := by
      intro p hp hpt
      obtain ⟨a, ha, hpa⟩ := List.mem_flatMap.mp hp
      cases hat : a.2 with
      | true => exact ⟨a, ha, hat, hpa⟩
      | false =>
        rw [(hg a ha).2 hat, List.mem_singleton] at hpa
        rw [hpa] at hpt; cases hpt
    have hqr : ∀ ρ : Asg, (∀ b ∈ ρ, b.1 ∈ l.qvars) → ∀ (τ : Asg) (v : VarId), v ∈ r.fvars →
        (ρ ++ τ).lookup v = τ.lookup v := by
      intro ρ hρ τ v hv
      apply lookup_append_of_not_mem
      intro b hb heq
      have := hlr _ (hρ b hb)
      rw [heq] at this
      simp [mem_fvars_vars hv] at this
    refine ⟨⟨?_, ?_, ?_, ?_⟩, ?_, ?_⟩
    · intro p hp hpt
      obtain ⟨a, ha, hat, hpa⟩ := hsrc p hp hpt
      obtain ⟨⟨pre', hpe'⟩, hmem⟩ := (hrest a ha hat).ext p hpa hpt
      obtain ⟨⟨pre, hpe⟩, hmema⟩ := hL.ext a ha hat
      refine ⟨⟨pre' ++ pre, by rw [hpe', hpe, List.append_assoc]⟩, ?_⟩
      intro b hb
      rcases hmem b hb with hb' | hb'
      · rcases hmema b hb' with hb'' | hb''
        · left; exact hb''
        · right; intro v hv
          exact ⟨List.mem_append_left _ (hb'' v hv).1, (hb'' v hv).2⟩
      · right; intro v hv
        exact ⟨List.mem_append_right _ (hb' v hv).1, (hb' v hv).2⟩
    · intro p hp hpt
      obtain ⟨a, ha, hat, hpa⟩ := hsrc p hp hpt
      exact (hrest a ha hat).fn p hpa hpt
    · intro p hp hpt τ b hcov hag hs
      obtain ⟨a, ha, hat, hpa⟩ := hsrc p hp hpt
      obtain ⟨⟨pre', hpe'⟩, _⟩ := (hrest a ha hat).ext p hpa hpt
      have haga : agreesB τ a.1 = true := by
        rw [hpe', agreesB_append, Bool.and_eq_true] at hag; exact hag.2
      simp only [satE] at hs
      obtain ⟨bl, hbl, hs⟩ := bind_ok hs
      obtain ⟨br, hbr, hs⟩ := bind_ok hs
      have hb := pure_ok hs
      simp only [Expr.fvars] at hcov
      have hbrt : br = true := (hrest a ha hat).sound p hpa hpt τ br
        (fun v hv => hcov v (List.mem_append_right _ hv)) hag hbr
      have hblt : bl = true := hL.sound a ha hat τ bl
        (fun v hv => hcov v (List.mem_append_left _ hv)) haga hbl
      rw [← hb, hblt, hbrt]; rfl
    · intro τ hcov hag hs
      simp only [satE] at hs
      obtain ⟨bl, hbl, hs⟩ := bind_ok hs
      obtain ⟨br, hbr, hs⟩ := bind_ok hs
      have hb := pure_ok hs
      simp only [Bool.and_eq_true] at hb
      obtain ⟨rfl, rfl⟩ := hb
      simp only [Expr.fvars] at hcov
      obtain ⟨a, ham, hav, ρ1, hρ1, haa⟩ := hL.complete τ
        (fun v hv => hcov v (List.mem_append_left _ hv)) hag hbl
      obtain ⟨p, hp, hpt, ρ2, hρ2, hagp⟩ := (hrest a ham hav).complete (ρ1 ++ τ)
        (covers_congr (fun v hv => hcov v (List.mem_append_right _ hv)) (fun v hv => hqr ρ1 hρ1 τ v hv)) haa
        (by rw [← hbr]; exact satE_congr w r _ _ (fun v hv => hqr ρ1 hρ1 τ v hv))
      refine ⟨p, List.mem_flatMap.mpr ⟨a, ham, hp⟩, hpt, ρ2 ++ ρ1, ?_, by rw [List.append_assoc]; exact hagp⟩
      intro b hb
      simp only [Expr.qvars, List.mem_append]
      rcases List.mem_append.mp hb with hb | hb
      · right; exact hρ2 b hb
      · left; exact hρ1 b hb
    · intro p hp hpt
      obtain ⟨a, ha, hat, hpa⟩ := hsrc p hp hpt
      obtain ⟨pre', hpe', hk'⟩ := (hrest a ha hat).keysIn p hpa hpt
      obtain ⟨pre, hpe, hk1⟩ := hL.keysIn a ha hat
      refine ⟨pre' ++ pre, by rw [hpe', hpe, List.append_assoc], ?_⟩
      intro b hb
      simp only [Expr.nodes, List.mem_append]
      rcases List.mem_append.mp hb with hb | hb
      · right; exact hk' b hb
      · left; exact hk1 b hb
    · intro p hp hpt k hkm
      obtain ⟨a, ha, hat, hpa⟩ := hsrc p hp hpt
      simp only [Expr.tb, List.mem_append] at hkm
      rcases hkm with hkm | hkm
      · obtain ⟨⟨pre', hpe'⟩, _⟩ := (hrest a ha hat).ext p hpa hpt
        rw [hpe']; exact isSome_append_right (hL.tbinds a ha hat k hkm)
      · exact (hrest a ha hat).tbinds p hpa hpt k hkm
  | exists_ q φ _ =>
    intro A B hQ hln env rs hk hB hA hlf h
    simp only [Expr.Qt, Expr.FcQ_eq, Bool.and_eq_true, Bool.not_eq_true', List.contains_iff_mem,
      List.all_eq_true, Bool.or_eq_true, beq_iff_eq] at hQ
    obtain ⟨⟨⟨⟨hF, hqA⟩, hb1⟩, hb2⟩, hvars⟩ := hQ
    have hq : env.lookup (.var q) = none := by
      cases hl : env.lookup (.var q) with
      | none => rfl
      | some y => exact absurd (hA q (by simp [hl])) (by simpa using hqA)
    have hbase := exists_qinv w hnd q φ hF (litNodup_cons_var hln) B ⟨hb1, hb2⟩ hvars env rs hk hB hq
      (hlf.mono fun k hk => List.mem_cons_of_mem _ hk) h
    obtain ⟨rs0, h0, hfil⟩ := eval_exists_inv h
    have hsub := existsFilter_sub w q rs0 [] rs hfil
    have hext := eval_ext w φ hF env rs0 h0
    refine ⟨hbase, ?_, ?_⟩
    · intro p hp _
      obtain ⟨pre, hpe, hprop, _⟩ := hext _ (hsub p hp).2
      exact ⟨pre, hpe, fun b hb => List.mem_cons_of_mem _ (hprop b hb).1⟩
    · intro p hp _ k hkm
      exact bK_sound w φ hF env rs0 h0 _ (hsub p hp).2 true rfl k hkm
  | forAll q φ _ =>
    intro A B hQ hln env rs hk hB hA hlf h
    simp only [Expr.Qt, Expr.FcQ_eq, Bool.and_eq_true, Bool.not_eq_true', List.contains_iff_mem,
      List.all_eq_true] at hQ
    obtain ⟨⟨hF, hqA⟩, hall⟩ := hQ
    have hq : env.lookup (.var q) = none := by
      cases hl : env.lookup (.var q) with
      | none => rfl
      | some y => exact absurd (hA q (by simp [hl])) (by simpa using hqA)
    have hbase := forAll_qinv w hnd q φ hF (litNodup_cons_var hln) hall env rs hk hq
      (hlf.mono fun k hk => List.mem_cons_of_mem _ hk) h
    obtain ⟨x0, xs, c0, final, hdom, h0, hfold, rfl⟩ := eval_forAll_inv hq h
    obtain ⟨hfin1, _⟩ := foldlM_filter_ok _ _ _ _ hfold
    refine ⟨hbase, ?_, ?_⟩
    · intro p hp _
      obtain ⟨sol, hsol, rfl⟩ := List.mem_map.mp hp
      obtain ⟨c, _, rfl⟩ := List.mem_map.mp (hfin1 sol hsol).1
      refine ⟨_, rfl, ?_⟩
      intro b hb
      exact List.mem_cons_of_mem _ (List.mem_filter.mp (mem_restrict.mp hb).2).1
    · intro p _ _ k hkm; simp [Expr.tb] at hkm
  | cmp op a b => intro A B hQ hln env rs hk _ _ hlf h; exact fc_qinv2 w _ (by simpa [Expr.Qt] using hQ) hln env rs hk hlf h
  | contains a b => intro A B hQ hln env rs hk _ _ hlf h; exact fc_qinv2 w _ (by simpa [Expr.Qt] using hQ) hln env rs hk hlf h
  | truth t => intro A B hQ hln env rs hk _ _ hlf h; exact fc_qinv2 w _ (by simpa [Expr.Qt] using hQ) hln env rs hk hlf h
  | hasType t c => intro A B hQ hln env rs hk _ _ hlf h; exact fc_qinv2 w _ (by simpa [Expr.Qt] using hQ) hln env rs hk hlf h
  | elseIf a b _ _ => intro A B hQ hln env rs hk _ _ hlf h; exact fc_qinv2 w _ (by simpa [Expr.Qt] using hQ) hln env rs hk hlf h
  | not a _ => intro A B hQ hln env rs hk _ _ hlf h; exact fc_qinv2 w _ (by simpa [Expr.Qt] using hQ) hln env rs hk hlf h
  | union a b _ _ => intro A B hQ; simp [Expr.Qt, Expr.FcQ] at hQ


theorem qt_of_Fc {e : Expr} (h : e.Fc = true) : ∀ A B, e.Qt A B = true := by
  induction e with
  | and l r ihl ihr =>
    intro A B
    simp only [Expr.Fc, Bool.and_eq_true] at h
    simp [Expr.Qt, ihl h.1, ihr h.2, Expr.qvars_Fc h.1]
  | union l r _ _ => simp [Expr.Fc] at h
  | exists_ q e _ => simp [Expr.Fc] at h
  | forAll q e _ => simp [Expr.Fc] at h
  | _ => intro A B; simpa [Expr.Qt] using h

/-- the chain fragment is part of the and-tree fragment -/
theorem ql_qt (e : Expr) : ∀ A B, e.Ql A B = true → e.Qt A B = true := by
  induction e with
  | and l e' _ ih =>
    intro A B h
    simp only [Expr.Ql, Expr.FcQ_eq, Bool.and_eq_true] at h
    simp only [Expr.Qt, Bool.and_eq_true]
    refine ⟨⟨qt_of_Fc h.1 A B, by simp [Expr.qvars_Fc h.1]⟩, ?_⟩
    rw [Expr.tb_Fc h.1]; exact ih _ _ h.2
  | exists_ q φ _ => intro A B h; simpa [Expr.Ql, Expr.Qt] using h
  | forAll q φ _ => intro A B h; simpa [Expr.Ql, Expr.Qt] using h
  | _ => intro A B h; simp [Expr.Ql] at h

/-- **soundness and completeness on the and-tree fragment `Expr.Qt`** (as sets of rows) -/
theorem sound_complete_Qt (w : World) (sel : List Term) (c : SExpr)
    (hQ : (build c).Qt [] [] = true) (hsel : selF1 sel = true) (hms : (sel.flatMap Term.vars).Nodup)
    (hsq : ∀ v ∈ (build c).qvars, v ∉ sel.flatMap Term.vars)
    (hnd : ∀ v, (w.dom v).Nodup)
    (hne : ∀ v ∈ SQuery.vars { sel := sel, cond := some c }, w.dom v ≠ [])
    (hlit : LitNodup (build c))
    {rows rows' : List (List Val)}
    (h1 : evalQuery w { sel := sel, cond := some (build c) } = .ok rows)
    (h2 : solutions w { sel := sel, cond := some c } = .ok rows') :
    ∀ r, r ∈ rows ↔ r ∈ rows' :=
  sound_complete_of_qinv w sel c (fun v hv => (qt_qvars _ _ _ hQ v hv).2)
    (fun rs hrs => (qt_qinv2 w hnd (build c) [] [] hQ hlit [] rs (fun _ _ _ h => by cases h) (by simp) (by simp)
      (fun _ _ => rfl) hrs).toQInv)
    hsel hms hsq hnd hne h1 h2

/-! ## Q10. An `exists` inside the fragment never raises by itself -/

theorem existsFilter_total (w : World) (q : VarId) : ∀ (rs : List (Env × Bool)) (seen : List Val),
    (∀ p ∈ rs, (p.1.lookup (.var q)).isSome = true) → ∃ out, existsFilter w q rs seen = .ok out := by
  intro rs
  induction rs with
  | nil => intro seen _; exact ⟨[], rfl⟩
  | cons a rest ih =>
    intro seen hb
    obtain ⟨env1, t⟩ := a
    have h1 := hb (env1, t) List.mem_cons_self
    simp only at h1
    cases hl : env1.lookup (.var q) with
    | none => rw [hl] at h1; cases h1
    | some x =>
      simp only [existsFilter, hl]
      split
      · obtain ⟨out, ho⟩ := ih (seen ++ [x]) (fun p hp => hb p (List.mem_cons_of_mem _ hp))
        exact ⟨(env1, true) :: out, by rw [ho]; rfl⟩
      · exact ih seen (fun p hp => hb p (List.mem_cons_of_mem _ hp))

/-- under side condition (E1) an `exists` never raises by itself (no `KeyError`, F-C01-7): an error of
`exists_ q φ` is an error of evaluating `φ` -/
theorem exists_error_from_body (w : World) (q : VarId) (φ : Expr) (env : Env) (hF : φ.Fc = true)
    (hbq : Key.var q ∈ Expr.bK true φ ∧ Key.var q ∈ Expr.bK false φ) (err : Err)
    (h : eval w (.exists_ q φ) env = .error err) : eval w φ env = .error err := by
  simp only [eval] at h
  cases h0 : eval w φ env with
  | error e => rw [h0] at h; exact h
  | ok rs0 =>
    rw [h0] at h
    obtain ⟨out, ho⟩ := existsFilter_total w q rs0 [] (by
      intro p hp
      cases hp2 : p.2 with
      | true => exact bK_sound w φ hF env rs0 h0 p hp true hp2 _ hbq.1
      | false => exact bK_sound w φ hF env rs0 h0 p hp false hp2 _ hbq.2)
    have : (existsFilter w q rs0 [] : Except Err _) = .error err := h
    rw [ho] at this; cases this

end KrroodVerif.Eql
