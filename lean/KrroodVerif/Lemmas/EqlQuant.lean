import KrroodVerif.Lemmas.EqlF1
/-!
Lemmas for the C01 theorems about QUANTIFIED conditions (`Props/C01Quant.lean`). Core Lean only.

Fragment `Expr.Ql`: a chain `and l₁ (and l₂ (… Q))` (any nesting inside the `lᵢ`, which are in the cover fragment
`Expr.Fc`) that ENDS in one quantifier `Q = exists_ q φ` or `Q = forAll q φ` with `φ` in the cover fragment, under
decidable syntactic side conditions that exclude the recorded deviations of the engine:

* `exists_ q φ`: every result cell of `φ` binds `q` (else `KeyError`, F-C01-7) and every other variable of `φ` is
  already bound when the quantifier is reached (else the de-duplication on the value of `q` runs across different
  assignments of the free variables and drops answers, F-C01-5);
* `forAll q φ`: every TRUE result cell of `φ` binds every node of `φ` (else a candidate leaves a variable unbound and
  its re-check reads only the first result of a condition that now enumerates that variable, F-C01-11), and the
  universal domain is not empty (else `TypeError`, F-C01-6).

Contents: (Q1) free variables and the coincidence lemma; (Q2) which keys every result cell of a given truth value
binds; (Q3) literal bindings carry the literal's value; (Q4) evaluation with every node bound is deterministic;
(Q5) `Exists`; (Q6) `ForAll`; (Q7) the chain; (Q8) the query level.
-/
namespace KrroodVerif.Eql

/-! ## Q1. Free variables; the specification only reads them -/

/-- free variables of a core expression (a quantifier binds its variable) -/
def Expr.fvars : Expr → List VarId
  | .cmp _ l r => l.vars ++ r.vars
  | .contains c i => c.vars ++ i.vars
  | .truth t | .hasType t _ => t.vars
  | .and l r | .elseIf l r | .union l r => l.fvars ++ r.fvars
  | .not e => e.fvars
  | .exists_ v e | .forAll v e => e.fvars.filter (· != v)

/-- quantified variables -/
def Expr.qvars : Expr → List VarId
  | .and l r | .elseIf l r | .union l r => l.qvars ++ r.qvars
  | .not e => e.qvars
  | .exists_ v e | .forAll v e => v :: e.qvars
  | _ => []

theorem Expr.fvars_Fc {e : Expr} (h : e.Fc = true) : e.fvars = e.vars := by
  induction e with
  | and l r ihl ihr => simp only [Expr.Fc, Bool.and_eq_true] at h; simp [Expr.fvars, Expr.vars, ihl h.1, ihr h.2]
  | elseIf l r ihl ihr => simp only [Expr.Fc, Bool.and_eq_true] at h; simp [Expr.fvars, Expr.vars, ihl h.1, ihr h.2]
  | not e ih => simp only [Expr.Fc] at h; simp [Expr.fvars, Expr.vars, ih h]
  | _ => simp_all [Expr.Fc, Expr.fvars, Expr.vars]

theorem Expr.qvars_Fc {e : Expr} (h : e.Fc = true) : e.qvars = [] := by
  induction e with
  | and l r ihl ihr => simp only [Expr.Fc, Bool.and_eq_true] at h; simp [Expr.qvars, ihl h.1, ihr h.2]
  | elseIf l r ihl ihr => simp only [Expr.Fc, Bool.and_eq_true] at h; simp [Expr.qvars, ihl h.1, ihr h.2]
  | not e ih => simp only [Expr.Fc] at h; simp [Expr.qvars, ih h]
  | _ => simp_all [Expr.Fc, Expr.qvars]

theorem tval_congr (w : World) {τ₁ τ₂ : Asg} (t : Term) (h : ∀ v ∈ t.vars, τ₁.lookup v = τ₂.lookup v) :
    tval w τ₁ t = tval w τ₂ t := by
  induction t with
  | var v => simp only [tval, h v (by simp [Term.vars])]
  | lit i x => rfl
  | attr t n ih => simp only [tval, ih h]
  | index t i ih => simp only [tval, ih h]
  | flatten t _ => rfl

theorem tvals_congr (w : World) {τ₁ τ₂ : Asg} (t : Term) (h : ∀ v ∈ t.vars, τ₁.lookup v = τ₂.lookup v) :
    tvals w τ₁ t = tvals w τ₂ t := by
  induction t with
  | var v => simp only [tvals, h v (by simp [Term.vars])]
  | lit i x => rfl
  | attr t n ih => simp only [tvals, ih h]
  | index t i ih => simp only [tvals, ih h]
  | flatten t ih => simp only [tvals, ih h]

theorem lookup_cons_congr {τ₁ τ₂ : Asg} {q u : VarId} {x : Val} (h : u ≠ q → τ₁.lookup u = τ₂.lookup u) :
    List.lookup u ((q, x) :: τ₁) = List.lookup u ((q, x) :: τ₂) := by
  rw [List.lookup_cons, List.lookup_cons]
  by_cases huq : u = q
  · subst huq; simp
  · have : (u == q) = false := by simp [huq]
    rw [this]; exact h huq

/-- **coincidence**: the first-order reading depends only on the values of the free variables -/
theorem satE_congr (w : World) (e : Expr) : ∀ τ₁ τ₂ : Asg, (∀ v ∈ e.fvars, τ₁.lookup v = τ₂.lookup v) →
    satE w e τ₁ = satE w e τ₂ := by
  induction e with
  | cmp op l r =>
    intro τ₁ τ₂ h
    simp only [Expr.fvars, List.mem_append] at h
    simp only [satE, tvals_congr w l (fun v hv => h v (Or.inl hv)), tvals_congr w r (fun v hv => h v (Or.inr hv))]
  | contains c i =>
    intro τ₁ τ₂ h
    simp only [Expr.fvars, List.mem_append] at h
    simp only [satE, tvals_congr w c (fun v hv => h v (Or.inl hv)), tvals_congr w i (fun v hv => h v (Or.inr hv))]
  | truth t => intro τ₁ τ₂ h; simp only [satE, tvals_congr w t h]
  | hasType t c => intro τ₁ τ₂ h; simp only [satE, tvals_congr w t h]
  | and l r ihl ihr =>
    intro τ₁ τ₂ h
    simp only [Expr.fvars, List.mem_append] at h
    simp only [satE, ihl τ₁ τ₂ (fun v hv => h v (Or.inl hv)), ihr τ₁ τ₂ (fun v hv => h v (Or.inr hv))]
  | elseIf l r ihl ihr =>
    intro τ₁ τ₂ h
    simp only [Expr.fvars, List.mem_append] at h
    simp only [satE, ihl τ₁ τ₂ (fun v hv => h v (Or.inl hv)), ihr τ₁ τ₂ (fun v hv => h v (Or.inr hv))]
  | union l r ihl ihr =>
    intro τ₁ τ₂ h
    simp only [Expr.fvars, List.mem_append] at h
    simp only [satE, ihl τ₁ τ₂ (fun v hv => h v (Or.inl hv)), ihr τ₁ τ₂ (fun v hv => h v (Or.inr hv))]
  | not e ih => intro τ₁ τ₂ h; simp only [satE, ih τ₁ τ₂ h]
  | exists_ q e ih =>
    intro τ₁ τ₂ h
    simp only [satE]
    congr 1
    funext x
    apply ih
    intro u hu
    apply lookup_cons_congr
    intro huq
    exact h u (by simp only [Expr.fvars, List.mem_filter]; exact ⟨hu, by simp [huq]⟩)
  | forAll q e ih =>
    intro τ₁ τ₂ h
    simp only [satE]
    congr 1
    funext x
    apply ih
    intro u hu
    apply lookup_cons_congr
    intro huq
    exact h u (by simp only [Expr.fvars, List.mem_filter]; exact ⟨hu, by simp [huq]⟩)

theorem invert_fvars (e : Expr) : (invert e).fvars = e.fvars := by
  induction e with
  | exists_ v e ih => simp only [invert, Expr.fvars, ih]
  | forAll v e ih => simp only [invert, Expr.fvars, ih]
  | _ => simp only [invert, Expr.fvars]

/-- the free variables of the built expression are the free variables of the surface expression -/
theorem build_fvars (s : SExpr) : (build s).fvars = s.freeVars := by
  induction s with
  | and l r ihl ihr => simp only [build, Expr.fvars, SExpr.freeVars, ihl, ihr]
  | or l r ihl ihr => simp only [build, mkOr, SExpr.freeVars]; split <;> simp only [Expr.fvars, ihl, ihr]
  | not e ih => simp only [build, invert_fvars, SExpr.freeVars, ih]
  | exists_ v e ih => simp only [build, Expr.fvars, SExpr.freeVars, ih]
  | forAll v e ih => simp only [build, Expr.fvars, SExpr.freeVars, ih]
  | _ => simp only [build, Expr.fvars, SExpr.freeVars]

/-! ## Q2. Keys bound by every result cell of a given truth value -/

/-- keys that every result cell of `e` with truth flag `pol` binds (a syntactic under-approximation): an atom binds
all its nodes; a false cell of `and l r` is a false cell of `l` passed through UN-EXTENDED or a false cell of `r`
extending a true cell of `l`; … -/
def Expr.bK : Bool → Expr → List Key
  | _, .cmp _ l r => l.nodes ++ r.nodes
  | _, .contains c i => c.nodes ++ i.nodes
  | _, .truth t => t.nodes
  | _, .hasType t _ => t.nodes
  | true, .and l r => Expr.bK true l ++ Expr.bK true r
  | false, .and l r => (Expr.bK false l).filter fun k => (Expr.bK true l ++ Expr.bK false r).contains k
  | true, .elseIf l r => (Expr.bK true l).filter fun k => (Expr.bK false l ++ Expr.bK true r).contains k
  | false, .elseIf l r => Expr.bK false l ++ Expr.bK false r
  | pol, .not e => Expr.bK (!pol) e
  | _, _ => []

theorem bK_sound (w : World) (e : Expr) : e.Fc = true → ∀ env rs, eval w e env = .ok rs → ∀ p ∈ rs, ∀ pol, p.2 = pol →
    ∀ k ∈ Expr.bK pol e, (p.1.lookup k).isSome = true := by
  induction e with
  | cmp op l r =>
    intro _ env rs h p hp pol _ k hk
    simp only [eval] at h
    cases pol <;> exact evalCmp_binds h p hp k hk
  | contains c i =>
    intro _ env rs h p hp pol _ k hk
    simp only [eval] at h
    cases pol <;> exact evalCmp_binds h p hp k hk
  | truth t =>
    intro _ env rs h p hp pol _ k hk
    obtain ⟨rs0, h0, rfl⟩ := eval_truth_inv h
    simp only [List.mem_map] at hp; obtain ⟨r, hr, rfl⟩ := hp
    cases pol <;> exact evalTerm_binds w t true env rs0 h0 r hr k hk
  | hasType t c =>
    intro _ env rs h p hp pol _ k hk
    obtain ⟨rs0, h0, rfl⟩ := eval_hasType_inv h
    simp only [List.mem_map] at hp; obtain ⟨r, hr, rfl⟩ := hp
    cases pol <;> exact evalTerm_binds w t false env rs0 h0 r hr k hk
  | and l r ihl ihr =>
    intro hF env rs h p hp pol hpol k hk
    simp only [Expr.Fc, Bool.and_eq_true] at hF
    obtain ⟨ls, g, h0, rfl, hg⟩ := eval_and_inv h
    simp only [List.mem_flatMap] at hp; obtain ⟨a, ha, hp⟩ := hp
    cases ha2 : a.2 with
    | true =>
      have hr := (hg a ha).1 ha2
      have hx := eval_ext w r hF.2 a.1 _ hr p hp
      cases pol with
      | true =>
        simp only [Expr.bK, List.mem_append] at hk
        rcases hk with hk | hk
        · exact hx.isSome (ihl hF.1 env ls h0 a ha true ha2 k hk)
        · exact ihr hF.2 a.1 _ hr p hp true hpol k hk
      | false =>
        simp only [Expr.bK, List.mem_filter, List.contains_iff_mem, List.mem_append] at hk
        rcases hk.2 with hk' | hk'
        · exact hx.isSome (ihl hF.1 env ls h0 a ha true ha2 k hk')
        · exact ihr hF.2 a.1 _ hr p hp false hpol k hk'
    | false =>
      rw [(hg a ha).2 ha2, List.mem_singleton] at hp; subst hp
      cases pol with
      | true => cases hpol
      | false =>
        simp only [Expr.bK, List.mem_filter] at hk
        exact ihl hF.1 env ls h0 a ha false ha2 k hk.1
  | elseIf l r ihl ihr =>
    intro hF env rs h p hp pol hpol k hk
    simp only [Expr.Fc, Bool.and_eq_true] at hF
    obtain ⟨ls, g, h0, rfl, hg⟩ := eval_elseIf_inv h
    simp only [List.mem_flatMap] at hp; obtain ⟨a, ha, hp⟩ := hp
    cases ha2 : a.2 with
    | false =>
      have hr := (hg a ha).2 ha2
      have hx := eval_ext w r hF.2 a.1 _ hr p hp
      cases pol with
      | false =>
        simp only [Expr.bK, List.mem_append] at hk
        rcases hk with hk | hk
        · exact hx.isSome (ihl hF.1 env ls h0 a ha false ha2 k hk)
        · exact ihr hF.2 a.1 _ hr p hp false hpol k hk
      | true =>
        simp only [Expr.bK, List.mem_filter, List.contains_iff_mem, List.mem_append] at hk
        rcases hk.2 with hk' | hk'
        · exact hx.isSome (ihl hF.1 env ls h0 a ha false ha2 k hk')
        · exact ihr hF.2 a.1 _ hr p hp true hpol k hk'
    | true =>
      rw [(hg a ha).1 ha2, List.mem_singleton] at hp; subst hp
      cases pol with
      | false => cases hpol
      | true =>
        simp only [Expr.bK, List.mem_filter] at hk
        exact ihl hF.1 env ls h0 a ha true ha2 k hk.1
  | not e ih =>
    intro hF env rs h p hp pol hpol k hk
    simp only [Expr.Fc] at hF
    obtain ⟨rs0, h0, rfl⟩ := eval_not_inv h
    simp only [List.mem_map] at hp; obtain ⟨r, hr, rfl⟩ := hp
    simp only [Expr.bK] at hk
    exact ih hF env rs0 h0 r hr (!pol) (by simp only at hpol; rw [← hpol]; simp) k hk
  | union l r _ _ => intro hF; simp [Expr.Fc] at hF
  | exists_ v e _ => intro hF; simp [Expr.Fc] at hF
  | forAll v e _ => intro hF; simp [Expr.Fc] at hF

/-! ## Q3. A literal node is only ever bound to the literal's own value -/

def Term.lits : Term → List (Nat × Val)
  | .var _ => []
  | .lit id x => [(id, x)]
  | .attr t _ | .index t _ | .flatten t => t.lits

def Expr.lits : Expr → List (Nat × Val)
  | .cmp _ l r => l.lits ++ r.lits
  | .contains c i => c.lits ++ i.lits
  | .truth t | .hasType t _ => t.lits
  | .and l r | .elseIf l r | .union l r => l.lits ++ r.lits
  | .not e => e.lits
  | .exists_ _ e | .forAll _ e => e.lits

/-- `env'` extends `env`; every new binding of a literal node is `(id, x)` for a literal `lit id x` in `L` -/
def LitExt (L : List (Nat × Val)) (env env' : Env) : Prop :=
  ∃ pre, env' = pre ++ env ∧ ∀ p ∈ pre, ∀ id, p.1 = Key.lit id → (id, p.2) ∈ L

theorem LitExt.refl (L : List (Nat × Val)) (env : Env) : LitExt L env env := ⟨[], rfl, by simp⟩

theorem LitExt.trans {L1 L2 : List (Nat × Val)} {a b c : Env} (h1 : LitExt L1 a b) (h2 : LitExt L2 b c) :
    LitExt (L1 ++ L2) a c := by
  obtain ⟨p1, rfl, hp1⟩ := h1
  obtain ⟨p2, rfl, hp2⟩ := h2
  refine ⟨p2 ++ p1, by simp, ?_⟩
  intro p hp id hid
  rcases List.mem_append.mp hp with hp | hp
  · exact List.mem_append_right _ (hp2 p hp id hid)
  · exact List.mem_append_left _ (hp1 p hp id hid)

theorem LitExt.mono {L1 L2 : List (Nat × Val)} {a b : Env} (h : LitExt L1 a b) (hs : ∀ x ∈ L1, x ∈ L2) :
    LitExt L2 a b := by
  obtain ⟨p, rfl, hp⟩ := h
  exact ⟨p, rfl, fun q hq id hid => hs _ (hp q hq id hid)⟩

theorem evalTerm_lit (w : World) (t : Term) :
    ∀ cp env rs, evalTerm w cp t env = .ok rs → ∀ p ∈ rs, LitExt t.lits env p.1 := by
  induction t with
  | var v =>
    intro cp env rs h p hp
    simp only [evalTerm] at h; cases h
    rcases evalVar_mem hp with ⟨y, _, rfl⟩ | ⟨hn, y, hy, rfl⟩
    · exact LitExt.refl _ _
    · exact ⟨[(.var v, y)], rfl, by intro q hq id hid; simp only [List.mem_singleton] at hq; subst hq; cases hid⟩
  | lit id x =>
    intro cp env rs h p hp
    rcases evalLit_cases w cp id x env with ⟨y, _, he⟩ | ⟨hn, he⟩
    · rw [he] at h; cases h; simp only [List.mem_singleton] at hp; subst hp; exact LitExt.refl _ _
    · rw [he] at h; cases h; simp only [List.mem_singleton] at hp; subst hp
      refine ⟨[(.lit id, x)], rfl, ?_⟩
      intro q hq id' hid; simp only [List.mem_singleton] at hq; subst hq
      cases hid; simp [Term.lits]
  | attr t n ih =>
    intro cp env rs h p hp
    rw [evalTerm_attr] at h
    obtain ⟨rs0, h0, h⟩ := bind_ok h
    obtain ⟨g, _, rfl⟩ := mapVal_ok h
    simp only [List.mem_map] at hp; obtain ⟨r, hr, rfl⟩ := hp
    exact ih false env rs0 h0 r hr
  | index t i ih =>
    intro cp env rs h p hp
    rw [evalTerm_index] at h
    obtain ⟨rs0, h0, h⟩ := bind_ok h
    obtain ⟨g, _, rfl⟩ := mapVal_ok h
    simp only [List.mem_map] at hp; obtain ⟨r, hr, rfl⟩ := hp
    exact ih false env rs0 h0 r hr
  | flatten t ih =>
    intro cp env rs h p hp
    simp only [evalTerm] at h
    obtain ⟨rs0, h0, h⟩ := bind_ok h
    obtain ⟨g, hg, rfl⟩ := flatMapM_ok h
    simp only [List.mem_flatMap] at hp; obtain ⟨r, hr, hp⟩ := hp
    obtain ⟨xs, _, h2⟩ := bind_ok (hg r hr)
    rw [← pure_ok h2] at hp
    simp only [List.mem_map] at hp; obtain ⟨x, _, rfl⟩ := hp
    exact ih false env rs0 h0 r hr

theorem evalCmpCore_lit {w : World} {f s : Term} {cmb : Val → Val → Except Err Bool} {env : Env}
    {rs : List (Env × Bool)} (h : evalCmpCore w f s cmb env = .ok rs) :
    ∀ p ∈ rs, LitExt (f.lits ++ s.lits) env p.1 := by
  obtain ⟨r1, g, h1, rfl, hg⟩ := evalCmpCore_inv h
  intro p hp
  simp only [List.mem_flatMap] at hp
  obtain ⟨p1, hp1, hp⟩ := hp
  obtain ⟨r2, c, h2, _, hgp⟩ := hg p1 hp1
  rw [hgp] at hp
  simp only [List.mem_map] at hp
  obtain ⟨p2, hp2, rfl⟩ := hp
  exact (evalTerm_lit w f false env r1 h1 p1 (List.mem_filter.mp hp1).1).trans
    (evalTerm_lit w s false p1.1 r2 h2 p2 (List.mem_filter.mp hp2).1)

theorem evalCmp_lit {w : World} {l r : Term} {op : Val → Val → Except Err Bool} {env : Env}
    {rs : List (Env × Bool)} (h : evalCmp w l r op env = .ok rs) :
    ∀ p ∈ rs, LitExt (l.lits ++ r.lits) env p.1 := by
  rcases evalCmp_eq w l r op env with he | he
  · rw [he] at h; exact evalCmpCore_lit h
  · rw [he] at h
    intro p hp
    exact (evalCmpCore_lit h p hp).mono (by intro k hk; simp only [List.mem_append] at hk ⊢; exact hk.symm)

theorem eval_lit (w : World) (e : Expr) :
    e.Fc = true → ∀ env rs, eval w e env = .ok rs → ∀ p ∈ rs, LitExt e.lits env p.1 := by
  induction e with
  | cmp op l r => intro _ env rs h; simp only [eval] at h; exact evalCmp_lit h
  | contains c i => intro _ env rs h; simp only [eval] at h; exact evalCmp_lit h
  | truth t =>
    intro _ env rs h p hp
    obtain ⟨rs0, h0, rfl⟩ := eval_truth_inv h
    simp only [List.mem_map] at hp; obtain ⟨r, hr, rfl⟩ := hp
    exact evalTerm_lit w t true env rs0 h0 r hr
  | hasType t c =>
    intro _ env rs h p hp
    obtain ⟨rs0, h0, rfl⟩ := eval_hasType_inv h
    simp only [List.mem_map] at hp; obtain ⟨r, hr, rfl⟩ := hp
    exact evalTerm_lit w t false env rs0 h0 r hr
  | and l r ihl ihr =>
    intro hF env rs h p hp
    simp only [Expr.Fc, Bool.and_eq_true] at hF
    obtain ⟨ls, g, h0, rfl, hg⟩ := eval_and_inv h
    simp only [List.mem_flatMap] at hp; obtain ⟨a, ha, hp⟩ := hp
    have hxa := ihl hF.1 env ls h0 a ha
    cases ha2 : a.2 with
    | true => exact hxa.trans (ihr hF.2 a.1 _ ((hg a ha).1 ha2) p hp)
    | false =>
      rw [(hg a ha).2 ha2, List.mem_singleton] at hp; subst hp
      exact hxa.mono (subset_append_left _ _)
  | elseIf l r ihl ihr =>
    intro hF env rs h p hp
    simp only [Expr.Fc, Bool.and_eq_true] at hF
    obtain ⟨ls, g, h0, rfl, hg⟩ := eval_elseIf_inv h
    simp only [List.mem_flatMap] at hp; obtain ⟨a, ha, hp⟩ := hp
    have hxa := ihl hF.1 env ls h0 a ha
    cases ha2 : a.2 with
    | false => exact hxa.trans (ihr hF.2 a.1 _ ((hg a ha).2 ha2) p hp)
    | true =>
      rw [(hg a ha).1 ha2, List.mem_singleton] at hp; subst hp
      exact hxa.mono (subset_append_left _ _)
  | not e ih =>
    intro hF env rs h p hp
    simp only [Expr.Fc] at hF
    obtain ⟨rs0, h0, rfl⟩ := eval_not_inv h
    simp only [List.mem_map] at hp; obtain ⟨r, hr, rfl⟩ := hp
    exact ih hF env rs0 h0 r hr
  | union l r _ _ => intro hF; simp [Expr.Fc] at hF
  | exists_ v e _ => intro hF; simp [Expr.Fc] at hF
  | forAll v e _ => intro hF; simp [Expr.Fc] at hF

/-! ## Q4. With every node bound, evaluation is deterministic: one result, flagged with the first-order truth value -/

/-- `env` binds every variable in `vs` to the value `τ` gives it and every literal node in `ls` to its literal -/
def Closed (τ : Asg) (env : Env) (vs : List VarId) (ls : List (Nat × Val)) : Prop :=
  (∀ v ∈ vs, ∃ x, env.lookup (.var v) = some x ∧ τ.lookup v = some x) ∧
  (∀ il ∈ ls, env.lookup (.lit il.1) = some il.2)

theorem Closed.mono {τ : Asg} {env : Env} {vs vs' : List VarId} {ls ls' : List (Nat × Val)}
    (h : Closed τ env vs ls) (h1 : ∀ v ∈ vs', v ∈ vs) (h2 : ∀ x ∈ ls', x ∈ ls) : Closed τ env vs' ls' :=
  ⟨fun v hv => h.1 v (h1 v hv), fun x hx => h.2 x (h2 x hx)⟩

theorem closed_term (w : World) (τ : Asg) (t : Term) :
    ∀ cp env rs y, t.noFlat = true → Closed τ env t.vars t.lits → evalTerm w cp t env = .ok rs →
      tval w τ t = .ok y → ∃ fl, rs = [(env, y, fl)] ∧ (cp = false → fl = true) ∧
        (t.isChain = true → cp = true → fl = truthy y) := by
  induction t with
  | var v =>
    intro cp env rs y _ hc h htv
    obtain ⟨x, hx, hτ⟩ := hc.1 v (by simp [Term.vars])
    simp only [tval, hτ] at htv; cases htv
    simp only [evalTerm, evalVarAt, hx] at h; cases h
    refine ⟨_, rfl, ?_, ?_⟩
    · intro hcp; subst hcp; rfl
    · intro hch; simp [Term.isChain] at hch
  | lit id x =>
    intro cp env rs y _ hc h htv
    simp only [tval] at htv; cases htv
    have hx := hc.2 (id, x) (by simp [Term.lits])
    simp only [evalTerm, hx] at h; cases h
    refine ⟨_, rfl, ?_, ?_⟩
    · intro hcp; subst hcp; rfl
    · intro hch; simp [Term.isChain] at hch
  | attr t n ih =>
    intro cp env rs y hnf hc h htv
    rw [evalTerm_attr] at h
    obtain ⟨rs0, h0, h⟩ := bind_ok h
    obtain ⟨g, hg, rfl⟩ := mapVal_ok h
    simp only [tval] at htv
    obtain ⟨x0, hx0, hx⟩ := bind_ok htv
    obtain ⟨fl, rfl, _, _⟩ := ih false env rs0 x0 hnf hc h0 hx0
    have := hg _ (List.mem_singleton.mpr rfl)
    simp only at this
    rw [hx] at this; cases this
    refine ⟨_, rfl, ?_, ?_⟩
    · intro hcp; subst hcp; rfl
    · intro _ hcp; subst hcp; rfl
  | index t i ih =>
    intro cp env rs y hnf hc h htv
    rw [evalTerm_index] at h
    obtain ⟨rs0, h0, h⟩ := bind_ok h
    obtain ⟨g, hg, rfl⟩ := mapVal_ok h
    simp only [tval] at htv
    obtain ⟨x0, hx0, hx⟩ := bind_ok htv
    obtain ⟨fl, rfl, _, _⟩ := ih false env rs0 x0 hnf hc h0 hx0
    have := hg _ (List.mem_singleton.mpr rfl)
    simp only at this
    rw [hx] at this; cases this
    refine ⟨_, rfl, ?_, ?_⟩
    · intro hcp; subst hcp; rfl
    · intro _ hcp; subst hcp; rfl
  | flatten t _ => intro cp env rs y hnf; simp [Term.noFlat] at hnf

theorem closed_cmpCore {w : World} {τ : Asg} {f s : Term} {cmb : Val → Val → Except Err Bool} {env : Env}
    {rs : List (Env × Bool)} {a b : Val} {c : Bool}
    (hnf : f.noFlat = true) (hns : s.noFlat = true)
    (hcf : Closed τ env f.vars f.lits) (hcs : Closed τ env s.vars s.lits)
    (h : evalCmpCore w f s cmb env = .ok rs)
    (ha : tval w τ f = .ok a) (hb : tval w τ s = .ok b) (hc : cmb a b = .ok c) : rs = [(env, c)] := by
  obtain ⟨r1, g, h1, rfl, hg⟩ := evalCmpCore_inv h
  obtain ⟨fl1, rfl, hfl1, _⟩ := closed_term w τ f false env r1 a hnf hcf h1 ha
  have hfl1 := hfl1 rfl; subst hfl1
  simp only [List.filter_cons, if_true, List.filter_nil, List.flatMap_cons, List.flatMap_nil, List.append_nil] at hg ⊢
  obtain ⟨r2, c', h2, hc', hgp⟩ := hg _ (List.mem_singleton.mpr rfl)
  obtain ⟨fl2, rfl, hfl2, _⟩ := closed_term w τ s false env r2 b hns hcs h2 hb
  have hfl2 := hfl2 rfl; subst hfl2
  simp only [List.filter_cons, if_true, List.filter_nil, List.map_cons, List.map_nil] at hgp hc'
  have := hc' _ (List.mem_singleton.mpr rfl)
  simp only at this
  rw [hc] at this; cases this
  exact hgp

theorem closed_cmp {w : World} {τ : Asg} {l r : Term} {op : Val → Val → Except Err Bool} {env : Env}
    {rs : List (Env × Bool)} {a b : Val} {c : Bool}
    (hnl : l.noFlat = true) (hnr : r.noFlat = true)
    (hcl : Closed τ env (l.vars ++ r.vars) (l.lits ++ r.lits))
    (h : evalCmp w l r op env = .ok rs)
    (ha : tval w τ l = .ok a) (hb : tval w τ r = .ok b) (hc : op a b = .ok c) : rs = [(env, c)] := by
  have h1 : Closed τ env l.vars l.lits := hcl.mono (subset_append_left _ _) (subset_append_left _ _)
  have h2 : Closed τ env r.vars r.lits := hcl.mono (subset_append_right _ _) (subset_append_right _ _)
  rcases evalCmp_eq w l r op env with he | he
  · rw [he] at h; exact closed_cmpCore hnl hnr h1 h2 h ha hb hc
  · rw [he] at h; exact closed_cmpCore hnr hnl h2 h1 h hb ha hc

/-- **closed evaluation**: if `env` binds every node of `e` (variables as `τ` does, literal nodes to their literals),
`eval w e env` is the single result `(env, b)` with `b` the first-order truth value of `e` under `τ` -/
theorem closed_eval (w : World) (τ : Asg) (e : Expr) :
    e.Fc = true → ∀ env rs b, Closed τ env e.vars e.lits → eval w e env = .ok rs → satE w e τ = .ok b →
      rs = [(env, b)] := by
  induction e with
  | cmp op l r =>
    intro hF env rs b hc h hs
    simp only [Expr.Fc, Bool.and_eq_true] at hF
    simp only [eval] at h
    simp only [satE] at hs
    obtain ⟨a, b', ha, hb, hc'⟩ := satCmp_inv hF.1 hF.2 hs
    exact closed_cmp hF.1 hF.2 hc h ha hb hc'
  | contains c i =>
    intro hF env rs b hc h hs
    simp only [Expr.Fc, Bool.and_eq_true] at hF
    simp only [eval] at h
    simp only [satE] at hs
    obtain ⟨a, b', ha, hb, hc'⟩ := satCmp_inv hF.1 hF.2 hs
    exact closed_cmp hF.1 hF.2 hc h ha hb hc'
  | truth t =>
    intro hF env rs b hc h hs
    simp only [Expr.Fc] at hF
    obtain ⟨rs0, h0, rfl⟩ := eval_truth_inv h
    simp only [satE] at hs
    obtain ⟨xs, hxs, hb⟩ := bind_ok hs
    obtain ⟨x, hx, rfl⟩ := tvals_ok_noFlat (Term.isChain_noFlat hF) hxs
    have hb := pure_ok hb
    rw [any_single] at hb
    obtain ⟨fl, rfl, _, hfl⟩ := closed_term w τ t true env rs0 x (Term.isChain_noFlat hF) hc h0 hx
    simp only [List.map_cons, List.map_nil]
    rw [hfl hF rfl, hb]
  | hasType t c =>
    intro hF env rs b hc h hs
    simp only [Expr.Fc] at hF
    obtain ⟨rs0, h0, rfl⟩ := eval_hasType_inv h
    simp only [satE] at hs
    obtain ⟨xs, hxs, hb⟩ := bind_ok hs
    obtain ⟨x, hx, rfl⟩ := tvals_ok_noFlat hF hxs
    have hb := pure_ok hb
    rw [any_single] at hb
    obtain ⟨fl, rfl, _, _⟩ := closed_term w τ t false env rs0 x hF hc h0 hx
    simp only [List.map_cons, List.map_nil]
    rw [hb]
  | and l r ihl ihr =>
    intro hF env rs b hc h hs
    simp only [Expr.Fc, Bool.and_eq_true] at hF
    obtain ⟨ls, g, h0, rfl, hg⟩ := eval_and_inv h
    simp only [satE] at hs
    obtain ⟨bl, hbl, hs⟩ := bind_ok hs
    obtain ⟨br, hbr, hs⟩ := bind_ok hs
    have hb := pure_ok hs
    have hcl : Closed τ env l.vars l.lits := hc.mono (subset_append_left _ _) (subset_append_left _ _)
    have hcr : Closed τ env r.vars r.lits := hc.mono (subset_append_right _ _) (subset_append_right _ _)
    have := ihl hF.1 env ls bl hcl h0 hbl
    subst this
    simp only [List.flatMap_cons, List.flatMap_nil, List.append_nil]
    have hg1 := hg _ (List.mem_singleton.mpr rfl)
    cases bl with
    | true =>
      have := ihr hF.2 env _ br hcr (hg1.1 rfl) hbr
      rw [this, ← hb]; rfl
    | false => rw [hg1.2 rfl, ← hb]; rfl
  | elseIf l r ihl ihr =>
    intro hF env rs b hc h hs
    simp only [Expr.Fc, Bool.and_eq_true] at hF
    obtain ⟨ls, g, h0, rfl, hg⟩ := eval_elseIf_inv h
    simp only [satE] at hs
    obtain ⟨bl, hbl, hs⟩ := bind_ok hs
    obtain ⟨br, hbr, hs⟩ := bind_ok hs
    have hb := pure_ok hs
    have hcl : Closed τ env l.vars l.lits := hc.mono (subset_append_left _ _) (subset_append_left _ _)
    have hcr : Closed τ env r.vars r.lits := hc.mono (subset_append_right _ _) (subset_append_right _ _)
    have := ihl hF.1 env ls bl hcl h0 hbl
    subst this
    simp only [List.flatMap_cons, List.flatMap_nil, List.append_nil]
    have hg1 := hg _ (List.mem_singleton.mpr rfl)
    cases bl with
    | false =>
      have := ihr hF.2 env _ br hcr (hg1.2 rfl) hbr
      rw [this, ← hb]; rfl
    | true => rw [hg1.1 rfl, ← hb]; rfl
  | not e ih =>
    intro hF env rs b hc h hs
    simp only [Expr.Fc] at hF
    obtain ⟨rs0, h0, rfl⟩ := eval_not_inv h
    simp only [satE] at hs
    obtain ⟨b0, hb0, hs⟩ := bind_ok hs
    have hb := pure_ok hs
    have := ih hF env rs0 b0 hc h0 hb0
    subst this
    simp only [List.map_cons, List.map_nil]
    rw [hb]
  | union l r _ _ => intro hF; simp [Expr.Fc] at hF
  | exists_ v e _ => intro hF; simp [Expr.Fc] at hF
  | forAll v e _ => intro hF; simp [Expr.Fc] at hF

/-! ## Q5. `Exists` -/

/-- an environment is functional: two bindings of one key carry the same value (`ForAll` re-appends the candidate's
copy of outer bindings, so its results may list a key twice) -/
def EnvFn (env : Env) : Prop := ∀ k x y, (k, x) ∈ env → (k, y) ∈ env → x = y

theorem EnvFn.of_nodup {env : Env} (h : (keys env).Nodup) : EnvFn env := by
  intro k x y hx hy
  have h1 := lookup_of_mem_nodup h hx
  have h2 := lookup_of_mem_nodup h hy
  rw [h1] at h2; cases h2; rfl

theorem mem_keys {env : Env} {k : Key} {x : Val} (h : (k, x) ∈ env) : k ∈ keys env :=
  List.mem_map.mpr ⟨(k, x), h, rfl⟩

theorem EnvFn.lookup {env : Env} (h : EnvFn env) {k : Key} {x : Val} (hm : (k, x) ∈ env) :
    env.lookup k = some x := by
  cases hl : env.lookup k with
  | none => exact absurd (mem_keys hm) (not_mem_keys_of_lookup_none hl)
  | some y => rw [h k x y hm (lookup_mem' hl)]

theorem isSome_mem {env : Env} {k : Key} (h : (env.lookup k).isSome = true) : ∃ x, (k, x) ∈ env := by
  cases hl : env.lookup k with
  | none => rw [hl] at h; cases h
  | some x => exact ⟨x, lookup_mem' hl⟩

theorem nodup_append_disjoint {pre env : Env} (h : (keys (pre ++ env)).Nodup) {k : Key} {y z : Val}
    (h1 : (k, y) ∈ pre) (h2 : (k, z) ∈ env) : False := by
  simp only [keys, List.map_append, List.nodup_append] at h
  exact h.2.2 k (mem_keys h1) k (mem_keys h2) rfl

/-- what the main induction establishes for the result cells `rs` of `eval w e env` -/
structure QInv (w : World) (e : Expr) (env : Env) (rs : List (Env × Bool)) : Prop where
  /-- true cells extend `env` by bindings of `e`'s variables to domain elements (and of literal nodes) -/
  ext : ∀ p ∈ rs, p.2 = true → ∃ pre, p.1 = pre ++ env ∧
    ∀ b ∈ pre, ∀ v, b.1 = Key.var v → v ∈ e.vars ∧ b.2 ∈ w.dom v
  fn : ∀ p ∈ rs, p.2 = true → EnvFn p.1
  /-- soundness: every assignment compatible with a true cell satisfies `e` -/
  sound : ∀ p ∈ rs, p.2 = true → ∀ τ b, Covers w τ e.fvars → agreesB τ p.1 = true → satE w e τ = .ok b → b = true
  /-- completeness: every satisfying assignment of the FREE variables is, after choosing values for the quantified
  variables, compatible with a true cell -/
  complete : ∀ τ, Covers w τ e.fvars → agreesB τ env = true → satE w e τ = .ok true →
    ∃ p ∈ rs, p.2 = true ∧ ∃ ρ : Asg, (∀ b ∈ ρ, b.1 ∈ e.qvars) ∧ agreesB (ρ ++ τ) p.1 = true

theorem existsFilter_sub (w : World) (q : VarId) : ∀ (rs : List (Env × Bool)) (seen : List Val) (out : List (Env × Bool)),
    existsFilter w q rs seen = .ok out → ∀ p ∈ out, p.2 = true ∧ (p.1, true) ∈ rs := by
  intro rs
  induction rs with
  | nil => intro seen out h; simp only [existsFilter] at h; cases h; simp
  | cons a rest ih =>
    intro seen out h p hp
    obtain ⟨env1, t⟩ := a
    simp only [existsFilter] at h
    split at h
    · cases h
    · rename_i x hx
      split at h
      · rename_i hcond
        obtain ⟨r, hr, h⟩ := bind_ok h
        have := pure_ok h; subst this
        simp only [Bool.and_eq_true] at hcond
        rcases List.mem_cons.mp hp with rfl | hp
        · exact ⟨rfl, by rw [hcond.1]; exact List.mem_cons_self⟩
        · exact ⟨(ih _ _ hr p hp).1, List.mem_cons_of_mem _ (ih _ _ hr p hp).2⟩
      · exact ⟨(ih _ _ h p hp).1, List.mem_cons_of_mem _ (ih _ _ h p hp).2⟩

theorem existsFilter_nonempty (w : World) (q : VarId) :
    ∀ (rs : List (Env × Bool)) (seen : List Val) (out : List (Env × Bool)),
    existsFilter w q rs seen = .ok out →
    (∃ p ∈ rs, p.2 = true ∧ ∀ x, p.1.lookup (.var q) = some x → valIn w x seen = false) → out ≠ [] := by
  intro rs
  induction rs with
  | nil => intro seen out _ ⟨p, hp, _⟩; cases hp
  | cons a rest ih =>
    intro seen out h hw
    obtain ⟨env1, t⟩ := a
    simp only [existsFilter] at h
    split at h
    · cases h
    · rename_i x hx
      split at h
      · obtain ⟨r, hr, h⟩ := bind_ok h
        have := pure_ok h; subst this
        simp
      · rename_i hcond
        obtain ⟨p, hp, hpt, hpv⟩ := hw
        rcases List.mem_cons.mp hp with rfl | hp
        · exfalso; apply hcond
          simp only at hpt hpv
          simp [hpt, hpv x hx]
        · exact ih seen out h ⟨p, hp, hpt, hpv⟩

theorem eval_exists_inv {w : World} {q : VarId} {c : Expr} {env : Env} {out : List (Env × Bool)}
    (h : eval w (.exists_ q c) env = .ok out) :
    ∃ rs0, eval w c env = .ok rs0 ∧ existsFilter w q rs0 [] = .ok out := by
  simp only [eval] at h
  obtain ⟨rs0, h0, h⟩ := bind_ok h
  exact ⟨rs0, h0, h⟩

theorem lookup_cons_ne {τ : Asg} {q v : VarId} {x : Val} (h : v ≠ q) :
    List.lookup v ((q, x) :: τ) = τ.lookup v := by
  have : (v == q) = false := by simp [h]
  rw [List.lookup_cons, this]

theorem lookup_cons_self {τ : Asg} {q : VarId} {x : Val} : List.lookup q ((q, x) :: τ) = some x := by
  simp

theorem covers_cons {w : World} (hnd : ∀ v, (w.dom v).Nodup) {τ : Asg} {q : VarId} {x : Val} {vs : List VarId}
    (hx : x ∈ w.dom q) (h : ∀ v ∈ vs, v ≠ q → ∃ y, τ.lookup v = some y ∧ (w.dom v).count y = 1) :
    Covers w ((q, x) :: τ) vs := by
  intro v hv
  by_cases hvq : v = q
  · subst hvq
    exact ⟨x, lookup_cons_self, by rw [(hnd v).count]; simp [hx]⟩
  · rw [lookup_cons_ne hvq]; exact h v hv hvq

theorem agrees_cons_of_unbound {τ : Asg} {env : Env} {q : VarId} {x : Val} (hag : agreesB τ env = true)
    (hq : env.lookup (.var q) = none) : agreesB ((q, x) :: τ) env = true := by
  rw [agreesB_iff] at hag ⊢
  intro v y hm
  have hvq : v ≠ q := by
    rintro rfl; exact not_mem_keys_of_lookup_none hq (mem_keys hm)
  rw [lookup_cons_ne hvq]; exact hag v y hm

/-- **Exists**: if every result cell of `φ` binds `q` and every other variable of `φ` is already bound, the results of
`exists_ q φ` are sound and complete for `∃ q ∈ dom q, φ` -/
theorem exists_qinv (w : World) (hnd : ∀ v, (w.dom v).Nodup) (q : VarId) (φ : Expr) (hF : φ.Fc = true)
    (hln : LitNodup φ) (B : List Key)
    (hbq : Key.var q ∈ Expr.bK true φ ∧ Key.var q ∈ Expr.bK false φ)
    (hB : ∀ v ∈ φ.vars, v = q ∨ Key.var v ∈ B)
    (env : Env) (out : List (Env × Bool)) (hk : (keys env).Nodup)
    (hBenv : ∀ k ∈ B, (env.lookup k).isSome = true) (hq : env.lookup (.var q) = none)
    (hlf : LitFresh φ.nodes env) (h : eval w (.exists_ q φ) env = .ok out) :
    QInv w (.exists_ q φ) env out := by
  obtain ⟨rs0, h0, hfil⟩ := eval_exists_inv h
  have hsub := existsFilter_sub w q rs0 [] out hfil
  have hext := eval_ext w φ hF env rs0 h0
  have hfv : (Expr.exists_ q φ).fvars = φ.vars.filter (· != q) := by simp only [Expr.fvars, Expr.fvars_Fc hF]
  -- facts about one true cell of `rs0`
  have hcell : ∀ env1 : Env, (env1, true) ∈ rs0 → ∃ pre x, env1 = pre ++ env ∧ (keys env1).Nodup ∧
      (Key.var q, x) ∈ pre ∧ x ∈ w.dom q ∧
      (∀ b ∈ pre, ∀ v, b.1 = Key.var v → v = q ∧ b.2 = x) ∧
      (∀ b ∈ pre, ∀ v, b.1 = Key.var v → v ∈ φ.vars ∧ b.2 ∈ w.dom v) := by
    intro env1 hm
    obtain ⟨pre, hpe, hprop, hnod⟩ := hext _ hm
    have hnd1 : (keys env1).Nodup := hnod hk
    simp only at hpe
    obtain ⟨x, hx⟩ := isSome_mem (bK_sound w φ hF env rs0 h0 _ hm true rfl _ hbq.1)
    simp only at hx
    have hxp : (Key.var q, x) ∈ pre := by
      rw [hpe] at hx
      rcases List.mem_append.mp hx with hx | hx
      · exact hx
      · exact absurd (mem_keys hx) (not_mem_keys_of_lookup_none hq)
    have hpv : ∀ b ∈ pre, ∀ v, b.1 = Key.var v → v ∈ φ.vars ∧ b.2 ∈ w.dom v := by
      intro b hb v hv
      refine ⟨Expr.mem_nodes_var.mp (hv ▸ (hprop b hb).1), (hprop b hb).2 v hv⟩
    refine ⟨pre, x, hpe, hnd1, hxp, (hpv _ hxp q rfl).2, ?_, hpv⟩
    intro b hb v hv
    obtain ⟨k, y⟩ := b
    simp only at hv; subst hv
    rcases hB v (hpv _ hb v rfl).1 with hvq | hvB
    · subst hvq
      refine ⟨rfl, ?_⟩
      have h1 := lookup_of_mem_nodup hnd1 (hpe ▸ List.mem_append_left env hb)
      have h2 := lookup_of_mem_nodup hnd1 (hpe ▸ List.mem_append_left env hxp)
      rw [h1] at h2; cases h2; rfl
    · exfalso
      obtain ⟨z, hz⟩ := isSome_mem (hBenv _ hvB)
      exact nodup_append_disjoint (hpe ▸ hnd1) hb hz
  refine ⟨?_, ?_, ?_, ?_⟩
  · intro p hp hpt
    obtain ⟨pre, x, hpe, _, _, _, _, hpv⟩ := hcell p.1 (hsub p hp).2
    refine ⟨pre, hpe, ?_⟩
    intro b hb v hv
    exact ⟨List.mem_cons_of_mem _ (hpv b hb v hv).1, (hpv b hb v hv).2⟩
  · intro p hp hpt
    obtain ⟨pre, x, hpe, hnd1, _⟩ := hcell p.1 (hsub p hp).2
    exact EnvFn.of_nodup hnd1
  · -- soundness
    intro p hp hpt τ b hcov hag hs
    have hm := (hsub p hp).2
    obtain ⟨pre, x, hpe, hnd1, hxp, hxd, _, _⟩ := hcell p.1 hm
    have hτq : τ.lookup q = some x := agreesB_iff.mp hag q x (hpe ▸ List.mem_append_left env hxp)
    have hagenv : agreesB τ env = true := by
      rw [hpe, agreesB_append, Bool.and_eq_true] at hag; exact hag.2
    have hcovφ : Covers w τ φ.vars := by
      intro v hv
      by_cases hvq : v = q
      · subst hvq; exact ⟨x, hτq, by rw [(hnd v).count]; simp [hxd]⟩
      · exact hcov v (by rw [hfv]; exact List.mem_filter.mpr ⟨hv, by simp [hvq]⟩)
    simp only [satE] at hs
    obtain ⟨g, hg, hb⟩ := anyM_ok hs
    have hsat : satE w φ τ = .ok (g x) := by
      rw [← hg x hxd]
      apply satE_congr
      intro v _
      by_cases hvq : v = q
      · subst hvq; rw [lookup_cons_self, hτq]
      · rw [lookup_cons_ne hvq]
    have hc := cover w τ φ hF hcovφ hln env rs0 (g x) hlf hagenv h0 hsat
    have : true ∈ (rs0.filter fun p => agreesB τ p.1).map (·.2) :=
      List.mem_map.mpr ⟨(p.1, true), List.mem_filter.mpr ⟨hm, hag⟩, rfl⟩
    rw [hc, List.mem_singleton] at this
    rw [hb]
    exact List.any_eq_true.mpr ⟨x, hxd, this.symm⟩
  · -- completeness
    intro τ hcov hag hs
    simp only [satE] at hs
    obtain ⟨g, hg, hb⟩ := anyM_ok hs
    obtain ⟨x, hxd, hgx⟩ := List.any_eq_true.mp hb.symm
    have hsat : satE w φ ((q, x) :: τ) = .ok true := by rw [hg x hxd, hgx]
    have hcovφ : Covers w ((q, x) :: τ) φ.vars := covers_cons hnd hxd (by
      intro v hv hvq
      exact hcov v (by rw [hfv]; exact List.mem_filter.mpr ⟨hv, by simp [hvq]⟩))
    have hagx := agrees_cons_of_unbound (x := x) hag hq
    obtain ⟨a, _, hav, ham, haa⟩ :=
      cells_single (cover w _ φ hF hcovφ hln env rs0 true hlf hagx h0 hsat)
    have hne : out ≠ [] := existsFilter_nonempty w q rs0 [] out hfil
      ⟨a, ham, hav, fun _ _ => by simp [valIn]⟩
    obtain ⟨p, hp⟩ := List.exists_mem_of_ne_nil out hne
    obtain ⟨hpt, hm⟩ := hsub p hp
    obtain ⟨pre, x', hpe, hnd1, hxp, hxd', hpq, _⟩ := hcell p.1 hm
    refine ⟨p, hp, hpt, [(q, x')], ?_, ?_⟩
    · intro b hb; simp only [List.mem_singleton] at hb; subst hb; simp [Expr.qvars]
    · rw [agreesB_iff]
      intro v y hmem
      rw [hpe] at hmem
      show List.lookup v ((q, x') :: τ) = some y
      rcases List.mem_append.mp hmem with hmem | hmem
      · obtain ⟨hvq, hy⟩ := hpq _ hmem v rfl
        simp only at hy
        subst hvq; rw [lookup_cons_self, hy]
      · have hvq : v ≠ q := by
          rintro rfl; exact not_mem_keys_of_lookup_none hq (mem_keys hmem)
        rw [lookup_cons_ne hvq]
        exact agreesB_iff.mp hag v y hmem

end KrroodVerif.Eql
