import KrroodVerif.Lemmas.RuleLayout
/-!
# Shape of the layout tree of an unambiguous program = `Rule.compile` (unbounded)

`layScope_shape` : `p.unambiguous = true → (p.layScope n i).1.shape = p.toRule.compile`.
In an unambiguous program all alternatives of a scope are written before all its next_rules, so the left fold over
the scope's branches in textual order (what the surgery builds) is the fold "alternatives first, then next_rules"
of `Rule.compile`.
-/
set_option linter.unusedSimpArgs false
set_option linter.unusedVariables false
namespace KrroodVerif.Rdr

/-- `attach` on shapes -/
def attachS (t : Sel) (l : List (SK × Sel)) : Sel := l.foldl (fun t it => .node it.1 0 t it.2) t

def shapes (its : List LItem) : List (SK × Sel) := its.map fun it => (it.1, it.2.2.shape)

theorem shape_attach (its : List LItem) : ∀ t : Sel, (attach t its).shape = attachS t.shape (shapes its) := by
  induction its with
  | nil => intro t; rfl
  | cons it its ih =>
    intro t
    simp only [attach, List.foldl_cons, shapes, List.map_cons, attachS] at ih ⊢
    rw [ih]; rfl

theorem attachS_append (t : Sel) (a b : List (SK × Sel)) : attachS t (a ++ b) = attachS (attachS t a) b := by
  simp [attachS, List.foldl_append]

theorem attachS_map (k : SK) (l : List Sel) (t : Sel) :
    attachS t (l.map fun b => (k, b)) = l.foldl (fun t b => .node k 0 t b) t := by
  simp [attachS, List.foldl_map]

theorem shapes_append (a b : List LItem) : shapes (a ++ b) = shapes a ++ shapes b := by simp [shapes]

theorem shape_fill (f : Frame) (u : Sel) :
    (f.fill u).shape = if f.holeLeft then .node f.k 0 u.shape f.sib.shape else .node f.k 0 f.sib.shape u.shape := by
  unfold Frame.fill; split <;> rfl

theorem plug_snoc (fr : List Frame) (f : Frame) (u : Sel) : plug (fr ++ [f]) u = f.fill (plug fr u) := by
  induction fr generalizing u with
  | nil => rfl
  | cons g fr ih => simp [plug, ih]

/-- the generalised statement for the branches written in one block; `sn` = a next_rule of the scope was already
written -/
def KS (kids : Kids) : Prop :=
  ∀ (n : Nat) (sn : Bool), (kids.unamb sn).1 = true →
    (∀ inner, (plug (kids.lay n).1 inner).shape = (kids.pick .ref).wrap inner.shape) ∧
    shapes (kids.lay n).2.1 =
      ((kids.pick .alt).chainItemsL.map fun b => (SK.alt, b)) ++
        (((kids.pick .alt).nextItemsA ++ (kids.pick .next).nextItemsN).map fun b => (SK.next, b)) ∧
    (sn = true → kids.pick .alt = .nil) ∧
    ((kids.unamb sn).2 = false → (kids.pick .alt).nextItemsA = [] ∧ kids.pick .next = .nil) ∧
    (sn = true → (kids.unamb sn).2 = true)

def PS (p : Prog) : Prop :=
  ∀ (n i : Nat) (sn : Bool), (p.unambIn sn).1 = true →
    (p.layBranch n i).1.shape = p.toRule.body ∧
    shapes (p.layBranch n i).2.1 =
      (p.toRule.chainItems.map fun b => (SK.alt, b)) ++ (p.toRule.nextItems.map fun b => (SK.next, b)) ∧
    (sn = true → p.toRule.chainItems = []) ∧
    ((p.unambIn sn).2 = false → p.toRule.nextItems = []) ∧
    (sn = true → (p.unambIn sn).2 = true)

theorem compile_eq (r : Rule) :
    r.compile = attachS r.body ((r.chainItems.map fun b => (SK.alt, b)) ++ (r.nextItems.map fun b => (SK.next, b))) := by
  cases r with
  | mk b refs alts nexts =>
    rw [attachS_append, attachS_map, attachS_map]
    simp [Rule.compile, Rule.body, Rule.chainItems, Rule.nextItems]

theorem PS.scope {p : Prog} (h : PS p) (hu : p.unambiguousScope = true) (n i : Nat) :
    (p.layScope n i).1.shape = p.toRule.compile := by
  have hu' : (p.unambIn false).1 = true := by
    cases p with
    | mk b kids => simpa [Prog.unambiguousScope, Prog.unambIn] using hu
  obtain ⟨h1, h2, _⟩ := h n i false hu'
  simp only [Prog.layScope, shape_attach, h1, h2, compile_eq]

theorem ps_case (b : Nat) (kids : Kids) (ih : KS kids) : PS (.mk b kids) := by
  intro n i sn hu
  simp only [Prog.unambIn] at hu ⊢
  obtain ⟨h1, h2, h3, h4, h5⟩ := ih n sn hu
  refine ⟨?_, ?_, ?_, ?_, h5⟩
  · simp only [Prog.layBranch, h1, Prog.toRule, Rule.body]; rfl
  · simp only [Prog.layBranch, h2, Prog.toRule, Rule.chainItems, Rule.nextItems]
  · intro hs; simp only [Prog.toRule, Rule.chainItems, h3 hs, Rules.chainItemsL]
  · intro hf; obtain ⟨a, c⟩ := h4 hf
    simp only [Prog.toRule, Rule.nextItems, a, c, Rules.nextItemsN, List.append_nil]

theorem ks_nil : KS .nil := by
  intro n sn hu
  simp [Kids.lay, plug, Kids.pick, Rules.wrap, shapes, Rules.chainItemsL, Rules.nextItemsA, Rules.nextItemsN,
    Kids.unamb]

theorem ks_ref (p : Prog) (rest : Kids) (ihp : PS p) (ihr : KS rest) : KS (.cons .ref p rest) := by
  intro n sn hu
  simp only [Kids.unamb, Bool.and_eq_true] at hu ⊢
  obtain ⟨h1, h2, h3, h4, h5⟩ := ihr (p.layBranch (n + 2) n).2.2 sn hu.2
  have hp := ihp.scope hu.1 (n + 2) n
  simp only [Prog.layScope] at hp
  refine ⟨?_, ?_, ?_, ?_, h5⟩
  · intro inner
    simp only [Kids.lay, plug_snoc, shape_fill, ↓reduceIte, h1, hp, Kids.pick, Rules.wrap]
  · simpa [Kids.lay, Kids.pick] using h2
  · simpa [Kids.pick] using h3
  · simpa [Kids.pick] using h4

theorem ks_alt (p : Prog) (rest : Kids) (ihp : PS p) (ihr : KS rest) : KS (.cons .alt p rest) := by
  intro n sn hu
  simp only [Kids.unamb, Bool.and_eq_true, Bool.not_eq_true'] at hu ⊢
  obtain ⟨⟨hsn, hu1⟩, hu2⟩ := hu
  subst hsn
  obtain ⟨p1, p2, p3, p4, p5⟩ := ihp (n + 2) n false hu1
  obtain ⟨h1, h2, h3, h4, h5⟩ := ihr (p.layBranch (n + 2) n).2.2 (p.unambIn false).2 hu2
  refine ⟨?_, ?_, by simp, ?_, by simp⟩
  · intro inner; simpa [Kids.lay, Kids.pick] using h1 inner
  · simp only [Kids.lay, shapes, List.map_cons, List.map_append] at p2 h2 ⊢
    simp only [Kids.pick, ↓reduceIte, Rules.chainItemsL, Rules.nextItemsA, reduceCtorEq,
      List.map_append, List.map_cons, List.cons_append, p1, p2, h2]
    cases hs1 : (p.unambIn false).2
    · simp [p4 hs1]
    · simp [h3 hs1, Rules.chainItemsL, Rules.nextItemsA]
  · intro hf
    have hs1 : (p.unambIn false).2 = false := by
      cases hs1 : (p.unambIn false).2
      · rfl
      · rw [h5 hs1] at hf; exact absurd hf (by decide)
    obtain ⟨a, c⟩ := h4 hf
    simp [Kids.pick, Rules.nextItemsA, p4 hs1, a, c]

theorem ks_next (p : Prog) (rest : Kids) (ihp : PS p) (ihr : KS rest) : KS (.cons .next p rest) := by
  intro n sn hu
  simp only [Kids.unamb, Bool.and_eq_true] at hu ⊢
  obtain ⟨hu1, hu2⟩ := hu
  obtain ⟨p1, p2, p3, p4, p5⟩ := ihp (n + 2) n true hu1
  have hs1 := p5 rfl
  rw [hs1] at hu2 ⊢
  obtain ⟨h1, h2, h3, h4, h5⟩ := ihr (p.layBranch (n + 2) n).2.2 true hu2
  have ha := h3 rfl
  refine ⟨?_, ?_, ?_, ?_, fun _ => h5 rfl⟩
  · intro inner; simpa [Kids.lay, Kids.pick] using h1 inner
  · simp only [Kids.lay, shapes, List.map_cons, List.map_append] at p2 h2 ⊢
    simp only [Kids.pick, ↓reduceIte, reduceCtorEq, ha, Rules.chainItemsL, Rules.nextItemsA, Rules.nextItemsN,
      List.map_append, List.map_cons, List.cons_append, List.map_nil, List.nil_append, p1, p2, h2, p3 rfl,
      List.foldl_nil]
  · intro _; simpa [Kids.pick] using ha
  · intro hf; rw [h5 rfl] at hf; exact absurd hf (by decide)

mutual
theorem Prog.ps : ∀ p : Prog, PS p
  | .mk b kids => ps_case b kids (Kids.ks kids)
theorem Kids.ks : ∀ kids : Kids, KS kids
  | .nil => ks_nil
  | .cons .ref p rest => ks_ref p rest (Prog.ps p) (Kids.ks rest)
  | .cons .alt p rest => ks_alt p rest (Prog.ps p) (Kids.ks rest)
  | .cons .next p rest => ks_next p rest (Prog.ps p) (Kids.ks rest)
end

/-- **shape of the layout**: for an unambiguous program the laid-out scope is the well-formed tree of its rule -/
theorem layScope_shape (p : Prog) (hu : p.unambiguous = true) (n i : Nat) :
    (p.layScope n i).1.shape = p.toRule.compile :=
  (Prog.ps p).scope hu n i

end KrroodVerif.Rdr
